#!/usr/bin/env python3
"""tools/flipfixed.py <Cxx> <site-id> <commit>  -- turn a 'known:' line into 'fixed: property=Cxx <commit> id=...'"""
import sys,re
prop,sid,commit=sys.argv[1:4]
p='/verif/KNOWN_FINDINGS.txt'; out=[]; n=0
for l in open(p).read().splitlines():
    m=re.match(r'known: property=(\S+) id=(\S+)\s*(.*)',l)
    if m and m.group(1)==prop and m.group(2)==sid:
        l='fixed: property=%s %s id=%s %s'%(prop,commit,sid,m.group(3)); n+=1
    out.append(l)
open(p,'w').write('\n'.join(out)+'\n'); print('flipped',n,prop,sid)
