#!/bin/bash
# Build (incrementally) one verification tree from the repository's CURRENT
# working tree and the requested harness targets.
#   tools/build.sh <tree: main|asan|tsan> [harness targets...]
# Env: VERIF_REPO (default /repo), VERIF_BUILD (default /verif/build), VERIF_JOBS.
# Exit: 0 ok; 2 repository build failed; 3 harness build failed.
set -u
TREE=${1:?tree}; shift
HERE=$(cd "$(dirname "$0")/.." && pwd)
REPO=${VERIF_REPO:-/repo}
BROOT=${VERIF_BUILD:-$HERE/build}
B=$BROOT/$TREE
JOBS=${VERIF_JOBS:-$(nproc)}
mkdir -p "$B"
exec 9>"$B/.lock"
flock 9

LAUNCH=""
if command -v ccache >/dev/null 2>&1; then
  LAUNCH="-DCMAKE_C_COMPILER_LAUNCHER=ccache -DCMAKE_CXX_COMPILER_LAUNCHER=ccache"
  export CCACHE_BASEDIR="$REPO" CCACHE_NOHASHDIR=1 CCACHE_DIR=${CCACHE_DIR:-/root/.cache/verif-ccache}
  mkdir -p "$CCACHE_DIR" 2>/dev/null || LAUNCH=""
fi

case "$TREE" in
  main) CC=gcc; CXX=g++; OPT="-O2 -DNDEBUG"; XF="-DSIMBODY_VERIF"; LIBTGT="SimTKsimbody" ;;
  asan) CC=clang; CXX=clang++; OPT="-O1 -g -DNDEBUG"
        XF="-DSIMBODY_VERIF -fsanitize=address,undefined -fno-sanitize-recover=undefined -fno-sanitize=vptr,function -fno-omit-frame-pointer"
        LIBTGT="SimTKmath" ;;
  tsan) CC=clang; CXX=clang++; OPT="-O1 -g -DNDEBUG"; XF="-DSIMBODY_VERIF -fsanitize=thread -fno-omit-frame-pointer"; LIBTGT="SimTKsimbody" ;;
  *) echo "unknown tree $TREE"; exit 3 ;;
esac

if [ ! -f "$B/repo/build.ninja" ]; then
  cmake -G Ninja -S "$REPO" -B "$B/repo" $LAUNCH \
    -DCMAKE_C_COMPILER=$CC -DCMAKE_CXX_COMPILER=$CXX \
    -DCMAKE_BUILD_TYPE=RelWithDebInfo \
    "-DCMAKE_C_FLAGS_RELWITHDEBINFO=$OPT" "-DCMAKE_CXX_FLAGS_RELWITHDEBINFO=$OPT" \
    "-DCMAKE_C_FLAGS=$XF" "-DCMAKE_CXX_FLAGS=$XF -Wno-error" \
    "-DCMAKE_SHARED_LINKER_FLAGS=$( [ $TREE = main ] || echo "$XF" )" \
    -DBUILD_TESTING=OFF -DBUILD_EXAMPLES=OFF -DBUILD_VISUALIZER=OFF -DINSTALL_DOCS=OFF \
    > "$B/cmake-repo.log" 2>&1 || { echo "BUILD-FAILED (cmake repo, see $B/cmake-repo.log)"; tail -20 "$B/cmake-repo.log"; exit 2; }
fi
ninja -C "$B/repo" -j "$JOBS" $LIBTGT > "$B/ninja-repo.log" 2>&1 || { echo "BUILD-FAILED (repo libs, see $B/ninja-repo.log)"; tail -40 "$B/ninja-repo.log"; exit 2; }

[ $# -eq 0 ] && exit 0

# harness project; re-configure when the list of harness sources changed
LIST=$(cd "$HERE" && ls props/*.cpp fuzz/*.cpp 2>/dev/null | sort | tr '\n' ' ')
if [ ! -f "$B/h/build.ninja" ] || [ "$(cat "$B/h/.srclist" 2>/dev/null)" != "$LIST" ]; then
  cmake -G Ninja -S "$HERE/cmake" -B "$B/h" $LAUNCH \
    -DCMAKE_C_COMPILER=$CC -DCMAKE_CXX_COMPILER=$CXX -DCMAKE_BUILD_TYPE=None \
    -DVERIF_TREE=$TREE -DVERIF_REPO="$REPO" -DVERIF_REPO_BUILD="$B/repo" -DVERIF_DIR="$HERE" \
    "-DVERIF_OPT=$OPT" "-DVERIF_XF=$XF" \
    > "$B/cmake-h.log" 2>&1 || { echo "HARNESS-BUILD-FAILED (cmake, see $B/cmake-h.log)"; tail -20 "$B/cmake-h.log"; exit 3; }
  echo "$LIST" > "$B/h/.srclist"
fi
ninja -C "$B/h" -j "$JOBS" "$@" > "$B/ninja-h.log" 2>&1 || { echo "HARNESS-BUILD-FAILED (see $B/ninja-h.log)"; grep -E "error|Error" "$B/ninja-h.log" | head -30; exit 3; }
exit 0
