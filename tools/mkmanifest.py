#!/usr/bin/env python3
"""Regenerate MANIFEST.json from props/props.json (claimed checks + their
technique/level text) and properties.jsonl (everything else -> not_applicable
with the reason recorded in props/unclaimed.json or a default)."""
import json, os, subprocess
H = os.path.dirname(os.path.dirname(os.path.abspath(__file__)))
import glob
props = {os.path.basename(p)[:-5]: json.load(open(p)) for p in sorted(glob.glob(os.path.join(H, "props", "C*.json")))}
allp = [json.loads(l) for l in open(os.path.join(H, "properties.jsonl"))]
unclaimed = {}
up = os.path.join(H, "props/unclaimed.json")
if os.path.exists(up): unclaimed = json.load(open(up))
hooks_commits = []
try:
    out = subprocess.run(["git", "-C", "/repo", "log", "--format=%H %s"], stdout=subprocess.PIPE, text=True).stdout
    hooks_commits = [l.split()[0] for l in out.splitlines() if l.split(" ", 1)[1].startswith("verif-hook:")]
except Exception: pass
checks = []; na = []; served = []
# a property is claimed only when the coordinator has validated its check: listed in props/CLAIMED
claimed_ids = set(l.strip() for l in open(os.path.join(H, "props/CLAIMED")) if l.strip() and not l.startswith("#"))
for p in allp:
    i = p["id"]
    if i in props and i in claimed_ids:
        c = props[i]; served.append(i)
        checks.append({
            "property_id": i,
            "quick_cmd": "./check %s quick" % i,
            "thorough_cmd": "./check %s thorough" % i,
            "evidence_file": "/verif/evidence/%s.json" % i,
            "replay_cmd_template": "./check %s --replay {path}" % i,
            "engine": "pbt-tape",
            "level_claimed": {"category": "exploration",
                              "text": c.get("level_text", "Generated-input search (rapidcheck-driven choice tape, shrinking, replay) against an explicit oracle; holds on everything generated within the stated bounds, never a proof."),
                              "design_ref": "DESIGN.md section 5, " + i},
            "level_note": c.get("level_note", "Trusted: the harness's own reference/oracle code, the stated tolerances, rapidcheck; bounds and generator classes are in the evidence file."),
            "technique": c.get("technique", "property-based testing (rapidcheck tape generator + explicit oracle)"),
        })
    else:
        na.append({"property_id": i, "reason": unclaimed.get(i, "no sound generated-input check has been built for this property yet (design in DESIGN.md section 5, %s); not claimed rather than claimed with a check that is not validated" % i)})
m = {
 "version": 1,
 "setup_cmd": "./setup.sh",
 "hooks": {"guard": "SIMBODY_VERIF",
           "enable": "every verification tree is compiled with -DSIMBODY_VERIF (tools/build.sh: CMAKE_CXX_FLAGS); the guard is off in the repository's own build",
           "baseline_off_cmd": "cmake -G Ninja -S /repo -B /repo/_build >/dev/null && cmake --build /repo/_build -j16 >/dev/null && ctest --test-dir /repo/_build -j8 --timeout 900",
           "source_commits": hooks_commits, "add_only": True},
 "engines": [{"name": "pbt-tape", "path": "engine/pbt.h", "serves_properties": served,
              "kind_free_text": "rapidcheck generates and shrinks a segmented choice tape; each harness (props/Cxx.cpp) decodes it with a total decoder into a structured case or operation history and judges it with an explicit oracle; replay files bypass rapidcheck; the same harness can be driven by libFuzzer (asan tree) through the tape adapter; driver ./check merges shard reports into evidence"}],
 "checks": checks,
 "not_applicable": na,
 "notes": "Driver: ./check <Cxx> quick|thorough (env VERIF_SEED). Known findings: KNOWN_FINDINGS.txt. Design, bounds, tolerances, mutation results: DESIGN.md.",
}
json.dump(m, open(os.path.join(H, "MANIFEST.json"), "w"), indent=1)
print("claimed", len(checks), "not_applicable", len(na))
