#!/bin/bash
# Developer loop only (NOT used by registered checks): compile one harness
# directly, without ninja and without the build lock, against the libraries of
# an already built tree.   tools/devbuild.sh <tree> <Cxx> [extra flags]
# Output: $VERIF_BUILD/<tree>/dev/<Cxx>
set -eu
TREE=${1:?tree}; N=${2:?harness}; shift 2
HERE=$(cd "$(dirname "$0")/.." && pwd)
R=${VERIF_REPO:-/repo}; B=${VERIF_BUILD:-$HERE/build}/$TREE
case "$TREE" in
  main) CXX=g++; OPT="-O2 -DNDEBUG"; XF="-DSIMBODY_VERIF"; LIBS="-lSimTKsimbody -lSimTKmath -lSimTKcommon" ;;
  asan) CXX=clang++; OPT="-O1 -g -DNDEBUG"; XF="-DSIMBODY_VERIF -fsanitize=address,undefined -fno-sanitize-recover=undefined -fno-sanitize=vptr,function -fno-omit-frame-pointer"; LIBS="-lSimTKmath -lSimTKcommon" ;;
  tsan) CXX=clang++; OPT="-O1 -g -DNDEBUG"; XF="-DSIMBODY_VERIF -fsanitize=thread -fno-omit-frame-pointer"; LIBS="-lSimTKsimbody -lSimTKmath -lSimTKcommon" ;;
esac
SRC=$HERE/props/$N.cpp; [ -f "$SRC" ] || SRC=$HERE/fuzz/$N.cpp
mkdir -p "$B/dev"
INC="-I$HERE/engine -I$HERE/gen -I$R/Simbody/include -I$R/Simbody/Visualizer/include -I$R/SimTKmath/include -I$R/SimTKmath/Integrators/include -I$R/SimTKmath/Geometry/include -I$R/SimTKcommon/include"
for d in Scalar SmallMatrix Mechanics BigMatrix Geometry Simulation Random Polynomial; do INC="$INC -I$R/SimTKcommon/$d/include"; done
exec $CXX -std=gnu++17 $OPT $XF -Wno-deprecated-declarations $INC "$SRC" "$@" -o "${DEV_OUT:-$B/dev/$N}" -L"$B/repo" -Wl,-rpath,"$B/repo" $LIBS -lrapidcheck -lpthread
