#!/usr/bin/env python3
# seedmeta.py <seeded-dir> <breaks_property> '<json results>' [confirm text]  -- add coordinator fields to a seeded change's meta.json
import json,sys
d=sys.argv[1]; p=d+'/meta.json'; m=json.load(open(p))
m['breaks_property']=sys.argv[2]
m['coordinator_confirmation']={"how":"/root/seedtools/confirm_seed.sh in the change's own scratch worktree: full rebuild with the change, full ctest, demo with the change, change un-applied (git apply -R) + libraries rebuilt, demo without the change",
 "result": sys.argv[4] if len(sys.argv)>4 else "test suite: 113/114 pass (only TestCustomConstraints, which fails on the unchanged tree); demo exits 1 with the change and 0 without it"}
m['checks_run_against_it']={"how":"tools/runmutant.sh <scratch> seeded/%s/patch.diff <checks> (scratch copy of /repo at the repaired HEAD + scratch build; quick tier, shard 0 only, seeds 1 and 2)"%d.rstrip('/').split('/')[-1],"results":json.loads(sys.argv[3])}
json.dump(m,open(p,'w'),indent=1); print('ok',p)
