#!/bin/bash
# tools/runmutant.sh <scratchdir> <patchfile> <harness...>
# Sensitivity protocol (DESIGN 8): apply a mutant patch to a scratch copy of /repo, rebuild the scratch
# main tree, build the harnesses against it and run one quick shard of each for two seeds; then revert.
# The scratch copy <scratchdir>/repo and build <scratchdir>/build must exist (rsync of /repo; tools/build.sh).
set -u
SD=$1; P=$2; shift 2
HERE=$(cd "$(dirname "$0")/.." && pwd)
cd $SD/repo || exit 9
patch -p1 --dry-run < $P > /dev/null || { echo "MUTANT $(basename $P): patch does not apply"; exit 9; }
patch -p1 < $P > /dev/null
cd $HERE
VERIF_JOBS=${VERIF_JOBS:-6} VERIF_REPO=$SD/repo VERIF_BUILD=$SD/build tools/build.sh main > $SD/mut-build.log 2>&1 || { echo "MUTANT $(basename $P): does not build"; (cd $SD/repo && patch -R -p1 < $P >/dev/null); exit 8; }
mkdir -p $SD/vd; cp $HERE/KNOWN_FINDINGS.txt $SD/vd/
for H in "$@"; do
  VERIF_REPO=$SD/repo VERIF_BUILD=$SD/build DEV_OUT=$SD/mut_$H tools/devbuild.sh main $H > $SD/mut-h.log 2>&1 || { echo "MUTANT $(basename $P) $H: harness build failed"; continue; }
  for seed in 1 2; do rm -rf $SD/vd/replays/$H
    r=$(VERIF_DIR=$SD/vd $SD/mut_$H --tier quick --seed $seed --shard 0 --out $SD/mut.json 2>&1 | grep -E "^FAIL|^SUMMARY|CRASH" | cut -c1-260 | tr '\n' '|')
    case "$r" in *FAIL*|*CRASH*) v=CAUGHT;; *) v=MISSED;; esac
    echo "MUTANT $(basename $P) $H seed=$seed $v :: $r"
  done
done
(cd $SD/repo && patch -R -p1 < $P > /dev/null)
rm -rf $SD/vd/replays
