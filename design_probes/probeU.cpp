#include "SimTKmath.h"
#include <cstdio>
#include <cmath>
#include <vector>
using namespace SimTK;
static Real ptTriDist(const Vec3& p,const Vec3& a,const Vec3& b,const Vec3& c){ // Ericson closest point
  Vec3 ab=b-a, ac=c-a, ap=p-a; Real d1=~ab*ap,d2=~ac*ap; if(d1<=0&&d2<=0) return (p-a).norm(); Vec3 bp=p-b; Real d3=~ab*bp,d4=~ac*bp; if(d3>=0&&d4<=d3) return (p-b).norm();
  Real vc=d1*d4-d3*d2; if(vc<=0&&d1>=0&&d3<=0){ Real v=d1/(d1-d3); return (p-(a+v*ab)).norm(); } Vec3 cp=p-c; Real d5=~ab*cp,d6=~ac*cp; if(d6>=0&&d5<=d6) return (p-c).norm();
  Real vb=d5*d2-d1*d6; if(vb<=0&&d2>=0&&d6<=0){ Real w=d2/(d2-d6); return (p-(a+w*ac)).norm(); } Real va=d3*d6-d5*d4; if(va<=0&&(d4-d3)>=0&&(d5-d6)>=0){ Real w=(d4-d3)/((d4-d3)+(d5-d6)); return (p-(b+w*(c-b))).norm(); }
  Real den=1/(va+vb+vc); Real v=vb*den,w=vc*den; return (p-(a+ab*v+ac*w)).norm(); }
static bool rayTri(const Vec3& o,const Vec3& d,const Vec3& a,const Vec3& b,const Vec3& c,Real& t){ Vec3 e1=b-a,e2=c-a; Vec3 h=d%e2; Real det=~e1*h; if(std::abs(det)<1e-14) return false; Real f=1/det; Vec3 s=o-a; Real u=f*(~s*h); if(u<0||u>1) return false; Vec3 q=s%e1; Real v=f*(~d*q); if(v<0||u+v>1) return false; t=f*(~e2*q); return t>1e-12; }
int main(int argc,char**argv){
  int seed=argc>1?atoi(argv[1]):1; Random::Uniform rnd(-1,1); rnd.setSeed(seed); auto rv=[&](){return Vec3(rnd.getValue(),rnd.getValue(),rnd.getValue());};
  int nbadNear=0,nbadRay=0,nbadInside=0,nbadOBB=0,nq=0; double wNear=0;
  for(int it=0; it<40; ++it){
    PolygonalMesh pm; int kind=it%3; if(kind==0) pm=PolygonalMesh::createSphereMesh(1+0.5*rnd.getValue(),1+it%3); else if(kind==1) pm=PolygonalMesh::createBrickMesh(Vec3(0.5+0.3*rnd.getValue(),0.8,1.1),2); else pm=PolygonalMesh::createCylinderMesh(UnitVec3(rv()),0.6,1.0,2);
    // noise: transform
    pm.transformMesh(Transform(Rotation(rnd.getValue()*2,UnitVec3(rv())),0.3*rv()));
    ContactGeometry::TriangleMesh mesh(pm); int nf=mesh.getNumFaces();
    std::vector<Vec3> A(nf),B(nf),C(nf); for(int f=0;f<nf;++f){ A[f]=mesh.getVertexPosition(mesh.getFaceVertex(f,0)); B[f]=mesh.getVertexPosition(mesh.getFaceVertex(f,1)); C[f]=mesh.getVertexPosition(mesh.getFaceVertex(f,2)); }
    for(int k=0;k<300;++k){ Vec3 Q=2.0*rv(); if(k%3==0) Q*=0.3; bool inside; int face; Vec2 uv; Vec3 P=mesh.findNearestPoint(Q,inside,face,uv); Real d=(Q-P).norm(); Real best=Infinity; for(int f=0;f<nf;++f) best=std::min(best,ptTriDist(Q,A[f],B[f],C[f])); nq++;
      Real e=std::abs(d-best); if(e>wNear) wNear=e; if(e>1e-9){ if(nbadNear++<3) printf("nearest: mesh kind %d faces %d: d=%.10g brute=%.10g\n",kind,nf,d,best); }
      Vec3 P2=mesh.findPoint(face,uv); if((P2-P).norm()>1e-9) { if(nbadNear++<5) printf("findPoint(face,uv) != returned point by %.2e\n",(P2-P).norm()); }
      // inside by ray parity
      UnitVec3 dir(rv()); int cnt=0; Real tmin=Infinity; for(int f=0;f<nf;++f){ Real t; if(rayTri(Q,Vec3(dir),A[f],B[f],C[f],t)){ cnt++; tmin=std::min(tmin,t);} } bool insideRef=(cnt%2)==1; if(best>1e-6 && insideRef!=inside){ if(nbadInside++<3) printf("inside flag %d but parity says %d (dist %.3g)\n",(int)inside,(int)insideRef,best); }
      Real dist; UnitVec3 nrm; bool hit=mesh.intersectsRay(Q,dir,dist,nrm); bool hitRef=cnt>0; if(hit!=hitRef || (hit && std::abs(dist-tmin)>1e-9)){ if(nbadRay++<3) printf("ray: hit=%d ref=%d dist=%.10g ref=%.10g\n",(int)hit,(int)hitRef,hit?dist:-1.0,tmin); }
    }
    // OBB tree containment
    std::vector<ContactGeometry::TriangleMesh::OBBTreeNode> stack; stack.push_back(mesh.getOBBTreeNode());
    while(!stack.empty()){ ContactGeometry::TriangleMesh::OBBTreeNode nd=stack.back(); stack.pop_back(); const OrientedBoundingBox& bb=nd.getBounds();
      if(nd.isLeafNode()){ for(int f: nd.getTriangles()) for(int v=0;v<3;++v){ Vec3 p=mesh.getVertexPosition(mesh.getFaceVertex(f,v)); Vec3 pl=~bb.getTransform()*p; Vec3 sz=bb.getSize(); Real out=std::max(std::max(std::max(-pl[0],pl[0]-sz[0]),std::max(-pl[1],pl[1]-sz[1])),std::max(-pl[2],pl[2]-sz[2])); if(out>1e-9){ if(nbadOBB++<3) printf("OBB leaf does not contain vertex by %.2e\n",out);} } }
      else { stack.push_back(nd.getFirstChildNode()); stack.push_back(nd.getSecondChildNode()); } }
  }
  printf("seed=%d queries=%d badNearest=%d (worst %.1e) badInside=%d badRay=%d badOBB=%d\n",seed,nq,nbadNear,wNear,nbadInside,nbadRay,nbadOBB);
}
