#include "Simbody.h"
#include <cstdio>
#include <cmath>
#include <iostream>
using namespace SimTK;
int main(int argc,char**argv){
  int seed=argc>1?atoi(argv[1]):1; Random::Uniform rnd(-1,1); rnd.setSeed(seed);
  int nconv[2]={0},nfail[2]={0},nbad[2]={0}; double wRes[2]={0};
  for(int it=0; it<400; ++it){ for(int sv=0; sv<2; ++sv){
    int n=3+(int)((rnd.getValue()+1)*3), m=2+(int)((rnd.getValue()+1)*3); Matrix G(m,n); for(int i=0;i<m;++i)for(int j=0;j<n;++j) G(i,j)=rnd.getValue(); Vector Minv(n); for(int j=0;j<n;++j) Minv[j]=0.5+rnd.getValue()+1;
    Matrix A(m,m); for(int i=0;i<m;++i)for(int k=0;k<m;++k){ Real a=0; for(int j=0;j<n;++j) a+=G(i,j)*Minv[j]*G(k,j); A(i,k)=a; }
    Vector D(m); for(int i=0;i<m;++i) D[i]= rnd.getValue()>0? 0: 0.1*(rnd.getValue()+1);
    // rows: first nu unconditional (one UncondRT), rest unilateral frictionless contacts
    int nu=1+(int)((rnd.getValue()+1)*0.4999*(m-1)); Array_<ImpulseSolver::UncondRT> unc(1); for(int i=0;i<nu;++i) unc[0].m_mults.push_back(MultiplierIndex(i));
    Array_<ImpulseSolver::UniContactRT> uni; for(int i=nu;i<m;++i){ ImpulseSolver::UniContactRT rt; rt.m_Nk=MultiplierIndex(i); rt.m_sign=1; rt.m_type=ImpulseSolver::Participating; rt.m_effCOR=0; rt.m_effMu=NaN; uni.push_back(rt); }
    Array_<ImpulseSolver::UniSpeedRT> us; Array_<ImpulseSolver::BoundedRT> bd; Array_<ImpulseSolver::ConstraintLtdFrictionRT> cl; Array_<ImpulseSolver::StateLtdFrictionRT> sl;
    Array_<MultiplierIndex> part; for(int i=0;i<m;++i) part.push_back(MultiplierIndex(i)); Array_<MultiplierIndex> expanding; Vector piExpand(m,0.0); Vector verrStart(m); for(int i=0;i<m;++i) verrStart[i]=rnd.getValue(); Vector verr0=verrStart; Vector verrApplied(m,0.0); Vector pi(m,0.0);
    ImpulseSolver* solver= sv==0? (ImpulseSolver*)new PLUSImpulseSolver(1e-4) : (ImpulseSolver*)new PGSImpulseSolver(1e-4);
    bool ok=false; try{ ok=solver->solve(0,part,A,D,expanding,piExpand,verrStart,verrApplied,pi,unc,uni,us,bd,cl,sl);}catch(const std::exception&e){ printf("exc %.100s\n",e.what()); delete solver; continue; }
    if(!ok && sv==1){ nfail[sv]++; delete solver; continue; } nconv[sv]++;
    // checks: residual v = verr0 - (A+D)pi ; unconditional rows: v=0 ; unilateral: pi<=0 (never pulls), and complementarity: active -> v=0, off -> pi=0 and v sign consistent
    Vector v(m); for(int i=0;i<m;++i){ Real a=0; for(int k=0;k<m;++k) a+=A(i,k)*pi[k]; v[i]=verr0[i]-a-D[i]*pi[i]; }
    std::string why; Real tol= sv==0? 1e-8:1e-3; for(int i=0;i<nu;++i) if(std::abs(v[i])>tol) why+=" uncond row residual "+std::to_string(v[i]);
    for(int k=0;k<(int)uni.size();++k){ int i=nu+k; if(pi[i]>tol) why+=" unilateral pulls pi="+std::to_string(pi[i]); if(uni[k].m_contactCond==ImpulseSolver::UniActive && std::abs(v[i])>tol) why+=" active contact residual "+std::to_string(v[i]); if(uni[k].m_contactCond==ImpulseSolver::UniOff && std::abs(pi[i])>tol) why+=" off contact has impulse"; }
    Real e=(v-verrStart).norm(); if(e>wRes[sv]) wRes[sv]=e; if(e>tol) why+=" returned verrStart != verr0-(A+D)pi by "+std::to_string(e);
    if(!why.empty()){ if(nbad[sv]++<4){ printf("%s m=%d nu=%d:%s\n",sv==0?"PLUS":"PGS",m,nu,why.c_str()); std::cout<<"   pi="<<pi<<" v="<<v<<" verrStart(out)="<<verrStart<<" conds:"; for(auto&u:uni) std::cout<<" "<<ImpulseSolver::getUniCondName(u.m_contactCond); std::cout<<"\n"; } }
    delete solver; } }
  for(int sv=0;sv<2;++sv) printf("%s: converged=%d notconverged=%d bad=%d worst |verrOut-(verr0-(A+D)pi)|=%.1e\n",sv==0?"PLUS":"PGS",nconv[sv],nfail[sv],nbad[sv],wRes[sv]);
}
