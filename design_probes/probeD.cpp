#include "Simbody.h"
#include <cstdio>
#include <iostream>
using namespace SimTK;
int main(int argc,char**argv){
  int seed=argc>1?atoi(argv[1]):1; Random::Uniform rnd(-1,1); rnd.setSeed(seed);
  auto rv=[&](){return Vec3(rnd.getValue(),rnd.getValue(),rnd.getValue());};
  auto rx=[&](){return Transform(Rotation(rnd.getValue()*2,UnitVec3(rv())), rv());};
  double wPV=0,wVA=0,wG=0,wGt=0,wVerr=0,wAerr=0,wVW=0,wPq=0; int ncase=0; int nrej=0; int typeCount[12]={0};
  for(int it=0; it<400; ++it){
    MultibodySystem sys; SimbodyMatterSubsystem matter(sys); GeneralForceSubsystem forces(sys);
    int nb = 2 + (int)(2.5*(rnd.getValue()+1));
    std::vector<MobilizedBody> bodies; bodies.push_back(matter.Ground());
    for(int b=0;b<nb;++b){
      Body::Rigid body(MassProperties(1+rnd.getValue()*0.5,0.2*rv(),Inertia(1,1.1,1.2)+Inertia(Vec3(.2,.2,.2),1.5)));
      MobilizedBody& par = bodies[(int)((rnd.getValue()+1)*0.4999*bodies.size())];
      Transform XPF=rx(), XBM=rx(); MobilizedBody::Direction dir = rnd.getValue()>0?MobilizedBody::Forward:MobilizedBody::Reverse;
      switch((int)((rnd.getValue()+1)*0.4999*7)){
        case 0: bodies.push_back(MobilizedBody::Pin(par,XPF,body,XBM,dir)); break;
        case 1: bodies.push_back(MobilizedBody::Ball(par,XPF,body,XBM,dir)); break;
        case 2: bodies.push_back(MobilizedBody::Free(par,XPF,body,XBM,dir)); break;
        case 3: bodies.push_back(MobilizedBody::Gimbal(par,XPF,body,XBM,dir)); break;
        case 4: bodies.push_back(MobilizedBody::Planar(par,XPF,body,XBM,dir)); break;
        case 5: bodies.push_back(MobilizedBody::Cylinder(par,XPF,body,XBM,dir)); break;
        default: bodies.push_back(MobilizedBody::Universal(par,XPF,body,XBM,dir)); break; }
    }
    auto pickBody=[&]()->MobilizedBody&{ return bodies[(int)((rnd.getValue()+1)*0.4999*bodies.size())]; };
    int nc=1; int lastType=-1; int lastB1=-1,lastB2=-1;
    for(int c=0;c<nc;++c){
      MobilizedBody& b1=pickBody(); MobilizedBody* pb2=&pickBody(); int guard=0; while(pb2->getMobilizedBodyIndex()==b1.getMobilizedBodyIndex() && guard++<20) pb2=&pickBody(); MobilizedBody& b2=*pb2;
      if(b2.getMobilizedBodyIndex()==b1.getMobilizedBodyIndex()) continue;
      int t=(int)((rnd.getValue()+1)*0.4999*11); typeCount[t]++; lastType=t; lastB1=b1.getMobilizedBodyIndex(); lastB2=b2.getMobilizedBodyIndex();
      MobilizedBody& nong = b1.getMobilizedBodyIndex()==0? b2:b1; // a non-ground body for coordinate constraints
      switch(t){
        case 0: Constraint::Rod(b1,rv(),b2,rv(),0.5+0.5*(rnd.getValue()+1)); break;
        case 1: Constraint::Ball(b1,rv(),b2,rv()); break;
        case 2: Constraint::Weld(b1,rx(),b2,rx()); break;
        case 3: Constraint::PointInPlane(b1,UnitVec3(rv()),rnd.getValue(),b2,rv()); break;
        case 4: Constraint::PointOnLine(b1,UnitVec3(rv()),rv(),b2,rv()); break;
        case 5: Constraint::ConstantAngle(b1,UnitVec3(rv()),b2,UnitVec3(rv()),1.0+0.5*rnd.getValue()); break;
        case 6: Constraint::ConstantOrientation(b1,Rotation(rnd.getValue(),UnitVec3(rv())),b2,Rotation(rnd.getValue(),UnitVec3(rv()))); break;
        case 7: Constraint::NoSlip1D(b1,rv(),UnitVec3(rv()),b1,b2); break;
        case 8: Constraint::ConstantCoordinate(nong,MobilizerQIndex(0),rnd.getValue()); break;
        case 9: Constraint::ConstantSpeed(nong,MobilizerUIndex(0),rnd.getValue()); break;
        default: Constraint::ConstantAcceleration(nong,MobilizerUIndex(0),rnd.getValue()); break; }
    }
    State s; try { s=sys.realizeTopology(); } catch(const std::exception& e){ printf("topology exc: %.150s\n",e.what()); continue; }
    bool euler=rnd.getValue()>0; matter.setUseEulerAngles(s,euler); sys.realizeModel(s);
    int nq=s.getNQ(),nu=s.getNU(); for(int i=0;i<nq;++i) s.updQ()[i]=0.9*rnd.getValue(); Vector u(nu); for(int i=0;i<nu;++i) u[i]=rnd.getValue(); s.updU()=u;
    Vector udot(nu); for(int i=0;i<nu;++i) udot[i]=rnd.getValue();
    if(getenv("PROJECT")){ try{ sys.project(s,1e-10);}catch(const std::exception&){ nrej++; continue;} u=s.getU(); }
    sys.realize(s,Stage::Velocity);
    int mp=0,mv=0,ma=0; for(ConstraintIndex cx(0); cx<matter.getNumConstraints(); ++cx){int a,b,c; matter.getConstraint(cx).getNumConstraintEquationsInUse(s,a,b,c); mp+=a;mv+=b;ma+=c;}
    int m=mp+mv+ma; if(m==0) continue;
    int nquat=matter.getNumQuaternionsInUse(s);
    Vector qerr=s.getQErr(), uerr=s.getUErr(); // qerr: mp + nquat ; uerr: mp+mv
    if(qerr.size()!=mp+nquat||uerr.size()!=mp+mv){ printf("size mismatch qerr=%d mp=%d nquat=%d uerr=%d mv=%d\n",qerr.size(),mp,nquat,uerr.size(),mv); continue; }
    Vector qdot=s.getQDot(), qdd; matter.calcQDotDot(s,udot,qdd);
    auto errAt=[&](Real h, Vector& pe, Vector& ve){ State t=s; t.updQ()=s.getQ()+h*qdot+0.5*h*h*qdd; t.updU()=u+h*udot; sys.realize(t,Stage::Velocity); pe=t.getQErr(); ve=t.getUErr(); };
    Real h=1e-3; Vector p1,p2,p3,p4,v1,v2,v3,v4; errAt(h,p1,v1); errAt(-h,p2,v2); errAt(2*h,p3,v3); errAt(-2*h,p4,v4);
    Vector dp=(8.0*(p1-p2)-(p3-p4))/(12*h), dv=(8.0*(v1-v2)-(v3-v4))/(12*h);
    // (1) pverr = d/dt perr
    if(mp){ Real e=(dp(0,mp)-uerr(0,mp)).norm()/(uerr(0,mp).norm()+1); if(e>wPV) wPV=e; if(e>1e-6) printf("it=%d PV mismatch %.2e type=%d b1=%d b2=%d euler=%d\n",it,e,lastType,lastB1,lastB2,(int)euler); }
    // (2) aerr = d/dt verr (first mp+mv rows of udoterr)
    Vector aerr; matter.calcConstraintAccelerationErrors(s,udot,aerr);
    if(mp+mv){ Real e=(dv-aerr(0,mp+mv)).norm()/(aerr(0,mp+mv).norm()+1); if(e>wVA) wVA=e; if(e>1e-6) printf("it=%d VA mismatch %.2e (mp=%d mv=%d) type=%d b1=%d b2=%d euler=%d\n",it,e,mp,mv,lastType,lastB1,lastB2,(int)euler); }
    // (3) G routes
    Matrix G,Gt; matter.calcG(s,G); matter.calcGTranspose(s,Gt); { Real e=(G-~Gt).norm()/(G.norm()+1e-30); if(e>wGt) wGt=e; }
    Matrix G2(m,nu); for(int j=0;j<nu;++j){ Vector ej(nu,0.0); ej[j]=1; Vector col; matter.multiplyByG(s,ej,col); G2(j)=col; } { Real e=(G-G2).norm()/(G.norm()+1e-30); if(e>wG) wG=e; }
    // (4) G u - bias = verr ; G udot - b = aerr
    Vector Gu; matter.multiplyByG(s,u,Gu); Vector GuRaw=G*u; // multiplyByG(u) documented as G*u
    { Vector biasV; matter.calcBiasForMultiplyByG(s,biasV); // pverr(u=0)
      Vector verr0 = G*u + biasV(0,m); // = pverr for first mp+mv rows?
      if(mp+mv){ Real e=(verr0(0,mp+mv)-uerr).norm()/(uerr.norm()+1); if(e>wVerr) wVerr=e; } }
    { Vector b; matter.calcBiasForAccelerationConstraints(s,b); Vector a2=G*udot + b; Real e=(a2-aerr).norm()/(aerr.norm()+1); if(e>wAerr) wAerr=e; if(e>1e-9){ printf("it=%d AERRBIAS mismatch %.2e type=%d b1=%d b2=%d mp=%d mv=%d ma=%d\n",it,e,lastType,lastB1,lastB2,mp,mv,ma); std::cout<<"   G*udot="<<G*udot<<" bias="<<b<<" aerr="<<aerr<<std::endl; } }
    // (5) virtual work: Gt*lambda == J^T bodyF + mobF
    Vector lam(m); for(int i=0;i<m;++i) lam[i]=rnd.getValue(); Vector_<SpatialVec> bf; Vector mf; matter.calcConstraintForcesFromMultipliers(s,lam,bf,mf);
    Vector JtF; matter.multiplyBySystemJacobianTranspose(s,bf,JtF); Vector Gtl; matter.multiplyByGTranspose(s,lam,Gtl);
    { Real e=(Gtl-(JtF+mf)).norm()/(Gtl.norm()+1e-30); if(e>wVW) wVW=e; if(e>1e-9) printf("it=%d virtual work mismatch %.2e\n",it,e); }
    ncase++;
  }
  printf("rejected=%d ",nrej); printf("seed=%d cases=%d worst: d(perr)/dt-pverr=%.1e d(verr)/dt-aerr=%.1e G-mulG=%.1e G-Gt'=%.1e Gu+bias-verr=%.1e Gudot+b-aerr=%.1e virtualwork=%.1e | types:",seed,ncase,wPV,wVA,wG,wGt,wVerr,wAerr,wVW); for(int i=0;i<11;++i) printf(" %d",typeCount[i]); printf("\n");
}
