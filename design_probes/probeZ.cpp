#include "SimTKmath.h"
#include <cstdio>
#include <cmath>
#include <vector>
using namespace SimTK; typedef ContactGeometry::GeodesicKnotPoint KP;
int main(int argc,char**argv){
  int seed=argc>1?atoi(argv[1]):1; Random::Uniform rnd(-1,1); rnd.setSeed(seed); auto rv=[&](){return Vec3(rnd.getValue(),rnd.getValue(),rnd.getValue());};
  const char* nm[]={"sphere","cylinder","ellipsoid","torus"}; double wSurfA[4]={0},wSurfI[4]={0},wTan[4]={0},wAI[4]={0},wRef[4]={0}; int nA[4]={0},nI[4]={0},nexc[4]={0};
  for(int it=0; it<400; ++it){ int sh=it%4; ContactGeometry g; Real r=0.5+0.5*(rnd.getValue()+1); Vec3 rad(r,r*(1+0.3*rnd.getValue()),r*(1+0.3*rnd.getValue())); Real R=1.5*r+1, tr=0.6*r;
    Vec3 P; switch(sh){case 0: g=ContactGeometry::Sphere(r); P=r*Vec3(UnitVec3(rv())); break; case 1: g=ContactGeometry::Cylinder(r); { Real a=Pi*rnd.getValue(); P=Vec3(r*cos(a),r*sin(a),rnd.getValue()); } break;
      case 2: g=ContactGeometry::Ellipsoid(rad); { UnitVec3 d(rv()); P=Vec3(rad[0]*d[0],rad[1]*d[1],rad[2]*d[2]); } break; default: g=ContactGeometry::Torus(R,tr); { Real a=Pi*rnd.getValue(), b=Pi*rnd.getValue(); P=Vec3((R+tr*cos(b))*cos(a),(R+tr*cos(b))*sin(a),tr*sin(b)); } }
    UnitVec3 n=g.calcSurfaceUnitNormal(P); Vec3 t0=rv(); t0-= (~t0*Vec3(n))*Vec3(n); if(t0.norm()<1e-3) continue; UnitVec3 t(t0); Real L=0.2+2*(rnd.getValue()+1);
    std::vector<KP> ka,ki;
    if(g.isAnalyticFormAvailable()){ try{ g.shootGeodesicInDirectionAnalytically(P,Vec3(t),L,12,[&](const KP& k){ka.push_back(k);}); nA[sh]++; }catch(const std::exception&e){ if(nexc[sh]++<1) printf("%s analytic exc: %.100s\n",nm[sh],e.what()); } }
    try{ g.shootGeodesicInDirectionImplicitly(P,Vec3(t),L,1e-3,1e-8,1e-10,1000,[&](const KP& k){ki.push_back(k);}); nI[sh]++; }catch(const std::exception&e){ if(nexc[sh]++<2) printf("%s implicit exc: %.100s\n",nm[sh],e.what()); }
    for(auto&k:ka){ Real f=std::abs(g.calcSurfaceValue(k.point)); if(f>wSurfA[sh]) wSurfA[sh]=f; Real tn=std::abs(~Vec3(k.tangent)*Vec3(g.calcSurfaceUnitNormal(k.point))); if(tn>wTan[sh]) wTan[sh]=tn; }
    for(auto&k:ki){ Real f=std::abs(g.calcSurfaceValue(k.point)); if(f>wSurfI[sh]) wSurfI[sh]=f; Real tn=std::abs(~Vec3(k.tangent)*Vec3(g.calcSurfaceUnitNormal(k.point))); if(tn>wTan[sh]) wTan[sh]=tn; }
    if(!ka.empty()&&!ki.empty()){ Real e=(ka.back().point-ki.back().point).norm()+std::abs(ka.back().arcLength-ki.back().arcLength); if(e>wAI[sh]) wAI[sh]=e; }
    // closed forms
    const std::vector<KP>& kk= !ka.empty()?ka:ki; if(!kk.empty()){ Vec3 end=kk.back().point; if(sh==0){ Real ang=L/r; Vec3 ref=std::cos(ang)*P + std::sin(ang)*r*Vec3(t); Real e=(end-ref).norm(); if(e>wRef[sh]) wRef[sh]=e; }
      if(sh==1){ Real a0=std::atan2(P[1],P[0]); Vec3 ea(-std::sin(a0),std::cos(a0),0); Real ca=~Vec3(t)*ea, cz=t[2]; Real a1=a0+ca*L/r; Vec3 ref(r*cos(a1),r*sin(a1),P[2]+cz*L); Real e=(end-ref).norm(); if(e>wRef[sh]) wRef[sh]=e; } }
  }
  for(int s=0;s<4;++s) printf("%-9s analytic runs=%d implicit runs=%d exceptions=%d worst: |f| analytic=%.1e implicit=%.1e tangent.normal=%.1e analytic-vs-implicit end=%.1e closed-form end=%.1e\n",nm[s],nA[s],nI[s],nexc[s],wSurfA[s],wSurfI[s],wTan[s],wAI[s],wRef[s]);
}
