#include "SimTKcommon.h"
#include <cstdio>
#include <complex>
#include <cmath>
using namespace SimTK; typedef std::complex<double> C; typedef std::complex<long double> CL;
int main(int argc,char**argv){
  int seed=argc>1?atoi(argv[1]):1; Random::Uniform rnd(-1,1); rnd.setSeed(seed);
  int nbad=0,ncase=0,nexc=0; double worst=0; static int hist[6][12];
  for(int it=0; it<20000; ++it){
    int deg=2+(int)((rnd.getValue()+1)*0.4999*12); bool cplx=rnd.getValue()>0; int mode=(int)((rnd.getValue()+1)*1.4999); // 0 raw coeffs,1 from roots simple,2 from roots with multiples/clusters
    std::vector<CL> a(deg+1);
    if(mode==0){ for(int i=0;i<=deg;++i){ double mag=std::pow(10.0,3*rnd.getValue()); a[i]=CL(mag*rnd.getValue(), cplx?mag*rnd.getValue():0);} if(std::abs(a[0])==0) a[0]=1; }
    else { std::vector<CL> r; while((int)r.size()<deg){ double sc=std::pow(10.0,2*rnd.getValue()); CL z(sc*rnd.getValue(), sc*rnd.getValue()); if(!cplx){ if(rnd.getValue()>0 && (int)r.size()+2<=deg){ r.push_back(z); r.push_back(std::conj(z)); continue;} z=CL(z.real(),0);} r.push_back(z); if(mode==2 && rnd.getValue()>0.3 && (int)r.size()<deg){ CL z2=z*(1.0L+ (rnd.getValue()>0?0.0L:1e-6L)); if(!cplx) z2=CL(z2.real(),0); if(cplx|| z.imag()==0) r.push_back(z2);} }
      r.resize(deg); std::vector<CL> p(1,CL(1,0)); for(auto z:r){ std::vector<CL> q(p.size()+1,CL(0,0)); for(size_t i=0;i<p.size();++i){ q[i]+=p[i]; q[i+1]-=p[i]*z; } p=q; } a=p; if(!cplx) for(auto&x:a) x=CL(x.real(),0); }
    Vector_<C> roots(deg); bool threw=false;
    try{ if(cplx){ Vector_<C> co(deg+1); for(int i=0;i<=deg;++i) co[i]=C((double)a[i].real(),(double)a[i].imag()); PolynomialRootFinder::findRoots(co,roots); for(int i=0;i<=deg;++i) a[i]=CL(co[i].real(),co[i].imag()); }
         else { Vector co(deg+1); for(int i=0;i<=deg;++i) co[i]=(double)a[i].real(); PolynomialRootFinder::findRoots(co,roots); for(int i=0;i<=deg;++i) a[i]=CL(co[i],0);} }
    catch(const std::exception& e){ threw=true; nexc++; if(nexc<=3) printf("exc deg=%d cplx=%d mode=%d: %.100s\n",deg,(int)cplx,mode,e.what()); }
    if(threw) continue; ncase++;
    if(roots.size()!=deg){ nbad++; printf("wrong root count\n"); continue; }
    double worstHere=0; for(int k=0;k<deg;++k){ CL z(roots[k].real(),roots[k].imag()); CL p=0; long double bound=0; long double az=std::abs(z); for(int i=0;i<=deg;++i){ p=p*z+a[i]; bound=bound*az+std::abs(a[i]); } long double rel=std::abs(p)/(bound*2.2e-16L*deg+1e-300L); if((double)rel>worstHere) worstHere=(double)rel; }
    if(worstHere>worst) worst=worstHere; { int b=(int)std::floor(std::log10(worstHere+1e-30)); if(b<0)b=0; if(b>11)b=11; hist[mode*2+(cplx?1:0)][b]++; }
    if(worstHere>1e4){ nbad++; if(nbad<=6) printf("deg=%d cplx=%d mode=%d backward error ratio %.2e\n",deg,(int)cplx,mode,worstHere); }
  }
  for(int m=0;m<6;++m){ printf("mode=%d cplx=%d log10(ratio) hist:",m/2,m%2); for(int b=0;b<12;++b) printf(" %d",hist[m][b]); printf("\n"); } printf("seed=%d cases=%d exceptions=%d bad=%d worst backward-error ratio=%.2e\n",seed,ncase,nexc,nbad,worst);
}
