#include "Simbody.h"
#include <cstdio>
#include <cmath>
#include <vector>
#include <algorithm>
#include <memory>
using namespace SimTK;
struct Log { std::vector<std::pair<double,int>> calls; };
static Log g_log;
class TimeWitness : public TriggeredEventHandler { public: double c; int id; bool rising,falling; double w;
  TimeWitness(int id,double c,double w,bool r,bool f):TriggeredEventHandler(Stage::Time),c(c),id(id),rising(r),falling(f),w(w){ getTriggerInfo().setTriggerOnRisingSignTransition(r); getTriggerInfo().setTriggerOnFallingSignTransition(f);} 
  Real getValue(const State& s) const override { return w>0? std::sin(w*(s.getTime()-c)) : (s.getTime()-c); }
  void handleEvent(State& s, Real acc, bool& term) const override { g_log.calls.push_back({s.getTime(),id}); } };
class Sched : public ScheduledEventHandler { public: std::vector<double> times; int id; Sched(int id,std::vector<double> t):times(t),id(id){ std::sort(times.begin(),times.end()); }
  Real getNextEventTime(const State& s, bool includeCurrent) const override { for(double t:times){ if(t>s.getTime() || (includeCurrent && t==s.getTime())) return t; } return Infinity; }
  void handleEvent(State& s, Real acc, bool& term) const override { g_log.calls.push_back({s.getTime(),id}); } };
int main(int argc,char**argv){
  int seed=argc>1?atoi(argv[1]):1; Random::Uniform rnd(0,1); rnd.setSeed(seed); int nbad=0,ncase=0; long nEvents=0;
  for(int it=0; it<150; ++it){
    MultibodySystem sys; SimbodyMatterSubsystem matter(sys); GeneralForceSubsystem forces(sys);
    Body::Rigid body(MassProperties(1,Vec3(0),Inertia(1)));
    MobilizedBody::Slider sl(matter.Ground(),Transform(),body,Transform()); Force::MobilityLinearSpring(forces,sl,MobilizerQIndex(0),0.05,0.0);
    double T=1+2*rnd.getValue(); int nw=1+(int)(rnd.getValue()*3);
    struct W{double c,w;bool r,f;}; std::vector<W> ws;
    for(int i=0;i<nw;++i){ W w; w.c=0.05+rnd.getValue()*T*0.9; w.w= rnd.getValue()<0.5? 0 : 3+10*rnd.getValue(); int m=(int)(rnd.getValue()*3); w.r=(m!=1); w.f=(m!=0); ws.push_back(w); sys.addEventHandler(new TimeWitness(i,w.c,w.w,w.r,w.f)); }
    std::vector<double> st; int ns=(int)(rnd.getValue()*4); for(int i=0;i<ns;++i) st.push_back(0.01+rnd.getValue()*T*0.95); if(ns) sys.addEventHandler(new Sched(100,st));
    State s=sys.realizeTopology(); sl.setQ(s,0.3);
    int which=(int)(rnd.getValue()*5); std::unique_ptr<Integrator> integ; switch(which){case 0:integ.reset(new RungeKuttaMersonIntegrator(sys));break;case 1:integ.reset(new RungeKutta3Integrator(sys));break;case 2:integ.reset(new VerletIntegrator(sys));break;case 3:integ.reset(new RungeKuttaFeldbergIntegrator(sys));break;default:integ.reset(new ExplicitEulerIntegrator(sys));}
    double acc=std::pow(10,-2-4*rnd.getValue()); integ->setAccuracy(acc);
    g_log.calls.clear(); TimeStepper ts(sys,*integ); ts.initialize(s); try{ ts.stepTo(T);}catch(const std::exception&e){ printf("it=%d exc %.100s\n",it,e.what()); continue; }
    // expected crossings
    std::vector<std::pair<double,int>> expct;
    for(int i=0;i<nw;++i){ const W& w=ws[i]; if(w.w==0){ if(w.r && w.c>0 && w.c<=T) expct.push_back({w.c,i}); } else { // sin(w(t-c)) zeros at t=c+k*pi/w ; rising when k even
        for(int k=-200;k<200;++k){ double t=w.c+k*Pi/w.w; if(t<=1e-9||t>T) continue; bool rising=(k%2==0); if((rising&&w.r)||(!rising&&w.f)) expct.push_back({t,i}); } } }
    for(double t:st) if(t<=T) expct.push_back({t,100});
    std::sort(expct.begin(),expct.end());
    // compare: every logged call must match an expected crossing within tolerance window; counts equal per id
    double win = std::max(acc*0.1*0.1, 1e-12)*1.0001; // accuracy*timescale(0.1)*localization window(0.1 default?)
    bool bad=false; std::string why;
    std::vector<std::pair<double,int>> got=g_log.calls; // check time order
    for(size_t i=1;i<got.size();++i) if(got[i].first<got[i-1].first){bad=true; why="handler calls out of time order";}
    for(int id: {0,1,2,100}){ std::vector<double> e,g; for(auto&x:expct) if(x.second==id) e.push_back(x.first); for(auto&x:got) if(x.second==id) g.push_back(x.first);
      if(e.size()!=g.size()){ bad=true; why="count mismatch id="+std::to_string(id)+" expected "+std::to_string(e.size())+" got "+std::to_string(g.size()); break; }
      for(size_t i=0;i<e.size();++i){ double d=g[i]-e[i]; if(id==100){ if(d!=0){bad=true; why="scheduled not exact d="+std::to_string(d);} } else if(!(d>=-1e-12 && d<=win*50+1e-9)){ bad=true; why="triggered time off by "+std::to_string(d)+" win="+std::to_string(win)+" id="+std::to_string(id); } } }
    nEvents+=got.size(); ncase++;
    if(bad){ nbad++; printf("it=%d integ=%s acc=%.1e T=%.3f: %s\n",it,integ->getMethodName(),acc,T,why.c_str()); if(nbad<4){ printf("   expected:"); for(auto&x:expct) printf(" (%.6f,%d)",x.first,x.second); printf("\n   got:"); for(auto&x:got) printf(" (%.6f,%d)",x.first,x.second); printf("\n"); } }
  }
  printf("seed=%d cases=%d events=%ld bad=%d\n",seed,ncase,nEvents,nbad);
}
