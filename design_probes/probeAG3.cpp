#include "Simbody.h"
#include <iostream>
using namespace SimTK;
int main(){
  for(int variant=0; variant<6; ++variant){
  MultibodySystem sys; SimbodyMatterSubsystem matter(sys);
  Body::Rigid body(MassProperties(1,Vec3(0),Inertia(1)));
  MobilizedBody::Direction dir = (variant%2)? MobilizedBody::Reverse: MobilizedBody::Forward;
  MobilizedBody mb; if(variant/2==0) mb=MobilizedBody::Ball(matter.Ground(),Transform(),body,Transform(),dir); else if(variant/2==1) mb=MobilizedBody::LineOrientation(matter.Ground(),Transform(),body,Transform(),dir); else mb=MobilizedBody::Free(matter.Ground(),Transform(),body,Transform(),dir);
  State s=sys.realizeTopology(); sys.realizeModel(s); int nq=s.getNQ(),nu=s.getNU(); for(int i=0;i<nq;++i) s.updQ()[i]=0.3+0.2*i; Vector u(nu); for(int i=0;i<nu;++i) u[i]=0.5-0.3*i; s.updU()=u; sys.realize(s,Stage::Velocity);
  Vector qd,u2; matter.multiplyByN(s,false,u,qd); matter.multiplyByNInv(s,false,qd,u2);
  std::cout<<"variant "<<variant<<" nq="<<nq<<" nu="<<nu<<"\n  u="<<u<<"\n  N*u="<<qd<<"\n  state qdot="<<s.getQDot()<<"\n  NInv*N*u="<<u2<<"\n";
  }
}
