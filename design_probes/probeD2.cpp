#include "Simbody.h"
#include <cstdio>
#include <iostream>
using namespace SimTK;
int main(){
  for(int variant=0; variant<4; ++variant){
  MultibodySystem sys; SimbodyMatterSubsystem matter(sys); GeneralForceSubsystem forces(sys);
  Body::Rigid body(MassProperties(1,Vec3(.1,.2,.3),Inertia(1,1.1,1.2)+Inertia(Vec3(.2,.2,.2),1.5)));
  MobilizedBody b1 = (variant&1)? (MobilizedBody)MobilizedBody::Ball(matter.Ground(),Transform(Vec3(.1,.2,.3)),body,Transform(Vec3(.3,.2,.1)))
                                : (MobilizedBody)MobilizedBody::Gimbal(matter.Ground(),Transform(Vec3(.1,.2,.3)),body,Transform(Vec3(.3,.2,.1)));
  MobilizedBody::Pin b2(b1,Transform(Rotation(0.3,XAxis),Vec3(.5,0,0)),body,Transform(Vec3(0,.4,0)));
  if(variant&2) Constraint::Rod(matter.Ground(),Vec3(1,0,0),b2,Vec3(.1,.1,.1),0.8); else Constraint::Ball(matter.Ground(),Vec3(1,0,0),b2,Vec3(.1,.1,.1));
  State s=sys.realizeTopology(); sys.realizeModel(s);
  int nq=s.getNQ(),nu=s.getNU(); Vector q(nq),u(nu),udot(nu); for(int i=0;i<nq;++i) q[i]=0.3+0.1*i; for(int i=0;i<nu;++i){u[i]=0.5-0.2*i; udot[i]=0.1*i-0.3;} s.updQ()=q; s.updU()=u;
  sys.realize(s,Stage::Velocity);
  Vector qdot=s.getQDot(), qdd; matter.calcQDotDot(s,udot,qdd);
  auto errAt=[&](Real h, Vector& pe, Vector& ve){ State t=s; t.updQ()=s.getQ()+h*qdot+0.5*h*h*qdd; t.updU()=u+h*udot; sys.realize(t,Stage::Velocity); pe=t.getQErr(); ve=t.getUErr(); };
  Real h=1e-3; Vector p1,p2,p3,p4,v1,v2,v3,v4; errAt(h,p1,v1); errAt(-h,p2,v2); errAt(2*h,p3,v3); errAt(-2*h,p4,v4);
  Vector dp=(8.0*(p1-p2)-(p3-p4))/(12*h), dv=(8.0*(v1-v2)-(v3-v4))/(12*h);
  Vector aerr; matter.calcConstraintAccelerationErrors(s,udot,aerr);
  std::cout<<"variant "<<variant<<" nq="<<nq<<" qerr="<<s.getQErr()<<"\n  d/dt qerr="<<dp<<"\n  uerr="<<s.getUErr()<<"\n  d/dt uerr="<<dv<<"\n  aerr="<<aerr<<"\n";
  }
}
