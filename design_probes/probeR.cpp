#include "Simbody.h"
#include <cstdio>
#include <cmath>
#include <iostream>
using namespace SimTK;
int main(int argc,char**argv){
  int seed=argc>1?atoi(argv[1]):1; Random::Uniform rnd(-1,1); rnd.setSeed(seed);
  auto rv=[&](){return Vec3(rnd.getValue(),rnd.getValue(),rnd.getValue());};
  auto rx=[&](){return Transform(Rotation(rnd.getValue()*2,UnitVec3(rv())), rv());};
  const char* nm[]={"TwoPointLinearSpring","TwoPointLinearDamper","TwoPointConstantForce","LinearBushing(c=0)","LinearBushing(c>0)","MobilityLinearSpring","Gravity","HuntCrossley(sphere/halfspace)"};
  double w3[8]={0},wP[8]={0},wD[8]={0},wHC=0; int cnt[8]={0}; int nHCpen=0;
  for(int it=0; it<1600; ++it){ int el=it%8;
    MultibodySystem sys; SimbodyMatterSubsystem matter(sys); GeneralForceSubsystem forces(sys); GeneralContactSubsystem contacts(sys);
    Body::Rigid body(MassProperties(1.3,Vec3(.1,.2,.1),Inertia(1,1.1,1.2)+Inertia(Vec3(.2,.2,.2),1.3)));
    MobilizedBody::Free b1(matter.Ground(),rx(),body,rx()); MobilizedBody::Ball b2(b1,rx(),body,rx()); MobilizedBody::Free b3(matter.Ground(),Transform(),body,Transform());
    MobilizedBody* bs[4]={&matter.Ground(),&b1,&b2,&b3}; int i1=(int)((rnd.getValue()+1)*1.999), i2=(i1+1+(int)((rnd.getValue()+1)*1.4999))%4; MobilizedBody& A=*bs[i1]; MobilizedBody& B=*bs[i2];
    Force f; Real k=1+2*(rnd.getValue()+1), c=0.5+rnd.getValue()+1; Real R=0.5+0.3*rnd.getValue(); Real Ehs=1e4*(1+rnd.getValue()*0.5), Esp=2e4*(1+rnd.getValue()*0.5), chs=0.1+0.05*rnd.getValue(), csp=0.2+0.05*rnd.getValue();
    switch(el){case 0: f=Force::TwoPointLinearSpring(forces,A,rv(),B,rv(),k,0.7); break; case 1: f=Force::TwoPointLinearDamper(forces,A,rv(),B,rv(),c); break; case 2: f=Force::TwoPointConstantForce(forces,A,rv(),B,rv(),k); break;
      case 3: f=Force::LinearBushing(forces,A,rx(),B,rx(),Vec6(k,k+1,k+2,k+3,k+4,k+5),Vec6(0)); break; case 4: f=Force::LinearBushing(forces,A,rx(),B,rx(),Vec6(k,k+1,k+2,k+3,k+4,k+5),Vec6(c,c,c,c+1,c+1,c+1)); break;
      case 5: f=Force::MobilityLinearSpring(forces,b2,MobilizerQIndex(1),k,0.2); break; case 6: f=Force::Gravity(forces,matter,UnitVec3(rv()),9.8*(1+0.2*rnd.getValue())); break;
      default: { ContactSetIndex cs=contacts.createContactSet(); contacts.addBody(cs,matter.Ground(),ContactGeometry::HalfSpace(),Transform(Rotation(-Pi/2,ZAxis),Vec3(0))); // halfspace x>0 rotated so that it occupies y<0 ... 
                 contacts.addBody(cs,b3,ContactGeometry::Sphere(R),Transform()); HuntCrossleyForce hc(forces,contacts,cs); hc.setBodyParameters(ContactSurfaceIndex(0),Ehs,chs,0,0,0); hc.setBodyParameters(ContactSurfaceIndex(1),Esp,csp,0,0,0); f=hc; } }
    State s=sys.realizeTopology(); bool euler=rnd.getValue()>0; matter.setUseEulerAngles(s,euler); sys.realizeModel(s);
    int nq=s.getNQ(),nu=s.getNU(); for(int i=0;i<nq;++i) s.updQ()[i]=0.7*rnd.getValue(); for(int i=0;i<nu;++i) s.updU()[i]=rnd.getValue();
    Real depthWanted=0; if(el==7){ // place sphere centre at height y = R - depth
      depthWanted=0.05*(rnd.getValue()+0.6); Vector q(s.getNQ(b3.getMobilizedBodyIndex()==3? matter.getMySubsystemIndex():matter.getMySubsystemIndex())); b3.setQToFitTranslation(s,Vec3(rnd.getValue(),R-depthWanted,rnd.getValue())); }
    sys.realize(s,Stage::Dynamics);
    Vector_<SpatialVec> bf; Vector_<Vec3> pf; Vector mf; f.calcForceContribution(s,bf,pf,mf);
    // third law
    if(el<=4||el==7){ Vec3 F(0),M(0); for(MobilizedBodyIndex b(0); b<matter.getNumBodies(); ++b){ Vec3 p=matter.getMobilizedBody(b).getBodyOriginLocation(s); F+=bf[b][1]; M+=bf[b][0]+p%bf[b][1]; } Real sc=1; for(int b=0;b<bf.size();++b) sc+=bf[b][0].norm()+bf[b][1].norm(); Real e=(F.norm()+M.norm())/sc; if(e>w3[el]) w3[el]=e; if(e>1e-10&&cnt[el]++<3) printf("%s third-law residual %.2e (bodies %d,%d)\n",nm[el],e,i1,i2); }
    // power vs dPE/dt
    Real P=~mf*s.getU(); for(MobilizedBodyIndex b(0); b<matter.getNumBodies(); ++b){ SpatialVec V=matter.getMobilizedBody(b).getBodyVelocity(s); P+=~bf[b][0]*V[0]+~bf[b][1]*V[1]; }
    Vector qdot=s.getQDot(); auto peAt=[&](Real h){ State t=s; t.updQ()=s.getQ()+h*qdot; sys.realize(t,Stage::Dynamics); return f.calcPotentialEnergyContribution(t); };
    Real h=1e-4; Real dPE=(8*(peAt(h)-peAt(-h))-(peAt(2*h)-peAt(-2*h)))/(12*h); Real D=P+dPE; Real scale=std::abs(P)+std::abs(dPE)+1;
    bool conservative=(el==0||el==3||el==5||el==6); bool dissipative=(el==1||el==4||el==7);
    if(conservative){ Real e=std::abs(D)/scale; if(e>wP[el]) wP[el]=e; if(e>1e-7&&cnt[el]++<3) printf("%s P=%.6g dPE/dt=%.6g mismatch\n",nm[el],P,dPE); }
    if(dissipative){ if(D/scale>wD[el]) wD[el]=D/scale; if(D/scale>1e-7&&cnt[el]++<3) printf("%s dissipation positive: P+dPE/dt=%.3g (P=%.4g dPE=%.4g)\n",nm[el],D,P,dPE); }
    if(el==7){ // normal force formula
      Vec3 pc=b3.getBodyOriginLocation(s); Real x=R-pc[1]; Vec3 vc=b3.getBodyOriginVelocity(s); Real xdot=-vc[1]; if(x>0){ nHCpen++; Real s1=std::pow(Esp,2.0/3)/(std::pow(Ehs,2.0/3)+std::pow(Esp,2.0/3)); Real E=std::pow(s1*std::pow(Ehs,2.0/3),1.5); Real cc=chs*s1+csp*(1-s1); Real kk=(4.0/3)*std::sqrt(R)*E; Real fn=kk*std::pow(x,1.5)*(1+1.5*cc*xdot); if(fn<0) fn=0; Real got=bf[3][1][1]; Real e=std::abs(got-fn)/(std::abs(fn)+1e-9); if(e>wHC) wHC=e; if(e>1e-9&&cnt[el]++<6) printf("HuntCrossley fn got %.8g expected %.8g (x=%g xdot=%g)\n",got,fn,x,xdot);
          Real pe=f.calcPotentialEnergyContribution(s); Real peRef=0.4*kk*std::pow(x,2.5); if(std::abs(pe-peRef)>1e-9*(peRef+1e-9)&&cnt[el]++<8) printf("HuntCrossley PE got %.8g expected %.8g\n",pe,peRef); } }
  }
  for(int e=0;e<8;++e) printf("%-32s third-law %.1e  |P+dPE/dt| (conservative) %.1e  max(P+dPE/dt) (dissipative) %.1e\n",nm[e],w3[e],wP[e],wD[e]); printf("HuntCrossley penetrating cases %d worst formula rel err %.1e\n",nHCpen,wHC);
}
