#include "Simbody.h"
#include <cstdio>
#include <cmath>
#include <memory>
using namespace SimTK;
int main(int argc,char**argv){
  int seed=argc>1?atoi(argv[1]):1; Random::Uniform rnd(-1,1); rnd.setSeed(seed); auto rv=[&](){return Vec3(rnd.getValue(),rnd.getValue(),rnd.getValue());};
  double wFD=0,wPow=0,wSeg=0; int n=0,nContact=0,nexc=0,nShort=0; int algBad=0; double wAlg=0; int nNotConv=0; int nFDnotConv=0;
  for(int it=0; it<200; ++it){
    MultibodySystem sys; SimbodyMatterSubsystem matter(sys); CableSubsystem cables(sys); GeneralForceSubsystem forces(sys);
    Body::Rigid body(MassProperties(1,Vec3(0),Inertia(1)));
    MobilizedBody::Free A(matter.Ground(),Transform(),body,Transform()); MobilizedBody::Free B(matter.Ground(),Transform(),body,Transform()); MobilizedBody::Free O(matter.Ground(),Transform(),body,Transform());
    int shape=it%3; Real r=0.5+0.2*rnd.getValue();
    CableSpan cable(cables,A,Vec3(0),B,Vec3(0));
    std::shared_ptr<ContactGeometry> geo; if(shape==0) geo.reset(new ContactGeometry::Sphere(r)); else if(shape==1) geo.reset(new ContactGeometry::Ellipsoid(Vec3(r,1.2*r,0.8*r))); else geo.reset(new ContactGeometry::Cylinder(r));
    cable.addObstacle(O,Transform(),geo,Vec3(0,r,0)); // contact hint on +y side
    cable.setCurveSegmentAccuracy(1e-12); cable.setSmoothnessTolerance(1e-9); if(it%2) cable.setAlgorithm(CableSpanAlgorithm::Scholz2015);
    State s; try{ s=sys.realizeTopology(); }catch(const std::exception&e){ if(nexc++<2) printf("topo exc %.120s\n",e.what()); continue; }
    // place A at (-2, y0, z), B at (+2, y1, z), obstacle at origin-ish so that cable wraps over the top
    A.setQToFitTranslation(s,Vec3(-2,0.2*rnd.getValue(),0.2*rnd.getValue())); B.setQToFitTranslation(s,Vec3(2,0.2*rnd.getValue(),0.2*rnd.getValue())); O.setQToFitTransform(s,Transform(Rotation(0.3*rnd.getValue(),UnitVec3(rv())),Vec3(0.2*rnd.getValue(),-0.1+0.2*rnd.getValue(),0.1*rnd.getValue())));
    for(int i=0;i<s.getNU();++i) s.updU()[i]=0.5*rnd.getValue();
    Real L,Ld; try{ sys.realize(s,Stage::Velocity); L=cable.calcLength(s); Ld=cable.calcLengthDot(s);}catch(const std::exception&e){ if(nexc++<3) printf("exc %.160s\n",e.what()); continue; }
    Real sm=cable.getSmoothness(s); if(!(sm<=1e-9)){ nNotConv++; continue; } n++; bool inContact=cable.isInContactWithObstacle(s,CableSpanObstacleIndex(0)); if(inContact) nContact++;
    Vec3 pA=A.getBodyOriginLocation(s), pB=B.getBodyOriginLocation(s); if(L<(pB-pA).norm()-1e-9) nShort++;
    // FD length dot
    bool fdBad=false; Vector qdot=s.getQDot(); auto lenAt=[&](Real h){ State t=s; t.updQ()=s.getQ()+h*qdot; sys.realize(t,Stage::Position); Real l=cable.calcLength(t); if(!(cable.getSmoothness(t)<=1e-9)) fdBad=true; return l; };
    Real h=1e-4; Real fd; try{ fd=(8*(lenAt(h)-lenAt(-h))-(lenAt(2*h)-lenAt(-2*h)))/(12*h);}catch(const std::exception&){ continue; }
    if(fdBad){ nFDnotConv++; continue; } Real e=std::abs(fd-Ld)/(std::abs(Ld)+1); if(e>wFD) wFD=e; if(e>1e-6) printf("it=%d shape=%d alg=%d contact=%d smooth=%.1e: lengthDot %.8g vs FD %.8g L=%.6f L(+h)=%.6f L(-h)=%.6f\n",it,shape,it%2,(int)inContact,sm,Ld,fd,L,lenAt(h),lenAt(-h));
    // power: forces
    Real tension=3.0; Vector_<SpatialVec> bf(matter.getNumBodies()); bf=SpatialVec(Vec3(0),Vec3(0)); cable.applyBodyForces(s,tension,bf); Real P=0; for(MobilizedBodyIndex b(0);b<matter.getNumBodies();++b){ SpatialVec V=matter.getMobilizedBody(b).getBodyVelocity(s); P+=~bf[b][0]*V[0]+~bf[b][1]*V[1]; }
    Real ep=std::abs(P+tension*Ld)/(std::abs(tension*Ld)+1); if(ep>wPow) wPow=ep; Real pc=cable.calcCablePower(s,tension); if(std::abs(pc-P)>1e-9*(std::abs(P)+1)) printf("calcCablePower %.8g vs sum F.V %.8g\n",pc,P);
  }
  printf("notConverged=%d fdPointsNotConverged=%d ",nNotConv,nFDnotConv); printf("seed=%d cases=%d inContact=%d exceptions=%d shorter-than-straight=%d worst: lengthDot vs FD=%.1e power+T*Ldot=%.1e\n",seed,n,nContact,nexc,nShort,wFD,wPow);
}
