#include "SimTKmath.h"
#include <cstdio>
#include <string>
#include <set>
#include <map>
using namespace SimTK;
int main(int argc,char**argv){
  int seed=argc>1?atoi(argv[1]):1; Random::Uniform rnd(0,1); rnd.setSeed(seed); auto ri=[&](int n){return (int)(rnd.getValue()*n)%n;};
  int nbad=0,ncase=0,nexc=0,nloops=0,nslaves=0;
  for(int it=0; it<20000 && nbad<8; ++it){
    MultibodyGraphMaker g; g.addJointType("pin",1); g.addJointType("ball",3,true); g.addJointType("slider",1);
    int nb=1+ri(8); g.addBody("ground",0,false); std::vector<double> mass(nb+1,0);
    for(int b=1;b<=nb;++b){ mass[b]= ri(5)==0?0.0:1.0+ri(3); g.addBody("b"+std::to_string(b),mass[b], ri(8)==0); }
    int nj=ri(nb+4); const char* types[]={"pin","ball","slider","weld","free"}; std::vector<std::pair<int,int>> J; std::vector<bool> mustLoop;
    for(int j=0;j<nj;++j){ int p=ri(nb+1), c=ri(nb+1); if(p==c) continue; if(c==0 && ri(2)) std::swap(p,c); std::string pn=p?"b"+std::to_string(p):"ground", cn=c?"b"+std::to_string(c):"ground"; bool ml=ri(10)==0;
      try{ g.addJoint("j"+std::to_string(j), types[ri(5)], pn, cn, ml); J.push_back({p,c}); mustLoop.push_back(ml);}catch(const std::exception&e){ } }
    try{ g.generateGraph(); }catch(const std::exception& e){ nexc++; std::string m=e.what(); size_t p=m.find("\n"); if(nexc<=400) fprintf(stderr,"EXC: %.160s\n", m.substr(p==std::string::npos?0:p+1).c_str()); continue; }
    ncase++; std::string why;
    int NBod=g.getNumBodies(); std::vector<int> mobCount(NBod,0); std::map<int,int> levelOf; levelOf[0]=0;
    std::set<int> jointsSeen;
    for(int m=0;m<g.getNumMobilizers();++m){ const MultibodyGraphMaker::Mobilizer& mo=g.getMobilizer(m);
      // access via public getters only
      int lvl=mo.getLevel(); (void)lvl; }
    // Use body/joint records
    for(int b=1;b<NBod;++b){ const MultibodyGraphMaker::Body& B=g.getBody(b); if(B.mobilizer<0) why+=" body without mobilizer "+B.name; if(B.level<1) why+=" bad level "+B.name; if(B.isSlave()) nslaves++; }
    int nInputJ=0; for(int j=0;j<g.getNumJoints();++j){ const MultibodyGraphMaker::Joint& Jn=g.getJoint(j); bool hm=Jn.hasMobilizer(), hl=Jn.hasLoopConstraint(); if(hm==hl) why+=" joint "+Jn.name+" mobilizer/loop="+std::to_string(hm)+"/"+std::to_string(hl); if(hl) nloops++; if(!Jn.isAddedBaseJoint) nInputJ++; }
    if(nInputJ!=(int)J.size()) why+=" input joint count changed";
    // mobilizer ordering + levels + uniqueness
    std::vector<bool> placed(NBod,false); placed[0]=true; std::vector<int> usedAsOutboard(NBod,0);
    for(int m=0;m<g.getNumMobilizers();++m){ const MultibodyGraphMaker::Mobilizer& mo=g.getMobilizer(m); 
      // need inboard/outboard: find via joints table: joint whose .mobilizer==m
      int jn=-1; for(int j=0;j<g.getNumJoints();++j) if(g.getJoint(j).mobilizer==m) jn=j; if(jn<0){ why+=" mobilizer without joint"; continue; }
      const MultibodyGraphMaker::Joint& Jn=g.getJoint(jn); int outb=-1; for(int b=1;b<NBod;++b) if(g.getBody(b).mobilizer==m) outb=b; if(outb<0){ why+=" mobilizer without outboard body"; continue; }
      usedAsOutboard[outb]++; const MultibodyGraphMaker::Body& OB=g.getBody(outb); int master= OB.isSlave()? OB.master: outb;
      int inb = mo.isReversedFromJoint()? Jn.childBodyNum : Jn.parentBodyNum; int expectOut = mo.isReversedFromJoint()? Jn.parentBodyNum : Jn.childBodyNum;
      if(expectOut!=master) why+=" outboard body is not the joint's child/parent (rev="+std::to_string(mo.isReversedFromJoint())+")";
      if(!placed[inb]) why+=" inboard body not yet mobilized (ordering)"; if(g.getBody(inb).level+1!=OB.level || mo.getLevel()!=OB.level) why+=" level inconsistency";
      placed[outb]=true; if(mo.isAddedBaseMobilizer() && inb!=0) why+=" added base mobilizer not from ground"; if(mo.isAddedBaseMobilizer() && mo.getJointTypeName()!=g.getFreeJointTypeName()) why+=" added base mobilizer not free";
    }
    for(int b=1;b<NBod;++b) if(usedAsOutboard[b]!=1) why+=" body "+g.getBody(b).name+" mobilized "+std::to_string(usedAsOutboard[b])+" times";
    // slaves welded to master
    for(int b=1;b<NBod;++b){ const MultibodyGraphMaker::Body& B=g.getBody(b); if(B.isMaster()){ for(int sl: B.slaves) if(g.getBody(sl).master!=b) why+=" slave/master link broken"; } }
    int nweldCons=0; for(int c=0;c<g.getNumLoopConstraints();++c){ if(g.getLoopConstraint(c).getJointTypeName()==g.getWeldJointTypeName()) nweldCons++; }
    // massless terminal check
    for(int b=1;b<NBod;++b){ const MultibodyGraphMaker::Body& B=g.getBody(b); if(B.mass==0){ bool terminal=true; for(int m=0;m<g.getNumMobilizers();++m){ int jn=-1; for(int j=0;j<g.getNumJoints();++j) if(g.getJoint(j).mobilizer==m) jn=j; const MultibodyGraphMaker::Joint& Jn=g.getJoint(jn); int inb=g.getMobilizer(m).isReversedFromJoint()? Jn.childBodyNum:Jn.parentBodyNum; if(inb==b) terminal=false; }
        if(terminal){ int jn=-1; for(int j=0;j<g.getNumJoints();++j) if(g.getJoint(j).mobilizer==B.mobilizer) jn=j; int dofs=g.getJointType(g.getJoint(jn).jointTypeNum).numMobilities; if(dofs>0 && !B.isSlave()) why+=" massless terminal body "+B.name+" with "+std::to_string(dofs)+" dofs"; } } }
    if(!why.empty()){ nbad++; printf("it=%d nb=%d nj=%d:%s\n",it,nb,(int)J.size(),why.c_str()); g.dumpGraph(std::cout); }
  }
  printf("seed=%d cases=%d exceptions=%d loops=%d slaves=%d bad=%d\n",seed,ncase,nexc,nloops,nslaves,nbad);
}
