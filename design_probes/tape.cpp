#include <rapidcheck.h>
#include <vector>
#include <cstdint>
#include <cstdio>
#include <cmath>
#include <string>
using Seg = std::vector<uint32_t>;
using Tape = std::vector<Seg>;
struct Reader { const Seg& s; size_t i=0; 
  uint32_t w(){ return i<s.size()? s[i++]:0; }
  int pick(int n){ return n<=1?0:(int)(w()%n);}  
  double real(double lo,double hi){ uint32_t x=w(); static const double simple[]={0,1,-1,0.5,-0.5,2,-2,0.25}; double v; if(x<8) v=simple[x]; else v=lo+(hi-lo)*(x/4294967296.0); if(v<lo)v=lo; if(v>hi)v=hi; return v;}
};
static Tape lastFail; static long nEval=0;
// toy property: a "model" = list of bodies (type in 0..18, mass real); fails if some body has type 7 and mass > 1.5 and total bodies >=2
bool prop(const Tape& t){ nEval++; int nb=0; bool bad=false; for(size_t k=1;k<t.size();++k){ Reader r{t[k]}; int type=r.pick(19); double m=r.real(0.1,10); nb++; if(type==7 && m>1.5) bad=true;} return !(bad && nb>=2);} 
int main(){
  auto segGen = rc::gen::container<Seg>(8, rc::gen::resize(1000, rc::gen::arbitrary<uint32_t>()));
  auto tapeGen = rc::gen::container<Tape>(segGen);
  bool ok = rc::check("toy", [&](){ Tape t = *tapeGen; bool p = prop(t); if(!p) lastFail = t; RC_ASSERT(p); });
  printf("ok=%d evals=%ld\n", ok, nEval);
  if(!ok){ printf("shrunk tape: "); for(auto&s:lastFail){printf("[");for(auto w:s)printf("%u ",w);printf("] ");} printf("\n"); }
}
