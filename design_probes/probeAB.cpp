#include "Simbody.h"
#include <cstdio>
#include <cstring>
#include <memory>
#include <vector>
using namespace SimTK;
static unsigned long long fnv(unsigned long long h,const void* p,size_t n){ const unsigned char* c=(const unsigned char*)p; for(size_t i=0;i<n;++i){ h^=c[i]; h*=1099511628211ULL;} return h; }
struct Prog { std::unique_ptr<MultibodySystem> sys; std::unique_ptr<SimbodyMatterSubsystem> matter; std::unique_ptr<GeneralForceSubsystem> forces; std::unique_ptr<GeneralContactSubsystem> contacts; std::unique_ptr<Integrator> integ; unsigned long long h=1469598103934665603ULL; double T; bool done=false; int kind;
  Prog(int kind):kind(kind){ sys.reset(new MultibodySystem); matter.reset(new SimbodyMatterSubsystem(*sys)); forces.reset(new GeneralForceSubsystem(*sys)); forces->setNumberOfThreads(1); Force::Gravity(*forces,*matter,Vec3(0,-9.8,0)); Body::Rigid body(MassProperties(1,Vec3(.1,0,0),Inertia(1,1.1,1.2)+Inertia(Vec3(.1,0,0),1)));
    if(kind==0){ MobilizedBody::Ball a(matter->Ground(),Transform(Vec3(0,1,0)),body,Transform(Vec3(0,.5,0))); MobilizedBody::Pin b(a,Transform(Vec3(0,-.5,0)),body,Transform(Vec3(0,.5,0))); Force::TwoPointLinearSpring(*forces,matter->Ground(),Vec3(1,0,0),b,Vec3(0),5,0.5); State s=sys->realizeTopology(); s.updU()[0]=1; integ.reset(new RungeKuttaMersonIntegrator(*sys)); integ->setAccuracy(1e-5); integ->initialize(s); T=1.0; }
    else { contacts.reset(new GeneralContactSubsystem(*sys)); MobilizedBody::Free b(matter->Ground(),Transform(),body,Transform()); ContactSetIndex cs=contacts->createContactSet(); contacts->addBody(cs,matter->Ground(),ContactGeometry::HalfSpace(),Transform(Rotation(-Pi/2,ZAxis),Vec3(0))); contacts->addBody(cs,b,ContactGeometry::Sphere(0.3),Transform()); HuntCrossleyForce hc(*forces,*contacts,cs); hc.setBodyParameters(ContactSurfaceIndex(0),1e5,0.1,0.5,0.3,0); hc.setBodyParameters(ContactSurfaceIndex(1),1e5,0.1,0.5,0.3,0);
      State s=sys->realizeTopology(); b.setQToFitTranslation(s,Vec3(0,0.5,0)); b.setUToFitLinearVelocity(s,Vec3(1,0,0)); integ.reset(new VerletIntegrator(*sys)); integ->setAccuracy(1e-4); integ->initialize(s); T=0.6; }
    integ->setReturnEveryInternalStep(true); }
  void step(){ if(done) return; integ->stepTo(T); const State& s=integ->getState(); double t=s.getTime(); h=fnv(h,&t,8); h=fnv(h,&s.getY()[0],8*s.getNY()); if(t>=T) done=true; } };
int main(){
  // baseline: each alone
  unsigned long long base[2]; for(int k=0;k<2;++k){ Prog p(k); while(!p.done) p.step(); base[k]=p.h; }
  int nbad=0;
  // repeat & interleave
  for(int rep=0; rep<5; ++rep){ Prog a(0),b(1),c(0); while(!(a.done&&b.done&&c.done)){ a.step(); { Random::Uniform r; r.getValue(); ContactGeometry::Ellipsoid e(Vec3(1,2,3)); bool in; UnitVec3 n; e.findNearestPoint(Vec3(3,1,2),in,n); } b.step(); b.step(); c.step(); }
    if(a.h!=base[0]||c.h!=base[0]||b.h!=base[1]){ nbad++; printf("rep %d: hashes differ a=%llx c=%llx base0=%llx ; b=%llx base1=%llx\n",rep,a.h,c.h,base[0],b.h,base[1]); } }
  printf("baseline hashes %llx %llx ; interleaved repetitions bad=%d\n",base[0],base[1],nbad);
}
