#include "Simbody.h"
#include <cstdio>
#include <iostream>
#include <string>
using namespace SimTK;
int main(int argc,char**argv){
  int seed=argc>1?atoi(argv[1]):1; Random::Uniform rnd(-1,1); rnd.setSeed(seed);
  auto rv=[&](){return Vec3(rnd.getValue(),rnd.getValue(),rnd.getValue());};
  auto rx=[&](){return Transform(Rotation(rnd.getValue()*2,UnitVec3(rv())), rv());};
  double wEoM=0,wUdErr=0,wNE=0,wParent=0; int ncase=0,nrej=0,nDef=0,nDefBad=0;
  for(int it=0; it<400; ++it){
    MultibodySystem sys; SimbodyMatterSubsystem matter(sys); GeneralForceSubsystem forces(sys);
    Force::Gravity(forces,matter,Vec3(0.3,-9.8,0.5));
    int nb = 2 + (int)(2.5*(rnd.getValue()+1));
    std::vector<MobilizedBody> bodies; bodies.push_back(matter.Ground());
    for(int b=0;b<nb;++b){
      Vec3 c=0.2*rv(); Real m=1+rnd.getValue()*0.5;
      Body::Rigid body(MassProperties(m,c,Inertia(1,1.1,1.2)+Inertia(c,m)));
      MobilizedBody& par = bodies[(int)((rnd.getValue()+1)*0.4999*bodies.size())];
      Transform XPF=rx(), XBM=rx(); MobilizedBody::Direction dir = rnd.getValue()>0?MobilizedBody::Forward:MobilizedBody::Reverse;
      switch((int)((rnd.getValue()+1)*0.4999*9)){
        case 0: bodies.push_back(MobilizedBody::Pin(par,XPF,body,XBM,dir)); break;
        case 1: bodies.push_back(MobilizedBody::Ball(par,XPF,body,XBM,dir)); break;
        case 2: bodies.push_back(MobilizedBody::Free(par,XPF,body,XBM,dir)); break;
        case 3: bodies.push_back(MobilizedBody::Gimbal(par,XPF,body,XBM,dir)); break;
        case 4: bodies.push_back(MobilizedBody::Planar(par,XPF,body,XBM,dir)); break;
        case 5: bodies.push_back(MobilizedBody::Cylinder(par,XPF,body,XBM,dir)); break;
        case 6: bodies.push_back(MobilizedBody::Weld(par,XPF,body,XBM)); break;
        case 7: bodies.push_back(MobilizedBody::Slider(par,XPF,body,XBM,dir)); break;
        default: bodies.push_back(MobilizedBody::Universal(par,XPF,body,XBM,dir)); break; }
    }
    auto pickBody=[&]()->MobilizedBody&{ return bodies[(int)((rnd.getValue()+1)*0.4999*bodies.size())]; };
    int nc=(int)((rnd.getValue()+1)*1.4999); std::string desc;
    for(int c=0;c<nc;++c){
      MobilizedBody& b1=pickBody(); MobilizedBody* pb2=&pickBody(); int guard=0; while(pb2->getMobilizedBodyIndex()==b1.getMobilizedBodyIndex() && guard++<20) pb2=&pickBody(); MobilizedBody& b2=*pb2;
      if(b2.getMobilizedBodyIndex()==b1.getMobilizedBodyIndex()) continue;
      int ct=(int)((rnd.getValue()+1)*0.4999*6); desc += " c"+std::to_string(ct)+"("+std::to_string((int)b1.getMobilizedBodyIndex())+","+std::to_string((int)b2.getMobilizedBodyIndex())+")"; switch(ct){
        case 0: Constraint::Rod(b1,rv(),b2,rv(),0.5+0.5*(rnd.getValue()+1)); break;
        case 1: Constraint::Ball(b1,rv(),b2,rv()); break;
        case 2: Constraint::PointInPlane(b1,UnitVec3(rv()),rnd.getValue(),b2,rv()); break;
        case 3: Constraint::ConstantAngle(b1,UnitVec3(rv()),b2,UnitVec3(rv()),1.0+0.5*rnd.getValue()); break;
        case 4: Constraint::NoSlip1D(b1,rv(),UnitVec3(rv()),b1,b2); break;
        default: Constraint::PointOnLine(b1,UnitVec3(rv()),rv(),b2,rv()); break; }
    }
    // a custom applied force via DiscreteForces
    Force::DiscreteForces df(forces,matter);
    State s; try { s=sys.realizeTopology(); } catch(const std::exception& e){ printf("topology exc: %.150s\n",e.what()); continue; }
    bool euler=rnd.getValue()>0; matter.setUseEulerAngles(s,euler); sys.realizeModel(s);
    int nq=s.getNQ(),nu=s.getNU(); if(nu==0) continue; for(int i=0;i<nq;++i) s.updQ()[i]=0.9*rnd.getValue(); for(int i=0;i<nu;++i) s.updU()[i]=rnd.getValue();
    int NB=matter.getNumBodies();
    Vector fm(nu); for(int i=0;i<nu;++i) fm[i]=rnd.getValue(); df.setAllMobilityForces(s,fm);
    Vector_<SpatialVec> Fb(NB); for(int b=0;b<NB;++b) Fb[b]=SpatialVec(rv(),rv()); df.setAllBodyForces(s,Fb);
    try { sys.realize(s,Stage::Acceleration);} catch(const std::exception& e){ nrej++; continue; }
    const Vector& udot=s.getUDot(); const Vector& lam=s.getMultipliers(); int m=lam.size();
    const Vector& mobF=sys.getMobilityForces(s,Stage::Dynamics); const Vector_<SpatialVec>& bodyF=sys.getRigidBodyForces(s,Stage::Dynamics);
    Vector r; matter.calcResidualForceIgnoringConstraints(s,mobF,bodyF,udot,r);
    Vector Gtl(nu); Gtl=0; if(m) matter.multiplyByGTranspose(s,lam,Gtl);
    Real scale = r.norm()+Gtl.norm()+1; Real e=(r+Gtl).norm()/scale; if(e>wEoM) wEoM=e; if(e>1e-9){ printf("it=%d EoM mismatch %.2e m=%d cons:%s euler=%d\n",it,e,m,desc.c_str(),(int)euler); for(MobilizedBodyIndex b(1);b<NB;++b) printf("   body %d parent %d nu=%d nq=%d\n",(int)b,(int)matter.getMobilizedBody(b).getParentMobilizedBody().getMobilizedBodyIndex(),matter.getMobilizedBody(b).getNumU(s),matter.getMobilizedBody(b).getNumQ(s)); std::cout<<"   lambda="<<lam<<" udoterr="<<s.getUDotErr()<<" r+Gtl="<<(r+Gtl)<<std::endl; Matrix G; matter.calcG(s,G); std::cout<<"   G="<<G; }
    if(m){ Real eu=s.getUDotErr().norm(); Matrix G; matter.calcG(s,G); FactorSVD svd(G); Vector sv; svd.getSingularValues(sv); int rank=0; for(int i=0;i<sv.size();++i) if(sv[i]>1e-10*sv[0]) rank++; if(rank==m){ if(eu>wUdErr) wUdErr=eu; if(eu>1e-9) printf("it=%d FULLRANK but udoterr=%.2e m=%d\n",it,eu,m);} else { nDef++; if(eu>1e-9) nDefBad++; } }
    // reactions: Newton-Euler per body
    Vector_<SpatialVec> R; matter.calcMobilizerReactionForces(s,R);
    Vector_<SpatialVec> consF(NB); consF=SpatialVec(Vec3(0),Vec3(0)); Vector consMob; if(m) matter.calcConstraintForcesFromMultipliers(s,lam,consF,consMob);
    for(MobilizedBodyIndex b(1); b<NB; ++b){
      const MobilizedBody& mb=matter.getMobilizedBody(b); const Transform& X=mb.getBodyTransform(s); SpatialVec V=mb.getBodyVelocity(s), A=mb.getBodyAcceleration(s);
      MassProperties mp=mb.getBodyMassProperties(s); Real mass=mp.getMass(); Vec3 c=X.R()*mp.getMassCenter(); Mat33 I=X.R()*mp.getInertia().toMat33()*~X.R(); Vec3 w=V[0];
      SpatialVec lhs( I*A[0] + mass*(c % A[1]) + w % (I*w),  mass*A[1] + mass*(A[0] % c) + mass*(w % (w % c)) );
      // fix: moment eq about body origin: I*alpha + m c x a_o + w x I w ; force: m(a_o + alpha x c + w x (w x c))
      Vec3 pBo=X.p(); Vec3 pMo = X*mb.getOutboardFrame(s).p();
      SpatialVec Rb( R[b][0] + (pMo-pBo) % R[b][1], R[b][1]);
      SpatialVec rhs = bodyF[b] - consF[b] + Rb; // constraint forces: sign? applied-like = -G^T lambda ; calcConstraintForcesFromMultipliers returns with constraint sign (opposite applied)
      for(MobilizedBodyIndex cb(1); cb<NB; ++cb){ const MobilizedBody& ch=matter.getMobilizedBody(cb); if(ch.getParentMobilizedBody().getMobilizedBodyIndex()!=b) continue;
        Vec3 pMc = ch.getBodyTransform(s)*ch.getOutboardFrame(s).p(); rhs -= SpatialVec(R[cb][0] + (pMc-pBo) % R[cb][1], R[cb][1]); }
      Real en=(lhs[0]-rhs[0]).norm()+(lhs[1]-rhs[1]).norm(); Real sc=lhs[0].norm()+lhs[1].norm()+rhs[0].norm()+rhs[1].norm()+1; en/=sc; if(en>wNE) wNE=en; if(en>1e-9) printf("it=%d body %d Newton-Euler mismatch %.2e (m=%d)\n",it,(int)b,en,m);
      // parent reaction API
      SpatialVec onParentF = mb.findMobilizerReactionOnParentAtFInGround(s); 
      Vec3 pFo = mb.getParentMobilizedBody().getBodyTransform(s)*mb.getInboardFrame(s).p();
      SpatialVec expect( -(R[b][0] + (pMo-pFo) % R[b][1]), -R[b][1]); Real ep=((onParentF[0]-expect[0]).norm()+(onParentF[1]-expect[1]).norm())/(expect[0].norm()+expect[1].norm()+1); if(ep>wParent) wParent=ep;
    }
    ncase++;
  }
  printf("rankdef=%d (udoterr>1e-9 in %d) ",nDef,nDefBad); printf("seed=%d cases=%d rejected=%d worst: EoM(M udot+G'lam+inertial-f)=%.1e |udoterr|=%.1e Newton-Euler(reactions)=%.1e parentReaction=%.1e\n",seed,ncase,nrej,wEoM,wUdErr,wNE,wParent);
}
