#include "Simbody.h"
#include <cstdio>
#include <cmath>
using namespace SimTK;
static Vec3 vee(const Mat33& S){ return Vec3(0.5*(S(2,1)-S(1,2)),0.5*(S(0,2)-S(2,0)),0.5*(S(1,0)-S(0,1))); }
int main(int argc,char**argv){
  int seed=argc>1?atoi(argv[1]):1; Random::Uniform rnd(-1,1); rnd.setSeed(seed);
  auto rv=[&](){return Vec3(rnd.getValue(),rnd.getValue(),rnd.getValue());}; auto rx=[&](){return Transform(Rotation(rnd.getValue()*2,UnitVec3(rv())), rv());};
  double wV=0,wNN=0,wQdd=0,wJ=0,wJt=0,wSt=0,wBias=0,wMass=0,wMom=0,wCom=0,wAcc=0; int n=0;
  for(int it=0; it<300; ++it){
    MultibodySystem sys; SimbodyMatterSubsystem matter(sys); GeneralForceSubsystem forces(sys); Force::Gravity(forces,matter,Vec3(0,-9.8,0));
    int nb=2+(int)((rnd.getValue()+1)*2); std::vector<MobilizedBody> bodies; bodies.push_back(matter.Ground());
    for(int b=0;b<nb;++b){ Real m=1+0.5*rnd.getValue(); Vec3 c=0.2*rv(); Body::Rigid body(MassProperties(m,c,Inertia(1,1.1,1.2)+Inertia(c,m))); MobilizedBody& par=bodies[(int)((rnd.getValue()+1)*0.4999*bodies.size())]; Transform XPF=rx(),XBM=rx(); MobilizedBody::Direction dir=rnd.getValue()>0?MobilizedBody::Forward:MobilizedBody::Reverse;
      switch((int)((rnd.getValue()+1)*0.4999*9)){case 0: bodies.push_back(MobilizedBody::Pin(par,XPF,body,XBM,dir)); break; case 1: bodies.push_back(MobilizedBody::Ball(par,XPF,body,XBM,dir)); break; case 2: bodies.push_back(MobilizedBody::Free(par,XPF,body,XBM,dir)); break; case 3: bodies.push_back(MobilizedBody::Gimbal(par,XPF,body,XBM,dir)); break; case 4: bodies.push_back(MobilizedBody::LineOrientation(par,XPF,body,XBM,dir)); break; case 5: bodies.push_back(MobilizedBody::FreeLine(par,XPF,body,XBM,dir)); break; case 6: bodies.push_back(MobilizedBody::Ellipsoid(par,XPF,body,XBM,Vec3(.5,.7,.9),dir)); break; case 7: bodies.push_back(MobilizedBody::Planar(par,XPF,body,XBM,dir)); break; default: bodies.push_back(MobilizedBody::Bushing(par,XPF,body,XBM,dir)); } }
    State s=sys.realizeTopology(); matter.setUseEulerAngles(s,rnd.getValue()>0); sys.realizeModel(s); int nq=s.getNQ(),nu=s.getNU(); for(int i=0;i<nq;++i) s.updQ()[i]=0.8*rnd.getValue(); Vector u(nu),udot(nu); for(int i=0;i<nu;++i){u[i]=rnd.getValue(); udot[i]=rnd.getValue();} s.updU()=u; sys.realize(s,Stage::Acceleration); n++;
    int NB=matter.getNumBodies(); Vector qdot=s.getQDot(), qdd; matter.calcQDotDot(s,udot,qdd);
    auto at=[&](Real h,bool second){ State t=s; t.updQ()=s.getQ()+h*qdot+(second?0.5*h*h*qdd:Vector(nq,0.0)); if(second) t.updU()=u+h*udot; sys.realize(t,Stage::Velocity); return t; };
    Real h=1e-3; State p1=at(h,false),m1=at(-h,false),p2=at(2*h,false),m2=at(-2*h,false);
    for(MobilizedBodyIndex b(1);b<NB;++b){ const MobilizedBody& mb=matter.getMobilizedBody(b); auto X=[&](const State& t){return mb.getBodyTransform(t);} ; Mat33 Rd=(8.0*(X(p1).R().asMat33()-X(m1).R().asMat33())-(X(p2).R().asMat33()-X(m2).R().asMat33()))/(12*h); Vec3 pd=(8.0*(X(p1).p()-X(m1).p())-(X(p2).p()-X(m2).p()))/(12*h); Vec3 w=vee(Rd*~X(s).R().asMat33()); SpatialVec V=mb.getBodyVelocity(s); Real e=((w-V[0]).norm()+(pd-V[1]).norm())/(V[0].norm()+V[1].norm()+1); if(e>wV) wV=e; }
    // N NInv
    Vector qd2,u2; matter.multiplyByN(s,false,u,qd2); matter.multiplyByNInv(s,false,qd2,u2); Real e1=(u2-u).norm()+(qd2-qdot).norm(); if(e1>wNN) wNN=e1;
    // qdotdot vs FD of qdot along second-order motion
    { State a=at(h,true), b=at(-h,true), c=at(2*h,true), d=at(-2*h,true); Vector fd=(8.0*(a.getQDot()-b.getQDot())-(c.getQDot()-d.getQDot()))/(12*h); Real e=(fd-qdd).norm()/(qdd.norm()+1); if(e>wQdd) wQdd=e; 
      // body acceleration from udot vs FD of velocities
      Vector_<SpatialVec> A; matter.calcBodyAccelerationFromUDot(s,udot,A); for(MobilizedBodyIndex bb(1);bb<NB;++bb){ const MobilizedBody& mb=matter.getMobilizedBody(bb); SpatialVec fdv=(8.0*(mb.getBodyVelocity(a)-mb.getBodyVelocity(b))-(mb.getBodyVelocity(c)-mb.getBodyVelocity(d)))/(12*h); Real e=((fdv[0]-A[bb][0]).norm()+(fdv[1]-A[bb][1]).norm())/(A[bb][0].norm()+A[bb][1].norm()+1); if(e>wAcc) wAcc=e; } }
    // Jacobian
    Vector_<SpatialVec> Ju; matter.multiplyBySystemJacobian(s,u,Ju); Real ej=0; for(MobilizedBodyIndex b(0);b<NB;++b){ SpatialVec V=matter.getMobilizedBody(b).getBodyVelocity(s); ej=std::max(ej,(Ju[b][0]-V[0]).norm()+(Ju[b][1]-V[1]).norm()); } if(ej>wJ) wJ=ej;
    Vector_<SpatialVec> F(NB); for(int b=0;b<NB;++b) F[b]=SpatialVec(rv(),rv()); Vector JtF; matter.multiplyBySystemJacobianTranspose(s,F,JtF); Real lhs=0; for(int b=0;b<NB;++b) lhs+=~F[b][0]*Ju[b][0]+~F[b][1]*Ju[b][1]; Real ejt=std::abs(lhs-(~JtF*u))/(std::abs(lhs)+1); if(ejt>wJt) wJt=ejt;
    MobilizedBodyIndex tb((int)((rnd.getValue()+1)*0.4999*NB)); Vec3 st=rv(); Vec3 vs=matter.multiplyByStationJacobian(s,tb,st,u); Real es=(vs-matter.getMobilizedBody(tb).findStationVelocityInGround(s,st)).norm(); if(es>wSt) wSt=es;
    Vec3 bias=matter.calcBiasForStationJacobian(s,tb,st); Vec3 JSud=matter.multiplyByStationJacobian(s,tb,st,s.getUDot()); Vec3 acc=matter.getMobilizedBody(tb).findStationAccelerationInGround(s,st); Real eb=(JSud+bias-acc).norm()/(acc.norm()+1); if(eb>wBias) wBias=eb;
    // C15 aggregates
    Real M=0; Vec3 mc(0),mv(0); SpatialVec mom(Vec3(0),Vec3(0)); for(MobilizedBodyIndex b(1);b<NB;++b){ const MobilizedBody& mb=matter.getMobilizedBody(b); MassProperties mp=mb.getBodyMassProperties(s); const Transform& X=mb.getBodyTransform(s); SpatialVec V=mb.getBodyVelocity(s); Vec3 c=X*mp.getMassCenter(); Vec3 cr=X.R()*mp.getMassCenter(); Vec3 vc=V[1]+V[0]%cr; M+=mp.getMass(); mc+=mp.getMass()*c; mv+=mp.getMass()*vc; Mat33 Ic=X.R()*mp.calcCentralInertia().toMat33()*~X.R(); mom[1]+=mp.getMass()*vc; mom[0]+=Ic*V[0]+c%(mp.getMass()*vc); }
    Real em=std::abs(M-matter.calcSystemMass(s))+(mc/M-matter.calcSystemMassCenterLocationInGround(s)).norm()+(mv/M-matter.calcSystemMassCenterVelocityInGround(s)).norm(); if(em>wCom) wCom=em; SpatialVec ms=matter.calcSystemMomentumAboutGroundOrigin(s); Real emo=((ms[0]-mom[0]).norm()+(ms[1]-mom[1]).norm())/(mom[0].norm()+mom[1].norm()+1); if(emo>wMom) wMom=emo;
  }
  printf("seed=%d cases=%d worst: V vs d(pose)/dt=%.1e N/NInv=%.1e qdotdot vs FD=%.1e bodyAccel(udot) vs FD=%.1e J*u vs V=%.1e adjoint=%.1e stationJ=%.1e stationBias=%.1e mass/COM=%.1e momentum=%.1e\n",seed,n,wV,wNN,wQdd,wAcc,wJ,wJt,wSt,wBias,wCom,wMom);
}
