#include "SimTKcommon.h"
#include <cstdio>
#include <vector>
#include <atomic>
using namespace SimTK;
struct T : Parallel2DExecutor::Task { int n; std::vector<std::atomic<int>> cnt; std::vector<std::atomic<int>> busy; std::atomic<int> conflicts{0}; std::atomic<int> inits{0}, fins{0};
  T(int n):n(n),cnt(n*n),busy(n){ for(auto&c:cnt)c=0; for(auto&b:busy)b=0; }
  void initialize() override {inits++;} void finish() override {fins++;}
  void execute(int i,int j) override { if(i<0||j<0||i>=n||j>=n){ conflicts+=1000; return;} if(busy[i].fetch_add(1)!=0) conflicts++; if(i!=j && busy[j].fetch_add(1)!=0) conflicts++; cnt[i*n+j]++; for(volatile int k=0;k<20;++k); busy[i]--; if(i!=j) busy[j]--; } };
int main(){ int nbad=0; long runs=0;
  for(int grid=0; grid<=96; grid+= (grid<20?1:7)) for(int procs=1; procs<=16; procs+= (procs<5?1:3)) for(int rt=0; rt<3; ++rt){ runs++;
    Parallel2DExecutor ex(grid,procs); T t(grid); Parallel2DExecutor::RangeType r= rt==0?Parallel2DExecutor::FullMatrix: rt==1?Parallel2DExecutor::HalfMatrix:Parallel2DExecutor::HalfPlusDiagonal; ex.execute(t,r);
    bool bad=false; for(int i=0;i<grid&&!bad;++i)for(int j=0;j<grid;++j){ int want= rt==0?1: rt==1?(j<i):(j<=i); if(t.cnt[i*grid+j]!=want){ bad=true; printf("grid=%d procs=%d type=%d: (%d,%d) executed %d times, expected %d\n",grid,procs,rt,i,j,(int)t.cnt[i*grid+j],want); break; } }
    if(t.conflicts){ bad=true; printf("grid=%d procs=%d type=%d: %d concurrent index conflicts\n",grid,procs,rt,(int)t.conflicts); }
    if(bad) nbad++; }
  printf("runs=%ld bad=%d\n",runs,nbad); }
