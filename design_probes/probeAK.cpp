#include "SimTKmath.h"
#include <cstdio>
#include <cmath>
using namespace SimTK;
int main(int argc,char**argv){
  int seed=argc>1?atoi(argv[1]):1; Random::Uniform rnd(-1,1); rnd.setSeed(seed);
  // ---- Function derivatives via FD of lower order
  int nbad=0; double wF=0;
  for(int it=0; it<2000; ++it){ int kind=it%4; Function* f=0; int nargs=1;
    if(kind==0){ Vector c(1+(int)((rnd.getValue()+1)*3)); for(int i=0;i<c.size();++i) c[i]=rnd.getValue(); f=new Function::Polynomial(c); }
    else if(kind==1){ f=new Function::Sinusoid(0.5+rnd.getValue()+1, 1+2*(rnd.getValue()+1), rnd.getValue()); }
    else if(kind==2){ f=new Function::Step(rnd.getValue(), rnd.getValue()+2, -0.5, 0.5+0.3*rnd.getValue()); }
    else { nargs=3; Vector c(4); for(int i=0;i<4;++i) c[i]=rnd.getValue(); f=new Function::Linear(c); }
    Vector x(nargs); for(int i=0;i<nargs;++i) x[i]=0.8*rnd.getValue();
    for(int order=1; order<=std::min(3,f->getMaxDerivativeOrder()); ++order){ Array_<int> comps(order); for(int k=0;k<order;++k) comps[k]=(int)((rnd.getValue()+1)*0.4999*nargs); Array_<int> lower(comps.begin(),comps.end()-1); int dvar=comps[order-1];
      auto lowerVal=[&](Real h){ Vector y=x; y[dvar]+=h; return order==1? f->calcValue(y) : f->calcDerivative(lower,y); };
      Real h=1e-3; Real fd=(8*(lowerVal(h)-lowerVal(-h))-(lowerVal(2*h)-lowerVal(-2*h)))/(12*h); Real an=f->calcDerivative(comps,x); Real e=std::abs(fd-an)/(std::abs(an)+1); if(e>wF) wF=e; if(e>1e-6){ if(nbad++<5) printf("Function kind %d order %d: analytic %.8g FD %.8g at x0=%.4f\n",kind,order,an,fd,x[0]); } }
    delete f; }
  // ---- stepUp family
  int nbadS=0; Real prev=-1; for(int i=0;i<=1000;++i){ Real x=i/1000.0; Real y=stepUp(x); if(y<prev-1e-15) nbadS++; prev=y; Real h=1e-4; if(x>2*h&&x<1-2*h){ Real fd=(stepUp(x+h)-stepUp(x-h))/(2*h); if(std::abs(fd-dstepUp(x))>1e-6) nbadS++; Real fd2=(dstepUp(x+h)-dstepUp(x-h))/(2*h); if(std::abs(fd2-d2stepUp(x))>1e-5) nbadS++; Real fd3=(d2stepUp(x+h)-d2stepUp(x-h))/(2*h); if(std::abs(fd3-d3stepUp(x))>1e-4) nbadS++; } }
  if(stepUp(0.0)!=0||stepUp(1.0)!=1||dstepUp(0.0)!=0||dstepUp(1.0)!=0||d2stepUp(0.0)!=0||d2stepUp(1.0)!=0) nbadS++;
  { Real y0=rnd.getValue(), y1=y0+2, x0=0.3, x1=1.7; for(int i=0;i<=100;++i){ Real x=x0+(x1-x0)*i/100.0; Real y=stepAny(y0,y1-y0,x0,1/(x1-x0),x); if(y<y0-1e-12||y>y1+1e-12) nbadS++; } }
  printf("Function derivative checks: bad=%d worst rel=%.1e ; stepUp family bad=%d\n",nbad,wF,nbadS);
  // ---- Differentiator
  struct Fn: public Differentiator::ScalarFunction { int kind; Fn(int k,Real acc):Differentiator::ScalarFunction(acc),kind(k){} int f(Real x, Real& fx) const override { fx= kind==0? 3*x+2 : kind==1? x*x-2*x+1 : std::sin(x); return 0; } };
  double wFwd=0,wCen=0; int nbadD=0; for(int it=0; it<3000; ++it){ int kind=it%3; Fn fn(kind,1e-14); Differentiator d(fn); Real x= (it%5==0)?0.0 : std::pow(10.0,4*rnd.getValue())*(rnd.getValue()>0?1:-1); Real exact= kind==0?3.0: kind==1? 2*x-2 : std::cos(x);
    Real df=d.calcDerivative(x,Differentiator::ForwardDifference), dc=d.calcDerivative(x,Differentiator::CentralDifference); Real sc=std::max(std::abs(x),0.1); Real hF=std::sqrt(1e-14)*sc, hC=std::pow(1e-14,1.0/3)*sc; Real fmag= kind==0?std::abs(3*x+2): kind==1? std::abs(x*x-2*x+1)+1:1; Real f2= kind==0?0: kind==1?2:1, f3= kind==2?1:0;
    Real bF=0.5*hF*f2*1.01+ 4*1e-14*fmag/hF+1e-12, bC=hC*hC/6*f3*1.01+ 2*1e-14*fmag/hC+1e-12; Real eF=std::abs(df-exact), eC=std::abs(dc-exact); wFwd=std::max(wFwd,eF/bF); wCen=std::max(wCen,eC/bC); if(eF>20*bF||eC>20*bC){ if(nbadD++<5) printf("Differentiator kind %d x=%g: fwd err %.2e (bound %.2e) central err %.2e (bound %.2e)\n",kind,x,eF,bF,eC,bC); } }
  printf("Differentiator: bad=%d worst err/bound forward=%.2f central=%.2f\n",nbadD,wFwd,wCen);
}
