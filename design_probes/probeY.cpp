#include "Simbody.h"
#include <cstdio>
#include <cmath>
using namespace SimTK;
static Real normOf(const Vector& v,bool inf){ if(v.size()==0) return 0; return inf? v.normInf(): v.normRMS(); }
int main(int argc,char**argv){
  int seed=argc>1?atoi(argv[1]):1; Random::Uniform rnd(-1,1); rnd.setSeed(seed);
  auto rv=[&](){return Vec3(rnd.getValue(),rnd.getValue(),rnd.getValue());};
  auto rx=[&](){return Transform(Rotation(rnd.getValue()*2,UnitVec3(rv())), rv());};
  int ncase=0,nfailAsm=0,nbad=0,nSucc=0,nFail=0,nNoChange=0; double wNormRep=0;
  for(int it=0; it<500; ++it){
    MultibodySystem sys; SimbodyMatterSubsystem matter(sys); GeneralForceSubsystem forces(sys);
    int nb = 2 + (int)(2.5*(rnd.getValue()+1)); std::vector<MobilizedBody> bodies; bodies.push_back(matter.Ground());
    for(int b=0;b<nb;++b){ Body::Rigid body(MassProperties(1,0.2*rv(),Inertia(1,1.1,1.2)+Inertia(Vec3(.2),1))); MobilizedBody& par=bodies[(int)((rnd.getValue()+1)*0.4999*bodies.size())]; Transform XPF=rx(),XBM=rx();
      switch((int)((rnd.getValue()+1)*0.4999*5)){case 0: bodies.push_back(MobilizedBody::Pin(par,XPF,body,XBM)); break; case 1: bodies.push_back(MobilizedBody::Ball(par,XPF,body,XBM)); break; case 2: bodies.push_back(MobilizedBody::Free(par,XPF,body,XBM)); break; case 3: bodies.push_back(MobilizedBody::Gimbal(par,XPF,body,XBM)); break; default: bodies.push_back(MobilizedBody::Universal(par,XPF,body,XBM)); } }
    auto pick=[&]()->MobilizedBody&{ return bodies[(int)((rnd.getValue()+1)*0.4999*bodies.size())]; };
    int nc=1+(rnd.getValue()>0); for(int c=0;c<nc;++c){ MobilizedBody& b1=pick(); MobilizedBody* p2=&pick(); int g=0; while(p2->getMobilizedBodyIndex()==b1.getMobilizedBodyIndex()&&g++<20) p2=&pick(); if(p2->getMobilizedBodyIndex()==b1.getMobilizedBodyIndex()) continue; MobilizedBody& b2=*p2;
      switch((int)((rnd.getValue()+1)*0.4999*4)){case 0: Constraint::Rod(b1,rv(),b2,rv(),0.8+0.5*(rnd.getValue()+1)); break; case 1: Constraint::PointInPlane(b1,UnitVec3(rv()),rnd.getValue(),b2,rv()); break; case 2: Constraint::ConstantAngle(b1,UnitVec3(rv()),b2,UnitVec3(rv()),1+0.5*rnd.getValue()); break; default: Constraint::NoSlip1D(b1,rv(),UnitVec3(rv()),b1,b2); } }
    State s=sys.realizeTopology(); bool euler=rnd.getValue()>0.3? false:true; matter.setUseEulerAngles(s,euler); sys.realizeModel(s); int nq=s.getNQ(),nu=s.getNU();
    for(int i=0;i<nq;++i) s.updQ()[i]=0.8*rnd.getValue(); for(int i=0;i<nu;++i) s.updU()[i]=rnd.getValue();
    try{ sys.project(s,1e-10);}catch(const std::exception&){ nfailAsm++; continue; }
    ncase++;
    // perturb
    Real mag=std::pow(10,-6+5.5*(rnd.getValue()+1)/2); State p=s; for(int i=0;i<nq;++i) p.updQ()[i]+=mag*rnd.getValue(); bool perturbU=rnd.getValue()>0; if(perturbU) for(int i=0;i<nu;++i) p.updU()[i]+=mag*rnd.getValue();
    Real acc=std::pow(10,-3-6*(rnd.getValue()+1)/2); bool inf=rnd.getValue()>0, force=rnd.getValue()>0.5; ProjectOptions opt(acc); opt.setOption(ProjectOptions::DontThrow); if(inf) opt.setOption(ProjectOptions::UseInfinityNorm); if(force) opt.setOption(ProjectOptions::ForceProjection);
    sys.realize(p,Stage::Position); Vector qBefore=p.getQ(); ProjectResults res; Vector noErr;
    int mp=p.getNQErr()-matter.getNumQuaternionsInUse(p); Vector pe0=p.getQErr()(0,mp).rowScale(p.getQErrWeights()(0,mp)); Vector qe0= matter.getNumQuaternionsInUse(p)? Vector(p.getQErr()(mp,matter.getNumQuaternionsInUse(p))):Vector(); Real n0=std::max(normOf(pe0,inf),normOf(qe0,inf));
    sys.projectQ(p,noErr,opt,res);
    if(res.getExitStatus()==ProjectResults::Succeeded){ nSucc++; sys.realize(p,Stage::Position); Vector pe=p.getQErr()(0,mp).rowScale(p.getQErrWeights()(0,mp)); int nqt=matter.getNumQuaternionsInUse(p); Vector qe= nqt? Vector(p.getQErr()(mp,nqt)):Vector(); Real n1=std::max(normOf(pe,inf),normOf(qe,inf));
      std::string why; if(n1>acc*(1+1e-9)) why+=" norm after success "+std::to_string(n1)+" > acc "+std::to_string(acc);
      Real e=std::abs(res.getNormOnEntrance()-n0)/(n0+1e-300); if(e>wNormRep) wNormRep=e; if(e>1e-9) why+=" reported entrance norm differs";
      Real e2=std::abs(res.getNormOnExit()-n1); if(e2>1e-9*(n1+acc)) why+=" reported exit norm "+std::to_string(res.getNormOnExit())+" vs "+std::to_string(n1);
      bool changed=false; for(int i=0;i<nq;++i) if(p.getQ()[i]!=qBefore[i]) changed=true; if(changed!=res.getAnyChangeMade()) why+=" anyChangeMade flag wrong";
      if(n0<=acc && !force){ if(changed) why+=" state changed although already satisfied"; else nNoChange++; }
      if(!why.empty()){ if(nbad++<6) printf("it=%d acc=%.1e inf=%d force=%d n0=%.3e:%s\n",it,acc,(int)inf,(int)force,n0,why.c_str()); } }
    else nFail++;
  }
  printf("seed=%d assembled=%d (assembly failed %d) projectQ succeeded=%d failed=%d early-return-unchanged=%d bad=%d worst entrance-norm mismatch=%.1e\n",seed,ncase,nfailAsm,nSucc,nFail,nNoChange,nbad,wNormRep);
}
