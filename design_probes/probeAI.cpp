#include "SimTKcommon.h"
#include <cstdio>
#include <cmath>
#include <cstring>
#include <sstream>
using namespace SimTK;
static double bitsToDouble(unsigned long long b){ double d; memcpy(&d,&b,8); return d; }
int main(int argc,char**argv){
  int seed=argc>1?atoi(argv[1]):1; Random::Uniform rnd(0,1); rnd.setSeed(seed); auto r64=[&](){ unsigned long long x=0; for(int i=0;i<4;++i) x=(x<<16) ^ (unsigned long long)(rnd.getValue()*65536); return x; };
  int nbadD=0,nbadF=0,nbadU=0,nbadVec=0,n=0;
  for(int it=0; it<200000; ++it){ double d=bitsToDouble(r64()); if(it%50==0) d=0; if(it%50==1) d=-0.0; if(it%50==2) d=5e-324; if(it%50==3) d=1.7976931348623157e308; n++;
    String s(d); double back; bool ok=s.tryConvertTo(back); bool same = (std::isnan(d)&&std::isnan(back)) || (memcmp(&d,&back,8)==0) || (d==back && d==0 && false);
    if(!ok || !same){ if(!(d==0&&back==0&&ok) ){ if(nbadD++<5) printf("double %a -> '%s' -> ok=%d %a\n",d,s.c_str(),(int)ok,back); } else if (std::signbit(d)!=std::signbit(back)) { if(nbadD++<5) printf("signed zero lost: %a -> '%s' -> %a\n",d,s.c_str(),back);} }
    float f=(float)bitsToDouble(r64()); { unsigned int fb=(unsigned int)r64(); memcpy(&f,&fb,4); } String sf(f); float fback; bool okf=sf.tryConvertTo(fback); bool samef=(std::isnan(f)&&std::isnan(fback))||memcmp(&f,&fback,4)==0; if(!okf||!samef){ if(nbadF++<5) printf("float %a -> '%s' -> ok=%d %a\n",(double)f,sf.c_str(),(int)okf,(double)fback); }
    if(it%10==0){ std::stringstream ss; writeUnformatted(ss,d); double rb; bool oku=readUnformatted(ss,rb); bool sameu=(std::isnan(d)&&std::isnan(rb))||memcmp(&d,&rb,8)==0; if(!oku||!sameu){ if(nbadU++<5) printf("unformatted double %a -> '%s' -> ok=%d %a\n",d,ss.str().c_str(),(int)oku,rb); }
      Vec3 v(d,bitsToDouble(r64()),1.5); std::stringstream s2; writeUnformatted(s2,v); Vec3 vb; bool okv=readUnformatted(s2,vb); bool samev=true; for(int k=0;k<3;++k) if(!((std::isnan(v[k])&&std::isnan(vb[k]))||memcmp(&v[k],&vb[k],8)==0)) samev=false; if(!okv||!samev){ if(nbadVec++<5) printf("unformatted Vec3 '%s' ok=%d\n",s2.str().c_str(),(int)okv); } }
  }
  printf("seed=%d n=%d bad: String(double)=%d String(float)=%d unformatted double=%d unformatted Vec3=%d\n",seed,n,nbadD,nbadF,nbadU,nbadVec);
}
