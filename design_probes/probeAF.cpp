#include "Simbody.h"
#include <cstdio>
#include <cmath>
using namespace SimTK;
int main(int argc,char**argv){
  int seed=argc>1?atoi(argv[1]):1; Random::Uniform rnd(-1,1); rnd.setSeed(seed);
  auto rv=[&](){return Vec3(rnd.getValue(),rnd.getValue(),rnd.getValue());}; auto rx=[&](){return Transform(Rotation(rnd.getValue()*2,UnitVec3(rv())), rv());};
  int n=0,nExc=0,nbad=0,nLockBad=0; double wGoal=0,wErr=0;
  for(int it=0; it<150; ++it){
    MultibodySystem sys; SimbodyMatterSubsystem matter(sys); GeneralForceSubsystem forces(sys);
    int nb=2+(int)((rnd.getValue()+1)*1.5); std::vector<MobilizedBody> bodies; bodies.push_back(matter.Ground());
    for(int b=0;b<nb;++b){ Body::Rigid body(MassProperties(1,0.2*rv(),Inertia(1,1.1,1.2)+Inertia(Vec3(.2),1))); MobilizedBody& par=bodies[(int)((rnd.getValue()+1)*0.4999*bodies.size())]; Transform XPF=rx(),XBM=rx();
      switch((int)((rnd.getValue()+1)*0.4999*4)){case 0: bodies.push_back(MobilizedBody::Pin(par,XPF,body,XBM)); break; case 1: bodies.push_back(MobilizedBody::Ball(par,XPF,body,XBM)); break; case 2: bodies.push_back(MobilizedBody::Free(par,XPF,body,XBM)); break; default: bodies.push_back(MobilizedBody::Gimbal(par,XPF,body,XBM)); } }
    bool withCons=rnd.getValue()>0; if(withCons && nb>=2) Constraint::Rod(bodies[1],rv(),bodies[nb],rv(),1.0+0.5*(rnd.getValue()+1));
    State sref=sys.realizeTopology(); sys.realizeModel(sref); for(int i=0;i<sref.getNQ();++i) sref.updQ()[i]=0.6*rnd.getValue(); try{ sys.projectQ(sref,1e-10);}catch(...){ continue; } sys.realize(sref,Stage::Position);
    Assembler ik(sys); Markers* markers=new Markers(); std::vector<Vec3> stations; std::vector<int> mbody; for(int b=1;b<=nb;++b) for(int k=0;k<3;++k){ Vec3 st=rv(); markers->addMarker(bodies[b].getMobilizedBodyIndex(),st,1.0); stations.push_back(st); mbody.push_back(b);} ik.adoptAssemblyGoal(markers);
    // lock one mobilizer
    int lockB=1+(int)((rnd.getValue()+1)*0.4999*nb); bool doLock=rnd.getValue()>0.3;
    State s=sref; for(int i=0;i<s.getNQ();++i) s.updQ()[i]+=0.25*rnd.getValue(); Vector qLockedBefore;
    if(doLock){ ik.lockMobilizer(bodies[lockB].getMobilizedBodyIndex()); // locked at its value in the *start* state: make start equal ref for that mobilizer so goal is reachable
      bodies[lockB].setQFromVector(s,bodies[lockB].getQAsVector(sref)); qLockedBefore=bodies[lockB].getQAsVector(s); }
    try{ ik.initialize(s); for(size_t m=0;m<stations.size();++m) markers->moveOneObservation(Markers::ObservationIx((int)m), bodies[mbody[m]].findStationLocationInGround(sref,stations[m]));
      Real g0=ik.calcCurrentGoal(); Real g=ik.assemble(); ik.updateFromInternalState(s); sys.realize(s,Stage::Position); n++;
      Real err=0; for(size_t m=0;m<stations.size();++m) err=std::max(err,(bodies[mbody[m]].findStationLocationInGround(s,stations[m])-bodies[mbody[m]].findStationLocationInGround(sref,stations[m])).norm()); if(err>wErr) wErr=err; if(g>wGoal) wGoal=g;
      std::string why; if(g>g0+1e-12) why+=" goal got worse"; if(err>1e-3) why+=" markers not matched: max err "+std::to_string(err)+" goal "+std::to_string(g); if(withCons){ Real qe=s.getQErr().norm(); if(qe>1e-4) why+=" constraint error "+std::to_string(qe); }
      if(doLock){ Vector qa=bodies[lockB].getQAsVector(s); // Assembler works in Euler internally; compare poses of the mobilizer
        State t=s; bodies[lockB].setQFromVector(t,qLockedBefore); sys.realize(t,Stage::Position); Transform X1=bodies[lockB].getMobilizerTransform(s), X2=bodies[lockB].getMobilizerTransform(t); Real d=(X1.p()-X2.p()).norm()+(X1.R().asMat33()-X2.R().asMat33()).norm(); if(d>1e-9){ why+=" locked mobilizer moved by "+std::to_string(d); nLockBad++; } }
      if(!why.empty()){ if(nbad++<6) printf("it=%d nb=%d cons=%d lock=%d g0=%.3g:%s\n",it,nb,(int)withCons,(int)doLock,g0,why.c_str()); } }
    catch(const std::exception& e){ if(nExc++<3) printf("exc: %.140s\n",e.what()); }
  }
  printf("seed=%d assembled=%d exceptions=%d bad=%d (locked moved %d) worst marker err=%.1e worst goal=%.1e\n",seed,n,nExc,nbad,nLockBad,wErr,wGoal);
}
