#include "Simbody.h"
#include <cstdio>
#include <cmath>
using namespace SimTK;
int main(){
  { // 1. MLS stale
    MultibodySystem sys; SimbodyMatterSubsystem matter(sys); GeneralForceSubsystem forces(sys);
    Body::Rigid body(MassProperties(1,Vec3(0),Inertia(1)));
    MobilizedBody::Pin pin(matter.Ground(),Transform(),body,Transform());
    Force::MobilityLinearSpring spr(forces,pin,MobilizerQIndex(0),10.0,0.0);
    State s=sys.realizeTopology(); pin.setQ(s,0.5); sys.realize(s,Stage::Acceleration);
    Real f1=sys.getMobilityForces(s,Stage::Dynamics)[0];
    spr.setStiffness(s,20.0); sys.realize(s,Stage::Acceleration);
    Real f2=sys.getMobilityForces(s,Stage::Dynamics)[0];
    State t=sys.realizeTopology(); pin.setQ(t,0.5); spr.setStiffness(t,20.0); sys.realize(t,Stage::Acceleration);
    Real f3=sys.getMobilityForces(t,Stage::Dynamics)[0];
    printf("[1] MLS: f(k=10)=%g  after setStiffness(20)=%g  fresh state k=20 -> %g  PE after=%g\n",f1,f2,f3,sys.calcPotentialEnergy(s));
  }
  { // 2. string
    double d=0; float fl=0; bool b=false; int i=0;
    printf("[2] '1.5abc'->double ok=%d val=%g ; '2.5 x'->float ok=%d ; '1x'->bool ok=%d ; '12abc'->int ok=%d ; '1.5 '->double ok=%d\n",
      (int)String("1.5abc").tryConvertTo(d), d, (int)String("2.5 x").tryConvertTo(fl), (int)String("1x").tryConvertTo(b), (int)String("12abc").tryConvertTo(i), (int)String("1.5 ").tryConvertTo(d));
  }
  { // 3. ellipsoid fit linear velocity
    for (int sph=0; sph<2; ++sph){
    MultibodySystem sys; SimbodyMatterSubsystem matter(sys);
    Body::Rigid body(MassProperties(1,Vec3(0),Inertia(1)));
    Vec3 radii = sph? Vec3(0.7,0.7,0.7):Vec3(0.5,0.7,0.9);
    MobilizedBody::Ellipsoid e(matter.Ground(),Transform(),body,Transform(),radii);
    State s=sys.realizeTopology(); matter.setUseEulerAngles(s,true); sys.realizeModel(s);
    e.setQFromVector(s,Vector(Vec3(0.3,-0.4,0.2))); e.setUFromVector(s,Vector(Vec3(0.5,-0.7,0.3)));
    sys.realize(s,Stage::Velocity); SpatialVec V=e.getMobilizerVelocity(s);
    State t=s; e.setUFromVector(t,Vector(Vec3(0,0,0))); sys.realize(t,Stage::Position); e.setUToFitLinearVelocity(t,V[1]); sys.realize(t,Stage::Velocity);
    SpatialVec V2=e.getMobilizerVelocity(t);
    printf("[3] ellipsoid radii=(%g,%g,%g): target v=(%g,%g,%g) got v=(%g,%g,%g) |dv|=%g\n",radii[0],radii[1],radii[2],V[1][0],V[1][1],V[1][2],V2[1][0],V2[1][1],V2[1][2],(V[1]-V2[1]).norm());
    }
  }
  { // 4. UniformGravity zero height
    MultibodySystem sys; SimbodyMatterSubsystem matter(sys); GeneralForceSubsystem forces(sys);
    Body::Rigid body(MassProperties(2,Vec3(0),Inertia(1)));
    MobilizedBody::Translation tr(matter.Ground(),Transform(),body,Transform());
    Force::UniformGravity g(forces,matter,Vec3(0,-9.8,0),3.0);
    State s=sys.realizeTopology(); tr.setQFromVector(s,Vector(Vec3(0,3.0,0))); sys.realize(s,Stage::Position);
    printf("[4] UniformGravity g=9.8 zeroHeight=3, body at height 3: PE=%g (expected 0 if zero height is a height)\n", sys.calcPotentialEnergy(s));
    tr.setQFromVector(s,Vector(Vec3(0,3.0/9.8,0))); sys.realize(s,Stage::Position);
    printf("    at height 3/9.8: PE=%g\n", sys.calcPotentialEnergy(s));
  }
  { // 5. Random uniform tiny range
    double mn=1.0, mx=std::nextafter(std::nextafter(1.0,2.0),2.0); Random::Uniform r(mn,mx); r.setSeed(7); int bad=0; for(int i=0;i<100000;++i){ double v=r.getValue(); if(!(v>=mn&&v<mx)) bad++; }
    printf("[5] Uniform[1,1+2ulp): %d of 100000 values outside [min,max)\n",bad);
    Random::Uniform r2(-5,-2); r2.setSeed(3); int bad2=0; for(int i=0;i<100000;++i){ int v=r2.getIntValue(); if(!(v>=-5&&v<-2)) bad2++; } printf("    int mode [-5,-2): bad=%d\n",bad2);
  }
}
