#include "SimTKmath.h"
#include <cstdio>
#include <cmath>
using namespace SimTK;
int main(int argc,char**argv){
  int seed=argc>1?atoi(argv[1]):1; Random::Uniform rnd(-1,1); rnd.setSeed(seed);
  auto rv=[&](){return Vec3(rnd.getValue(),rnd.getValue(),rnd.getValue());};
  auto rx=[&](){return Transform(Rotation(rnd.getValue()*3,UnitVec3(rv())), 2*rv());};
  int nbad=0,n=0,ncontact=0;
  for(int it=0;it<20000;++it){
    int pair=it%3; n++;
    if(pair==0){ // sphere-sphere
      Real r1=0.2+rnd.getValue()+1, r2=0.2+rnd.getValue()+1; ContactGeometry::Sphere s1(r1), s2(r2); Transform X1=rx(); UnitVec3 d(rv()); Real gap=(it%7==0)? 0.8*rnd.getValue() : 0.05*rnd.getValue(); Transform X2(Rotation(rnd.getValue(),UnitVec3(rv())), X1.p()+ (r1+r2+gap)*Vec3(d));
      ContactTracker::SphereSphere tr; UntrackedContact prior(ContactSurfaceIndex(0),ContactSurfaceIndex(1)); Contact cur; bool ok=tr.trackContact(prior,X1,s1,X2,s2,0.0,cur); if(!ok){ printf("trackContact returned false\n"); continue; }
      bool isC=CircularPointContact::isInstance(cur); if(std::abs(gap)<1e-9) continue;
      if(isC!=(gap<0)){ if(nbad++<5) printf("sphere-sphere gap=%g contact=%d\n",gap,(int)isC); continue; }
      if(isC){ ncontact++; const CircularPointContact& c=CircularPointContact::getAs(cur); Real ed=std::abs(c.getDepth()-(-gap)); Vec3 nG=X1.R()*Vec3(c.getNormal()); Real en=(nG-Vec3(d)).norm(); Vec3 oG=X1*c.getOrigin(); Vec3 oRef=X1.p()+(r1+gap/2)*Vec3(d); Real eo=(oG-oRef).norm(); Real eR=std::abs(c.getEffectiveRadius()-r1*r2/(r1+r2));
        if(ed>1e-10||en>1e-10||eo>1e-10||eR>1e-10){ if(nbad++<5) printf("sphere-sphere depth err %.1e normal err %.1e origin err %.1e R err %.1e\n",ed,en,eo,eR);} }
    } else if(pair==1){ // halfspace-sphere: halfspace occupies x>0 in its frame, outward normal -x
      Real r=0.2+rnd.getValue()+1; ContactGeometry::HalfSpace hs; ContactGeometry::Sphere sp(r); Transform X1=rx(); Real gap=(it%7==0)?0.8*rnd.getValue():0.05*rnd.getValue(); Vec3 cH(-(r+gap), rnd.getValue(), rnd.getValue()); Transform X2(Rotation(rnd.getValue(),UnitVec3(rv())), X1*cH);
      ContactTracker::HalfSpaceSphere tr; UntrackedContact prior(ContactSurfaceIndex(0),ContactSurfaceIndex(1)); Contact cur; tr.trackContact(prior,X1,hs,X2,sp,0.0,cur); bool isC=CircularPointContact::isInstance(cur); if(std::abs(gap)<1e-9) continue;
      if(isC!=(gap<0)){ if(nbad++<5) printf("halfspace-sphere gap=%g contact=%d\n",gap,(int)isC); continue; }
      if(isC){ ncontact++; const CircularPointContact& c=CircularPointContact::getAs(cur); Real ed=std::abs(c.getDepth()+gap); Real en=(Vec3(c.getNormal())-Vec3(-1,0,0)).norm(); // normal from surface1 (halfspace) toward surface2 (sphere): -x
        Vec3 oRef(-gap/2 /*surfaces at +-d/2: halfspace surface x=0, sphere bottom at x=-gap... */,cH[1],cH[2]); oRef[0]= (0 + (-(gap)))/2; Real eo=(c.getOrigin()-oRef).norm(); Real eR=std::abs(c.getEffectiveRadius()-r);
        if(ed>1e-10||en>1e-10||eo>1e-10||eR>1e-10){ if(nbad++<5) printf("halfspace-sphere depth err %.1e normal err %.1e (n=%g %g %g) origin err %.1e (o=%g ref %g) R err %.1e\n",ed,en,c.getNormal()[0],c.getNormal()[1],c.getNormal()[2],eo,c.getOrigin()[0],oRef[0],eR);} }
    } else { // halfspace-ellipsoid
      Vec3 rad(0.3+rnd.getValue()+1,0.3+rnd.getValue()+1,0.3+rnd.getValue()+1); ContactGeometry::HalfSpace hs; ContactGeometry::Ellipsoid el(rad); Transform X1=rx(); Rotation R_HE(rnd.getValue()*3,UnitVec3(rv()));
      // support of ellipsoid in +x direction of halfspace frame (deepest point): dir in ellipsoid frame = ~R_HE * x
      Vec3 dE=~R_HE*Vec3(1,0,0); Vec3 a2(rad[0]*rad[0],rad[1]*rad[1],rad[2]*rad[2]); Real h=std::sqrt(a2[0]*dE[0]*dE[0]+a2[1]*dE[1]*dE[1]+a2[2]*dE[2]*dE[2]); // support distance
      Real gap=(it%7==0)?0.8*rnd.getValue():0.05*rnd.getValue(); Vec3 cH(-(h+gap),rnd.getValue(),rnd.getValue()); Transform X2(X1.R()*R_HE, X1*cH);
      ContactTracker::HalfSpaceEllipsoid tr; UntrackedContact prior(ContactSurfaceIndex(0),ContactSurfaceIndex(1)); Contact cur; tr.trackContact(prior,X1,hs,X2,el,0.0,cur); bool isC=EllipticalPointContact::isInstance(cur); if(std::abs(gap)<1e-9) continue;
      if(isC!=(gap<0)){ if(nbad++<5) printf("halfspace-ellipsoid gap=%g contact=%d\n",gap,(int)isC); continue; }
      if(isC){ ncontact++; const EllipticalPointContact& c=EllipticalPointContact::getAs(cur); Real ed=std::abs(c.getDepth()+gap); if(ed>1e-9){ if(nbad++<5) printf("halfspace-ellipsoid depth err %.1e (depth=%g expected %g)\n",ed,c.getDepth(),-gap);} }
    }
  }
  printf("seed=%d n=%d contacts=%d bad=%d\n",seed,n,ncontact,nbad);
}
