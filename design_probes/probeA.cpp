#include "Simbody.h"
#include <cstdio>
#include <functional>
using namespace SimTK;
// spatial inertia about body origin, in G (6x6 as Mat66 blocks)
struct SI { Mat33 I; Vec3 mc; Real m; };
static SI spatialInertiaG(const MassProperties& mp, const Rotation& R){
  SI s; s.m=mp.getMass(); Vec3 c=R*mp.getMassCenter(); s.mc=s.m*c;
  Mat33 Ib = mp.getInertia().toMat33(); // about body origin in B
  s.I = R*Ib*~R; return s; }
static SpatialVec mulSI(const SI& s, const SpatialVec& V){ // momentum-like: [I w + mc x v ; m v - mc x w]
  return SpatialVec(s.I*V[0] + s.mc % V[1], s.m*V[1] - s.mc % V[0]); }
int main(int argc,char**argv){
  int seed = argc>1?atoi(argv[1]):1; Random::Uniform rnd(-1,1); rnd.setSeed(seed);
  auto rv=[&](){return Vec3(rnd.getValue(),rnd.getValue(),rnd.getValue());};
  auto rx=[&](){return Transform(Rotation(rnd.getValue()*2,UnitVec3(rv())), rv());};
  double worstM=0,worstR=0,worstKE=0; int ncase=0;
  for(int it=0; it<300; ++it){
    MultibodySystem sys; SimbodyMatterSubsystem matter(sys); GeneralForceSubsystem forces(sys);
    int nb = 1 + (int)(3.5*(rnd.getValue()+1));
    std::vector<MobilizedBody> bodies; bodies.push_back(matter.Ground());
    for(int b=0;b<nb;++b){
      Real m = 0.2+2*(rnd.getValue()+1); Vec3 c=0.3*rv();
      Rotation Rp(rnd.getValue()*3,UnitVec3(rv())); Vec3 pm(0.5+0.4*(rnd.getValue()+1),0,0); pm[1]=pm[0]*(0.6+0.2*rnd.getValue()); pm[2]=(pm[0]+pm[1])*(0.6+0.3*rnd.getValue());
      Mat33 Ic = Rp*Mat33(pm[0],0,0, 0,pm[1],0, 0,0,pm[2])*~Rp; SymMat33 Isym(Ic); Inertia Icen{Isym}; 
      Body::Rigid body(MassProperties(m,c,Icen.shiftFromMassCenter(c,m)));
      MobilizedBody& par = bodies[(int)((rnd.getValue()+1)*0.4999*bodies.size())];
      int fk=(int)((rnd.getValue()+1)*1.4999), ok=(int)((rnd.getValue()+1)*0.9999);
      Transform XPF = fk==0?Transform():(fk==1?Transform(rv()):rx()); Transform XBM = ok==0?Transform():rx();
      MobilizedBody::Direction dir = rnd.getValue()>0?MobilizedBody::Forward:MobilizedBody::Reverse;
      int type=(int)((rnd.getValue()+1)*0.4999*17);
      switch(type){
        case 0: bodies.push_back(MobilizedBody::Pin(par,XPF,body,XBM,dir)); break;
        case 1: bodies.push_back(MobilizedBody::Slider(par,XPF,body,XBM,dir)); break;
        case 2: bodies.push_back(MobilizedBody::Universal(par,XPF,body,XBM,dir)); break;
        case 3: bodies.push_back(MobilizedBody::Cylinder(par,XPF,body,XBM,dir)); break;
        case 4: bodies.push_back(MobilizedBody::BendStretch(par,XPF,body,XBM,dir)); break;
        case 5: bodies.push_back(MobilizedBody::Planar(par,XPF,body,XBM,dir)); break;
        case 6: bodies.push_back(MobilizedBody::Gimbal(par,XPF,body,XBM,dir)); break;
        case 7: bodies.push_back(MobilizedBody::Bushing(par,XPF,body,XBM,dir)); break;
        case 8: bodies.push_back(MobilizedBody::Ball(par,XPF,body,XBM,dir)); break;
        case 9: bodies.push_back(MobilizedBody::Free(par,XPF,body,XBM,dir)); break;
        case 10: bodies.push_back(MobilizedBody::Translation(par,XPF,body,XBM,dir)); break;
        case 11: bodies.push_back(MobilizedBody::Screw(par,XPF,body,XBM,0.3+rnd.getValue(),dir)); break;
        case 12: bodies.push_back(MobilizedBody::SphericalCoords(par,XPF,body,XBM,dir)); break;
        case 13: bodies.push_back(MobilizedBody::Ellipsoid(par,XPF,body,XBM,Vec3(0.5,0.7,0.9),dir)); break;
        case 14: bodies.push_back(MobilizedBody::CantileverFreeBeam(par,XPF,body,XBM,0.8,dir)); break;
        case 15: bodies.push_back(MobilizedBody::Weld(par,XPF,body,XBM)); break;
        default: bodies.push_back(MobilizedBody::Free(par,XPF,body,XBM,dir)); break;
      }
    }
    State s = sys.realizeTopology();
    bool euler = rnd.getValue()>0; matter.setUseEulerAngles(s,euler); sys.realizeModel(s);
    int nq=s.getNQ(), nu=s.getNU(); if(nu==0) continue;
    for(int i=0;i<nq;++i) s.updQ()[i]=0.9*rnd.getValue();
    // spherical coords radius away from zero, zenith away from 0: crude: add offsets
    for(int b=1;b<=nb;++b){ const MobilizedBody& mb=matter.getMobilizedBody(MobilizedBodyIndex(b)); if(MobilizedBody::SphericalCoords::isInstanceOf(mb)){ Vector q(3); q[0]=rnd.getValue(); q[1]=1.0+0.4*rnd.getValue(); q[2]=0.7+0.3*rnd.getValue(); mb.setQFromVector(s,q);} }
    Vector u(nu); for(int i=0;i<nu;++i) u[i]=rnd.getValue(); s.updU()=u;
    sys.realize(s,Stage::Velocity);
    int NB=matter.getNumBodies();
    // J columns from body velocities
    std::vector<std::vector<SpatialVec>> J(nu, std::vector<SpatialVec>(NB));
    { State t=s; for(int i=0;i<nu;++i){ t.updU()=0; t.updU()[i]=1; sys.realize(t,Stage::Velocity); for(int b=0;b<NB;++b) J[i][b]=matter.getMobilizedBody(MobilizedBodyIndex(b)).getBodyVelocity(t);} }
    std::vector<SI> si(NB); for(int b=1;b<NB;++b){ const MobilizedBody& mb=matter.getMobilizedBody(MobilizedBodyIndex(b)); si[b]=spatialInertiaG(mb.getBodyMassProperties(s), mb.getBodyRotation(s)); }
    Matrix Mref(nu,nu); Mref=0; for(int i=0;i<nu;++i)for(int j=0;j<nu;++j){ Real a=0; for(int b=1;b<NB;++b){ SpatialVec P=mulSI(si[b],J[j][b]); a+= ~J[i][b][0]*P[0] + ~J[i][b][1]*P[1]; } Mref(i,j)=a; }
    Matrix M; matter.calcM(s,M); Real em=(M-Mref).norm()/(M.norm()+1e-30); if(em>worstM) worstM=em;
    // KE
    Real ke=0; for(int b=1;b<NB;++b){ SpatialVec V=matter.getMobilizedBody(MobilizedBodyIndex(b)).getBodyVelocity(s); SpatialVec P=mulSI(si[b],V); ke+=0.5*(~V[0]*P[0]+~V[1]*P[1]); }
    Real eke=std::abs(ke-matter.calcKineticEnergy(s))/(std::abs(ke)+1e-30); if(eke>worstKE) worstKE=eke;
    // residual reference: body accelerations by FD of velocities along motion with udot
    Vector udot(nu); for(int i=0;i<nu;++i) udot[i]=rnd.getValue();
    Vector qdot=s.getQDot(); Vector qdd; matter.calcQDotDot(s,udot,qdd);
    auto velAt=[&](Real h, std::vector<SpatialVec>& V){ State t=s; t.updQ()=s.getQ()+h*qdot+0.5*h*h*qdd; t.updU()=u+h*udot; sys.realize(t,Stage::Velocity); V.resize(NB); for(int b=0;b<NB;++b) V[b]=matter.getMobilizedBody(MobilizedBodyIndex(b)).getBodyVelocity(t); };
    Real h=1e-3; std::vector<SpatialVec> Vp,Vm,Vpp,Vmm; velAt(h,Vp); velAt(-h,Vm); velAt(2*h,Vpp); velAt(-2*h,Vmm);
    Vector_<SpatialVec> F(NB); for(int b=0;b<NB;++b) F[b]=SpatialVec(rv(),rv()); Vector f(nu); for(int i=0;i<nu;++i) f[i]=rnd.getValue();
    Vector rref(nu); rref=0;
    for(int b=1;b<NB;++b){ SpatialVec A=(8.0*(Vp[b]-Vm[b])-(Vpp[b]-Vmm[b]))/(12*h); SpatialVec V=matter.getMobilizedBody(MobilizedBodyIndex(b)).getBodyVelocity(s);
      // d/dt (spatial momentum about fixed ground origin)... use body-origin form: MA + gyro
      Vec3 w=V[0]; Vec3 mc=si[b].mc; Real m=si[b].m; 
      SpatialVec MA=mulSI(si[b],A); SpatialVec gyro(w % (si[b].I*w), m* (w % (w % (mc/m))) ); gyro[1] = w % (w % mc); 
      SpatialVec tot = MA+gyro-F[b];
      for(int i=0;i<nu;++i) rref[i]+= ~J[i][b][0]*tot[0] + ~J[i][b][1]*tot[1]; }
    rref -= f;
    Vector r; matter.calcResidualForceIgnoringConstraints(s,f,F,udot,r);
    Real er=(r-rref).norm()/(r.norm()+1e-30); if(er>worstR) worstR=er; ncase++;
    if(em>1e-9||er>1e-6||eke>1e-10) printf("case %d nb=%d nu=%d euler=%d: eM=%.2e eR=%.2e eKE=%.2e\n",it,nb,nu,(int)euler,em,er,eke);
  }
  printf("cases=%d worst relM=%.2e relResid=%.2e relKE=%.2e\n",ncase,worstM,worstR,worstKE);
}
