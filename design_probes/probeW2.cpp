#include "Simbody.h"
#include <cstdio>
using namespace SimTK;
int main(int argc,char**argv){
  bool useMatter = argc>1;
  MultibodySystem sys; SimbodyMatterSubsystem matter(sys); GeneralForceSubsystem forces(sys);
  Body::Rigid body(MassProperties(1,Vec3(0),Inertia(1))); MobilizedBody::Slider sl(matter.Ground(),Transform(),body,Transform());
  Subsystem& sub = useMatter? (Subsystem&)matter : (Subsystem&)sys.updDefaultSubsystem();
  Measure::Zero zero(sub); Measure::Sinusoid sn(sub,1,2,0.3); Measure::Integrate integ(sub,sn,zero); Measure::Differentiate d(sub,integ);
  printf("isUsingApproximation=%d operand numTimeDerivs=%d\n",(int)d.isUsingApproximation(), integ.getNumTimeDerivatives());
  State s=sys.realizeTopology(); sys.realize(s,Stage::Acceleration); printf("realized; d value=%g (expect %g)\n", d.getValue(s), sn.getValue(s));
}
