#include "SimTKcommon.h"
#include <cstdio>
#include <vector>
#include <string>
using namespace SimTK;
// Mini model: NS subsystems; per subsystem: stage; system stage; cache entries (earliest,latest, marked flag + depVersionAtMark), stage versions per subsystem.
struct CE { int sub; int earliest, latest; CacheEntryIndex ix; bool marked=false; std::vector<long> verAtMark; bool qpre=false; bool dvpre=false; int dv=-1; bool preOK=true; };
struct DV { int sub; int inval; DiscreteVariableIndex ix; int val; };
int main(int argc,char**argv){
  int seed=argc>1?atoi(argv[1]):1; Random::Uniform rnd(0,1); rnd.setSeed(seed); auto ri=[&](int n){ return (int)(rnd.getValue()*n) % n; };
  int nviol=0; long nops=0; long nInterestingInval=0;
  for(int it=0; it<300 && nviol<10; ++it){
    State s; int NS=1+ri(3); s.setNumSubsystems(NS);
    std::vector<int> stg(NS,0); int sys=0; // Stage::Empty=0, Topology=1, Model=2, Instance=3, Time=4, Position=5, Velocity=6, Dynamics=7, Acceleration=8, Report=9
    std::vector<CE> ces; std::vector<DV> dvs;
    // allocate at Empty stage: discrete vars and cache entries
    int nd=1+ri(4); for(int i=0;i<nd;++i){ DV d; d.sub=ri(NS); d.inval=2+ri(8); d.val=100+i; d.ix=s.allocateDiscreteVariable(SubsystemIndex(d.sub),Stage(d.inval),new Value<int>(d.val)); dvs.push_back(d);} 
    for(int i=0;i<NS;++i){ s.allocateQ(SubsystemIndex(i),Vector(2,1.0)); s.allocateU(SubsystemIndex(i),Vector(2,2.0)); s.allocateZ(SubsystemIndex(i),Vector(1,3.0)); }
    int nc=1+ri(6); for(int i=0;i<nc;++i){ CE c; c.sub=ri(NS); c.earliest=3+ri(6); bool lazy=ri(2); c.latest= lazy? 99 : c.earliest+ri(10-c.earliest);
      int kind=ri(3);
      if(kind==0){ c.ix=s.allocateCacheEntry(SubsystemIndex(c.sub),Stage(c.earliest), lazy?Stage::Infinity:Stage(c.latest), new Value<int>(0)); }
      else if(kind==1){ c.qpre=true; c.ix=s.allocateCacheEntryWithPrerequisites(SubsystemIndex(c.sub),Stage(c.earliest), lazy?Stage::Infinity:Stage(c.latest), true,false,false, Array_<DiscreteVarKey>(), Array_<CacheEntryKey>(), new Value<int>(0)); }
      else { c.dvpre=true; c.dv=ri((int)dvs.size()); Array_<DiscreteVarKey> dk; dk.push_back(DiscreteVarKey(SubsystemIndex(dvs[c.dv].sub),dvs[c.dv].ix)); c.ix=s.allocateCacheEntryWithPrerequisites(SubsystemIndex(c.sub),Stage(c.earliest), lazy?Stage::Infinity:Stage(c.latest), false,false,false, dk, Array_<CacheEntryKey>(), new Value<int>(0)); }
      if(c.qpre||c.dvpre) c.preOK=false; // must be marked explicitly
      ces.push_back(c); }
    auto advanceAll=[&](int to){ for(int i=0;i<NS;++i) if(stg[i]<to){ s.advanceSubsystemToStage(SubsystemIndex(i),Stage(to)); stg[i]=to;} if(sys<to){ s.advanceSystemToStage(Stage(to)); sys=to; if(sys==2) for(auto&c:ces) if(c.qpre){ c.preOK=false; c.marked=false; } } };
    advanceAll(1); advanceAll(2); advanceAll(3);
    // model helpers
    std::vector<std::vector<long>> ver(NS,std::vector<long>(11,1));
    auto invalidate=[&](int g){ // lower all stages >= g to g-1
      for(int i=0;i<NS;++i) if(stg[i]>=g){ for(int k=g;k<=stg[i];++k) ver[i][k]++; stg[i]=g-1; } if(sys>=g) sys=g-1; };
    auto valid=[&](const CE& c)->bool{ if(stg[c.sub]>=c.latest) return true; if(stg[c.sub]<c.earliest) return false; return c.marked && c.preOK; };
    for(int op=0; op<60; ++op){ nops++;
      int k=ri(8); bool tr=(getenv("TRACEIT") && it==atoi(getenv("TRACEIT")));
      if(k==0){ // advance one subsystem by one stage if legal (<=9) 
        int i=ri(NS); if(stg[i]<9){ s.advanceSubsystemToStage(SubsystemIndex(i),Stage(stg[i]+1)); stg[i]++; } }
      else if(k==1){ int mn=99; for(int i=0;i<NS;++i) mn=std::min(mn,stg[i]); if(sys<mn){ s.advanceSystemToStage(Stage(sys+1)); sys++; if(sys==2) for(auto&c:ces) if(c.qpre){ c.preOK=false; c.marked=false; } } }
      else if(k==2){ int w=ri(4); if(w==0){ s.updQ(); invalidate(5); for(auto&c:ces) if(c.qpre){ c.preOK=false; c.marked=false;} } else if(w==1){ s.updU(); invalidate(6);} else if(w==2){ s.updZ(); invalidate(7);} else { s.updTime(); invalidate(4);} }
      else if(k==3){ int d=ri((int)dvs.size()); Value<int>::updDowncast(s.updDiscreteVariable(SubsystemIndex(dvs[d].sub),dvs[d].ix))=++dvs[d].val; invalidate(dvs[d].inval); for(auto&c:ces) if(c.dvpre&&c.dv==d){ c.preOK=false; c.marked=false; nInterestingInval++; } }
      else if(k==4){ int c=ri((int)ces.size()); if(stg[ces[c].sub]>=ces[c].earliest){ s.markCacheValueRealized(SubsystemIndex(ces[c].sub),ces[c].ix); ces[c].marked=true; ces[c].preOK=true; ces[c].verAtMark=ver[ces[c].sub]; } }
      else if(k==5){ int c=ri((int)ces.size()); s.markCacheValueNotRealized(SubsystemIndex(ces[c].sub),ces[c].ix); ces[c].marked=false; }
      else if(k==6){ int g=3+ri(7); s.invalidateAllCacheAtOrAbove(Stage(g)); invalidate(g); }
      else { advanceAll(std::min(9,sys+1)); }
      if(tr){ printf("  op %d kind=%d sys=%d stg:",op,k,sys); for(int i=0;i<NS;++i) printf(" %d",stg[i]); printf(" | ce4: marked=%d preOK=%d lib=%d\n", ces.size()>4?(int)ces[4].marked:-1, ces.size()>4?(int)ces[4].preOK:-1, ces.size()>4?(int)s.isCacheValueRealized(SubsystemIndex(ces[4].sub),ces[4].ix):-1);}
      // marked flag is cleared when depends-on (earliest) stage version changed since mark
      for(auto&c:ces) if(c.marked && c.verAtMark[c.earliest]!=ver[c.sub][c.earliest]) c.marked=false;
      // compare
      bool bad=false; std::string why;
      if((int)s.getSystemStage()!=sys){bad=true; why="system stage";}
      for(int i=0;i<NS&&!bad;++i) if((int)s.getSubsystemStage(SubsystemIndex(i))!=stg[i]){bad=true; why="subsystem stage";}
      for(size_t c=0;c<ces.size()&&!bad;++c){ bool v=s.isCacheValueRealized(SubsystemIndex(ces[c].sub),ces[c].ix); if(v!=valid(ces[c])){ bad=true; why="cache validity ce"+std::to_string(c)+" lib="+std::to_string(v)+" model="+std::to_string(valid(ces[c]))+" earliest="+std::to_string(ces[c].earliest)+" latest="+std::to_string(ces[c].latest)+" stage="+std::to_string(stg[ces[c].sub])+" marked="+std::to_string(ces[c].marked)+" preOK="+std::to_string(ces[c].preOK)+" qpre="+std::to_string(ces[c].qpre)+" dvpre="+std::to_string(ces[c].dvpre); }
        bool threw=false; try{ s.getCacheEntry(SubsystemIndex(ces[c].sub),ces[c].ix);}catch(...){threw=true;} if(!bad && threw==v){ bad=true; why="getCacheEntry throw mismatch"; } }
      for(size_t d=0; d<dvs.size()&&!bad; ++d) if(Value<int>::downcast(s.getDiscreteVariable(SubsystemIndex(dvs[d].sub),dvs[d].ix))!=dvs[d].val){bad=true; why="dv value";}
      if(bad){ printf("it=%d op=%d kind=%d MISMATCH: %s\n",it,op,k,why.c_str()); nviol++; break; }
    }
  }
  printf("seed=%d ops=%ld prereq-invalidations=%ld mismatches=%d\n",seed,nops,nInterestingInval,nviol);
}
