#include "Simbody.h"
#include <cstdio>
#include <cmath>
#include <memory>
using namespace SimTK;
int main(int argc,char**argv){
  int seed=argc>1?atoi(argv[1]):1; Random::Uniform rnd(-1,1); rnd.setSeed(seed);
  double wAlg=0,wInt=0,wDelayLin=0,wDelaySin=0; int nbadExt=0,ncase=0,nstates=0; double wDiff=0;
  for(int it=0; it<60; ++it){
    MultibodySystem sys; SimbodyMatterSubsystem matter(sys); GeneralForceSubsystem forces(sys);
    Body::Rigid body(MassProperties(1,Vec3(0),Inertia(1))); MobilizedBody::Slider sl(matter.Ground(),Transform(),body,Transform()); Force::MobilityLinearSpring(forces,sl,MobilizerQIndex(0),20.0,0.0);
    Subsystem& sub=matter; // host measures in the matter subsystem
    Real A=0.5+rnd.getValue()+1, w=1+3*(rnd.getValue()+1), ph=rnd.getValue(); Real sc=1+rnd.getValue()*0.5, delay=0.05+0.2*(rnd.getValue()+1);
    Measure::Time tm(sub); Measure::Sinusoid sn(sub,A,w,ph); Measure::Scale scaled(sub,sc,sn); Measure::Plus plus(sub,scaled,tm); Measure::Minus minus(sub,plus,sn);
    Measure::Zero zero(sub); Measure::Integrate integ(sub,sn,zero); Measure::Minimum mn(sub,sn); Measure::Maximum mx(sub,sn); Measure::MaxAbs mxa(sub,sn); Measure::MinAbs mna(sub,sn);
    Measure::Delay dlin(sub,tm,delay); Measure::Delay dsin(sub,sn,delay); Measure::Differentiate dinteg(sub,sn); dinteg.setForceUseApproximation(true);
    State s=sys.realizeTopology(); sl.setQ(s,0.2);
    int which=it%3; std::unique_ptr<Integrator> ig; if(which==0) ig.reset(new RungeKuttaMersonIntegrator(sys)); else if(which==1) ig.reset(new RungeKutta3Integrator(sys)); else ig.reset(new VerletIntegrator(sys));
    Real acc=std::pow(10,-3-3*std::abs(rnd.getValue())); ig->setAccuracy(acc); ig->setReturnEveryInternalStep(true); ig->initialize(s);
    Real T=1+rnd.getValue()*0.5; Real runMin=Infinity, runMax=-Infinity; Real maxStep=0, tPrev=0;
    while(true){ Integrator::SuccessfulStepStatus st=ig->stepTo(T); const State& c=ig->getState(); sys.realize(c,Stage::Acceleration); Real t=c.getTime(); nstates++; maxStep=std::max(maxStep,t-tPrev); tPrev=t;
      Real sv=A*std::sin(w*t+ph); runMin=std::min(runMin,sv); runMax=std::max(runMax,sv);
      Real e1=std::abs(sn.getValue(c)-sv)+std::abs(scaled.getValue(c)-sc*sv)+std::abs(plus.getValue(c)-(sc*sv+t))+std::abs(minus.getValue(c)-(sc*sv+t-sv)); if(e1>wAlg) wAlg=e1;
      Real iref=-A/w*(std::cos(w*t+ph)-std::cos(ph)); Real e2=std::abs(integ.getValue(c)-iref)/acc; if(e2>wInt) wInt=e2;
      Real e5=std::abs(dinteg.getValue(c)-sv); if(e5>wDiff) wDiff=e5;
      // extremes two-sided: true continuous min over [0,t] <= reported <= min over visited states
      Real mnv=mn.getValue(c), mxv=mx.getValue(c); // continuous extremes of A sin(w t+ph) on [0,t]
      auto contExt=[&](bool wantMin){ Real best=A*std::sin(ph); Real v=A*std::sin(w*t+ph); best=wantMin?std::min(best,v):std::max(best,v); // interior extrema at w t'+ph = pi/2 + k pi
        for(int k=-50;k<50;++k){ Real tt=(Pi/2+k*Pi-ph)/w; if(tt>0&&tt<t){ Real vv=A*std::sin(w*tt+ph); best=wantMin?std::min(best,vv):std::max(best,vv);} } return best; };
      if(!(mnv>=contExt(true)-1e-12 && mnv<=runMin+1e-12) || !(mxv<=contExt(false)+1e-12 && mxv>=runMax-1e-12)){ if(nbadExt++<4) printf("extreme out of bracket at t=%.4f: min=%.6f [%.6f,%.6f] max=%.6f [%.6f,%.6f]\n",t,mnv,contExt(true),runMin,mxv,runMax,contExt(false)); }
      Real dref= t-delay<0? 0.0 : t-delay; Real e3=std::abs(dlin.getValue(c)-dref); if(e3>wDelayLin) wDelayLin=e3;
      Real dsref= t-delay<0? A*std::sin(ph) : A*std::sin(w*(t-delay)+ph); Real e4=std::abs(dsin.getValue(c)-dsref); if(e4>wDelaySin) wDelaySin=e4;
      if(st==Integrator::EndOfSimulation || t>=T) break; }
    ncase++;
  }
  printf("seed=%d cases=%d states=%d worst: algebraic=%.1e integrate/acc=%.2f differentiate(integrate)=%.1e extremes-out-of-bracket=%d delay(time)=%.1e delay(sin)=%.1e\n",seed,ncase,nstates,wAlg,wInt,wDiff,nbadExt,wDelayLin,wDelaySin);
}
