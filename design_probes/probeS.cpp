#include "Simbody.h"
#include <cstdio>
#include <cmath>
using namespace SimTK;
static Rotation bodyXYZ(Vec3 a){ return Rotation(BodyRotationSequence,a[0],XAxis,a[1],YAxis,a[2],ZAxis); }
int main(int argc,char**argv){
  int seed=argc>1?atoi(argv[1]):1; Random::Uniform rnd(-1,1); rnd.setSeed(seed);
  auto rv=[&](){return Vec3(rnd.getValue(),rnd.getValue(),rnd.getValue());};
  auto rx=[&](){return Transform(Rotation(rnd.getValue()*2,UnitVec3(rv())), rv());};
  bool ellipsoidNormalFormula=false; double wPose=0,wVel=0,wAcc=0,wBack=0,wRef=0; int n=0,nref=0; int badRef[20]={0};
  for(int it=0; it<600; ++it){
    MultibodySystem sys; SimbodyMatterSubsystem matter(sys); GeneralForceSubsystem forces(sys); Force::Gravity(forces,matter,Vec3(0.3,-9.8,0.5)); Force::DiscreteForces df(forces,matter);
    Body::Rigid body(MassProperties(1.3,Vec3(.1,.2,.1),Inertia(1,1.1,1.2)+Inertia(Vec3(.2,.2,.2),1.3)));
    std::vector<MobilizedBody> bodies; bodies.push_back(matter.Ground()); int nb=2+(int)((rnd.getValue()+1)*1.999); std::vector<int> types; std::vector<bool> revs; Vec3 radii(0.5,0.7,0.9); Real pitch=0.3, L=0.8;
    for(int b=0;b<nb;++b){ MobilizedBody& par=bodies[(int)((rnd.getValue()+1)*0.4999*bodies.size())]; Transform XPF=rx(),XBM=rx(); bool rev=rnd.getValue()>0; MobilizedBody::Direction dir=rev?MobilizedBody::Reverse:MobilizedBody::Forward; int t=(int)((rnd.getValue()+1)*0.4999*12); types.push_back(t); revs.push_back(rev);
      switch(t){case 0: bodies.push_back(MobilizedBody::Ball(par,XPF,body,XBM,dir)); break; case 1: bodies.push_back(MobilizedBody::Free(par,XPF,body,XBM,dir)); break; case 2: bodies.push_back(MobilizedBody::Ellipsoid(par,XPF,body,XBM,radii,dir)); break; case 3: bodies.push_back(MobilizedBody::Gimbal(par,XPF,body,XBM,dir)); break;
        case 4: bodies.push_back(MobilizedBody::Bushing(par,XPF,body,XBM,dir)); break; case 5: bodies.push_back(MobilizedBody::Universal(par,XPF,body,XBM,dir)); break; case 6: bodies.push_back(MobilizedBody::BendStretch(par,XPF,body,XBM,dir)); break; case 7: bodies.push_back(MobilizedBody::Planar(par,XPF,body,XBM,dir)); break;
        case 8: bodies.push_back(MobilizedBody::Screw(par,XPF,body,XBM,pitch,dir)); break; case 9: bodies.push_back(MobilizedBody::CantileverFreeBeam(par,XPF,body,XBM,L,dir)); break; case 10: bodies.push_back(MobilizedBody::Cylinder(par,XPF,body,XBM,dir)); break; default: bodies.push_back(MobilizedBody::SphericalCoords(par,XPF,body,XBM,dir)); } }
    State sq=sys.realizeTopology(); sys.realizeModel(sq); int nq=sq.getNQ(),nu=sq.getNU(); for(int i=0;i<nq;++i) sq.updQ()[i]=0.8*rnd.getValue(); for(int i=0;i<nu;++i) sq.updU()[i]=rnd.getValue();
    for(int b=0;b<nb;++b) if(types[b]==11){ Vector q(3); q[0]=rnd.getValue(); q[1]=1.0+0.4*rnd.getValue(); q[2]=0.7+0.3*rnd.getValue(); bodies[b+1].setQFromVector(sq,q);} 
    Vector fm(nu); for(int i=0;i<nu;++i) fm[i]=rnd.getValue(); df.setAllMobilityForces(sq,fm);
    sys.realize(sq,Stage::Acceleration);
    // ---- C05-style reference for X_FM
    for(int b=0;b<nb;++b){ const MobilizedBody& mb=bodies[b+1]; Vector q=mb.getQAsVector(sq); Transform X; bool have=true; int t=types[b];
      auto quatR=[&](int off){ Vec4 v(q[off],q[off+1],q[off+2],q[off+3]); return Rotation(Quaternion(v)); };
      switch(t){case 0: X=Transform(quatR(0),Vec3(0)); break; case 1: X=Transform(quatR(0),Vec3(q[4],q[5],q[6])); break;
        case 2: { Rotation R=quatR(0); Vec3 nz=R.z(); Vec3 a2(radii[0]*radii[0],radii[1]*radii[1],radii[2]*radii[2]); Real den=std::sqrt(a2[0]*nz[0]*nz[0]+a2[1]*nz[1]*nz[1]+a2[2]*nz[2]*nz[2]); X=Transform(R,Vec3(a2[0]*nz[0],a2[1]*nz[1],a2[2]*nz[2])/den); ellipsoidNormalFormula=true; } break;
        case 3: X=Transform(bodyXYZ(Vec3(q[0],q[1],q[2])),Vec3(0)); break; case 4: X=Transform(bodyXYZ(Vec3(q[0],q[1],q[2])),Vec3(q[3],q[4],q[5])); break;
        case 5: X=Transform(Rotation(BodyRotationSequence,q[0],XAxis,q[1],YAxis),Vec3(0)); break;
        case 6: { Rotation R(q[0],ZAxis); X=Transform(R,R*Vec3(q[1],0,0)); } break; case 7: X=Transform(Rotation(q[0],ZAxis),Vec3(q[1],q[2],0)); break;
        case 8: X=Transform(Rotation(q[0],ZAxis),Vec3(0,0,pitch*q[0])); break; case 9: X=Transform(bodyXYZ(Vec3(q[0],q[1],q[2])),Vec3(2.0/3*q[1]*L,-2.0/3*q[0]*L,L-4.0/15*(q[0]*q[0]+q[1]*q[1])*L)); break;
        case 10: X=Transform(Rotation(q[0],ZAxis),Vec3(0,0,q[1])); break; default: { Rotation R=Rotation(q[0],ZAxis)*Rotation(q[1],YAxis); X=Transform(R,R*Vec3(0,0,q[2])); } }
      if(revs[b]){ Transform Xi(~X); X=Xi; } Transform got=mb.getMobilizerTransform(sq); Real e=(got.p()-X.p()).norm(); Mat33 dR=got.R().asMat33()-X.R().asMat33(); for(int i=0;i<3;++i)for(int j=0;j<3;++j) e=std::max(e,std::abs(dR(i,j))); nref++; if(e>wRef) wRef=e; if(e>1e-12){ if(badRef[t]++<2) printf("X_FM reference mismatch type=%d rev=%d err=%.2e\n",t,(int)revs[b],e);} }
    // ---- C06: convert to Euler, compare
    State se=sq; matter.setUseEulerAngles(se,true); sys.realizeModel(se); matter.convertToEulerAngles(sq,se); se.updU()=sq.getU(); df.setAllMobilityForces(se,fm); sys.realize(se,Stage::Acceleration);
    for(MobilizedBodyIndex b(1); b<matter.getNumBodies(); ++b){ const MobilizedBody& mb=matter.getMobilizedBody(b); Transform X1=mb.getBodyTransform(sq),X2=mb.getBodyTransform(se); Real e=(X1.p()-X2.p()).norm(); Mat33 dR=X1.R().asMat33()-X2.R().asMat33(); for(int i=0;i<3;++i)for(int j=0;j<3;++j) e=std::max(e,std::abs(dR(i,j))); if(e>wPose) wPose=e;
      SpatialVec V1=mb.getBodyVelocity(sq),V2=mb.getBodyVelocity(se); Real ev=(V1[0]-V2[0]).norm()+(V1[1]-V2[1]).norm(); if(ev>wVel) wVel=ev; SpatialVec A1=mb.getBodyAcceleration(sq),A2=mb.getBodyAcceleration(se); Real ea=((A1[0]-A2[0]).norm()+(A1[1]-A2[1]).norm())/(A1[0].norm()+A1[1].norm()+1); if(ea>wAcc) wAcc=ea; }
    Real eu=(sq.getUDot()-se.getUDot()).norm()/(sq.getUDot().norm()+1); if(eu>wAcc) wAcc=eu;
    // back to quaternions
    State sb=sq; matter.convertToQuaternions(se,sb); sys.realize(sb,Stage::Position); for(MobilizedBodyIndex b(1); b<matter.getNumBodies(); ++b){ Transform X1=matter.getMobilizedBody(b).getBodyTransform(sq),X2=matter.getMobilizedBody(b).getBodyTransform(sb); Real e=(X1.p()-X2.p()).norm(); Mat33 dR=X1.R().asMat33()-X2.R().asMat33(); for(int i=0;i<3;++i)for(int j=0;j<3;++j) e=std::max(e,std::abs(dR(i,j))); if(e>wBack) wBack=e; }
    n++;
  }
  printf("seed=%d cases=%d mobilizers=%d worst: X_FM vs documented formula=%.1e | quat->Euler pose=%.1e vel=%.1e accel/udot=%.1e | roundtrip pose=%.1e\n",seed,n,nref,wRef,wPose,wVel,wAcc,wBack);
}
