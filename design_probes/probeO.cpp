#include "SimTKcommon.h"
#include <cstdio>
#include <cmath>
using namespace SimTK;
template<class P> static Mat<3,3,P> axisRot(int ax, P a){ P c=std::cos(a), s=std::sin(a); Mat<3,3,P> R(1); int i=(ax+1)%3,j=(ax+2)%3; R(i,i)=c; R(j,j)=c; R(i,j)=-s; R(j,i)=s; return R; }
template<class P> int run(int seed,const char* nm,P tol){
  Random::Uniform rnd(-1,1); rnd.setSeed(seed); int nbad=0,n=0; double wOrtho=0,wSeq=0,wRT=0,wQuat=0;
  CoordinateAxis axes[3]={XAxis,YAxis,ZAxis};
  for(int it=0;it<30000;++it){
    int a1=it%3, a2=(it/3)%3, a3=(it/9)%3; bool body=(it/27)%2; if(a1==a2||a2==a3) continue; n++;
    P q[3]; for(int k=0;k<3;++k){ int mode=(it/54+k)%5; double r=rnd.getValue(); q[k]= mode==0? P(Pi*r) : mode==1? P(1e-7*r) : mode==2? P(Pi/2+1e-6*r) : mode==3? P(Pi-1e-7*std::abs(r)) : P(3*r); }
    Rotation_<P> R(body?BodyRotationSequence:SpaceRotationSequence,q[0],axes[a1],q[1],axes[a2],q[2],axes[a3]);
    Mat<3,3,P> A1=axisRot<P>(a1,q[0]),A2=axisRot<P>(a2,q[1]),A3=axisRot<P>(a3,q[2]); Mat<3,3,P> ref= body? Mat<3,3,P>(A1*A2*A3) : Mat<3,3,P>(A3*A2*A1);
    double e=0; for(int i=0;i<3;++i)for(int j=0;j<3;++j) e=std::max(e,(double)std::abs(R.asMat33()(i,j)-ref(i,j))); if(e>wSeq) wSeq=e; if(e>tol){ if(nbad++<3) printf("%s seq %d%d%d body=%d err %.2e\n",nm,a1,a2,a3,(int)body,e); }
    Mat<3,3,P> RtR=~Mat<3,3,P>(R.asMat33())*Mat<3,3,P>(R.asMat33()); double eo=0; for(int i=0;i<3;++i)for(int j=0;j<3;++j) eo=std::max(eo,(double)std::abs(RtR(i,j)-(i==j))); if(eo>wOrtho) wOrtho=eo;
    // round trip angles->R->angles->R
    Vec<3,P> q2=R.convertThreeAxesRotationToThreeAngles(body?BodyRotationSequence:SpaceRotationSequence,axes[a1],axes[a2],axes[a3]);
    Rotation_<P> R2(body?BodyRotationSequence:SpaceRotationSequence,q2[0],axes[a1],q2[1],axes[a2],q2[2],axes[a3]); double er=0; for(int i=0;i<3;++i)for(int j=0;j<3;++j) er=std::max(er,(double)std::abs(R.asMat33()(i,j)-R2.asMat33()(i,j))); if(er>wRT) wRT=er; if(er>std::sqrt((double)tol)*10){ if(nbad++<6) printf("%s roundtrip seq %d%d%d body=%d q=(%g,%g,%g) q2=(%g,%g,%g) err %.2e\n",nm,a1,a2,a3,(int)body,(double)q[0],(double)q[1],(double)q[2],(double)q2[0],(double)q2[1],(double)q2[2],er); }
    Quaternion_<P> qt=R.convertRotationToQuaternion(); Rotation_<P> R3(qt); double eq=0; for(int i=0;i<3;++i)for(int j=0;j<3;++j) eq=std::max(eq,(double)std::abs(R.asMat33()(i,j)-R3.asMat33()(i,j))); if(eq>wQuat) wQuat=eq; if(eq>tol*10){ if(nbad++<9) printf("%s quaternion roundtrip err %.2e\n",nm,eq); }
  }
  printf("%s: n=%d bad=%d worst: seq-vs-reference=%.1e ortho=%.1e angle-roundtrip=%.1e quat-roundtrip=%.1e\n",nm,n,nbad,wSeq,wOrtho,wRT,wQuat); return nbad; }
int main(int argc,char**argv){ int seed=argc>1?atoi(argv[1]):1; run<double>(seed,"double",1e-14); run<float>(seed,"float",1e-5f); }
