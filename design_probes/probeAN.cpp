#include "SimTKcommon.h"
#include <cstdio>
#include <string>
#include <vector>
using namespace SimTK;
struct Nd { std::string tag,text; std::vector<std::pair<std::string,std::string>> attrs; std::vector<Nd> kids; };
static Random::Uniform* R; static int ri(int n){ return n<=0?0:(int)(R->getValue()*n)%n; }
static std::string rstr(bool tagLike){ const char* specials="<>&\"' \t=;/#%[]{}()!?."; int n=1+ri(8); std::string s; for(int i=0;i<n;++i){ if(tagLike) s+=(char)('a'+ri(26)); else { int k=ri(10); if(k<3) s+=specials[ri(22)]; else if(k<4) s+="&amp;"; else if(k<5) s+=(char)('0'+ri(10)); else s+=(char)('a'+ri(26)); } } return s; }
static Nd gen(int depth){ Nd n; n.tag=rstr(true); int na=ri(3); for(int i=0;i<na;++i){ std::string nm=rstr(true)+std::to_string(i); n.attrs.push_back({nm,rstr(false)}); } if(depth>=3||ri(3)==0){ if(ri(2)) n.text=rstr(false); } else { int nk=1+ri(3); for(int i=0;i<nk;++i) n.kids.push_back(gen(depth+1)); } return n; }
static Xml::Element build(const Nd& n){ Xml::Element e(n.tag, n.kids.empty()? String(n.text):String("")); for(auto&a:n.attrs) e.setAttributeValue(a.first,a.second); for(auto&k:n.kids) e.appendNode(build(k)); return e; }
static bool same(const Nd& n, Xml::Element e, std::string& why){ if(std::string(e.getElementTag())!=n.tag){ why="tag "+n.tag+" vs "+std::string(e.getElementTag()); return false; } for(auto&a:n.attrs){ if(!e.hasAttribute(a.first)){ why="missing attr "+a.first; return false;} if(std::string(e.getRequiredAttributeValue(a.first))!=a.second){ why="attr '"+a.second+"' vs '"+std::string(e.getRequiredAttributeValue(a.first))+"'"; return false; } }
  if(n.kids.empty()){ std::string v=e.getValue(); if(v!=n.text){ why="text '"+n.text+"' vs '"+v+"'"; return false; } return true; }
  Array_<Xml::Element> ks=e.getAllElements(); if((int)ks.size()!=(int)n.kids.size()){ why="child count"; return false; } for(size_t i=0;i<n.kids.size();++i) if(!same(n.kids[i],ks[(int)i],why)) return false; return true; }
int main(int argc,char**argv){ int seed=argc>1?atoi(argv[1]):1; Random::Uniform rnd(0,1); rnd.setSeed(seed); R=&rnd; int nbad=0,nexc=0,nfix=0,n=0; if(getenv("PRESERVE")) Xml::Document::setXmlCondenseWhiteSpace(false);
  for(int it=0; it<3000; ++it){ Nd root=gen(0); n++; try{ Xml::Document doc; doc.setRootTag(root.tag); Xml::Element re=doc.getRootElement(); for(auto&a:root.attrs) re.setAttributeValue(a.first,a.second); if(root.kids.empty()) re.setValue(root.text); for(auto&k:root.kids) re.appendNode(build(k));
      String s1; doc.writeToString(s1); Xml::Document d2; d2.readFromString(s1); String s2; d2.writeToString(s2); if(s1!=s2){ if(nfix++<3) printf("write/read/write not a fixed point:\n%.300s\n---\n%.300s\n",s1.c_str(),s2.c_str()); }
      std::string why; if(!same(root,d2.getRootElement(),why)){ if(nbad++<6) printf("round trip differs: %s\n   doc: %.200s\n",why.c_str(),s1.c_str()); } }
    catch(const std::exception& e){ if(nexc++<4) printf("exception: %.160s\n",e.what()); } }
  printf("seed=%d docs=%d content-mismatch=%d not-fixed-point=%d exceptions=%d\n",seed,n,nbad,nfix,nexc); }
