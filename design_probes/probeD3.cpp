#include "Simbody.h"
#include <cstdio>
#include <iostream>
using namespace SimTK;
int main(){
 for(int euler=0; euler<2; ++euler){
  MultibodySystem sys; SimbodyMatterSubsystem matter(sys); GeneralForceSubsystem forces(sys);
  Force::Gravity(forces,matter,Vec3(0,-9.8,0));
  Body::Rigid body(MassProperties(1,Vec3(.1,.2,.3),Inertia(1,1.1,1.2)+Inertia(Vec3(.2,.2,.2),1.5)));
  MobilizedBody::Ball b1(matter.Ground(),Transform(Vec3(.1,.2,.3)),body,Transform(Vec3(.3,.2,.1)));
  Constraint::ConstantCoordinate cc(b1,MobilizerQIndex(1),0.3);
  State s=sys.realizeTopology(); matter.setUseEulerAngles(s,euler); sys.realizeModel(s);
  int nq=s.getNQ(),nu=s.getNU(); Vector q(nq),u(nu),udot(nu); for(int i=0;i<nq;++i) q[i]=0.3+0.1*i; for(int i=0;i<nu;++i){u[i]=0.5-0.4*i; udot[i]=0.1*i-0.3;} s.updQ()=q; s.updU()=u;
  sys.realize(s,Stage::Velocity);
  Vector aerr,aerr0,bias; matter.calcConstraintAccelerationErrors(s,udot,aerr); matter.calcConstraintAccelerationErrors(s,Vector(),aerr0); matter.calcBiasForAccelerationConstraints(s,bias);
  Matrix G; matter.calcG(s,G); Vector qdd; matter.calcQDotDot(s,udot,qdd); Vector qdd0; matter.calcQDotDot(s,Vector(nu,0.0),qdd0);
  std::cout<<"euler="<<euler<<" G="<<G<<" G*udot="<<G*udot<<" aerr(udot)="<<aerr<<" aerr(0)="<<aerr0<<" calcBias="<<bias<<" qdotdot[1]="<<qdd[1]<<" (Ndot u)[1]="<<qdd0[1]<<"\n";
  sys.realize(s,Stage::Acceleration);
  std::cout<<"   after realize(Acceleration): udoterr="<<s.getUDotErr()<<" qdotdot[1]="<<s.getQDotDot()[1]<<"\n";
 }
}
