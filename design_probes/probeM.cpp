#include "Simbody.h"
#include <cstdio>
#include <iostream>
using namespace SimTK;
struct Built { MultibodySystem* sys; SimbodyMatterSubsystem* matter; Force::DiscreteForces* df; std::vector<MobilizedBody> bodies; };
int main(int argc,char**argv){
  int seed=argc>1?atoi(argv[1]):1; Random::Uniform rnd(-1,1); rnd.setSeed(seed);
  double wTwin=0,wErr=0,wPow=0,wLock=0; int ncase=0;
  for(int it=0; it<400; ++it){
    // decide spec first so both models are identical
    int nb = 2 + (int)(2.5*(rnd.getValue()+1));
    struct BS{int parent,type; Transform XPF,XBM; bool rev; Real m; Vec3 c; int motion; Real rate,amp,freq,phase; int level;}; std::vector<BS> spec;
    auto rv=[&](){return Vec3(rnd.getValue(),rnd.getValue(),rnd.getValue());};
    for(int b=0;b<nb;++b){ BS s; s.parent=(int)((rnd.getValue()+1)*0.4999*(b+1)); s.type=(int)((rnd.getValue()+1)*0.4999*6); s.XPF=Transform(Rotation(rnd.getValue()*2,UnitVec3(rv())),rv()); s.XBM=Transform(Rotation(rnd.getValue()*2,UnitVec3(rv())),rv()); s.rev=rnd.getValue()>0; s.m=1+0.5*rnd.getValue(); s.c=0.2*rv();
      s.motion=(int)((rnd.getValue()+1)*0.4999*5); s.rate=rnd.getValue(); s.amp=0.5*rnd.getValue(); s.freq=1+rnd.getValue(); s.phase=rnd.getValue(); s.level=(int)((rnd.getValue()+1)*0.4999*3); spec.push_back(s);} 
    auto build=[&](bool withMotion, Built& B){ B.sys=new MultibodySystem; B.matter=new SimbodyMatterSubsystem(*B.sys); GeneralForceSubsystem* f=new GeneralForceSubsystem(*B.sys); Force::Gravity(*f,*B.matter,Vec3(0.3,-9.8,0.5)); B.df=new Force::DiscreteForces(*f,*B.matter);
      B.bodies.clear(); B.bodies.push_back(B.matter->Ground());
      for(auto& s:spec){ Body::Rigid body(MassProperties(s.m,s.c,Inertia(1,1.1,1.2)+Inertia(s.c,s.m))); MobilizedBody& par=B.bodies[s.parent]; MobilizedBody::Direction dir=s.rev?MobilizedBody::Reverse:MobilizedBody::Forward; MobilizedBody mb;
        switch(s.type){case 0: mb=MobilizedBody::Pin(par,s.XPF,body,s.XBM,dir); break; case 1: mb=MobilizedBody::Slider(par,s.XPF,body,s.XBM,dir); break; case 2: mb=MobilizedBody::Ball(par,s.XPF,body,s.XBM,dir); break; case 3: mb=MobilizedBody::Gimbal(par,s.XPF,body,s.XBM,dir); break; case 4: mb=MobilizedBody::Cylinder(par,s.XPF,body,s.XBM,dir); break; default: mb=MobilizedBody::Free(par,s.XPF,body,s.XBM,dir); }
        B.bodies.push_back(mb);
        if(withMotion){ MobilizedBody& m=B.bodies.back(); if(s.motion==1) Motion::Steady(m, s.rate); else if(s.motion==2) Motion::Sinusoid(m, s.level==0?Motion::Acceleration:(s.level==1?Motion::Velocity:Motion::Position), s.amp, s.freq, s.phase); }
      } };
    Built P,T; build(true,P); build(false,T);
    State sp=P.sys->realizeTopology(), st=T.sys->realizeTopology();
    // locks on motion==3 bodies
    for(int b=0;b<nb;++b) if(spec[b].motion==3) P.bodies[b+1].lock(sp, spec[b].level==0?Motion::Acceleration:(spec[b].level==1?Motion::Velocity:Motion::Position));
    int nq=sp.getNQ(),nu=sp.getNU(); Real t=0.3+rnd.getValue()*0.2; sp.setTime(t); st.setTime(t);
    for(int i=0;i<nq;++i) sp.updQ()[i]=0.8*rnd.getValue(); for(int i=0;i<nu;++i) sp.updU()[i]=rnd.getValue();
    Vector fm(nu); for(int i=0;i<nu;++i) fm[i]=rnd.getValue(); P.df->setAllMobilityForces(sp,fm);
    // lock needs values: lock() records current q/u; we locked at default state (zeros) -> fine, prescribe will set them
    try{ P.sys->realize(sp,Stage::Time); P.sys->prescribeQ(sp); P.sys->realize(sp,Stage::Position); P.sys->prescribeU(sp); P.sys->realize(sp,Stage::Acceleration);}catch(const std::exception&e){ printf("exc %.120s\n",e.what()); continue; }
    // errors
    Real e1=P.matter->calcMotionErrors(sp,Stage::Position).norm()+P.matter->calcMotionErrors(sp,Stage::Velocity).norm()+P.matter->calcMotionErrors(sp,Stage::Acceleration).norm(); if(e1>wErr) wErr=e1;
    Vector tau; P.matter->findMotionForces(sp,tau);
    Real pw=P.matter->calcMotionPower(sp); Real pref=-(~tau*sp.getU()); Real ep=std::abs(pw-pref)/(std::abs(pref)+1); if(ep>wPow) wPow=ep;
    // twin: same q,u; apply fm - tau as mobility forces
    st.updQ()=sp.getQ(); st.updU()=sp.getU(); T.df->setAllMobilityForces(st,fm-tau); T.sys->realize(st,Stage::Acceleration);
    Real e=(st.getUDot()-sp.getUDot()).norm()/(sp.getUDot().norm()+1); if(e>wTwin) wTwin=e; if(e>1e-9){ printf("it=%d twin udot mismatch %.2e\n",it,e); std::cout<<"  tau="<<tau<<"\n  udotP="<<sp.getUDot()<<"\n  udotT="<<st.getUDot()<<"\n"; }
    ncase++; delete P.sys; delete T.sys; // leak others
  }
  printf("seed=%d cases=%d worst: twin udot=%.1e motionErrors=%.1e power=%.1e\n",seed,ncase,wTwin,wErr,wPow);
}
