#include "Simbody.h"
#include <cstdio>
#include <cmath>
#include <memory>
using namespace SimTK;
typedef Integrator::SuccessfulStepStatus St;
int main(int argc,char**argv){ setvbuf(stdout,0,_IONBF,0);
  int seed=argc>1?atoi(argv[1]):1; Random::Uniform rnd(0,1); rnd.setSeed(seed);
  int nviol=0, ncalls=0; int statusCount[10]={0};
  for(int it=0; it<400; ++it){
    MultibodySystem sys; SimbodyMatterSubsystem matter(sys); GeneralForceSubsystem forces(sys);
    Force::Gravity(forces,matter,Vec3(0,-9.8,0));
    Body::Rigid body(MassProperties(1,Vec3(0,-1,0),Inertia(Vec3(0,-1,0),1)+Inertia(0.1)));
    MobilizedBody::Pin pin(matter.Ground(),Transform(),body,Transform());
    State s0=sys.realizeTopology(); pin.setQ(s0,1.0);
    int which=(int)(rnd.getValue()*9); std::unique_ptr<Integrator> integ;
    switch(which){case 0:integ.reset(new ExplicitEulerIntegrator(sys));break;case 1:integ.reset(new RungeKutta2Integrator(sys));break;case 2:integ.reset(new RungeKutta3Integrator(sys));break;
      case 3:integ.reset(new RungeKuttaFeldbergIntegrator(sys));break;case 4:integ.reset(new RungeKuttaMersonIntegrator(sys));break;case 5:integ.reset(new VerletIntegrator(sys));break;
      case 6:integ.reset(new SemiExplicitEulerIntegrator(sys,0.01));break;case 7:integ.reset(new SemiExplicitEuler2Integrator(sys));break;default:integ.reset(new CPodesIntegrator(sys));}
    bool hasFinal=rnd.getValue()<0.7; Real tFinal=hasFinal? 0.05+2*rnd.getValue():Infinity; if(hasFinal) integ->setFinalTime(tFinal);
    bool every=rnd.getValue()<0.3; if(every) integ->setReturnEveryInternalStep(true);
    int limit=rnd.getValue()<0.3? 1+(int)(rnd.getValue()*5):0; if(limit) integ->setInternalStepLimit(limit);
    bool interp=rnd.getValue()<0.7; integ->setAllowInterpolation(interp);
    integ->setAccuracy(std::pow(10,-2-5*rnd.getValue()));
    if(rnd.getValue()<0.3 && which!=6) integ->setFixedStepSize(0.001+0.05*rnd.getValue());
    integ->initialize(s0);
    Real tPrev=integ->getTime(); bool ended=false; int nEnd=0; bool first=true;
    Real report=0, sched=Infinity;
    for(int k=0;k<40 && !ended;++k){
      Real tNow=integ->getTime();
      Real r=rnd.getValue();
      if(r<0.15) report=tNow; else if(r<0.25) report=tFinal; else if (r<0.35) report=tFinal+rnd.getValue(); else if(r<0.4) report=Infinity; else report=tNow+0.3*rnd.getValue();
      Real r2=rnd.getValue(); if(r2<0.5) sched=Infinity; else if(r2<0.6) sched=report; else if(r2<0.65) sched=tNow; else sched=tNow+0.4*rnd.getValue();
      if(!(report>=tNow)) report=tNow; { Real taNow=integ->getAdvancedTime(); if(r2>=0.6 && r2<0.65) sched=std::max(tNow,taNow); else if(r2>=0.65) sched=std::max(tNow,taNow)+0.4*rnd.getValue(); if(!(sched>=std::max(tNow,taNow))) sched=std::max(tNow,taNow); }
      if(std::min(std::min(report,sched),tFinal)==Infinity && !every && !limit) report=tNow+0.3*rnd.getValue();
      if(getenv("TRACE")) fprintf(stderr,"it=%d %s k=%d tNow=%.6g report=%.6g sched=%.6g final=%.6g every=%d limit=%d interp=%d\n",it,integ->getMethodName(),k,tNow,report,sched,tFinal,every,limit,interp); St st; try { st=integ->stepTo(report,sched);} catch(const std::exception& e){ printf("it=%d integ=%s EXC: %.120s\n",it,integ->getMethodName(),e.what()); nviol++; break; }
      ncalls++; statusCount[(int)st]++;
      Real t=integ->getTime(), ta=integ->getAdvancedTime(); const char* why=0;
      Real lim=std::min(std::min(report,sched),tFinal);
      if(t<tPrev) why="time decreased";
      else if(t>lim) why="t beyond min(report,sched,final)";
      else if(ta>std::min(sched,tFinal)) why="advanced beyond sched/final";
      else if(!interp && ta>report && st!=Integrator::StartOfContinuousInterval) why="advanced beyond report with interpolation off";
      else if(st==Integrator::ReachedReportTime && !(t==report || t==tFinal)) why="ReachedReportTime not at report/final";
      else if(st==Integrator::ReachedScheduledEvent && t!=sched) why="ReachedScheduledEvent not at sched";
      else if(st==Integrator::EndOfSimulation && (t!=tFinal)) why="EndOfSimulation not at final";
      else if(st==Integrator::StartOfContinuousInterval && !first) why="StartOfContinuousInterval not first";
      else if(st==Integrator::ReachedStepLimit && !limit) why="StepLimit without limit";
      else if(st==Integrator::TimeHasAdvanced && !every) why="TimeHasAdvanced without option";
      else if(integ->isStateInterpolated() != (t<ta)) why="isStateInterpolated mismatch";
      else if(integ->getState().getTime()!=t) why="state time mismatch";
      if(st==Integrator::EndOfSimulation){ nEnd++; ended=true; if(!integ->isSimulationOver()) why="not over after End"; }
      if(why){ nviol++; printf("it=%d integ=%s k=%d st=%s t=%.17g ta=%.17g report=%.17g sched=%.17g final=%.17g every=%d limit=%d interp=%d : %s\n",it,integ->getMethodName(),k,Integrator::getSuccessfulStepStatusString(st).c_str(),t,ta,report,sched,tFinal,every,limit,interp,why); break; }
      tPrev=t; first=false;
    }
    if(ended){ bool threw=false; try{ integ->stepTo(tFinal+1);}catch(...){threw=true;} if(!threw){ nviol++; printf("it=%d integ=%s stepTo after End did not throw\n",it,integ->getMethodName()); } }
  }
  printf("seed=%d calls=%d violations=%d | status counts:",seed,ncalls,nviol); for(int i=1;i<=7;++i) printf(" %d",statusCount[i]); printf("\n");
}
