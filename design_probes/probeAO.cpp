#include "Simbody.h"
#include <cstdio>
#include <cmath>
#include <memory>
using namespace SimTK;
int main(int argc,char**argv){
  int seed=argc>1?atoi(argv[1]):1; Random::Uniform rnd(-1,1); rnd.setSeed(seed); auto rv=[&](){return Vec3(rnd.getValue(),rnd.getValue(),rnd.getValue());}; auto rx=[&](){return Transform(Rotation(rnd.getValue()*2,UnitVec3(rv())), rv());};
  const char* inm[]={"RK3","RKF","RKM","Verlet","CPodes"}; double wP[5]={0},wL[5]={0},wE[5]={0}; int nr[5]={0};
  for(int it=0; it<40; ++it){ int w=it%5;
    MultibodySystem sys; SimbodyMatterSubsystem matter(sys); GeneralForceSubsystem forces(sys);
    Body::Rigid body(MassProperties(1.3,Vec3(.1,.2,.1),Inertia(1,1.1,1.2)+Inertia(Vec3(.2,.2,.2),1.3)));
    MobilizedBody::Free base(matter.Ground(),Transform(),body,Transform()); MobilizedBody::Ball b2(base,rx(),body,rx()); MobilizedBody::Pin b3(b2,rx(),body,rx()); MobilizedBody::Gimbal b4(base,rx(),body,rx());
    Force::TwoPointLinearSpring(forces,base,rv(),b3,rv(),8,0.5); Force::TwoPointLinearSpring(forces,b2,rv(),b4,rv(),5,0.8); Force::LinearBushing(forces,b3,rx(),b4,rx(),Vec6(1,2,3,4,5,6),Vec6(0));
    State s=sys.realizeTopology(); for(int i=0;i<s.getNQ();++i) s.updQ()[i]=0.6*rnd.getValue(); for(int i=0;i<s.getNU();++i) s.updU()[i]=0.8*rnd.getValue();
    std::unique_ptr<Integrator> ig; switch(w){case 0:ig.reset(new RungeKutta3Integrator(sys));break;case 1:ig.reset(new RungeKuttaFeldbergIntegrator(sys));break;case 2:ig.reset(new RungeKuttaMersonIntegrator(sys));break;case 3:ig.reset(new VerletIntegrator(sys));break;default:ig.reset(new CPodesIntegrator(sys));}
    Real acc=1e-6; ig->setAccuracy(acc); ig->initialize(s); sys.realize(ig->getState(),Stage::Dynamics); SpatialVec M0=matter.calcSystemMomentumAboutGroundOrigin(ig->getState()); Real E0=sys.calcEnergy(ig->getState()); Real scale=M0[0].norm()+M0[1].norm()+1;
    try{ for(Real t=0.1;t<=2.0+1e-9;t+=0.1){ ig->stepTo(t); const State& c=ig->getState(); sys.realize(c,Stage::Dynamics); SpatialVec M=matter.calcSystemMomentumAboutGroundOrigin(c); wP[w]=std::max(wP[w],(double)((M[1]-M0[1]).norm()/scale/acc)); wL[w]=std::max(wL[w],(double)((M[0]-M0[0]).norm()/scale/acc)); wE[w]=std::max(wE[w],(double)(std::abs(sys.calcEnergy(c)-E0)/(std::abs(E0)+1)/acc)); } nr[w]++; }catch(const std::exception&e){ printf("%s exc %.80s\n",inm[w],e.what()); }
  }
  for(int w=0;w<5;++w) printf("%-7s runs=%d worst drift / accuracy(1e-6): linear momentum %.2f angular momentum %.2f energy %.2f\n",inm[w],nr[w],wP[w],wL[w],wE[w]);
}
