#include "Simbody.h"
#include <iostream>
using namespace SimTK;
int main(){
  MultibodySystem sys; SimbodyMatterSubsystem matter(sys);
  Body::Rigid body(MassProperties(1,Vec3(0),Inertia(1)));
  MobilizedBody::Cylinder f(matter.Ground(),Transform(),body,Transform(),MobilizedBody::Forward);
  MobilizedBody::Cylinder r(matter.Ground(),Transform(),body,Transform(),MobilizedBody::Reverse);
  MobilizedBody::Cylinder r2(matter.Ground(),Transform(Vec3(1,0,0)),body,Transform(Vec3(0,2,0)),MobilizedBody::Reverse);
  State s=sys.realizeTopology(); Vector q(2); q[0]=0.5; q[1]=0.3; f.setQFromVector(s,q); r.setQFromVector(s,q); r2.setQFromVector(s,q); sys.realize(s,Stage::Position);
  std::cout<<"forward X_FM="<<f.getMobilizerTransform(s)<<"\nreverse X_FM="<<r.getMobilizerTransform(s)<<"\nreverse body X_GB="<<r.getBodyTransform(s)<<"\nreverse2 X_FM="<<r2.getMobilizerTransform(s)<<" X_GB="<<r2.getBodyTransform(s)<<" inboard="<<r2.getInboardFrame(s)<<" outboard="<<r2.getOutboardFrame(s)<<std::endl;
}
