#include "Simbody.h"
#include <cstdio>
#include <cmath>
#include <vector>
#include <string>
using namespace SimTK;
int main(int argc,char**argv){
  int seed=argc>1?atoi(argv[1]):1; Random::Uniform rnd(0,1); rnd.setSeed(seed); auto ri=[&](int n){return n<=0?0:(int)(rnd.getValue()*n)%n;}; auto rr=[&](){return 2*rnd.getValue()-1;};
  int nbad=0; long nops=0; int badByOp[16]={0};
  for(int it=0; it<400 && nbad<12; ++it){
    MultibodySystem sys; SimbodyMatterSubsystem matter(sys); GeneralForceSubsystem forces(sys);
    Body::Rigid body(MassProperties(1.2,Vec3(.1,.2,.1),Inertia(1,1.1,1.2)+Inertia(Vec3(.2,.2,.2),1.2)));
    MobilizedBody::Pin p1(matter.Ground(),Transform(Vec3(0,1,0)),body,Transform(Vec3(0,.5,0))); MobilizedBody::Gimbal p2(p1,Transform(Vec3(.3,0,0)),body,Transform(Vec3(0,.4,0))); MobilizedBody::Slider p3(p2,Transform(),body,Transform(Vec3(.1,0,0)));
    Force::Gravity grav(forces,matter,Vec3(0,-9.8,0)); Force::MobilityLinearSpring mls(forces,p3,MobilizerQIndex(0),10,0.1); Force::MobilityLinearDamper mld(forces,p1,MobilizerUIndex(0),0.5); Force::MobilityConstantForce mcf(forces,p2,MobilizerUIndex(1),0.7);
    Force::MobilityLinearStop stop(forces,p3,MobilizerQIndex(0),100,0.1,-0.2,0.2); Force::LinearBushing bush(forces,p1,Transform(),p3,Transform(),Vec6(1,2,3,4,5,6),Vec6(.1,.1,.1,.2,.2,.2)); Force::TwoPointLinearSpring tps(forces,matter.Ground(),Vec3(1,0,0),p2,Vec3(0,.1,0),7,0.5); Force::ConstantForce cf(forces,p2,Vec3(.1,0,0),Vec3(1,2,3));
    Constraint::Rod rod(matter.Ground(),Vec3(2,0,0),p3,Vec3(0),2.0); rod.setDisabledByDefault(true);
    State s=sys.realizeTopology();
    // model of current values
    struct Vals{ Vector q,u; Real t; Real k,q0,damp,cforce,lo,hi,sk,sd; Vec6 bk,bc; Vec3 gdir; Real gmag, gzero; bool gravExcl2, tpsDisabled, rodEnabled, lock1; } v; v.q=s.getQ(); v.u=s.getU(); v.t=0; v.k=10; v.q0=0.1; v.damp=0.5; v.cforce=0.7; v.lo=-0.2; v.hi=0.2; v.sk=100; v.sd=0.1; v.bk=Vec6(1,2,3,4,5,6); v.bc=Vec6(.1,.1,.1,.2,.2,.2); v.gdir=Vec3(0,-1,0); v.gmag=9.8; v.gzero=0; v.gravExcl2=false; v.tpsDisabled=false; v.rodEnabled=false; v.lock1=false;
    auto apply=[&](State& t,const Vals& v){ t.setTime(v.t); t.updQ()=v.q; t.updU()=v.u; mls.setStiffness(t,v.k); mls.setQZero(t,v.q0); mld.setDamping(t,v.damp); mcf.setForce(t,v.cforce); stop.setBounds(t,v.lo,v.hi); stop.setMaterialProperties(t,v.sk,v.sd); bush.setStiffness(t,v.bk); bush.setDamping(t,v.bc); grav.setDownDirection(t,UnitVec3(v.gdir)); grav.setMagnitude(t,v.gmag); grav.setZeroHeight(t,v.gzero); grav.setBodyIsExcluded(t,p2,v.gravExcl2); if(v.tpsDisabled) tps.disable(t); else tps.enable(t); if(v.rodEnabled) rod.enable(t); else rod.disable(t); if(v.lock1) p1.lockAt(t,0.25,Motion::Position); else p1.unlock(t); };
    std::string hist;
    for(int op=0; op<40; ++op){ nops++; int k=ri(16); if(getenv("NOMLS") && (k==3||k==4)) k=0; hist+=" "+std::to_string(k);
      switch(k){ case 0: v.q[ri(v.q.size())]=0.5*rr(); s.updQ()=v.q; break; case 1: v.u[ri(v.u.size())]=rr(); s.updU()=v.u; break; case 2: v.t+=0.1; s.setTime(v.t); break;
        case 3: v.k=5+10*rnd.getValue(); mls.setStiffness(s,v.k); break; case 4: v.q0=0.3*rr(); mls.setQZero(s,v.q0); break; case 5: v.damp=rnd.getValue(); mld.setDamping(s,v.damp); break; case 6: v.cforce=rr(); mcf.setForce(s,v.cforce); break;
        case 7: v.lo=-0.3*rnd.getValue(); v.hi=0.3*rnd.getValue(); stop.setBounds(s,v.lo,v.hi); break; case 8: v.sk=50+100*rnd.getValue(); v.sd=0.2*rnd.getValue(); stop.setMaterialProperties(s,v.sk,v.sd); break;
        case 9: v.bk=Vec6(1+rnd.getValue(),2,3,4+rnd.getValue(),5,6); bush.setStiffness(s,v.bk); break; case 10: v.gmag=5+10*rnd.getValue(); grav.setMagnitude(s,v.gmag); break; case 11: v.gravExcl2=!v.gravExcl2; grav.setBodyIsExcluded(s,p2,v.gravExcl2); break;
        case 12: v.tpsDisabled=!v.tpsDisabled; if(v.tpsDisabled) tps.disable(s); else tps.enable(s); break; case 13: v.gzero=rr(); grav.setZeroHeight(s,v.gzero); break;
        case 14: { Stage g= (Stage)(Stage::Time+ri(6)); try{ sys.realize(s,g);}catch(...){ } } break;
        default: v.gdir=Vec3(rr(),-1,rr()); grav.setDownDirection(s,UnitVec3(v.gdir)); break; }
      // query: realize both to Acceleration and compare
      if(ri(3)==0){ State f=sys.realizeTopology(); apply(f,v); try{ sys.realize(s,Stage::Acceleration); sys.realize(f,Stage::Acceleration);}catch(const std::exception&e){ continue; }
        Real e=(s.getUDot()-f.getUDot()).norm()/(f.getUDot().norm()+1); Real ef=(sys.getMobilityForces(s,Stage::Dynamics)-sys.getMobilityForces(f,Stage::Dynamics)).norm(); Real epe=std::abs(sys.calcPotentialEnergy(s)-sys.calcPotentialEnergy(f));
        Real eb=0; for(int b=0;b<matter.getNumBodies();++b){ SpatialVec d=sys.getRigidBodyForces(s,Stage::Dynamics)[b]-sys.getRigidBodyForces(f,Stage::Dynamics)[b]; eb+=d[0].norm()+d[1].norm(); }
        if(e>1e-10||ef>1e-10||epe>1e-10||eb>1e-10){ nbad++; badByOp[k]++; if(nbad<=8) printf("it=%d after op kind %d: udot diff %.2e mobForce diff %.2e bodyForce diff %.2e PE diff %.2e | history:%s\n",it,k,e,ef,eb,epe,hist.c_str()); break; } }
    }
  }
  printf("seed=%d ops=%ld stale-history cases=%d by last op:",seed,nops,nbad); for(int k=0;k<16;++k) printf(" %d",badByOp[k]); printf("\n");
}
