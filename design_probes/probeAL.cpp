#include "SimTKcommon.h"
#include <cstdio>
#include <cmath>
using namespace SimTK;
int main(int argc,char**argv){
  int seed=argc>1?atoi(argv[1]):1; Random::Uniform rnd(-1,1); rnd.setSeed(seed); auto rv=[&](){return Vec3(rnd.getValue(),rnd.getValue(),rnd.getValue());};
  double wInvB=0,wInvP=0,wQdB=0,wQdP=0,wNdB=0,wNdP=0,wQddB=0,wQuat=0,wQuatDD=0; int n=0;
  for(int it=0; it<5000; ++it){ Vec3 q(2.5*rnd.getValue(),1.3*rnd.getValue(),2.5*rnd.getValue()); Vec3 w=2*rv(), wd=2*rv(); n++;
    Mat33 NB=Rotation::calcNForBodyXYZInBodyFrame(q), NBi=Rotation::calcNInvForBodyXYZInBodyFrame(q), NP=Rotation::calcNForBodyXYZInParentFrame(q), NPi=Rotation::calcNInvForBodyXYZInParentFrame(q);
    Mat33 I1=NB*NBi-Mat33(1), I2=NP*NPi-Mat33(1); wInvB=std::max(wInvB,(double)I1.norm()); wInvP=std::max(wInvP,(double)I2.norm());
    // qdot vs FD of angles of R(t): body frame: R(t)=R0*exp(w t) ; parent frame: R(t)=exp(w t)*R0
    Rotation R0(BodyRotationSequence,q[0],XAxis,q[1],YAxis,q[2],ZAxis);
    auto anglesAt=[&](Real h,bool body){ Real a=w.norm()*h; Rotation dR= a==0?Rotation():Rotation(a,UnitVec3(w)); Rotation R= body? Rotation(R0*dR) : Rotation(dR*R0); Vec3 qq=R.convertRotationToBodyFixedXYZ(); for(int k=0;k<3;++k){ while(qq[k]-q[k]>Pi) qq[k]-=2*Pi; while(qq[k]-q[k]<-Pi) qq[k]+=2*Pi; } return qq; };
    Real h=1e-4; Vec3 fdB=(8.0*(anglesAt(h,true)-anglesAt(-h,true))-(anglesAt(2*h,true)-anglesAt(-2*h,true)))/(12*h); Vec3 fdP=(8.0*(anglesAt(h,false)-anglesAt(-h,false))-(anglesAt(2*h,false)-anglesAt(-2*h,false)))/(12*h);
    Vec3 qdB=NB*w, qdP=NP*w; Real sc=1/std::abs(std::cos(q[1])); wQdB=std::max(wQdB,(double)((fdB-qdB).norm()/(qdB.norm()+1))); wQdP=std::max(wQdP,(double)((fdP-qdP).norm()/(qdP.norm()+1)));
    // NDot vs FD of N along q(t)=q+h*qdot
    Mat33 NdB=Rotation::calcNDotForBodyXYZInBodyFrame(q,qdB); Mat33 fdN=(Rotation::calcNForBodyXYZInBodyFrame(q+h*qdB)-Rotation::calcNForBodyXYZInBodyFrame(q-h*qdB))/(2*h); wNdB=std::max(wNdB,(double)((NdB-fdN).norm()/(NdB.norm()+1)));
    Mat33 NdP=Rotation::calcNDotForBodyXYZInParentFrame(q,qdP); Mat33 fdNP=(Rotation::calcNForBodyXYZInParentFrame(q+h*qdP)-Rotation::calcNForBodyXYZInParentFrame(q-h*qdP))/(2*h); wNdP=std::max(wNdB,(double)((NdP-fdNP).norm()/(NdP.norm()+1)));
    Vec3 qdd=Rotation::convertAngVelDotInBodyFrameToBodyXYZDotDot(q,w,wd); Vec3 ref=NB*wd+NdB*w; wQddB=std::max(wQddB,(double)((qdd-ref).norm()/(ref.norm()+1)));
    // quaternion: qdot = N w (parent frame), FD of quaternion of exp(w t)*R(q)
    Vec4 qt(rnd.getValue(),rnd.getValue(),rnd.getValue(),rnd.getValue()); if(qt.norm()<0.3) continue; qt/=qt.norm(); Rotation RQ((Quaternion(qt)));
    auto quatAt=[&](Real hh){ Real a=w.norm()*hh; Rotation dR=a==0?Rotation():Rotation(a,UnitVec3(w)); Rotation R(dR*RQ); Vec4 v=R.convertRotationToQuaternion().asVec4(); if(~v*qt<0) v=-v; return v; };
    Vec4 fdq=(8.0*(quatAt(h)-quatAt(-h))-(quatAt(2*h)-quatAt(-2*h)))/(12*h); Vec4 qdq=Rotation::convertAngVelToQuaternionDot(qt,w); wQuat=std::max(wQuat,(double)((fdq-qdq).norm()/(qdq.norm()+1)));
    Vec3 wback=Rotation::convertQuaternionDotToAngVel(qt,qdq); wQuat=std::max(wQuat,(double)((wback-w).norm()/(w.norm()+1)));
    Vec4 qdd4=Rotation::convertAngVelDotToQuaternionDotDot(qt,w,wd); // FD of qdot along motion with w(t)=w+wd t: q(t) approx: use second difference of quaternion under constant w plus N*wd term analytically: check identity qdd = N wd + NDot w with NDot=N(qdot)
    Mat43 N=Rotation::calcUnnormalizedNForQuaternion(qt), Nd=Rotation::calcUnnormalizedNDotForQuaternion(qdq); Vec4 ref4=N*wd+Nd*w; wQuatDD=std::max(wQuatDD,(double)((qdd4-ref4).norm()/(ref4.norm()+1)));
  }
  printf("n=%d worst: N*NInv-I body=%.1e parent=%.1e | qdot vs FD body=%.1e parent=%.1e | NDot vs FD body=%.1e parent=%.1e | qdotdot identity=%.1e | quaternion qdot vs FD & inverse=%.1e | quaternion qdotdot identity=%.1e\n",n,wInvB,wInvP,wQdB,wQdP,wNdB,wNdP,wQddB,wQuat,wQuatDD);
}
