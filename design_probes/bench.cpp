#include "Simbody.h"
#include <chrono>
#include <cstdio>
using namespace SimTK;
int main(){
  auto t0=std::chrono::steady_clock::now();
  double acc=0; int N=2000;
  for(int it=0;it<N;++it){
    MultibodySystem sys; SimbodyMatterSubsystem matter(sys); GeneralForceSubsystem forces(sys);
    Force::Gravity(forces,matter,Vec3(0,-9.8,0));
    Body::Rigid body(MassProperties(1.3,Vec3(.1,.2,.3),Inertia(1,1.2,1.4)+Inertia(Vec3(.1,.2,.3),1.3)));
    Transform Xpf(Rotation(0.3,Vec3(1,2,3)),Vec3(.1,.2,.3)), Xbm(Rotation(-0.4,Vec3(3,2,1)),Vec3(.3,.1,.2));
    MobilizedBody::Free b1(matter.Ground(),Xpf,body,Xbm);
    MobilizedBody::Pin b2(b1,Xpf,body,Xbm);
    MobilizedBody::Gimbal b3(b2,Xpf,body,Xbm);
    MobilizedBody::Ball b4(b3,Xpf,body,Xbm);
    MobilizedBody::Cylinder b5(b2,Xpf,body,Xbm);
    MobilizedBody::Bushing b6(b5,Xpf,body,Xbm);
    State s=sys.realizeTopology();
    s.updQ()=Test::randVector(s.getNQ()); s.updU()=Test::randVector(s.getNU());
    sys.realize(s,Stage::Acceleration);
    Matrix M,MInv; matter.calcM(s,M); matter.calcMInv(s,MInv);
    acc+=M(0,0)+MInv(1,1)+s.getUDot()[0];
  }
  double dt=std::chrono::duration<double>(std::chrono::steady_clock::now()-t0).count();
  printf("%d systems in %.2fs => %.0f/s (acc=%g)\n",N,dt,N/dt,acc);
}
