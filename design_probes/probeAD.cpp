#include "Simbody.h"
#include <cstdio>
#include <cmath>
#include <memory>
using namespace SimTK;
static Real nrm(const Vector& v,bool inf){ if(!v.size()) return 0; return inf? v.normInf():v.normRMS(); }
int main(int argc,char**argv){
  int seed=argc>1?atoi(argv[1]):1; Random::Uniform rnd(-1,1); rnd.setSeed(seed);
  auto rv=[&](){return Vec3(rnd.getValue(),rnd.getValue(),rnd.getValue());}; auto rx=[&](){return Transform(Rotation(rnd.getValue()*2,UnitVec3(rv())), rv());};
  const char* inm[]={"ExplicitEuler","RK2","RK3","RKF","RKM","Verlet","SEE","SEE2","CPodes"}; int nStates[9]={0},nInterp[9]={0},nBad[9]={0},nExc[9]={0}; double worst[9]={0};
  for(int it=0; it<180; ++it){
    MultibodySystem sys; SimbodyMatterSubsystem matter(sys); GeneralForceSubsystem forces(sys); Force::Gravity(forces,matter,Vec3(0,-9.8,0));
    int nb=3+(int)((rnd.getValue()+1)); std::vector<MobilizedBody> bodies; bodies.push_back(matter.Ground());
    for(int b=0;b<nb;++b){ Body::Rigid body(MassProperties(1,0.2*rv(),Inertia(1,1.1,1.2)+Inertia(Vec3(.2),1))); MobilizedBody& par=bodies[(int)((rnd.getValue()+1)*0.4999*bodies.size())]; Transform XPF=rx(),XBM=rx();
      switch((int)((rnd.getValue()+1)*0.4999*4)){case 0: bodies.push_back(MobilizedBody::Pin(par,XPF,body,XBM)); break; case 1: bodies.push_back(MobilizedBody::Ball(par,XPF,body,XBM)); break; case 2: bodies.push_back(MobilizedBody::Free(par,XPF,body,XBM)); break; default: bodies.push_back(MobilizedBody::Gimbal(par,XPF,body,XBM)); } }
    auto pick=[&]()->MobilizedBody&{ return bodies[(int)((rnd.getValue()+1)*0.4999*bodies.size())]; };
    for(int c=0;c<2;++c){ MobilizedBody& b1=pick(); MobilizedBody* p2=&pick(); int g=0; while(p2->getMobilizedBodyIndex()==b1.getMobilizedBodyIndex()&&g++<20) p2=&pick(); if(p2->getMobilizedBodyIndex()==b1.getMobilizedBodyIndex()) continue; MobilizedBody& b2=*p2;
      switch((int)((rnd.getValue()+1)*0.4999*3)){case 0: Constraint::Rod(b1,rv(),b2,rv(),1.0+0.5*(rnd.getValue()+1)); break; case 1: Constraint::PointInPlane(b1,UnitVec3(rv()),rnd.getValue(),b2,rv()); break; default: Constraint::NoSlip1D(b1,rv(),UnitVec3(rv()),b1,b2); } }
    State s=sys.realizeTopology(); sys.realizeModel(s); for(int i=0;i<s.getNQ();++i) s.updQ()[i]=0.6*rnd.getValue(); for(int i=0;i<s.getNU();++i) s.updU()[i]=0.5*rnd.getValue();
    try{ sys.project(s,1e-10);}catch(...){ continue; }
    int w=it%9; std::unique_ptr<Integrator> ig; switch(w){case 0:ig.reset(new ExplicitEulerIntegrator(sys));break;case 1:ig.reset(new RungeKutta2Integrator(sys));break;case 2:ig.reset(new RungeKutta3Integrator(sys));break;case 3:ig.reset(new RungeKuttaFeldbergIntegrator(sys));break;case 4:ig.reset(new RungeKuttaMersonIntegrator(sys));break;case 5:ig.reset(new VerletIntegrator(sys));break;case 6:ig.reset(new SemiExplicitEulerIntegrator(sys,0.002));break;case 7:ig.reset(new SemiExplicitEuler2Integrator(sys));break;default:ig.reset(new CPodesIntegrator(sys));}
    Real acc=std::pow(10,-2-3*(rnd.getValue()+1)/2); ig->setAccuracy(acc); bool inf=rnd.getValue()>0; ig->setUseInfinityNorm(inf); if(rnd.getValue()>0) ig->setConstraintTolerance(acc*0.1); bool projEvery=rnd.getValue()>0; ig->setProjectEveryStep(projEvery); if(w==0) ig->setFixedStepSize(0.002);
    try{ ig->initialize(s); Real T=0.3; Real dt=0.013; for(Real tr=dt; tr<=T+1e-12; tr+=dt){ ig->stepTo(tr); const State& c=ig->getState(); sys.realize(c,Stage::Velocity); Real tol=ig->getConstraintToleranceInUse(); int nqt=matter.getNumQuaternionsInUse(c); int mp=c.getNQErr()-nqt;
        Vector pe=c.getQErr()(0,mp).rowScale(c.getQErrWeights()(0,mp)); Vector qe= nqt? Vector(c.getQErr()(mp,nqt)):Vector(); Vector ue=c.getUErr().rowScale(c.getUErrWeights()); Real n1=std::max(nrm(pe,inf),nrm(qe,inf)), n2=nrm(ue,inf); Real ratio=std::max(n1,n2)/tol; nStates[w]++; if(ig->isStateInterpolated()) nInterp[w]++; if(ratio>worst[w]) worst[w]=ratio; if(ratio>1+1e-9){ if(nBad[w]++<2) printf("%s t=%.3f interp=%d projEvery=%d inf=%d: qerr %.2e uerr %.2e tol %.2e\n",inm[w],c.getTime(),(int)ig->isStateInterpolated(),(int)projEvery,(int)inf,n1,n2,tol); } } }
    catch(const std::exception&e){ if(nExc[w]++<1) printf("%s exception: %.120s\n",inm[w],e.what()); }
  }
  for(int w=0;w<9;++w) printf("%-13s states=%d interpolated=%d bad=%d exceptions=%d worst(err/tol)=%.2f\n",inm[w],nStates[w],nInterp[w],nBad[w],nExc[w],worst[w]);
}
