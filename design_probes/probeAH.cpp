#include "SimTKcommon.h"
#include <cstdio>
#include <vector>
#include <cmath>
using namespace SimTK;
// shadow: dense row-major with index map for views
struct Sh { int m,n; std::vector<double*> p; double sign=1; double get(int i,int j) const {return sign* *p[i*n+j];} void set(int i,int j,double v){ *p[i*n+j]=sign*v; } };
int main(int argc,char**argv){
  int seed=argc>1?atoi(argv[1]):1; Random::Uniform rnd(0,1); rnd.setSeed(seed); auto ri=[&](int n){return n<=0?0:(int)(rnd.getValue()*n)%n;};
  int nbad=0; long nops=0;
  for(int it=0; it<2000 && nbad<6; ++it){ int M=1+ri(7), N=1+ri(7); Matrix A(M,N); std::vector<double> store(M*N); for(int i=0;i<M;++i)for(int j=0;j<N;++j){ double v=ri(19)-9; A(i,j)=v; store[i*N+j]=v; }
    // build a chain of views depth 1..3
    MatrixView cur=A.updBlock(0,0,M,N); Sh sh; sh.m=M; sh.n=N; sh.p.resize(M*N); for(int i=0;i<M;++i)for(int j=0;j<N;++j) sh.p[i*N+j]=&store[i*N+j];
    int depth=1+ri(3); std::string desc;
    for(int d=0; d<depth; ++d){ int k=ri(3); if(k==0 && sh.m>0 && sh.n>0){ int i0=ri(sh.m), j0=ri(sh.n), mm=1+ri(sh.m-i0), nn=1+ri(sh.n-j0); MatrixView nv=cur.updBlock(i0,j0,mm,nn); Sh ns; ns.m=mm; ns.n=nn; ns.sign=sh.sign; ns.p.resize(mm*nn); for(int i=0;i<mm;++i)for(int j=0;j<nn;++j) ns.p[i*nn+j]=sh.p[(i0+i)*sh.n+(j0+j)]; cur.~MatrixView(); new(&cur) MatrixView(nv); sh=ns; desc+=" block"; }
      else if(k==1){ MatrixView nv=cur.updTranspose(); Sh ns; ns.m=sh.n; ns.n=sh.m; ns.sign=sh.sign; ns.p.resize(sh.m*sh.n); for(int i=0;i<ns.m;++i)for(int j=0;j<ns.n;++j) ns.p[i*ns.n+j]=sh.p[j*sh.n+i]; cur.~MatrixView(); new(&cur) MatrixView(nv); sh=ns; desc+=" transpose"; }
      else { // column view write handled below
        desc+=" same"; } }
    // operation through the view
    int op=ri(6); nops++;
    if(op==0){ double s=ri(5)-2; cur*=s; for(int i=0;i<sh.m;++i)for(int j=0;j<sh.n;++j) sh.set(i,j,sh.get(i,j)*s); desc+=" *=scalar"; }
    else if(op==1){ Matrix B(sh.m,sh.n); for(int i=0;i<sh.m;++i)for(int j=0;j<sh.n;++j){ B(i,j)=ri(7)-3; } cur+=B; for(int i=0;i<sh.m;++i)for(int j=0;j<sh.n;++j) sh.set(i,j,sh.get(i,j)+B(i,j)); desc+=" +=matrix"; }
    else if(op==2){ Matrix B(sh.m,sh.n); for(int i=0;i<sh.m;++i)for(int j=0;j<sh.n;++j){ B(i,j)=ri(7)-3; } cur=B; for(int i=0;i<sh.m;++i)for(int j=0;j<sh.n;++j) sh.set(i,j,B(i,j)); desc+=" =matrix"; }
    else if(op==3){ int i=ri(sh.m), j=ri(sh.n); cur(i,j)=42; sh.set(i,j,42); desc+=" elt="; }
    else if(op==4){ int j=ri(sh.n); VectorView c=cur.updCol(j); c*=2.0; for(int i=0;i<sh.m;++i) sh.set(i,j,2*sh.get(i,j)); desc+=" col*=2"; }
    else { double s=ri(5)+1; cur+=s; int dd=std::min(sh.m,sh.n); for(int i=0;i<dd;++i) sh.set(i,i,sh.get(i,i)+s); desc+=" +=scalar(diag)"; }
    // compare entire A to store and view to shadow
    bool bad=false; for(int i=0;i<M&&!bad;++i)for(int j=0;j<N;++j) if(A(i,j)!=store[i*N+j]){ bad=true; printf("it=%d %dx%d:%s : A(%d,%d)=%g model %g\n",it,M,N,desc.c_str(),i,j,(double)A(i,j),store[i*N+j]); break; }
    for(int i=0;i<sh.m&&!bad;++i)for(int j=0;j<sh.n;++j) if(cur(i,j)!=sh.get(i,j)){ bad=true; printf("it=%d view mismatch:%s\n",it,desc.c_str()); break; }
    // products and norms through the view
    if(!bad){ Vector x(sh.n); for(int j=0;j<sh.n;++j) x[j]=ri(5)-2; Vector y=cur*x; for(int i=0;i<sh.m;++i){ double a=0; for(int j=0;j<sh.n;++j) a+=sh.get(i,j)*x[j]; if(std::abs(y[i]-a)>1e-9){ bad=true; printf("it=%d view*vector mismatch:%s\n",it,desc.c_str()); break; } } double fro=0; for(int i=0;i<sh.m;++i)for(int j=0;j<sh.n;++j) fro+=sh.get(i,j)*sh.get(i,j); if(std::abs(cur.norm()-std::sqrt(fro))>1e-9*(1+std::sqrt(fro))){ bad=true; printf("it=%d norm mismatch:%s got %g want %g\n",it,desc.c_str(),(double)cur.norm(),std::sqrt(fro)); } }
    if(bad) nbad++;
  }
  printf("seed=%d ops=%ld bad=%d\n",seed,nops,nbad);
}
