#include "SimTKmath.h"
#include <cstdio>
#include <cmath>
using namespace SimTK;
static Matrix randOrtho(int n, Random::Uniform& rnd){ Matrix Q(n,n); Q=0; for(int i=0;i<n;++i)Q(i,i)=1; for(int k=0;k<n;++k){ Vector v(n); for(int i=0;i<n;++i) v[i]=rnd.getValue(); Real nv=v.norm(); if(nv<1e-6) continue; v/=nv; Matrix H(n,n); for(int i=0;i<n;++i)for(int j=0;j<n;++j) H(i,j)=(i==j?1:0)-2*v[i]*v[j]; Q=Q*H;} return Q; }
int main(int argc,char**argv){
  int seed=argc>1?atoi(argv[1]):1; Random::Uniform rnd(-1,1); rnd.setSeed(seed);
  int nbadRank=0,nbadSol=0,nbadSVD=0,nbadLU=0,ncase=0; double wSol=0,wSV=0,wLU=0;
  for(int it=0; it<3000; ++it){
    int m=1+(int)((rnd.getValue()+1)*0.4999*12), n=1+(int)((rnd.getValue()+1)*0.4999*12); int r=std::min(m,n); int rank=1+(int)((rnd.getValue()+1)*0.4999*r);
    Matrix U=randOrtho(m,rnd), V=randOrtho(n,rnd); Vector sv(r); sv=0; for(int i=0;i<rank;++i) sv[i]=std::pow(10.0,-2.0*i/std::max(1,rank)*std::abs(rnd.getValue()))*(1+0.5*rnd.getValue()); 
    // sort descending
    for(int i=0;i<rank;++i)for(int j=i+1;j<rank;++j) if(sv[j]>sv[i]) std::swap(sv[i],sv[j]);
    Matrix S(m,n); S=0; for(int i=0;i<r;++i) S(i,i)=sv[i]; Matrix A=U*S*~V;
    Vector b(m); for(int i=0;i<m;++i) b[i]=rnd.getValue();
    // reference min-norm LS solution x* = V S^+ U^T b
    Vector Utb=~U*b; Vector y(n); y=0; for(int i=0;i<rank;++i) y[i]=Utb[i]/sv[i]; Vector xref=V*y;
    ncase++;
    try{ FactorQTZ qtz(A); if(qtz.getRank()!=rank){ nbadRank++; if(nbadRank<4) printf("QTZ rank %d expected %d (m=%d n=%d svmin=%.2e svmax=%.2e)\n",qtz.getRank(),rank,m,n,sv[rank-1],sv[0]); }
      Vector x; qtz.solve(b,x); Real e=(x-xref).norm()/(xref.norm()+1e-30)/ (sv[0]/sv[rank-1]); if(e>wSol) wSol=e; if(e>1e-10){ nbadSol++; if(nbadSol<4) printf("QTZ solve rel err/cond %.2e (m=%d n=%d rank=%d)\n",e,m,n,rank);} }
    catch(const std::exception&e){ printf("QTZ exc %.100s\n",e.what()); }
    try{ FactorSVD svd(A); Vector s2; svd.getSingularValues(s2); Real e=0; for(int i=0;i<r;++i) e=std::max(e,std::abs(s2[i]-sv[i])); e/=sv[0]; if(e>wSV) wSV=e; if(e>1e-12 || svd.getRank()!=rank){ nbadSVD++; if(nbadSVD<4) printf("SVD sv err %.2e rank %d expected %d\n",e,svd.getRank(),rank);} 
      Vector x; svd.solve(b,x); Real e2=(x-xref).norm()/(xref.norm()+1e-30)/(sv[0]/sv[rank-1]); if(e2>1e-10){ nbadSol++; if(nbadSol<4) printf("SVD solve rel err/cond %.2e\n",e2);} }
    catch(const std::exception&e){ printf("SVD exc %.100s\n",e.what()); }
    if(m==n && rank==n){ try{ FactorLU lu(A); Vector x; lu.solve(b,x); Real e=(A*x-b).norm()/(b.norm()+1e-30)/(sv[0]/sv[rank-1]); if(e>wLU) wLU=e; if(e>1e-10) nbadLU++; } catch(const std::exception&e){ printf("LU exc %.100s\n",e.what()); } }
  }
  printf("seed=%d cases=%d badRank=%d badSolve=%d badSVD=%d badLU=%d worst: solve=%.1e sv=%.1e lu=%.1e\n",seed,ncase,nbadRank,nbadSol,nbadSVD,nbadLU,wSol,wSV,wLU);
}
