#include "SimTKcommon.h"
#include <cstdio>
#include <vector>
#include <set>
using namespace SimTK;
static long g_live=0, g_ctor=0, g_dtor=0; static std::set<const void*> g_reg;
struct Counted { int v; const Counted* self; Counted(int v=0):v(v),self(this){g_live++;g_ctor++;g_reg.insert(this);} Counted(const Counted& o):v(o.v),self(this){g_live++;g_ctor++;g_reg.insert(this);} Counted(Counted&& o) noexcept:v(o.v),self(this){o.v=-777;g_live++;g_ctor++;g_reg.insert(this);} Counted& operator=(const Counted& o){v=o.v;return *this;} Counted& operator=(Counted&& o) noexcept {v=o.v;o.v=-777;return *this;} ~Counted(){ if(!g_reg.count(this)||self!=this){ printf("DESTROY of unregistered/relocated object!\n"); } g_reg.erase(this); g_live--; g_dtor++; } bool operator==(const Counted& o) const {return v==o.v;} };
int main(int argc,char**argv){
  int seed=argc>1?atoi(argv[1]):1; Random::Uniform rnd(0,1); rnd.setSeed(seed); auto ri=[&](int n){return n<=0?0:(int)(rnd.getValue()*n)%n;};
  int nbad=0; long nops=0;
  for(int it=0; it<300 && nbad<5; ++it){ { Array_<Counted> a; std::vector<Counted> m; int next=1;
    for(int op=0; op<300; ++op){ nops++; int k=ri(14); int n=(int)m.size();
      try{
      switch(k){
        case 0: a.push_back(Counted(next)); m.push_back(Counted(next)); next++; break;
        case 1: if(n){ a.pop_back(); m.pop_back(); } break;
        case 2: { int pos=ri(n+1); a.insert(a.begin()+pos,Counted(next)); m.insert(m.begin()+pos,Counted(next)); next++; } break;
        case 3: { int pos=ri(n+1), cnt=ri(5); a.insert(a.begin()+pos,cnt,Counted(next)); m.insert(m.begin()+pos,cnt,Counted(next)); next++; } break;
        case 4: if(n){ int pos=ri(n); a.erase(a.begin()+pos); m.erase(m.begin()+pos);} break;
        case 5: if(n){ int p1=ri(n), p2=p1+ri(n-p1+1); a.erase(a.begin()+p1,a.begin()+p2); m.erase(m.begin()+p1,m.begin()+p2);} break;
        case 6: { int sz=ri(20); a.resize(sz,Counted(next)); m.resize(sz,Counted(next)); next++; } break;
        case 7: { int r=ri(64); a.reserve(r); m.reserve(r); } break;
        case 8: { a.shrink_to_fit(); } break;
        case 9: { Array_<Counted> b(a); std::vector<Counted> mb(m); if(ri(2)){ a=b; m=mb; } else { a.swap(b); m.swap(mb); } } break;
        case 10: if(n){ int pos=ri(n); a.eraseFast(a.begin()+pos); m[pos]=m.back(); m.pop_back(); } break;
        case 11: { std::vector<Counted> src; int c=ri(6); for(int i=0;i<c;++i) src.push_back(Counted(next++)); int pos=ri(n+1); a.insert(a.begin()+pos,src.begin(),src.end()); m.insert(m.begin()+pos,src.begin(),src.end()); } break;
        case 12: { int c=ri(8); a.assign(c,Counted(next)); m.assign(c,Counted(next)); next++; } break;
        default: if(n>=2){ // insert a range of the array into itself (copy semantics: take a snapshot in the model)
            int p1=ri(n), p2=p1+ri(n-p1+1), pos=ri(n+1); std::vector<Counted> snap(m.begin()+p1,m.begin()+p2); m.insert(m.begin()+pos,snap.begin(),snap.end()); Array_<Counted> snapA(a.begin()+p1,a.begin()+p2); a.insert(a.begin()+pos,snapA.begin(),snapA.end()); } break;
      } } catch(const std::exception& e){ printf("exception op %d: %.100s\n",k,e.what()); nbad++; break; }
      bool bad=(int)a.size()!=(int)m.size(); for(int i=0;!bad&&i<(int)m.size();++i) if(!(a[i]==m[i])) bad=true; if(a.capacity()<a.size()) bad=true;
      if(bad){ printf("it=%d op=%d kind=%d: contents differ (size %d vs %d)\n",it,op,k,(int)a.size(),(int)m.size()); nbad++; break; }
    } }
    if(g_live!=0){ printf("it=%d: %ld objects leaked/over-destroyed after scope exit\n",it,g_live); nbad++; g_live=0; g_reg.clear(); }
  }
  printf("seed=%d ops=%ld ctor=%ld dtor=%ld bad=%d\n",seed,nops,g_ctor,g_dtor,nbad);
}
