#include "SimTKcommon.h"
#include <cstdio>
#include <fstream>
#include <sstream>
#include <string>
#include <vector>
#include <unistd.h>
#include <sys/wait.h>
using namespace SimTK;
static std::string slurp(const char* p){ std::ifstream f(p,std::ios::binary); std::stringstream ss; ss<<f.rdbuf(); return ss.str(); }
int main(int argc,char**argv){
  int seed=argc>1?atoi(argv[1]):1; Random::Uniform rnd(0,1); rnd.setSeed(seed); auto ri=[&](int n){return n<=0?0:(int)(rnd.getValue()*n)%n;};
  // small valid seeds written by hand
  std::string obj="v 0 0 0\nv 1 0 0\nv 0 1 0\nv 0 0 1\nf 1 2 3\nf 1 3 4\nf 1 4 2\nf 2 4 3\n";
  std::string stl="solid t\nfacet normal 0 0 1\nouter loop\nvertex 0 0 0\nvertex 1 0 0\nvertex 0 1 0\nendloop\nendfacet\nfacet normal 0 0 1\nouter loop\nvertex 0 0 0\nvertex 0 1 0\nvertex 0 0 1\nendloop\nendfacet\nendsolid t\n";
  std::string vtp="<?xml version=\"1.0\"?>\n<VTKFile type=\"PolyData\" version=\"0.1\" byte_order=\"LittleEndian\">\n<PolyData>\n<Piece NumberOfPoints=\"4\" NumberOfVerts=\"0\" NumberOfLines=\"0\" NumberOfStrips=\"0\" NumberOfPolys=\"2\">\n<Points>\n<DataArray type=\"Float32\" NumberOfComponents=\"3\" format=\"ascii\">\n0 0 0 1 0 0 0 1 0 0 0 1\n</DataArray>\n</Points>\n<Polys>\n<DataArray type=\"Int32\" Name=\"connectivity\" format=\"ascii\">\n0 1 2 0 2 3\n</DataArray>\n<DataArray type=\"Int32\" Name=\"offsets\" format=\"ascii\">\n3 6\n</DataArray>\n</Polys>\n</Piece>\n</PolyData>\n</VTKFile>\n";
  const char* ext[]={"obj","stl","vtp"}; std::string seeds[]={obj,stl,vtp}; int accepted[3]={0},rejected[3]={0},crashed[3]={0},badIdx[3]={0};
  for(int it=0; it<1500; ++it){ int k=it%3; std::string d=seeds[k]; int nm=ri(4); for(int m=0;m<nm;++m){ int op=ri(5); if(d.empty()) break; if(op==0) d[ri(d.size())]=(char)ri(256); else if(op==1) d.erase(ri(d.size()),1+ri(8)); else if(op==2) d.insert(ri(d.size()),std::to_string(ri(100000)-50000)); else if(op==3) d.resize(ri(d.size())); else d.insert(ri(d.size()),d.substr(ri(d.size()),ri(20))); }
    std::string path=std::string("/root/scratch/proto/fz.")+ext[k]; { std::ofstream f(path,std::ios::binary); f<<d; }
    pid_t pid=fork(); if(pid==0){ alarm(5); int rc=0; try{ PolygonalMesh m; m.loadFile(path); int nv=m.getNumVertices(); for(int f=0;f<m.getNumFaces();++f) for(int v=0;v<m.getNumVerticesForFace(f);++v){ int ix=m.getFaceVertex(f,v); if(ix<0||ix>=nv) rc=3; } if(rc==0) rc=1; }catch(const std::exception&){ rc=2; } _exit(rc); }
    int st=0; waitpid(pid,&st,0); if(WIFEXITED(st)){ int rc=WEXITSTATUS(st); if(rc==1) accepted[k]++; else if(rc==2) rejected[k]++; else if(rc==3){ badIdx[k]++; if(badIdx[k]<=2){ printf("%s accepted with out-of-range face index; input:\n%.300s\n---\n",ext[k],d.c_str()); } } } else { crashed[k]++; if(crashed[k]<=2){ printf("%s loader CRASHED (signal %d) on input:\n%.400s\n---\n",ext[k],WTERMSIG(st),d.c_str()); } }
  }
  for(int k=0;k<3;++k) printf("%s: accepted=%d rejected=%d out-of-range-index=%d crashed=%d\n",ext[k],accepted[k],rejected[k],badIdx[k],crashed[k]);
}
