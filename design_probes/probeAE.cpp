#include "Simbody.h"
#include <cstdio>
#include <cmath>
#include <memory>
using namespace SimTK;
int main(){
  const char* inm[]={"RK2","RK3","RKF","RKM","Verlet","SEE2","CPodes"};
  for(int w=0;w<7;++w){ printf("%-7s",inm[w]); for(int ia=2; ia<=8; ia+=2){ Real acc=std::pow(10.0,-ia); Real worstErr=0,worstE=0; int steps=0;
      for(int trial=0;trial<6;++trial){ Real k=4+7*trial, m=1+0.3*trial, q0=0.3+0.1*trial, u0=0.5-0.2*trial; Real om=std::sqrt(k/m);
        MultibodySystem sys; SimbodyMatterSubsystem matter(sys); GeneralForceSubsystem forces(sys); Body::Rigid body(MassProperties(m,Vec3(0),Inertia(1))); MobilizedBody::Slider sl(matter.Ground(),Transform(),body,Transform()); Force::MobilityLinearSpring(forces,sl,MobilizerQIndex(0),k,0.0);
        State s=sys.realizeTopology(); sl.setQ(s,q0); sl.setU(s,u0); std::unique_ptr<Integrator> ig; switch(w){case 0:ig.reset(new RungeKutta2Integrator(sys));break;case 1:ig.reset(new RungeKutta3Integrator(sys));break;case 2:ig.reset(new RungeKuttaFeldbergIntegrator(sys));break;case 3:ig.reset(new RungeKuttaMersonIntegrator(sys));break;case 4:ig.reset(new VerletIntegrator(sys));break;case 5:ig.reset(new SemiExplicitEuler2Integrator(sys));break;default:ig.reset(new CPodesIntegrator(sys));}
        ig->setAccuracy(acc); ig->initialize(s); sys.realize(ig->getState(),Stage::Dynamics); Real E0=sys.calcEnergy(ig->getState()); Real T=3.0; try{ for(Real tr=0.25; tr<=T+1e-12; tr+=0.25){ ig->stepTo(tr); const State& c=ig->getState(); Real t=c.getTime(); Real qe=q0*std::cos(om*t)+u0/om*std::sin(om*t), ue=-q0*om*std::sin(om*t)+u0*std::cos(om*t); Real e=std::max(std::abs(c.getQ()[0]-qe),std::abs(c.getU()[0]-ue)/om)/ (std::abs(q0)+std::abs(u0)/om); worstErr=std::max(worstErr,e); sys.realize(c,Stage::Dynamics); worstE=std::max(worstE,std::abs(sys.calcEnergy(c)-E0)/E0); } }catch(const std::exception&e){ printf(" [exc]"); }
        steps+=ig->getNumStepsTaken(); }
      printf("  acc=1e-%d: err/acc=%8.2f dE/acc=%8.2f steps=%4d |",ia,worstErr/acc,worstE/acc,steps/6); }
    printf("\n"); }
}
