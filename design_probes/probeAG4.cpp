#include "Simbody.h"
#include <iostream>
#include <cstdio>
using namespace SimTK;
static Vec3 vee(const Mat33& S){ return Vec3(0.5*(S(2,1)-S(1,2)),0.5*(S(0,2)-S(2,0)),0.5*(S(1,0)-S(0,1))); }
int main(){
  for(int variant=0; variant<8; ++variant){ bool rev=variant&1, euler=variant&2, norm=variant&4;
  MultibodySystem sys; SimbodyMatterSubsystem matter(sys); Body::Rigid body(MassProperties(1,Vec3(0),Inertia(1)));
  MobilizedBody::LineOrientation mb(matter.Ground(),Transform(),body,Transform(),rev?MobilizedBody::Reverse:MobilizedBody::Forward);
  State s=sys.realizeTopology(); matter.setUseEulerAngles(s,euler); sys.realizeModel(s); int nq=s.getNQ(),nu=s.getNU(); for(int i=0;i<nq;++i) s.updQ()[i]=0.3+0.2*i; if(norm&&!euler){ Real n=s.getQ().norm(); s.updQ()/=n; } s.updU()[0]=0.5; s.updU()[1]=-0.3; sys.realize(s,Stage::Velocity);
  Vector qdot=s.getQDot(); auto Xat=[&](Real h){ State t=s; t.updQ()=s.getQ()+h*qdot; sys.realize(t,Stage::Position); return mb.getBodyTransform(t); };
  Real h=1e-4; Mat33 Rd=(8.0*(Xat(h).R().asMat33()-Xat(-h).R().asMat33())-(Xat(2*h).R().asMat33()-Xat(-2*h).R().asMat33()))/(12*h); Vec3 w=vee(Rd*~mb.getBodyTransform(s).R().asMat33()); SpatialVec V=mb.getBodyVelocity(s); Vec3 wM=~mb.getBodyTransform(s).R()*V[0];
  printf("rev=%d euler=%d normalized=%d: reported w_G=(%.5f %.5f %.5f) FD w_G=(%.5f %.5f %.5f) | reported w in M=(%.5f %.5f %.5f) u=(0.5,-0.3)\n",(int)rev,(int)euler,(int)norm,V[0][0],V[0][1],V[0][2],w[0],w[1],w[2],wM[0],wM[1],wM[2]);
  }
}
