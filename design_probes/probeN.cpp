#include "Simbody.h"
#include <cstdio>
#include <thread>
#include <atomic>
using namespace SimTK;
static volatile int g_spin=0;
class F : public Force::Custom::Implementation { public: bool par, posOnly; int body; SpatialVec w; Real mf; int spin;
  F(bool par,bool posOnly,int body,SpatialVec w,Real mf,int spin):par(par),posOnly(posOnly),body(body),w(w),mf(mf),spin(spin){}
  bool shouldBeParallelIfPossible() const override {return par;} bool dependsOnlyOnPositions() const override {return posOnly;}
  void calcForce(const State& s, Vector_<SpatialVec>& bf, Vector_<Vec3>&, Vector& mob) const override {
    // non-atomic read-modify-write with a window
    SpatialVec cur=bf[body]; Real curm=mob[0]; for(int i=0;i<spin;++i) g_spin+=i; bf[body]=cur+w; mob[0]=curm+mf; }
  Real calcPotentialEnergy(const State&) const override {return 0;} };
int main(int argc,char**argv){
  int nthreads=argc>1?atoi(argv[1]):4; int nbad=0, ntot=0;
  for(int it=0; it<60; ++it){
    MultibodySystem sys; SimbodyMatterSubsystem matter(sys); GeneralForceSubsystem forces(sys);
    Body::Rigid body(MassProperties(1,Vec3(0),Inertia(1))); MobilizedBody::Pin p1(matter.Ground(),Transform(),body,Transform()); MobilizedBody::Pin p2(p1,Transform(Vec3(1,0,0)),body,Transform());
    SpatialVec expectB(Vec3(0),Vec3(0)); Real expectM=0; int nf=12;
    for(int k=0;k<nf;++k){ bool par=(k%3!=0); bool pos=(k%2==0); SpatialVec w(Vec3(k+1,0,0),Vec3(0,k+1,0)); Real mf=k+1; Force::Custom(forces,new F(par,pos,1,w,mf, par?2000:200000)); expectB+=w; expectM+=mf; }
    forces.setNumberOfThreads(nthreads);
    State s=sys.realizeTopology();
    for(int rep=0; rep<6; ++rep){ if(rep%2==0) s.updQ()[0]=0.1*rep; else s.updU()[0]=0.1*rep; // q change => cache invalid (CachedAndNonCached); u change => NonCached
      sys.realize(s,Stage::Dynamics); SpatialVec got=sys.getRigidBodyForces(s,Stage::Dynamics)[1]; Real gm=sys.getMobilityForces(s,Stage::Dynamics)[0]; ntot++;
      if((got[0]-expectB[0]).norm()+(got[1]-expectB[1]).norm()>1e-9 || std::abs(gm-expectM)>1e-9){ nbad++; if(nbad<=5) printf("it=%d rep=%d (%s): body moment x got %.1f expected %.1f ; mobility got %.1f expected %.1f\n",it,rep,rep%2==0?"CachedAndNonCached":"NonCached",got[0][0],expectB[0][0],gm,expectM); } }
  }
  printf("threads=%d realizations=%d wrong totals=%d\n",nthreads,ntot,nbad);
}
