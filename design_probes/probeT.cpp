#include "SimTKmath.h"
#include <cstdio>
#include <cmath>
using namespace SimTK;
struct Quad : public OptimizerSystem { Vector d,c,lo,hi; mutable int nOut=0; mutable Real worstOut=0; mutable int nEval=0; bool haveBounds;
  Quad(int n):OptimizerSystem(n){}
  void check(const Vector& x) const { nEval++; if(!haveBounds) return; for(int i=0;i<x.size();++i){ Real o=std::max(lo[i]-x[i], x[i]-hi[i]); if(o>0){ nOut++; worstOut=std::max(worstOut,o);} } }
  int objectiveFunc(const Vector& x,bool,Real& f) const override { check(x); f=0; for(int i=0;i<x.size();++i) f+=0.5*d[i]*(x[i]-c[i])*(x[i]-c[i]); return 0; }
  int gradientFunc(const Vector& x,bool,Vector& g) const override { check(x); for(int i=0;i<x.size();++i) g[i]=d[i]*(x[i]-c[i]); return 0; } };
int main(int argc,char**argv){
  int seed=argc>1?atoi(argv[1]):1; Random::Uniform rnd(-1,1); rnd.setSeed(seed);
  const char* names[]={"LBFGS","LBFGSB","InteriorPoint","CMAES"}; OptimizerAlgorithm algs[]={LBFGS,LBFGSB,InteriorPoint,CMAES};
  int stat[4][6]={{0}}; double wrel[4]={0},wabs[4]={0};
  for(int it=0; it<240; ++it){ int a=it%4; bool numGrad=(it/4)%2; int n=1+(int)((rnd.getValue()+1)*3.9);
    Quad sys(n); sys.d.resize(n); sys.c.resize(n); sys.lo.resize(n); sys.hi.resize(n); sys.haveBounds=(a!=0);
    for(int i=0;i<n;++i){ sys.d[i]=0.5+2*(rnd.getValue()+1); sys.c[i]=2*rnd.getValue(); Real w=0.5+rnd.getValue()+1; Real mid= sys.c[i] + ((i%2)? 1.5*w*rnd.getValue():0); sys.lo[i]=mid-w/2; sys.hi[i]=mid+w/2; }
    if(sys.haveBounds) sys.setParameterLimits(sys.lo,sys.hi);
    Vector x(n); for(int i=0;i<n;++i) x[i]= sys.haveBounds? sys.lo[i]+(sys.hi[i]-sys.lo[i])*0.5*(rnd.getValue()+1) : 3*rnd.getValue();
    Real f0; sys.nEval=0; sys.objectiveFunc(x,true,f0); sys.nOut=0; sys.worstOut=0;
    try{ Optimizer opt(sys,algs[a]); opt.setConvergenceTolerance(1e-8); opt.setMaxIterations(2000); if(a==3){ opt.setAdvancedIntOption("seed",42); opt.setAdvancedRealOption("init_stepsize",0.3);} if(numGrad && a!=3) opt.useNumericalGradient(true);
      Real f=opt.optimize(x); Real fchk; int so=sys.nOut; Real wo=sys.worstOut; sys.objectiveFunc(x,true,fchk);
      stat[a][0]++; if(f!=fchk){ stat[a][1]++; Real rel=std::abs(f-fchk)/(std::abs(fchk)+1e-300); if(rel>wrel[a]) wrel[a]=rel; if(std::abs(f-fchk)>wabs[a]) wabs[a]=std::abs(f-fchk);}  if(f>f0+1e-12) stat[a][2]++; if(so>0){ stat[a][3]++; if(stat[a][3]<=2) printf("%s numGrad=%d: %d evaluations outside bounds, worst by %.2e\n",names[a],(int)numGrad,so,wo); }
      // optimum reference: clamp c to bounds (separable)
      Real err=0; for(int i=0;i<n;++i){ Real xs= sys.haveBounds? std::min(std::max(sys.c[i],sys.lo[i]),sys.hi[i]) : sys.c[i]; err=std::max(err,std::abs(x[i]-xs)); } if(err>1e-3){ stat[a][4]++; if(stat[a][4]<=2) printf("%s numGrad=%d n=%d: optimum error %.2e\n",names[a],(int)numGrad,n,err);} 
      if(sys.haveBounds) for(int i=0;i<n;++i) if(x[i]<sys.lo[i]||x[i]>sys.hi[i]){ stat[a][5]++; break; }
    } catch(const std::exception& e){ printf("%s numGrad=%d exception: %.100s\n",names[a],(int)numGrad,e.what()); }
  }
  for(int a=0;a<4;++a) printf("   %s worst |f-f(x)| abs=%.2e rel=%.2e\n",names[a],wabs[a],wrel[a]); for(int a=0;a<4;++a) printf("%s: runs=%d f!=f(x)=%d worse-than-start=%d evals-outside-bounds=%d optimum-off=%d result-outside=%d\n",names[a],stat[a][0],stat[a][1],stat[a][2],stat[a][3],stat[a][4],stat[a][5]);
}
