#include "SimTKmath.h"
#include <cstdio>
#include <cmath>
#include <string>
using namespace SimTK;
int main(int argc,char**argv){
  int seed=argc>1?atoi(argv[1]):1; Random::Uniform rnd(-1,1); rnd.setSeed(seed);
  auto rv=[&](){return Vec3(rnd.getValue(),rnd.getValue(),rnd.getValue());};
  int nbad[8]={0}, ntot[8]={0}; const char* names[]={"sphere","ellipsoid","cylinder","torus","brick","halfspace"};
  for(int it=0; it<3000; ++it){
    int shape=it%6; ContactGeometry g; Vec3 par(0.3+0.8*(rnd.getValue()+1),0.3+0.8*(rnd.getValue()+1),0.3+0.8*(rnd.getValue()+1));
    switch(shape){case 0: g=ContactGeometry::Sphere(par[0]); break; case 1: g=ContactGeometry::Ellipsoid(par); break; case 2: g=ContactGeometry::Cylinder(par[0]); break;
      case 3: g=ContactGeometry::Torus(par[0]+par[1], 0.8*par[1]); break; case 4: g=ContactGeometry::Brick(par); break; default: g=ContactGeometry::HalfSpace(); }
    Vec3 Q=2.5*rv(); if(rnd.getValue()>0.6) Q*=0.2;
    bool inside=false; UnitVec3 n; Vec3 P; ntot[shape]++;
    try { P=g.findNearestPoint(Q,inside,n);} catch(const std::exception& e){ if(nbad[shape]<1) printf("%s findNearestPoint threw: %.80s\n",names[shape],e.what()); nbad[shape]++; continue; }
    std::string why;
    // on surface
    if(shape<=3){ Real f=g.calcSurfaceValue(P); Real gradn=g.calcSurfaceGradient(P).norm(); if(std::abs(f)>1e-6*std::max(1.0,gradn)) why+=" P not on surface f="+std::to_string(f);
      Real fQ=g.calcSurfaceValue(Q); if(std::abs(fQ)>1e-6 && (fQ>0)!=inside) why+=" inside flag mismatch fQ="+std::to_string(fQ)+" inside="+std::to_string(inside);
      UnitVec3 nn=g.calcSurfaceUnitNormal(P); if((Vec3(nn)-Vec3(n)).norm()>1e-6) why+=" normal mismatch"; }
    // optimality vs samples
    Real dP=(Q-P).norm(); Real best=Infinity;
    for(int k=0;k<4000;++k){ Vec3 S; Real a=Pi*rnd.getValue(), b=Pi*rnd.getValue();
      switch(shape){case 0: S=par[0]*Vec3(cos(a)*cos(b/2),sin(a)*cos(b/2),sin(b/2)); break;
        case 1: S=Vec3(par[0]*cos(a)*cos(b/2),par[1]*sin(a)*cos(b/2),par[2]*sin(b/2)); break;
        case 2: S=Vec3(par[0]*cos(a),par[0]*sin(a),Q[2]+2*rnd.getValue()); break;
        case 3: { Real R=par[0]+par[1], r=0.8*par[1]; S=Vec3((R+r*cos(b))*cos(a),(R+r*cos(b))*sin(a),r*sin(b)); } break;
        case 4: { Vec3 t=rv(); int ax=k%3; t[ax]= (k%2)?1:-1; S=Vec3(t[0]*par[0],t[1]*par[1],t[2]*par[2]); } break;
        default: S=Vec3(0,3*rnd.getValue(),3*rnd.getValue()); }
      best=std::min(best,(Q-S).norm()); }
    if(dP>best+1e-3*std::max(1.0,best)) why+=" not nearest: |Q-P|="+std::to_string(dP)+" but a sampled surface point is at "+std::to_string(best);
    if(!why.empty()){ nbad[shape]++; if(nbad[shape]<=3) printf("%s par=(%.3f,%.3f,%.3f) Q=(%.3f,%.3f,%.3f) P=(%.3f,%.3f,%.3f) inside=%d:%s\n",names[shape],par[0],par[1],par[2],Q[0],Q[1],Q[2],P[0],P[1],P[2],(int)inside,why.c_str()); }
  }
  for(int i=0;i<6;++i) printf("%s: %d bad of %d\n",names[i],nbad[i],ntot[i]);
}
