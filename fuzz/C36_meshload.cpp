// C36_meshload -- structure-aware libFuzzer target for the PolygonalMesh loaders (asan tree).
// fuzzer bytes -> choice tape -> generated mesh + syntactic variation flags -> MY writer -> PolygonalMesh::loadFile
// -> validity (indices in range) + round-trip oracle (the file-mode property of props/C36.cpp, incl. TriangleMesh
// construction for closed meshes). The loaders never see bytes that my writer could not have produced, so crashes on
// malformed files (outside C36, design probe AM) cannot be reported. A failing input is saved as a replayable tape
// under replays/C36/ (the first word is forced to "file mode", so `C36 --replay` decodes it identically).
#define PBT_FUZZ
#define C36_NO_MAIN
#include "../props/C36.cpp"

extern "C" int LLVMFuzzerTestOneInput(const uint8_t* data, size_t size) {
    static pbt::Config cfg = config(); static pbt::Property p = property;
    std::vector<uint8_t> b(data, data + size); if (b.size() < 4) b.resize(4, 0);
    const uint32_t mode = 4;            // pick(8) == 4 -> file mode
    memcpy(b.data(), &mode, 4);
    return pbt::fuzzOne(b.data(), b.size(), cfg, p);
}
