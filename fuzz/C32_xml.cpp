// C32_xml -- libFuzzer target of property C32: arbitrary bytes -> Xml::Document::readFromString. Rejection (exception)
// is fine. Oracle inside the target (gen/c32_xml.h): an accepted document without Unknown nodes, written with
// writeToString and read again, is the same tree (tags, attributes, text modulo the documented white-space
// condensing, comments, declaration), and from the second write on the text is a fixed point.
#define PBT_FUZZ
#include "c32_xml.h"
extern "C" int LLVMFuzzerTestOneInput(const uint8_t* data, size_t size) {
    std::string s((const char*)data, size);
    pbt::Ctx ctx; ctx.prop = "C32";
    try { c32::checkXmlBytes(s, ctx); }
    catch (const std::exception& e) { ctx.fail(std::string("unexpected exception: ") + e.what()); }
    if (ctx.failed) c32::fuzzFail(2, s, ctx);
    return 0;
}
