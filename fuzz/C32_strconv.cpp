// C32_strconv -- libFuzzer target of property C32: arbitrary bytes -> String::tryConvertTo<T>/convertTo<T> for
// double, float, bool and every integer width. Oracle inside the target (gen/c32_oracle.h): the library accepts IFF the
// reference recogniser does (documented grammar: decimal literals of operator>>, NaN/[-]Inf/[-]Infinity, true/false,
// surrounding white space ignored, whole string consumed), with the same value; convertTo throws IFF tryConvertTo fails.
// A violation saves the input as a raw-mode tape of props/C32 (replayable) and traps.
#define PBT_FUZZ
#include "c32_oracle.h"
extern "C" int LLVMFuzzerTestOneInput(const uint8_t* data, size_t size) {
    std::string s((const char*)data, size);
    pbt::Ctx ctx; ctx.prop = "C32";
    try { c32::checkStrconvBytes(s, ctx); }
    catch (const std::exception& e) { ctx.fail(std::string("unexpected exception: ") + e.what()); }
    if (ctx.failed) c32::fuzzFail(0, s, ctx);
    return 0;
}
