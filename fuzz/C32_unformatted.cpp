// C32_unformatted -- libFuzzer target of property C32: arbitrary bytes as an input stream for readUnformatted<T>
// (double, Vec3, Array_<double>, Vector_<double>, String, int, bool). Oracle inside the target (gen/c32_oracle.h):
// my own tokenizer + reference recogniser decide success and values; accepted => write/read fixed point.
#define PBT_FUZZ
#include "c32_oracle.h"
extern "C" int LLVMFuzzerTestOneInput(const uint8_t* data, size_t size) {
    std::string s((const char*)data, size);
    pbt::Ctx ctx; ctx.prop = "C32";
    try { c32::checkUnformattedBytes(s, ctx); }
    catch (const std::exception& e) { ctx.fail(std::string("unexpected exception: ") + e.what()); }
    if (ctx.failed) c32::fuzzFail(1, s, ctx);
    return 0;
}
