#!/bin/bash
# MANIFEST.setup_cmd: offline; builds the verification trees from /repo's
# current working tree and every harness.  Idempotent (ninja decides).
set -u
cd "$(dirname "$0")"
rc=0
python3 - <<'PY' > /tmp/verif-setup-targets.$$ 
import json
import glob,os
p={os.path.basename(f)[:-5]: json.load(open(f)) for f in glob.glob('props/C*.json')}
trees={}
for k,v in p.items():
    for t in v.get('trees',['main']):
        tg=trees.setdefault(t,[])
        h=v.get('harness',k)
        if t!='asan' or v.get('asan_harness',True): tg.append(h)
        if t=='asan': tg += [f['target'] for f in v.get('fuzz',[])]
for t,tg in trees.items(): print(t,' '.join(sorted(set(tg))))
PY
# the three trees build concurrently; each gets a share of the cores
N=$(nproc); NT=$(wc -l < /tmp/verif-setup-targets.$$); J=$(( (N + NT - 1) / (NT>0?NT:1) )); [ $J -lt 4 ] && J=4
while read -r tree targets; do
  ( VERIF_JOBS=$J tools/build.sh $tree $targets || echo "SETUP-FAILED tree=$tree rc=$?" ) &
done < /tmp/verif-setup-targets.$$
wait
rm -f /tmp/verif-setup-targets.$$
for t in main; do [ -f build/$t/repo/libSimTKsimbody.so ] || rc=1; done
exit $rc
