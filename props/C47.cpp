// C47 -- Geodesics lie on their surfaces and agree across methods (DESIGN.md section 5, C47).
// Domain: Sphere, Cylinder, Ellipsoid, Torus (scale 0.1..10, ellipsoid axis ratios up to 1:5, torus tube
// 0.05..0.8 R), start points from my own parameterisations (optionally perturbed off the surface), tangent
// directions with an optional normal component (the API projects both), lengths 1e-3 L .. ~3 wraps, integrator
// accuracy 1e-6..1e-10, constraint tolerance 1e-8..1e-12, 2..40 analytic knots.
// Units: (0) shoot analytically (sphere, cylinder) and implicitly and compare every knot with an independent
// reference; (1) metamorphic: re-shoot from an interior knot, reversal (incl. the Jacobi-scalar exchange law);
// (2) point-to-point calcGeodesicAnalytical on sphere / cylinder against great-circle / helix closed forms.
// Oracle: validity of every knot (arc length bookkeeping, on the surface within the requested constraint
// tolerance, unit tangent orthogonal to MY surface normal, chord vs arc length incl. Schur's lower bound),
// reference = closed forms (great circle, helix, their Jacobi scalars) and, for all four surfaces, MY OWN
// integration of the geodesic and Jacobi equations on MY implicit function (RK4, h and h/2, projected), which
// also decides "negligible geodesic curvature"; analytic vs implicit agreement; metamorphic relations.
#include "pbt.h"
#include "SimTKmath.h"
#include <memory>
using namespace SimTK;
typedef ContactGeometry::GeodesicKnotPoint KP;

namespace {
enum Shape { SPHERE = 0, CYLINDER, ELLIPSOID, TORUS, NSHAPES };
const char* shapeName[] = {"sphere", "cylinder", "ellipsoid", "torus"};
const double PI = 3.14159265358979323846;

struct Surf {
    Shape sh = SPHERE; Vec3 par = Vec3(1, 1, 1); double L = 1;   // sphere r | cylinder r | ellipsoid a,b,c | torus R,r
    // my implicit function G (negative inside), gradient g and Hessian H written by hand; only ratios matter
    Vec3 grad(const Vec3& p) const {
        switch (sh) {
        case SPHERE: return p;
        case CYLINDER: return Vec3(p[0], p[1], 0);
        case ELLIPSOID: return Vec3(p[0]/(par[0]*par[0]), p[1]/(par[1]*par[1]), p[2]/(par[2]*par[2]));
        default: { double rho = std::sqrt(p[0]*p[0] + p[1]*p[1]), k = (rho - par[0]) / rho; return Vec3(k*p[0], k*p[1], p[2]); } }
    }
    Mat33 hess(const Vec3& p) const {
        Mat33 H(0);
        switch (sh) {
        case SPHERE: H(0,0) = H(1,1) = H(2,2) = 1; break;
        case CYLINDER: H(0,0) = H(1,1) = 1; break;
        case ELLIPSOID: for (int i = 0; i < 3; ++i) H(i,i) = 1/(par[i]*par[i]); break;
        default: { double rho = std::sqrt(p[0]*p[0] + p[1]*p[1]), R = par[0], r3 = rho*rho*rho;   // G = ((rho-R)^2 + z^2 - r^2)/2
            H(0,0) = 1 - R/rho + R*p[0]*p[0]/r3; H(1,1) = 1 - R/rho + R*p[1]*p[1]/r3; H(0,1) = H(1,0) = R*p[0]*p[1]/r3; H(2,2) = 1; } }
        return H;
    }
    Vec3 normal(const Vec3& p) const { Vec3 g = grad(p); return g / g.norm(); }
    double gauss(const Vec3& p) const {   // Gaussian curvature, closed forms
        switch (sh) {
        case SPHERE: return 1/(par[0]*par[0]);
        case CYLINDER: return 0;
        case ELLIPSOID: { double a = par[0], b = par[1], c = par[2]; double q = p[0]*p[0]/(a*a*a*a) + p[1]*p[1]/(b*b*b*b) + p[2]*p[2]/(c*c*c*c); return 1/(a*a*b*b*c*c*q*q); }
        default: { double rho = std::sqrt(p[0]*p[0] + p[1]*p[1]), cv = (rho - par[0]) / par[1]; return cv / (par[1] * rho); } }
    }
    double sdist(const Vec3& p) const {   // signed distance (first order for the ellipsoid)
        switch (sh) {
        case SPHERE: return p.norm() - par[0];
        case CYLINDER: return std::hypot(p[0], p[1]) - par[0];
        case ELLIPSOID: { double f = square(p[0]/par[0]) + square(p[1]/par[1]) + square(p[2]/par[2]) - 1; return f / (2 * grad(p).norm()); }
        default: { double rho = std::hypot(p[0], p[1]) - par[0]; return std::hypot(rho, p[2]) - par[1]; } }
    }
    Vec3 project(Vec3 p) const {   // onto the surface along my normal
        switch (sh) {
        case SPHERE: return p * (par[0] / p.norm());
        case CYLINDER: { double rho = std::hypot(p[0], p[1]); return Vec3(p[0]*par[0]/rho, p[1]*par[0]/rho, p[2]); }
        case TORUS: { double rho = std::hypot(p[0], p[1]); Vec3 c(par[0]*p[0]/rho, par[0]*p[1]/rho, 0); Vec3 d = p - c; return c + d * (par[1] / d.norm()); }
        default: for (int it = 0; it < 4; ++it) { double f = square(p[0]/par[0]) + square(p[1]/par[1]) + square(p[2]/par[2]) - 1; Vec3 g = 2 * grad(p); p -= g * (f / (~g * g)); } return p; }
    }
    double kmax() const { return sh == ELLIPSOID ? std::max(par[0], std::max(par[1], par[2])) / square(std::min(par[0], std::min(par[1], par[2]))) : sh == TORUS ? std::max(1/par[1], 1/(par[0] - par[1])) : 1/par[0]; }
    Vec3 param(double u, double v, double z0) const {
        switch (sh) {
        case SPHERE: case ELLIPSOID: { double z = 2*v - 1, r = std::sqrt(std::max(0.0, 1 - z*z)), ph = 2*PI*u; Vec3 d(r*std::cos(ph), r*std::sin(ph), z); return sh == SPHERE ? Vec3(par[0]*d) : Vec3(par[0]*d[0], par[1]*d[1], par[2]*d[2]); }
        case CYLINDER: return Vec3(par[0]*std::cos(2*PI*u), par[0]*std::sin(2*PI*u), z0);
        default: { double a = 2*PI*u, b = 2*PI*v, rr = par[0] + par[1]*std::cos(b); return Vec3(rr*std::cos(a), rr*std::sin(a), par[1]*std::sin(b)); } }
    }
    bool analytic() const { return sh == SPHERE || sh == CYLINDER; }
};

struct GState { Vec3 p, v; double jr, jrd, jt, jtd; };
struct GDeriv { Vec3 dp, dv; double djr, djrd, djt, djtd; };

GDeriv deriv(const Surf& S, const GState& y) {
    GDeriv d; Vec3 g = S.grad(y.p); Mat33 H = S.hess(y.p); double K = S.gauss(y.p);
    d.dp = y.v; d.dv = g * (-(~y.v * (H * y.v)) / (~g * g)); d.djr = y.jrd; d.djrd = -K * y.jr; d.djt = y.jtd; d.djtd = -K * y.jt; return d;
}
GState axpy(const GState& y, double h, const GDeriv& d) { GState o = y; o.p += h*d.dp; o.v += h*d.dv; o.jr += h*d.djr; o.jrd += h*d.djrd; o.jt += h*d.djt; o.jtd += h*d.djtd; return o; }
// my reference integrator: classical RK4 + projection onto the surface / unit tangent after every step
void advance(const Surf& S, GState& y, double ds, double hmax) {
    int n = std::max(1, (int)std::ceil(ds / hmax)); double h = ds / n;
    for (int i = 0; i < n; ++i) {
        GDeriv k1 = deriv(S, y), k2 = deriv(S, axpy(y, h/2, k1)), k3 = deriv(S, axpy(y, h/2, k2)), k4 = deriv(S, axpy(y, h, k3));
        y.p += (h/6) * (k1.dp + 2*k2.dp + 2*k3.dp + k4.dp); y.v += (h/6) * (k1.dv + 2*k2.dv + 2*k3.dv + k4.dv);
        y.jr += (h/6) * (k1.djr + 2*k2.djr + 2*k3.djr + k4.djr); y.jrd += (h/6) * (k1.djrd + 2*k2.djrd + 2*k3.djrd + k4.djrd);
        y.jt += (h/6) * (k1.djt + 2*k2.djt + 2*k3.djt + k4.djt); y.jtd += (h/6) * (k1.djtd + 2*k2.djtd + 2*k3.djtd + k4.djtd);
        y.p = S.project(y.p); Vec3 n_ = S.normal(y.p); y.v -= n_ * (~n_ * y.v); y.v /= y.v.norm();
    }
}
// closed forms for sphere (great circle) and cylinder (helix), incl. Jacobi scalars
GState closedForm(const Surf& S, const GState& y0, double s) {
    GState o = y0;
    if (S.sh == SPHERE) { double r = S.par[0], a = s / r; o.p = std::cos(a) * y0.p + (r * std::sin(a)) * y0.v; o.v = (-std::sin(a) / r) * y0.p + std::cos(a) * y0.v;
        o.jr = r * std::sin(a); o.jrd = std::cos(a); o.jt = std::cos(a); o.jtd = -std::sin(a) / r; }
    else { double r = S.par[0]; double a0 = std::atan2(y0.p[1], y0.p[0]); Vec3 ea(-std::sin(a0), std::cos(a0), 0); double ca = ~y0.v * ea, cz = y0.v[2]; double a1 = a0 + ca * s / r;
        o.p = Vec3(r * std::cos(a1), r * std::sin(a1), y0.p[2] + cz * s); o.v = ca * Vec3(-std::sin(a1), std::cos(a1), 0) + Vec3(0, 0, cz); o.jr = s; o.jrd = 1; o.jt = 1; o.jtd = 0; }
    return o;
}

struct Case { Surf S; std::unique_ptr<ContactGeometry> geo; std::string descr; };
void buildCase(const pbt::Seg& s0, Case& c) {
    pbt::Reader g(s0); Surf& S = c.S; S.sh = (Shape)g.pick(NSHAPES);
    double scale = g.logreal(0.1, 10), r1 = g.logreal(1, 5), r2 = g.logreal(1, 5); int perm = g.pick(6); double tubeFrac = 0.05 + 0.75 * g.unit();
    std::ostringstream d; d.precision(17);
    switch (S.sh) {
    case SPHERE: S.par = Vec3(scale, 0, 0); S.L = scale; c.geo.reset(new ContactGeometry::Sphere(scale)); d << "Sphere(r=" << scale << ")"; break;
    case CYLINDER: S.par = Vec3(scale, 0, 0); S.L = scale; c.geo.reset(new ContactGeometry::Cylinder(scale)); d << "Cylinder(r=" << scale << ")"; break;
    case ELLIPSOID: { double v[3] = {scale, scale/r1, scale/r2}; static const int P[6][3] = {{0,1,2},{0,2,1},{1,0,2},{1,2,0},{2,0,1},{2,1,0}};
        S.par = Vec3(v[P[perm][0]], v[P[perm][1]], v[P[perm][2]]); S.L = scale; c.geo.reset(new ContactGeometry::Ellipsoid(S.par)); d << "Ellipsoid(" << S.par << ")"; break; }
    default: S.par = Vec3(scale, scale * tubeFrac, 0); S.L = scale * (1 + tubeFrac); c.geo.reset(new ContactGeometry::Torus(S.par[0], S.par[1])); d << "Torus(R=" << S.par[0] << ", r=" << S.par[1] << ")"; break;
    }
    c.descr = d.str();
}

std::string v3(const Vec3& v) { std::ostringstream o; o.precision(17); o << "(" << v[0] << "," << v[1] << "," << v[2] << ")"; return o.str(); }
bool fin3(const Vec3& v) { return std::isfinite(v[0]) && std::isfinite(v[1]) && std::isfinite(v[2]); }
const bool CALIB = getenv("C47_CALIB") != nullptr;
struct Judge {
    pbt::Ctx& ctx; const Surf& S; std::string where;
    bool le(const char* name, double value, double tol, const std::string& detail) {
        if (CALIB) { double r = value / tol; int dec = r <= 0 || !(r == r) ? (r == r ? -20 : 99) : (int)std::floor(std::log10(r)); if (dec < -20) dec = -20; char b[160]; snprintf(b, sizeof b, "calib:%s/%s:1e%+03d", shapeName[S.sh], name, dec); ctx.label(b); return true; }
        if (!(value <= tol)) { ctx.fail(where + ": " + name + " = " + pbt::str(value) + " > tolerance " + pbt::str(tol) + " -- " + detail); return false; }
        return true;
    }
};

struct Shot { Vec3 P0, T0; double len, acc, ctol, h0; int nKnots; double pert; };
Shot genShot(pbt::Reader& g, const Surf& S, Vec3& Psurf, Vec3& tTan) {
    Shot s; double u = g.unit(), v = g.unit(), z0 = S.L * g.real(-3, 3), ang = g.angle();
    Psurf = S.param(u, v, z0);
    if (S.sh == TORUS || S.sh == ELLIPSOID || S.sh == SPHERE) { /* poles of the sphere parameterisation are ordinary surface points */ }
    Vec3 n = S.normal(Psurf); Vec3 t1 = std::abs(n[2]) < 0.9 ? Vec3(0, 0, 1) : Vec3(1, 0, 0); t1 -= n * (~n * t1); t1 /= t1.norm(); Vec3 t2 = n % t1;
    tTan = std::cos(ang) * t1 + std::sin(ang) * t2;
    double ncomp = g.chance(1, 3) ? g.real(-0.5, 0.5) : 0.0, mag = g.logreal(0.1, 10);   // the API projects and normalises the tangent
    s.T0 = mag * (tTan + ncomp * n);
    s.pert = g.chance(1, 3) ? S.L * std::pow(10.0, -g.real(6, 12)) * (g.boolean() ? 1 : -1) : 0.0;   // the API projects the point
    s.P0 = Psurf + s.pert * n;
    // length scale: geometric mean of the overall size and the smallest curvature radius (keeps the number of wraps around
    // a thin torus tube / a pointed ellipsoid tip bounded: at most ~20 length scales = a few wraps)
    const double ell = std::sqrt(S.L / S.kmax());
    s.len = ell * std::pow(10.0, g.real(-3, 1.3));
    s.acc = std::pow(10.0, -g.real(6, 10)); s.ctol = std::pow(10.0, -g.real(8, 12)); s.h0 = S.L * std::pow(10.0, -g.real(0, 3)); s.nKnots = 2 + g.pick(39);
    return s;
}

struct StepLimit {};   // documented refusal: "step count exceeded limit of 10000"
std::vector<KP> shootImplicit(const ContactGeometry& geo, const Shot& s) { std::vector<KP> k;
    try { geo.shootGeodesicInDirectionImplicitly(s.P0, s.T0, s.len, s.h0, s.acc, s.ctol, 1000, [&](const KP& q) { k.push_back(q); }); }
    catch (const std::exception& e) { if (std::string(e.what()).find("step count exceeded limit") != std::string::npos) throw StepLimit(); throw; }
    return k; }
std::vector<KP> shootAnalytic(const ContactGeometry& geo, const Shot& s) { std::vector<KP> k; geo.shootGeodesicInDirectionAnalytically(s.P0, s.T0, s.len, s.nKnots, [&](const KP& q) { k.push_back(q); }); return k; }

// library-unit scale of calcSurfaceValue near the surface (|gradient| of the library's implicit function)
double libGradNorm(const ContactGeometry& geo, const Vec3& p) { return geo.calcSurfaceGradient(p).norm(); }

// validity of one knot sequence; returns false on failure
bool checkKnots(Judge& J, const Case& c, const Shot& s, const std::vector<KP>& K, bool implicit, const Vec3& Psurf, const Vec3& tTan) {
    pbt::Ctx& ctx = J.ctx; const Surf& S = c.S; const ContactGeometry& geo = *c.geo; const double L = S.L;
    const char* m = implicit ? "implicit" : "analytic";
    if (!ctx.check(!K.empty(), J.where + ": " + m + " shooter delivered no knot points")) return false;
    if (!implicit && !ctx.check((int)K.size() == s.nKnots, J.where + ": analytic shooter delivered " + std::to_string(K.size()) + " knots, requested " + std::to_string(s.nKnots))) return false;
    if (implicit && !ctx.check(K.size() >= 2, J.where + ": implicit shooter delivered a single knot for a positive length")) return false;
    if (!ctx.check(K.front().arcLength == 0, J.where + ": " + m + ": first knot arc length " + pbt::str(K.front().arcLength) + " != 0")) return false;
    if (!ctx.check(K.back().arcLength == s.len, J.where + ": " + m + ": last knot arc length " + pbt::str(K.back().arcLength) + " != requested length " + pbt::str(s.len))) return false;
    // first knot = projected start point / projected normalised tangent, Jacobi initial conditions
    const KP& k0 = K.front();
    if (!ctx.check(fin3(k0.point) && fin3(Vec3(k0.tangent)), J.where + ": " + m + ": first knot not finite")) return false;
    // (a start point already within the constraint tolerance -- in the units of the library's implicit function -- is not moved)
    const double slack0 = implicit ? 2 * s.ctol / libGradNorm(geo, k0.point) : 0.0;
    if (!J.le((std::string(m) + " first knot vs my projected start point").c_str(), (k0.point - Psurf).norm(), 1e-9 * L + 1e-3 * std::abs(s.pert) + slack0, "knot0=" + v3(k0.point) + " mine=" + v3(Psurf))) return false;
    {   Vec3 n0 = S.normal(k0.point); Vec3 t = s.T0 - n0 * (~n0 * s.T0); t /= t.norm();
        if (!J.le((std::string(m) + " first tangent vs my projected tangent").c_str(), (Vec3(k0.tangent) - t).norm(), 1e-9 + 10 * (std::abs(s.pert) + slack0) * S.kmax(), "knot0.tangent=" + v3(Vec3(k0.tangent)) + " mine=" + v3(t))) return false; }
    if (!ctx.check(k0.jacobiRot == 0 && k0.jacobiRotDot == 1 && k0.jacobiTrans == 1 && k0.jacobiTransDot == 0, J.where + ": " + m + ": Jacobi initial conditions are not (0,1,1,0)")) return false;
    const double kmax = S.kmax();
    for (size_t i = 0; i < K.size(); ++i) {
        const KP& k = K[i]; std::string at = std::string(m) + " knot " + std::to_string(i) + "/" + std::to_string(K.size()) + " s=" + pbt::str(k.arcLength);
        if (!ctx.check(fin3(k.point) && fin3(Vec3(k.tangent)) && std::isfinite(k.arcLength) && std::isfinite(k.jacobiRot) && std::isfinite(k.jacobiTrans) && std::isfinite(k.jacobiRotDot) && std::isfinite(k.jacobiTransDot), J.where + ": " + at + " has non-finite entries")) return false;
        if (i > 0 && !ctx.check(k.arcLength > K[i-1].arcLength, J.where + ": " + at + ": arc length not increasing")) return false;
        if (!implicit) { double want = s.len * double(i) / double(s.nKnots - 1); if (!J.le("analytic knots equally spaced", std::abs(k.arcLength - want), 1e-12 * s.len, at)) return false; }
        // on the surface: the library's own constraint (in the units of its implicit function) and my distance
        double f = geo.calcSurfaceValue(k.point), gn = libGradNorm(geo, k.point);
        double tolF = implicit ? s.ctol * (1 + 1e-6) + 1e-14 * gn * L : 1e-12 * gn * L;
        if (!J.le(implicit ? "implicit |calcSurfaceValue(knot)| vs constraintTolerance" : "analytic |calcSurfaceValue(knot)|", std::abs(f), tolF, at + " f=" + pbt::str(f))) return false;
        if (!J.le(implicit ? "implicit knot distance from my surface" : "analytic knot distance from my surface", std::abs(S.sdist(k.point)), 2 * tolF / gn + 1e-12 * L, at + " point=" + v3(k.point))) return false;
        Vec3 t(k.tangent), n = S.normal(k.point);
        if (!J.le((std::string(m) + " |tangent|-1").c_str(), std::abs(t.norm() - 1), 1e-12, at)) return false;
        if (!J.le((std::string(m) + " tangent.normal").c_str(), std::abs(~t * n), 1e-9 + 4 * kmax * (2 * tolF / gn), at + " t=" + v3(t) + " n=" + v3(n))) return false;
        if (i > 0) {   // chord vs arc length; Schur: a curve of curvature <= kmax has chord >= (2/kmax) sin(kmax ds/2)
            double ds = k.arcLength - K[i-1].arcLength, ch = (k.point - K[i-1].point).norm(), slack = 4 * tolF / gn + 1e-12 * (L + s.len) + (implicit ? 100 * s.acc : 0.0);
            if (!J.le((std::string(m) + " chord - arc").c_str(), ch - ds, slack, at + " chord=" + pbt::str(ch) + " ds=" + pbt::str(ds))) return false;
            if (kmax * ds <= PI) { double lb = (2 / kmax) * std::sin(kmax * ds / 2); if (!J.le((std::string(m) + " Schur bound - chord").c_str(), lb - ch, slack, at + " chord=" + pbt::str(ch) + " bound=" + pbt::str(lb))) return false; }
        }
    }
    (void)tTan; return true;
}

// compare a knot sequence with my reference (closed form where available, else my integrator at h and h/2)
struct RefOut { bool usable = true; double amp = 1, refErr = 0; GState end; };
bool compareWithReference(Judge& J, const Case& c, const Shot& s, const std::vector<KP>& K, bool implicit, RefOut& out) {
    pbt::Ctx& ctx = J.ctx; const Surf& S = c.S; const double L = S.L; const char* m = implicit ? "implicit" : "analytic";
    GState y0; y0.p = S.project(K.front().point); { Vec3 n0 = S.normal(y0.p); Vec3 t(K.front().tangent); t -= n0 * (~n0 * t); y0.v = t / t.norm(); } y0.jr = 0; y0.jrd = 1; y0.jt = 1; y0.jtd = 0;
    const double hmax = 0.02 / S.kmax();
    GState ya = y0, yb = y0; double sPrev = 0, amp = 1, refErr = 0;
    std::vector<GState> ref(K.size());
    for (size_t i = 0; i < K.size(); ++i) {
        double ds = K[i].arcLength - sPrev; sPrev = K[i].arcLength;
        if (S.analytic()) ya = closedForm(S, y0, K[i].arcLength);
        else if (ds > 0) { advance(S, ya, ds, hmax / 2); advance(S, yb, ds, hmax); refErr = std::max(refErr, (ya.p - yb.p).norm() + L * (ya.v - yb.v).norm()); }
        ref[i] = ya; amp = std::max(amp, 1 + std::abs(ya.jt) + std::abs(ya.jr) / L + std::abs(ya.jrd) + L * std::abs(ya.jtd));
    }
    out.amp = amp; out.refErr = refErr; out.end = ref.back();
    if (S.analytic()) {   // ORACLE SELF-CHECK: my integrator reproduces the closed form (validates the machinery used for ellipsoid and torus)
        GState yc = y0; advance(S, yc, s.len, hmax); GState cf = closedForm(S, y0, s.len);
        double e = (yc.p - cf.p).norm() + L * (yc.v - cf.v).norm() + std::abs(yc.jr - cf.jr) + L * std::abs(yc.jrd - cf.jrd) + L * std::abs(yc.jt - cf.jt) + L * L * std::abs(yc.jtd - cf.jtd);
        if (!ctx.check(e <= 1e-7 * (L + s.len) * (1 + s.len / L), J.where + ": ORACLE SELF-CHECK: my RK4 geodesic vs closed form differs by " + pbt::str(e))) return false;
    }
    if (refErr > 1e-7 * L || amp > 1e4) { ctx.label(amp > 1e4 ? "reference:ill-conditioned(amp>1e4)" : "reference:not-converged"); out.usable = false; return true; }
    // tolerances: analytic = rounding only; implicit = requested accuracy per step, accumulated and amplified by the Jacobi fields
    const double nst = (double)K.size();
    // implicit knots may sit up to constraintTolerance (units of the library's implicit function) off the surface
    const double slackC = implicit ? 4 * s.ctol / libGradNorm(*c.geo, K.front().point) * amp : 0.0;
    const double tolP = implicit ? 3 * s.acc * nst * amp * (1 + s.len / L) + slackC + 4 * refErr + 1e-11 * (L + s.len) : 1e-13 * (L + s.len) * amp + 4 * refErr;
    const double tolV = tolP / L + (implicit ? 3 * s.acc * nst * amp : 0.0);
    for (size_t i = 0; i < K.size(); ++i) {
        const KP& k = K[i]; const GState& r = ref[i]; std::string at = std::string(m) + " knot " + std::to_string(i) + "/" + std::to_string(K.size()) + " s=" + pbt::str(k.arcLength);
        if (!J.le((std::string(m) + " point vs reference geodesic").c_str(), (k.point - r.p).norm(), tolP, at + " lib=" + v3(k.point) + " ref=" + v3(r.p))) return false;
        if (!J.le((std::string(m) + " tangent vs reference geodesic").c_str(), (Vec3(k.tangent) - r.v).norm(), tolV, at + " lib=" + v3(Vec3(k.tangent)) + " ref=" + v3(r.v))) return false;
        if (!J.le((std::string(m) + " jacobiRot vs reference").c_str(), std::abs(k.jacobiRot - r.jr), tolP + tolV * L, at + " lib=" + pbt::str(k.jacobiRot) + " ref=" + pbt::str(r.jr))) return false;
        if (!J.le((std::string(m) + " jacobiRotDot vs reference").c_str(), std::abs(k.jacobiRotDot - r.jrd), tolV + tolP / L, at + " lib=" + pbt::str(k.jacobiRotDot) + " ref=" + pbt::str(r.jrd))) return false;
        if (!J.le((std::string(m) + " jacobiTrans vs reference").c_str(), std::abs(k.jacobiTrans - r.jt), tolV + tolP / L, at + " lib=" + pbt::str(k.jacobiTrans) + " ref=" + pbt::str(r.jt))) return false;
        if (!J.le((std::string(m) + " jacobiTransDot vs reference").c_str(), std::abs(k.jacobiTransDot - r.jtd), (tolV + tolP / L) / L, at + " lib=" + pbt::str(k.jacobiTransDot) + " ref=" + pbt::str(r.jtd))) return false;
    }
    return true;
}

void describe(pbt::Ctx& ctx, int ui, const char* what, const Shot& s) {
    if (ctx.wantDesc) ctx.desc << "  [" << ui << "] " << what << " P0=" << v3(s.P0) << " T0=" << v3(s.T0) << " length=" << s.len << " accuracy=" << s.acc << " constraintTol=" << s.ctol << " h0=" << s.h0 << " analyticKnots=" << s.nKnots << "\n";
}
void labelsFor(pbt::Ctx& ctx, const Surf& S, const Shot& s) {
    double wraps = s.len * (S.sh == TORUS ? 1 / S.par[1] : 1 / S.L) / (2 * PI);
    ctx.label(wraps > 1 ? "length:>1wrap" : wraps > 0.5 ? "length:0.5-1wrap" : wraps > 0.01 ? "length:0.01-0.5wrap" : "length:short");
    ctx.nontrivial((S.sh != SPHERE) || wraps > 0.5);
}

void unitShoot(pbt::Reader& g, Case& c, pbt::Ctx& ctx, int ui) {
    const Surf& S = c.S; const ContactGeometry& geo = *c.geo; Vec3 Psurf, tTan; Shot s = genShot(g, S, Psurf, tTan);
    describe(ctx, ui, "shoot", s); labelsFor(ctx, S, s); ctx.label(std::string("shoot:") + shapeName[S.sh]);
    Judge J{ctx, S, "unit " + std::to_string(ui) + " shoot from " + v3(s.P0) + " dir " + v3(s.T0) + " length " + pbt::str(s.len)};
    if (!ctx.check(geo.isAnalyticFormAvailable() == S.analytic(), J.where + ": isAnalyticFormAvailable() unexpected for " + shapeName[S.sh])) return;
    std::vector<KP> ka, ki; RefOut ra, ri;
    if (S.analytic()) {
        ka = shootAnalytic(geo, s); ctx.label("method:analytic");
        if (!checkKnots(J, c, s, ka, false, S.project(s.P0), tTan)) return;
        if (!compareWithReference(J, c, s, ka, false, ra)) return;
    } else {
        ctx.label(std::string("not-offered:") + shapeName[S.sh] + "/shootGeodesicInDirectionAnalytically");
        bool threw = false; try { shootAnalytic(geo, s); } catch (const std::exception&) { threw = true; }
        if (!ctx.check(threw, J.where + ": analytic shooter returned although isAnalyticFormAvailable() is false")) return;
    }
    ki = shootImplicit(geo, s); ctx.label("method:implicit");
    ctx.label(ki.size() > 100 ? "implicit-steps:>100" : ki.size() > 10 ? "implicit-steps:11-100" : "implicit-steps:<=10");
    if (!checkKnots(J, c, s, ki, true, S.project(s.P0), tTan)) return;
    if (!compareWithReference(J, c, s, ki, true, ri)) return;
    if (ri.usable) ctx.label("reference-checked:" + std::string(shapeName[S.sh]));
    if (S.analytic() && ri.usable) {   // (D) the two methods agree at the end point
        const KP& a = ka.back(); const KP& b = ki.back(); const double L = S.L; double nst = (double)ki.size();
        double tol = 6 * s.acc * nst * ri.amp * (1 + s.len / L) + 4 * s.ctol / libGradNorm(geo, b.point) * ri.amp + 1e-11 * (L + s.len);
        if (!J.le("analytic vs implicit end point", (a.point - b.point).norm(), tol, v3(a.point) + " vs " + v3(b.point))) return;
        if (!J.le("analytic vs implicit end tangent", (Vec3(a.tangent) - Vec3(b.tangent)).norm(), tol / L + 6 * s.acc * nst * ri.amp, "")) return;
        if (!J.le("analytic vs implicit jacobiRot", std::abs(a.jacobiRot - b.jacobiRot), 2 * tol, pbt::str(a.jacobiRot) + " vs " + pbt::str(b.jacobiRot))) return;
        if (!J.le("analytic vs implicit jacobiTrans", std::abs(a.jacobiTrans - b.jacobiTrans), 2 * tol / L + 6 * s.acc * nst * ri.amp, pbt::str(a.jacobiTrans) + " vs " + pbt::str(b.jacobiTrans))) return;
        ctx.label("D-checked:analytic-vs-implicit");
    }
}

void unitMetamorphic(pbt::Reader& g, Case& c, pbt::Ctx& ctx, int ui) {
    const Surf& S = c.S; const ContactGeometry& geo = *c.geo; const double L = S.L; Vec3 Psurf, tTan; Shot s = genShot(g, S, Psurf, tTan);
    bool useAnalytic = S.analytic() && g.boolean(); double frac = g.unit();
    s.len = std::min(s.len, 8 * std::sqrt(L / S.kmax()));   // keep the amplification moderate
    describe(ctx, ui, useAnalytic ? "metamorphic(analytic)" : "metamorphic(implicit)", s); labelsFor(ctx, S, s);
    ctx.label(std::string("metamorphic:") + shapeName[S.sh] + (useAnalytic ? "/analytic" : "/implicit"));
    Judge J{ctx, S, "unit " + std::to_string(ui) + (useAnalytic ? " metamorphic(analytic)" : " metamorphic(implicit)") + " from " + v3(s.P0) + " dir " + v3(s.T0) + " length " + pbt::str(s.len)};
    auto shoot = [&](const Shot& x) { return useAnalytic ? shootAnalytic(geo, x) : shootImplicit(geo, x); };
    std::vector<KP> K = shoot(s);
    if (!ctx.check(K.size() >= 2 && K.back().arcLength == s.len, J.where + ": bad knot sequence")) return;
    // amplification estimate from my reference
    GState y0; y0.p = S.project(K.front().point); y0.v = Vec3(K.front().tangent); y0.jr = 0; y0.jrd = 1; y0.jt = 1; y0.jtd = 0; GState y = y0; double amp = 1;
    { int n = 16; for (int i = 0; i < n; ++i) { advance(S, y, s.len / n, 0.05 / S.kmax()); amp = std::max(amp, 1 + std::abs(y.jt) + std::abs(y.jr) / L + std::abs(y.jrd) + L * std::abs(y.jtd)); } }
    if (amp > 1e3) { ctx.label("metamorphic:ill-conditioned(amp>1e3)"); return; }
    const KP& e = K.back(); double nst = (double)K.size();
    double tol = useAnalytic ? 1e-12 * (L + s.len) * amp : 1 * s.acc * nst * amp * amp * (1 + s.len / L) + 4 * s.ctol / libGradNorm(geo, K.front().point) * amp + 1e-11 * (L + s.len);
    // (a) re-shoot the remainder from an interior knot
    size_t ik = std::min(K.size() - 2, (size_t)(frac * (K.size() - 1)));
    if (ik >= 1) {
        Shot s2 = s; s2.P0 = K[ik].point; s2.T0 = Vec3(K[ik].tangent); s2.len = s.len - K[ik].arcLength; s2.nKnots = std::max(2, s.nKnots / 2);
        if (s2.len > 1e-9 * L) { std::vector<KP> K2 = shoot(s2);
            if (!ctx.check(!K2.empty(), J.where + ": re-shoot delivered nothing")) return;
            if (!J.le("re-shoot from interior knot: end point", (K2.back().point - e.point).norm(), tol, "knot " + std::to_string(ik) + " s=" + pbt::str(K[ik].arcLength) + ": " + v3(K2.back().point) + " vs " + v3(e.point))) return;
            if (!J.le("re-shoot from interior knot: end tangent", (Vec3(K2.back().tangent) - Vec3(e.tangent)).norm(), tol / L + (useAnalytic ? 0 : 1 * s.acc * nst * amp * amp), "")) return;
            ctx.label("metamorphic:reshoot"); }
    }
    // (b) reversal: from the end point backwards; Jacobi scalars: (jr, jrd, jt, jtd)_rev = (jr, jt, jrd, jtd)_fwd
    Shot s3 = s; s3.P0 = e.point; s3.T0 = -Vec3(e.tangent); std::vector<KP> K3 = shoot(s3);
    if (!ctx.check(!K3.empty(), J.where + ": reversed shot delivered nothing")) return;
    const KP& b = K3.back();
    if (!J.le("reversal returns to the start point", (b.point - K.front().point).norm(), 2 * tol, v3(b.point) + " vs " + v3(K.front().point))) return;
    if (!J.le("reversal returns with the opposite tangent", (Vec3(b.tangent) + Vec3(K.front().tangent)).norm(), 2 * tol / L + (useAnalytic ? 0 : 2 * s.acc * nst * amp * amp), "")) return;
    double tj = 4 * tol / L + (useAnalytic ? 0 : 4 * s.acc * nst * amp * amp);
    if (!J.le("reversal: jacobiRot symmetric", std::abs(b.jacobiRot - e.jacobiRot), tj * L, pbt::str(b.jacobiRot) + " vs " + pbt::str(e.jacobiRot))) return;
    if (!J.le("reversal: jacobiRotDot(rev) = jacobiTrans(fwd)", std::abs(b.jacobiRotDot - e.jacobiTrans), tj, pbt::str(b.jacobiRotDot) + " vs " + pbt::str(e.jacobiTrans))) return;
    if (!J.le("reversal: jacobiTrans(rev) = jacobiRotDot(fwd)", std::abs(b.jacobiTrans - e.jacobiRotDot), tj, pbt::str(b.jacobiTrans) + " vs " + pbt::str(e.jacobiRotDot))) return;
    if (!J.le("reversal: jacobiTransDot symmetric", std::abs(b.jacobiTransDot - e.jacobiTransDot), tj / L, pbt::str(b.jacobiTransDot) + " vs " + pbt::str(e.jacobiTransDot))) return;
    ctx.label("metamorphic:reversal");
}

void unitPointToPoint(pbt::Reader& g, Case& c, pbt::Ctx& ctx, int ui) {
    const Surf& S = c.S; const ContactGeometry& geo = *c.geo; const double L = S.L;
    double u1 = g.unit(), v1 = g.unit(), u2 = g.unit(), v2 = g.unit(), z1 = L * g.real(-3, 3), z2 = L * g.real(-3, 3); int hintMode = g.pick(3); double ha = g.angle(), hb = g.angle();
    if (!S.analytic()) { ctx.label(std::string("not-offered:") + shapeName[S.sh] + "/calcGeodesicAnalytical"); if (ctx.wantDesc) ctx.desc << "  [" << ui << "] point-to-point: no analytic form for this shape\n"; return; }
    Vec3 P = S.param(u1, v1, z1), Q = S.param(u2, v2, z2); const double r = S.par[0];
    // tangent hints
    auto tangentAt = [&](const Vec3& X, double ang) { Vec3 n = S.normal(X); Vec3 t1 = std::abs(n[2]) < 0.9 ? Vec3(0, 0, 1) : Vec3(1, 0, 0); t1 -= n * (~n * t1); t1 /= t1.norm(); Vec3 t2 = n % t1; return Vec3(std::cos(ang) * t1 + std::sin(ang) * t2); };
    Vec3 tP = tangentAt(P, ha), tQ = hintMode == 0 ? tangentAt(Q, hb) : Vec3(0);
    if (hintMode != 0) { Vec3 w = Q - P; Vec3 nP = S.normal(P), nQ = S.normal(Q); tP = w - nP * (~nP * w); tQ = w - nQ * (~nQ * w); if (tP.norm() > 0) tP /= tP.norm(); if (tQ.norm() > 0) tQ /= tQ.norm(); if (hintMode == 2) { tP = -tP; tQ = -tQ; } }
    Judge J{ctx, S, "unit " + std::to_string(ui) + " calcGeodesicAnalytical P=" + v3(P) + " Q=" + v3(Q)};
    if (ctx.wantDesc) ctx.desc << "  [" << ui << "] calcGeodesicAnalytical P=" << v3(P) << " Q=" << v3(Q) << " tPhint=" << v3(tP) << " tQhint=" << v3(tQ) << "\n";
    // degenerate configurations (several or no distinguished geodesics): coincident / antipodal points on the sphere
    double theta = 0, dphi = 0;
    if (S.sh == SPHERE) { theta = std::atan2((P % Q).norm(), ~P * Q); if (theta < 1e-3 || theta > PI - 1e-3) { ctx.reject("sphere-points-coincident-or-antipodal"); return; } }
    else { dphi = std::atan2(Q[1], Q[0]) - std::atan2(P[1], P[0]); if (dphi == 0 && std::abs(Q[2] - P[2]) < 1e-3 * L) { ctx.reject("cylinder-points-coincident"); return; } }
    ctx.label(std::string("p2p:") + shapeName[S.sh]); ctx.nontrivial(true);
    // moments of the hints decide the orientation (documented by the source comments); undecided if they nearly cancel
    Geodesic geod; geo.calcGeodesicAnalytical(P, Q, tP, tQ, geod);
    int n = geod.getNumPoints();
    if (S.sh == CYLINDER && dphi == 0) {
        // known finding: P and Q on the same generator (straight geodesic along the axis direction) divides by a zero angle
        bool bad = n == 0; for (int i = 0; i < n && !bad; ++i) bad = !fin3(geod.getFrenetFrames()[i].p());
        if (bad && ctx.known("cylinder-geodesic-same-generator-nan")) { ctx.label("excluded:cylinder-same-generator"); return; }
    }
    if (!ctx.check(n >= 2 && (int)geod.getArcLengths().size() == n, J.where + ": geodesic has " + std::to_string(n) + " points / " + std::to_string(geod.getArcLengths().size()) + " arc lengths")) return;
    const Array_<Transform>& F = geod.getFrenetFrames(); const Array_<Real>& s = geod.getArcLengths();
    for (int i = 0; i < n; ++i) if (!ctx.check(fin3(F[i].p()) && std::isfinite(s[i]), J.where + ": non-finite knot " + std::to_string(i) + ": " + v3(F[i].p()))) return;
    const double tol = 1e-10 * (L + std::abs(z1) + std::abs(z2));
    if (!J.le("starts at P", (F[0].p() - P).norm(), tol, v3(F[0].p()))) return;
    if (!J.le("ends at Q", (F[n-1].p() - Q).norm(), tol * 10, v3(F[n-1].p()))) return;
    if (!ctx.check(s[0] == 0, J.where + ": first arc length not 0")) return;
    // closed-form candidates for the length
    double len = geod.getLength(), cand1, cand2;
    if (S.sh == SPHERE) { cand1 = r * theta; cand2 = r * (2 * PI - theta); }
    else { double d1 = dphi; while (d1 < 0) d1 += 2 * PI; while (d1 >= 2 * PI) d1 -= 2 * PI; double dz = Q[2] - P[2]; cand1 = std::hypot(r * d1, dz); cand2 = std::hypot(r * (2 * PI - d1), dz); }
    double dl = std::min(std::abs(len - cand1), std::abs(len - cand2));
    if (!J.le("length equals a closed-form great-circle / helix length", dl, 1e-9 * (L + len), "length=" + pbt::str(len) + " candidates " + pbt::str(cand1) + ", " + pbt::str(cand2))) return;
    if (!ctx.check(len >= std::min(cand1, cand2) - 1e-9 * (L + len), J.where + ": shorter than the shortest geodesic")) return;
    // every knot: on the surface, frame = (binormal, tangent, normal), consistent with the shot from P along the first tangent
    GState y0; y0.p = P; y0.v = Vec3(F[0].y()); y0.jr = 0; y0.jrd = 1; y0.jt = 1; y0.jtd = 0;
    for (int i = 0; i < n; ++i) {
        std::string at = "knot " + std::to_string(i) + " s=" + pbt::str(s[i]);
        if (i > 0 && !ctx.check(s[i] > s[i-1], J.where + ": arc lengths not increasing at " + at)) return;
        if (!J.le("p2p knot on surface", std::abs(S.sdist(F[i].p())), 1e-10 * L, at)) return;
        Vec3 nrm = S.normal(F[i].p());
        if (!J.le("p2p frame z = outward normal", (Vec3(F[i].z()) - nrm).norm(), 1e-9, at)) return;
        if (!J.le("p2p tangent.normal", std::abs(~Vec3(F[i].y()) * nrm), 1e-9, at)) return;
        if (!J.le("p2p binormal = tangent x normal", (Vec3(F[i].x()) - Vec3(F[i].y()) % Vec3(F[i].z())).norm(), 1e-9, at)) return;
        GState cf = closedForm(S, y0, s[i]);
        if (!J.le("p2p knot on the geodesic shot from P along the first tangent", (F[i].p() - cf.p).norm(), 1e-11 * (L + len), at + " lib=" + v3(F[i].p()) + " closed form=" + v3(cf.p))) return;
        if (!J.le("p2p tangent along that geodesic", (Vec3(F[i].y()) - cf.v).norm(), 1e-11 * (1 + len / L), at)) return;
        const Vec2& jPQ = geod.getDirectionalSensitivityPtoQ()[i];
        if (!J.le("p2p Jacobi field P->Q", std::abs(jPQ[0] - cf.jr) + L * std::abs(jPQ[1] - cf.jrd), 1e-11 * (L + len), at + " lib=(" + pbt::str(jPQ[0]) + "," + pbt::str(jPQ[1]) + ") closed form=(" + pbt::str(cf.jr) + "," + pbt::str(cf.jrd) + ")")) return;
    }
    // orientation follows the hints when both agree clearly: on the sphere the start tangent points along the hint;
    // on the cylinder "orientation" is the sense of rotation about the axis (moment of the tangent about z)
    if (hintMode != 0 && tP.norm() > 0.5 && tQ.norm() > 0.5) {
        Vec3 t0(F[0].y());
        if (S.sh == SPHERE) { if (!ctx.check(~t0 * tP > -1e-9, J.where + ": start tangent opposes both hints (tangent " + v3(t0) + ", hint " + v3(tP) + ")")) return; ctx.label("p2p:orientation-checked"); }
        else { double MP = P[0]*tP[1] - P[1]*tP[0], MQ = Q[0]*tQ[1] - Q[1]*tQ[0], M0 = P[0]*t0[1] - P[1]*t0[0];
            if (std::abs(MP) > 1e-6 * r && std::abs(MQ) > 1e-6 * r && (MP > 0) == (MQ > 0) && std::abs(M0) > 1e-9 * r) {
                if (!ctx.check((M0 > 0) == (MP > 0), J.where + ": sense of rotation about the axis opposes both hints (tangent " + v3(t0) + ", hints " + v3(tP) + ", " + v3(tQ) + ")")) return; ctx.label("p2p:orientation-checked"); } }
    }
}

void property(const pbt::Tape& t, pbt::Ctx& ctx) {
    Case c; buildCase(t[0], c); ctx.label(std::string("shape:") + shapeName[c.S.sh]);
    if (ctx.wantDesc) ctx.desc << c.descr << "\n";
    for (size_t k = 1; k < t.size() && !ctx.failed; ++k) {
        pbt::Reader g(t[k]); int kind = g.pick(5);
        try { switch (kind) { case 0: case 3: unitShoot(g, c, ctx, (int)k); break; case 1: case 4: unitMetamorphic(g, c, ctx, (int)k); break; default: unitPointToPoint(g, c, ctx, (int)k); break; } }
        catch (const StepLimit&) { ctx.reject("implicit-step-limit-10000"); return; }
        if (CALIB && ctx.failed) { std::string m = ctx.msg; size_t p = m.find(": "); if (p != std::string::npos) m = m.substr(p + 2); ctx.label(std::string("calib:HARD-FAIL:") + shapeName[c.S.sh] + ":" + m.substr(0, 70)); ctx.failed = false; ctx.msg.clear(); }
    }
}

pbt::Config config() {
    pbt::Config c; c.prop = "C47"; c.K = 24; c.minUnits = 1;
    c.quick = {1000, 6000, 12, 8}; c.thorough = {5000, 100000, 16, 60};
    c.rule = "rapidcheck tape -> surface {sphere, cylinder, ellipsoid (ratios <= 5), torus (tube 0.05..0.8 R)} with scale 0.1..10, then units {shoot analytically+implicitly and compare with closed forms / my own RK4 geodesic+Jacobi integration; metamorphic re-shoot + reversal; calcGeodesicAnalytical between two surface points}; start points optionally 1e-12..1e-6 L off the surface, tangents with normal component and arbitrary magnitude, lengths 1e-3 L..20 L, accuracy 1e-6..1e-10, constraint tolerance 1e-8..1e-12. Non-trivial: non-spherical surface or length > half a wrap; distinct by tape hash.";
    c.assumptions = {"my implicit functions, Hessians, Gaussian curvatures and RK4 integration are the reference (self-checked against the great-circle / helix closed forms on every sphere / cylinder case and by h vs h/2 agreement elsewhere)",
                     "implicit-method tolerances are multiples of the requested per-step accuracy x number of steps x Jacobi-field amplification (calibrated, see notes/C47.md)"};
    c.directed.push_back({"cylinder-geodesic-along-generator", "cylinder-geodesic-same-generator-nan", [](pbt::Ctx& ctx) {
        ContactGeometry::Cylinder cyl(1); Vec3 P(1, 0, 0), Q(1, 0, 2), t(0, 0, 1); Geodesic geod; cyl.calcGeodesicAnalytical(P, Q, t, t, geod);
        int n = geod.getNumPoints(); bool finite = n >= 2; for (int i = 0; i < n; ++i) finite = finite && fin3(geod.getFrenetFrames()[i].p()) && std::isfinite(geod.getArcLengths()[i]);
        ctx.desc << "Cylinder(1).calcGeodesicAnalytical(P=(1,0,0), Q=(1,0,2), hints (0,0,1)) -> " << n << " points, length " << geod.getLength() << (n ? ", end point " + v3(geod.getPointQ()) : std::string()) << "\n";
        if (!ctx.check(finite, "P and Q on the same generator (the geodesic is the straight segment of length 2): the returned geodesic contains NaN (length " + pbt::str(geod.getLength()) + ")")) return;
        ctx.check(std::abs(geod.getLength() - 2) < 1e-12 && (geod.getPointQ() - Q).norm() < 1e-12, "wrong geodesic between points on one generator: length " + pbt::str(geod.getLength()));
    }});
    c.requiredLabels = {"shoot:sphere", "shoot:cylinder", "shoot:ellipsoid", "shoot:torus", "method:analytic", "method:implicit", "reference-checked:ellipsoid", "reference-checked:torus", "D-checked:analytic-vs-implicit",
                        "metamorphic:reshoot", "metamorphic:reversal", "p2p:sphere", "p2p:cylinder", "length:>1wrap"};
    return c;
}
} // namespace

PBT_MAIN(config(), property)
