// C44 -- Impulse solvers return impulses satisfying contact conditions (DESIGN.md section 5, C44).
// Domain: A = G Minv G' (G m x n random, optionally with duplicated/combined rows => rank deficient A; Minv diagonal
// positive), D >= 0 diagonal, rows partitioned into unconditional groups, unilateral contacts (normal + 0/2 friction
// rows, Participating / Known with an expansion impulse / Observing, both sign conventions), and for PGS also bounded,
// state-limited and constraint-limited friction rows; verrStart = G u and verrApplied = h G Minv f are consistent with
// G (as in every real caller); call protocol of SemiExplicitEulerTimeStepper (participating / expanding lists).
// Oracle (ImpulseSolver.h contract; outputs judged, PLUS's return value ignored (it is never true), PGS returning false =
// not converged = rejection). With pi = returned impulse, piE = expansion impulse, vEnd = verrStart0 + verrApplied0
// - (A+D)(pi+piE) recomputed here in long double:
//   K  returned verrStart == vEnd; rows that do not participate get pi == 0 exactly
//   U  unconditional rows: |vEnd| <= tol
//   N  participating normals: sign*pi <= tolPi (never pulls); UniActive => |vEnd_z| <= tol; UniOff => pi_z == 0 and
//      sign*vEnd_z >= -tol (separating); Known => reported UniKnown (PLUS) and pi_z == 0
//   F  friction of a non-observing contact: |pi_xy| <= mu |pi_z + piE_z| (1+1e-9) + tolPi; Rolling => |vEnd_xy| <= tol (PGS) /
//      <= rolling threshold (PLUS); Sliding => on the cone boundary and dissipative (pi_xy . v >= -tol; PLUS single
//      interval: pi_xy = mu N v0/|v0|)
//   B  bounded rows (PGS): lb <= pi <= ub exactly, BndCond consistent with vEnd
//   S  state-limited friction (PGS): |pi_F| <= mu N_known; Rolling => |vEnd_F| <= tol; Sliding => on the boundary, dissipative
//   C  constraint-limited friction (PGS): |pi_F| <= mu |pi_N|; Rolling => |vEnd_F| <= tol
//   L  only-unconditional problems and solveBilateral: (A+D) pi = rhs on the participating rows; PLUS: pi is the
//      minimum-norm solution (compared with a pseudo-inverse built here from a Jacobi eigen-decomposition)
#include "pbt.h"
#include "Simbody.h"
#include <dlfcn.h>
using namespace SimTK;
typedef long double LD;

namespace {
struct BlasOneThread { BlasOneThread() { typedef void (*F)(int); F f = (F)dlsym(RTLD_DEFAULT, "openblas_set_num_threads"); if (f) f(1); } } blasOneThread;

struct ContactSpec { int nk; int fk[2]; bool fric; int type; double sign, mu, piE; };
struct BoundSpec { int ix; double lb, ub; };
struct StateLtdSpec { std::vector<int> fk; double N, mu; };
struct ConsLtdSpec { std::vector<int> fk, nk; double mu; };

struct Case {
    bool plus; int n = 0, m = 0;
    std::vector<double> G, Minv, A, D, verr0, vapp; bool hasApplied = false;
    std::vector<std::vector<int> > uncond;
    std::vector<ContactSpec> contacts;
    std::vector<BoundSpec> bounded;
    std::vector<StateLtdSpec> stateLtd;
    std::vector<ConsLtdSpec> consLtd;
    double roll, convTol; int maxIters; bool bilateralCall = false, rankDeficient = false, anyD = false;
    bool expansion = false, reversalLikely = false;   // PLUS "expansion mode" (see decode)
};

Case decode(const pbt::Tape& t) {
    Case c; pbt::Reader g(t[0]);
    c.plus = g.boolean();
    c.n = g.range(2, 14);
    bool wantD = g.chance(1, 2), wantApplied = g.chance(1, 2); c.rankDeficient = g.chance(1, 4);
    c.roll = g.chance(1, 2) ? 1e-2 : 1e-4;
    int tolSel = g.pick(3); c.convTol = c.plus ? 1e-10 : (tolSel == 0 ? 1e-6 : tolSel == 1 ? 1e-8 : 1e-4);
    c.maxIters = c.plus ? 20 : (g.chance(1, 2) ? 1000 : 100);
    c.bilateralCall = g.chance(1, 8);
    double uScale = g.logreal(0.1, 10);
    // units: each unit after segment 0 is one element: kind = word0 % ...
    int units = (int)t.size() - 1; if (units > 12) units = 12;
    std::vector<int> rowUnit;  // owning unit per row
    int m = 0;
    struct Pending { int kind; pbt::Reader r; int unit; };
    for (int k = 0; k < units; ++k) {
        pbt::Reader r(t[1 + k]);
        int kind = r.pick(c.plus ? 4 : 8);   // 0,1: frictional contact; 2: frictionless contact; 3: unconditional group; 4: bounded; 5: state-ltd; 6: cons-ltd; 7: frictional contact
        if (c.bilateralCall) kind = 3;
        if (m >= 27) break;
        if (kind <= 2 || kind == 7) {
            ContactSpec s; s.fric = kind != 2; s.nk = m++; if (s.fric) { s.fk[0] = m++; s.fk[1] = m++; } else s.fk[0] = s.fk[1] = -1;
            int ty = r.pick(6); s.type = ty == 4 ? 1 : ty == 5 ? 0 : 2;   // mostly Participating(2); Known(1); Observing(0)
            s.sign = r.chance(1, 4) ? -1 : 1; s.mu = r.chance(1, 6) ? 0.0 : r.real(0, 2); if (s.mu < 0) s.mu = -s.mu;
            s.piE = s.type == 1 ? -s.sign * r.logreal(0.01, 5) : (r.skip(1), 0.0);
            c.contacts.push_back(s);
        } else if (kind == 3) {
            int sz = 1 + r.pick(3); std::vector<int> rows; for (int i = 0; i < sz; ++i) rows.push_back(m++); c.uncond.push_back(rows);
        } else if (kind == 4) {
            BoundSpec b; b.ix = m++; double a = r.real(-2, 2), w = r.chance(1, 6) ? 0.0 : r.logreal(0.01, 3); b.lb = a; b.ub = a + w; c.bounded.push_back(b);
        } else if (kind == 5) {
            StateLtdSpec s; int sz = 1 + r.pick(3); for (int i = 0; i < sz; ++i) s.fk.push_back(m++); s.N = r.chance(1, 6) ? 0.0 : r.logreal(0.01, 5); s.mu = r.real(0, 2); if (s.mu < 0) s.mu = -s.mu; c.stateLtd.push_back(s);
        } else { // cons-ltd friction needs an unconditional group for its normals: create one with it
            int nsz = 1 + r.pick(2); std::vector<int> rows; for (int i = 0; i < nsz; ++i) rows.push_back(m++); c.uncond.push_back(rows);
            ConsLtdSpec s; s.nk = rows; int sz = 1 + r.pick(2); for (int i = 0; i < sz; ++i) s.fk.push_back(m++); s.mu = r.real(0, 2); if (s.mu < 0) s.mu = -s.mu; c.consLtd.push_back(s);
        }
        while ((int)rowUnit.size() < m) rowUnit.push_back(k);
    }
    if (m == 0) { std::vector<int> rows(1, 0); m = 1; c.uncond.push_back(rows); rowUnit.push_back(0); }
    c.m = m;
    const int n = c.n;
    // G rows: words 8.. of the owning unit (row-in-unit offset) hashed with the column
    c.G.assign(m * n, 0); c.Minv.assign(n, 1); c.D.assign(m, 0);
    {
        pbt::Reader gm(t[0]); gm.skip(12);
        for (int j = 0; j < n; ++j) c.Minv[j] = gm.logreal(0.2, 5);
    }
    std::vector<int> firstRowOfUnit(units + 1, -1);
    for (int i = 0; i < m; ++i) if (firstRowOfUnit[rowUnit[i]] < 0) firstRowOfUnit[rowUnit[i]] = i;
    for (int i = 0; i < m; ++i) {
        int k = rowUnit[i]; int off = i - firstRowOfUnit[k];
        const pbt::Seg& seg = t[1 + k];
        for (int j = 0; j < n; ++j) {
            // mix two tape words of the unit into one coefficient in [-1,1] (deterministic, shrinks with the words)
            uint32_t a = seg.size() > (size_t)(8 + (j % 14)) ? seg[8 + (j % 14)] : 0u, b = seg.size() > (size_t)(22 + off) ? seg[22 + off] : 0u;
            uint32_t h = a * 2654435761u + b * 40503u + (uint32_t)(off * 97 + j / 14 * 131);
            double v = (a == 0 && b == 0) ? ((i % n) == j ? 1.0 : 0.0) : ((h >> 8) / 8388608.0 - 1.0);
            c.G[i * n + j] = v;
        }
        pbt::Reader rd(seg); rd.skip(26 + off);
        c.D[i] = wantD && rd.chance(1, 2) ? rd.logreal(0.01, 0.5) : 0.0;
    }
    if (c.rankDeficient && m >= 2) {   // make some rows linear combinations of earlier ones
        pbt::Reader gr(t[0]); gr.skip(30);
        int cnt = 1 + gr.pick(2);
        for (int q = 0; q < cnt; ++q) { int dst = 1 + gr.pick(m - 1), src = gr.pick(dst); double f = gr.boolean() ? 1.0 : gr.real(-1, 1); for (int j = 0; j < n; ++j) c.G[dst * n + j] = f * c.G[src * n + j]; if (f == 0) for (int j = 0; j < n; ++j) c.G[dst * n + j] = c.G[src * n + j]; }
    }
    if (m > n) c.rankDeficient = true;
    c.A.assign(m * m, 0);
    for (int i = 0; i < m; ++i) for (int k = 0; k <= i; ++k) { LD a = 0; for (int j = 0; j < n; ++j) a += (LD)c.G[i * n + j] * c.Minv[j] * c.G[k * n + j]; c.A[i * m + k] = c.A[k * m + i] = (double)a; }
    // consistent right-hand sides
    std::vector<double> u(n), f(n);
    { pbt::Reader gu(t[0]); gu.skip(40); for (int j = 0; j < n; ++j) { u[j] = uScale * gu.real(-1, 1); } pbt::Reader gf(t[0]); gf.skip(56); for (int j = 0; j < n; ++j) f[j] = gf.real(-1, 1); }
    c.verr0.assign(m, 0); c.vapp.assign(m, 0); c.hasApplied = wantApplied && !c.bilateralCall;
    for (int i = 0; i < m; ++i) { LD a = 0, b = 0; for (int j = 0; j < n; ++j) { a += (LD)c.G[i * n + j] * u[j]; b += (LD)c.G[i * n + j] * c.Minv[j] * f[j]; } c.verr0[i] = (double)a; c.vapp[i] = c.hasApplied ? (double)(0.1 * b) : 0.0; }
    for (int i = 0; i < m; ++i) if (c.D[i] > 0) c.anyD = true;
    // ---- PLUS expansion mode (1/3 of the PLUS solve cases): a Poisson expansion phase as in doExpansionPhase -- 2..4 frictional
    // contacts, all Known (only friction rows participate) with expansion impulses; contact 0 starts Rolling, the others Sliding
    // with a slip speed that the sliding friction mu|piE| would reverse (3/4), so that several sliding intervals are taken;
    // A = I + E with E a sparse coupling (normal_i <-> tangential-x_i, tangential-x_i <-> tangential-x_{i+1}), ||E||_2 <= 0.97.
    { pbt::Reader ge(t[0]); ge.skip(70); bool want = ge.chance(1, 3);
      if (want && c.plus && !c.bilateralCall) {
        c.expansion = true; c.contacts.clear(); c.uncond.clear(); c.bounded.clear(); c.stateLtd.clear(); c.consLtd.clear();
        int k = std::max(2, std::min(4, units)); m = 3 * k; c.m = m; c.rankDeficient = false; c.anyD = false; c.hasApplied = false;
        c.roll = 1e-3; c.D.assign(m, 0); c.vapp.assign(m, 0); c.verr0.assign(m, 0);
        std::vector<double> E(m * m, 0);
        for (int i = 0; i < k; ++i) {
            pbt::Reader r = 1 + i < (int)t.size() ? pbt::Reader(t[1 + i]) : pbt::Reader(); r.skip(1);
            ContactSpec s; s.nk = 3 * i; s.fk[0] = 3 * i + 1; s.fk[1] = 3 * i + 2; s.fric = true; s.type = 1; s.sign = 1;
            s.mu = r.logreal(0.1, 1.5); s.piE = -r.logreal(0.2, 3);
            double ci = r.real(-0.9, 0.9), ei = r.real(-0.9, 0.9);
            bool rev = r.chance(3, 4); double fr = r.uniform(0.2, 0.95), fb = r.uniform(1.5, 5), ang = r.angle();
            E[(3 * i) * m + 3 * i + 1] = E[(3 * i + 1) * m + 3 * i] = ci;
            if (i + 1 < k) E[(3 * i + 1) * m + 3 * i + 4] = E[(3 * i + 4) * m + 3 * i + 1] = ei;
            if (i > 0) { double vm = s.mu * std::fabs(s.piE) * (rev ? fr : fb); if (vm < 5e-3) vm = 5e-3; c.verr0[3 * i + 1] = vm * std::cos(ang); c.verr0[3 * i + 2] = vm * std::sin(ang); if (rev) c.reversalLikely = true; }
            c.contacts.push_back(s);
        }
        // scale E to spectral norm <= 0.97 (power iteration on E^2)
        { std::vector<double> x(m, 1.0), y(m); double nrm = 0;
          for (int it = 0; it < 60; ++it) { for (int a = 0; a < m; ++a) { double q = 0; for (int b = 0; b < m; ++b) q += E[a * m + b] * x[b]; y[a] = q; } nrm = 0; for (int a = 0; a < m; ++a) nrm += y[a] * y[a]; nrm = std::sqrt(nrm); if (nrm == 0) break; double xn = 0; for (int a = 0; a < m; ++a) xn += x[a] * x[a]; xn = std::sqrt(xn); for (int a = 0; a < m; ++a) x[a] = y[a] / nrm; nrm = nrm / xn * 1.0; }
          double sc = 1; { double fro = 0; for (double e : E) fro += e * e; fro = std::sqrt(fro); double bound = std::min(fro, nrm * 1.05 + 1e-12); if (bound > 0.97) sc = 0.97 / bound; }
          c.A.assign(m * m, 0); for (int a = 0; a < m; ++a) for (int b = 0; b < m; ++b) c.A[a * m + b] = (a == b ? 1.0 : 0.0) + sc * E[a * m + b]; }
      } }
    return c;
}

// symmetric eigen-decomposition by cyclic Jacobi (long double), for the pseudo-inverse reference
void jacobiEig(int n, std::vector<LD>& a, std::vector<LD>& V) {
    V.assign(n * n, 0); for (int i = 0; i < n; ++i) V[i * n + i] = 1;
    for (int sweep = 0; sweep < 60; ++sweep) {
        LD off = 0; for (int i = 0; i < n; ++i) for (int j = i + 1; j < n; ++j) off += a[i * n + j] * a[i * n + j];
        if (off < 1e-60L) break;
        for (int p = 0; p < n; ++p) for (int q = p + 1; q < n; ++q) {
            if (a[p * n + q] == 0) continue;
            LD th = (a[q * n + q] - a[p * n + p]) / (2 * a[p * n + q]);
            LD tt = (th >= 0 ? 1 : -1) / (std::fabs(th) + std::sqrt(th * th + 1)), cs = 1 / std::sqrt(tt * tt + 1), sn = tt * cs;
            for (int k = 0; k < n; ++k) { LD akp = a[k * n + p], akq = a[k * n + q]; a[k * n + p] = cs * akp - sn * akq; a[k * n + q] = sn * akp + cs * akq; }
            for (int k = 0; k < n; ++k) { LD apk = a[p * n + k], aqk = a[q * n + k]; a[p * n + k] = cs * apk - sn * aqk; a[q * n + k] = sn * apk + cs * aqk; }
            for (int k = 0; k < n; ++k) { LD vkp = V[k * n + p], vkq = V[k * n + q]; V[k * n + p] = cs * vkp - sn * vkq; V[k * n + q] = sn * vkp + cs * vkq; }
        }
    }
}

std::string vstr(const std::vector<double>& v) { std::ostringstream o; o.precision(17); o << "["; for (size_t i = 0; i < v.size(); ++i) o << (i ? "," : "") << v[i]; o << "]"; return o.str(); }
const bool calib = getenv("C44_CALIB") != nullptr;
bool forceFull = false;   // directed reproducers: judge every clause as if no finding were listed
bool listed(pbt::Ctx& ctx, const char* id) { return !forceFull && ctx.known(id); }

void property1(const pbt::Tape& t, pbt::Ctx& ctx);
void property(const pbt::Tape& t, pbt::Ctx& ctx) {
    property1(t, ctx);
    static const bool survey = getenv("C44_SURVEY") != nullptr;   // development aid: classify failures instead of stopping at the first
    if (survey && ctx.failed) { std::string mm = ctx.msg; for (auto& ch : mm) if (ch >= '0' && ch <= '9') ch = '#'; bool fr = false, sl0 = false; for (auto& l : ctx.labels) { if (l == "has:friction") fr = true; if (l == "has:initial-sliding") sl0 = true; }
        std::string cls = std::string(fr ? (sl0 ? "[slide0]" : "[fric]") : "[nofric]") + mm.substr(0, 60); ctx.label("wouldfail:" + cls);
        static std::set<std::string> seen; if (seen.insert(cls).second) { for (auto& ch : cls) if (!isalnum((unsigned char)ch)) ch = '_'; pbt::writeTape(std::string(getenv("C44_SURVEY")) + "/" + cls + ".tape", t, "C44", ctx.msg, ""); }
        ctx.failed = false; ctx.msg.clear(); }
}
void property1(const pbt::Tape& t, pbt::Ctx& ctx) {
    Case c = decode(t);
    const int m = c.m, n = c.n;
    const bool dListed = ctx.isKnownListed("plus-ignores-D");
    if (c.plus && dListed && c.anyD && !c.bilateralCall /* solveBilateral does add D */) { for (auto& d : c.D) d = 0; c.anyD = false; ctx.known("plus-ignores-D"); ctx.label("excluded:plus-D-zeroed"); }
    // library inputs
    Matrix A(m, m); for (int i = 0; i < m; ++i) for (int k = 0; k < m; ++k) A(i, k) = c.A[i * m + k];
    Vector D(m); for (int i = 0; i < m; ++i) D[i] = c.D[i];
    Array_<ImpulseSolver::UncondRT> unc; Array_<ImpulseSolver::UniContactRT> uni; Array_<ImpulseSolver::UniSpeedRT> us; Array_<ImpulseSolver::BoundedRT> bd;
    Array_<ImpulseSolver::ConstraintLtdFrictionRT> cl; Array_<ImpulseSolver::StateLtdFrictionRT> sl;
    Array_<MultiplierIndex> part, expanding; Vector piExpand(m, 0.0);
    std::vector<char> participates(m, 0);
    for (auto& rows : c.uncond) { ImpulseSolver::UncondRT rt; for (int r : rows) { rt.m_mults.push_back(MultiplierIndex(r)); part.push_back(MultiplierIndex(r)); participates[r] = 1; } unc.push_back(rt); }
    for (auto& s : c.contacts) {
        ImpulseSolver::UniContactRT rt; rt.m_Nk = MultiplierIndex(s.nk); rt.m_sign = s.sign; rt.m_type = (ImpulseSolver::ContactType)s.type; rt.m_effCOR = 0; rt.m_effMu = s.fric ? s.mu : NaN;
        if (s.fric) { rt.m_Fk.push_back(MultiplierIndex(s.fk[0])); rt.m_Fk.push_back(MultiplierIndex(s.fk[1])); }
        if (s.type == 2) { part.push_back(rt.m_Nk); participates[s.nk] = 1; }
        if (s.type == 1) { piExpand[s.nk] = s.piE; expanding.push_back(rt.m_Nk); }
        if (s.type != 0 && s.fric) for (int q = 0; q < 2; ++q) { part.push_back(MultiplierIndex(s.fk[q])); participates[s.fk[q]] = 1; }
        // poison outputs
        rt.m_contactCond = ImpulseSolver::UniNA; rt.m_frictionCond = ImpulseSolver::FricNA; rt.m_slipVel = Vec2(NaN); rt.m_slipMag = NaN;
        uni.push_back(rt);
    }
    for (auto& b : c.bounded) { bd.push_back(ImpulseSolver::BoundedRT(MultiplierIndex(b.ix), b.lb, b.ub)); part.push_back(MultiplierIndex(b.ix)); participates[b.ix] = 1; }
    for (auto& s : c.stateLtd) { Array_<MultiplierIndex> fk; for (int r : s.fk) { fk.push_back(MultiplierIndex(r)); part.push_back(MultiplierIndex(r)); participates[r] = 1; } sl.push_back(ImpulseSolver::StateLtdFrictionRT(fk, s.N, s.mu)); }
    for (auto& s : c.consLtd) { Array_<MultiplierIndex> fk, nk; for (int r : s.fk) { fk.push_back(MultiplierIndex(r)); part.push_back(MultiplierIndex(r)); participates[r] = 1; } for (int r : s.nk) nk.push_back(MultiplierIndex(r)); cl.push_back(ImpulseSolver::ConstraintLtdFrictionRT(fk, nk, s.mu)); }
    const int p = (int)part.size();
    Vector verrStart(m), verrApplied(c.hasApplied ? m : 0), pi(m, NaN);
    for (int i = 0; i < m; ++i) { verrStart[i] = c.verr0[i]; if (c.hasApplied) verrApplied[i] = c.vapp[i]; }

    if (ctx.wantDesc) {
        ctx.desc << (c.plus ? "PLUS" : "PGS") << (c.bilateralCall ? " solveBilateral" : " solve") << " n=" << n << " m=" << m << " p=" << p << " rankDeficient=" << c.rankDeficient << " roll=" << c.roll << " convTol=" << c.convTol << " maxIters=" << c.maxIters << " applied=" << c.hasApplied << "\n";
        for (auto& rows : c.uncond) { ctx.desc << " uncond rows"; for (int r : rows) ctx.desc << " " << r; ctx.desc << "\n"; }
        for (auto& s : c.contacts) ctx.desc << " contact N=" << s.nk << (s.fric ? " F=" + std::to_string(s.fk[0]) + "," + std::to_string(s.fk[1]) : std::string(" frictionless")) << " type=" << ImpulseSolver::getContactTypeName((ImpulseSolver::ContactType)s.type) << " sign=" << s.sign << " mu=" << s.mu << " piE=" << s.piE << "\n";
        for (auto& b : c.bounded) ctx.desc << " bounded row " << b.ix << " [" << b.lb << "," << b.ub << "]\n";
        for (auto& s : c.stateLtd) { ctx.desc << " stateLtd rows"; for (int r : s.fk) ctx.desc << " " << r; ctx.desc << " N=" << s.N << " mu=" << s.mu << "\n"; }
        for (auto& s : c.consLtd) { ctx.desc << " consLtd F rows"; for (int r : s.fk) ctx.desc << " " << r; ctx.desc << " N rows"; for (int r : s.nk) ctx.desc << " " << r; ctx.desc << " mu=" << s.mu << "\n"; }
        if (m <= 8) { ctx.desc << " A=" << vstr(c.A) << "\n D=" << vstr(c.D) << "\n"; }
        ctx.desc << " verrStart=" << vstr(c.verr0) << (c.hasApplied ? " verrApplied=" + vstr(c.vapp) : std::string()) << "\n";
    }

    std::unique_ptr<ImpulseSolver> solver;
    if (c.plus) solver.reset(new PLUSImpulseSolver(c.roll)); else solver.reset(new PGSImpulseSolver(c.roll));
    if (!c.plus) { solver->setConvergenceTol(c.convTol); solver->setMaxIterations(c.maxIters); }
    ctx.label(c.plus ? "solver:PLUS" : "solver:PGS");
    if (c.expansion) { ctx.label("plus:expansion"); if (c.reversalLikely) ctx.label("plus:slip-reversal-likely"); }
    if (c.rankDeficient) ctx.label("A:rank-deficient");
    if (c.anyD) ctx.label("D:positive-entries");

    { bool fr = false, sl0 = false; for (auto& s : c.contacts) if (s.type != 0 && s.fric) { fr = true; if (std::hypot(c.verr0[s.fk[0]], c.verr0[s.fk[1]]) > c.roll) sl0 = true; }
      if (fr) ctx.label("has:friction"); if (sl0) ctx.label("has:initial-sliding"); }
    // scales
    LD aScale = 0, vScale = 0; for (int i = 0; i < m; ++i) { aScale = std::max(aScale, (LD)std::fabs(c.A[i * m + i]) + c.D[i]); vScale = std::max(vScale, (LD)std::fabs(c.verr0[i]) + std::fabs(c.vapp[i])); }
    for (auto& s : c.contacts) if (s.type == 1) { for (int i = 0; i < m; ++i) vScale = std::max(vScale, (LD)std::fabs(c.A[i * m + s.nk] * s.piE)); }
    if (vScale == 0) vScale = 1;

    // ---------------------------------------------------------------- solveBilateral / clause L
    if (c.bilateralCall) {
        Vector rhs(m); for (int i = 0; i < m; ++i) rhs[i] = c.verr0[i];
        bool ok = solver->solveBilateral(part, A, D, rhs, pi);
        ctx.label("call:solveBilateral");
        if (!c.plus && !ok) { ctx.reject("pgs-not-converged"); return; }
        std::vector<LD> res(m);
        for (int i = 0; i < m; ++i) { if (!std::isfinite(pi[i])) { ctx.fail("solveBilateral returned a non-finite impulse"); return; } LD a = 0; for (int k = 0; k < m; ++k) a += (LD)c.A[i * m + k] * pi[k]; res[i] = (LD)c.verr0[i] - a - (LD)c.D[i] * pi[i]; }
        // PLUS: FactorQTZ pseudo-inverse; its rank decision drops singular values below ~1e-9 relative, so consistent but
        // nearly rank-deficient systems leave residuals of that order
        double tol = c.plus ? 1e-6 * (double)(vScale) * (1 + (double)aScale) : 1000 * c.convTol * std::sqrt((double)p);
        for (int i = 0; i < m; ++i) if (participates[i] && std::fabs((double)res[i]) > tol) { ctx.fail(std::string(c.plus ? "PLUS" : "PGS") + " solveBilateral: row " + std::to_string(i) + " residual " + pbt::str((double)res[i]) + " > " + pbt::str(tol)); return; }
        for (int i = 0; i < m; ++i) if (!participates[i] && pi[i] != 0) { ctx.fail("solveBilateral: non-participating row got an impulse"); return; }
        if (c.plus) {  // minimum-norm solution
            std::vector<LD> a(m * m), V; for (int i = 0; i < m; ++i) for (int k = 0; k < m; ++k) a[i * m + k] = (LD)c.A[i * m + k] + (i == k ? (LD)c.D[i] : 0);
            jacobiEig(m, a, V);
            LD emax = 0; for (int i = 0; i < m; ++i) emax = std::max(emax, std::fabs(a[i * m + i]));
            std::vector<LD> ref(m, 0); bool gap = true;
            for (int e = 0; e < m; ++e) { LD lam = a[e * m + e]; if (std::fabs(lam) > 1e-6L * emax) { LD pr = 0; for (int i = 0; i < m; ++i) pr += V[i * m + e] * c.verr0[i]; for (int i = 0; i < m; ++i) ref[i] += V[i * m + e] * pr / lam; } else if (std::fabs(lam) > 1e-14L * emax) gap = false; }   /* numerical rank undecidable: eigenvalue in the grey zone */
            if (gap) { LD d = 0, rn = 0; for (int i = 0; i < m; ++i) { d = std::max(d, std::fabs(ref[i] - pi[i])); rn = std::max(rn, std::fabs(ref[i])); } ctx.label("bilateral:min-norm-checked");
                if (d > 1e-7L * (1 + rn)) { ctx.fail("PLUS solveBilateral: impulse differs from the minimum-norm solution by " + pbt::str((double)d)); return; } }
            else ctx.label("bilateral:spectrum-gap-unclear");
        }
        ctx.nontrivial(m >= 3);
        return;
    }

    // ---------------------------------------------------------------- solve
    bool ret = false;
    try { ret = solver->solve(0, part, A, D, expanding, piExpand, verrStart, verrApplied, pi, unc, uni, us, bd, cl, sl); }
    catch (const std::exception& e) {
        std::string w = e.what();
        if (ctx.wantDesc) ctx.desc << " exception: " << w.substr(0, 300) << "\n";
        ctx.fail(std::string(c.plus ? "PLUS" : "PGS") + " solve threw: " + w.substr(0, 300)); return;
    }
    if (c.plus) ctx.label(ret ? "plus:returned-true" : "plus:returned-false");
    if (!c.plus && !ret) { ctx.label("pgs:not-converged"); ctx.reject("pgs-not-converged"); return; }
    if (ctx.wantDesc) { std::vector<double> pv(m), vv(m); for (int i = 0; i < m; ++i) { pv[i] = pi[i]; vv[i] = verrStart[i]; } ctx.desc << " pi=" << vstr(pv) << "\n verrStart(out)=" << vstr(vv) << "\n";
        for (unsigned k = 0; k < uni.size(); ++k) ctx.desc << " contact " << k << ": " << ImpulseSolver::getUniCondName(uni[k].m_contactCond) << "/" << ImpulseSolver::getFricCondName(uni[k].m_frictionCond) << "\n"; }
    for (int i = 0; i < m; ++i) if (!std::isfinite(pi[i]) || !std::isfinite(verrStart[i])) { ctx.fail("non-finite impulse or verr returned in row " + std::to_string(i)); return; }

    std::vector<LD> vEnd(m), piTot(m);
    LD piScale = 0;
    for (int i = 0; i < m; ++i) { piTot[i] = (LD)pi[i] + (LD)piExpand[i]; piScale = std::max(piScale, std::fabs(piTot[i])); }
    for (int i = 0; i < m; ++i) { LD a = 0; for (int k = 0; k < m; ++k) a += (LD)c.A[i * m + k] * piTot[k]; vEnd[i] = (LD)c.verr0[i] + (LD)c.vapp[i] - a - (LD)c.D[i] * piTot[i]; }
    const double tolK = 1e-10 * (double)(vScale + aScale * piScale + 1);
    // PGS: convergence is declared on the RMS of the row errors seen DURING the last sweep; PLUS: Newton to 1e-10
    // calibration (3 seeds x 20 000 cases): PLUS worst residual 1.3e-7 (vScale+1) (rank-deficient Newton systems solved by FactorQTZ),
    // PGS with all rows enforced worst 25 convTol sqrt(p)
    const double tol = c.plus ? 1e-5 * (double)(vScale + 1) : 1000 * c.convTol * std::sqrt((double)std::max(1, p)) + tolK;
    const double tolPi = c.plus ? 1e-8 * (double)(piScale + 1) : 0.0;   // PLUS: Newton on |v|*pi-type equations to 1e-10, |v| >= ~1e-4
    const char* S = c.plus ? "PLUS" : "PGS";
    double worst = 0;   // calibration: worst tolerance ratio of the "|vEnd| <= tol" clauses
    // (see known finding pgs-converged-ignores-unenforced-rows below) rows reported as projected at return
    bool anyProjected = false;
    if (!c.plus) {
        for (unsigned k = 0; k < uni.size(); ++k) if (c.contacts[k].type != 0) { if (c.contacts[k].type == 2 && uni[k].m_contactCond == ImpulseSolver::UniOff) anyProjected = true; if (c.contacts[k].fric && uni[k].m_frictionCond == ImpulseSolver::Sliding) anyProjected = true; }
        for (unsigned k = 0; k < bd.size(); ++k) if (bd[k].m_boundedCond != ImpulseSolver::Engaged) anyProjected = true;
        for (unsigned k = 0; k < sl.size(); ++k) if (sl[k].m_frictionCond == ImpulseSolver::Sliding) anyProjected = true;
        for (unsigned k = 0; k < cl.size(); ++k) if (cl[k].m_frictionCond == ImpulseSolver::Sliding) anyProjected = true;
        ctx.label(anyProjected ? "pgs:some-rows-projected" : "pgs:all-rows-enforced");
    }
    const bool pgsWeak = !c.plus && anyProjected && !forceFull && ctx.isKnownListed("pgs-converged-ignores-unenforced-rows");
    auto need = [&](LD v, const std::string& what) { double r = std::fabs((double)v) / tol;
        if (pgsWeak) { if (r > 1) { ctx.known("pgs-converged-ignores-unenforced-rows"); ctx.label("excluded:pgs-enforced-row-residual"); } return true; }
        worst = std::max(worst, r); if (!calib && r > 1) ctx.fail(std::string(S) + ": " + what + " = " + pbt::str((double)v) + " exceeds tolerance " + pbt::str(tol)); return !ctx.failed; };

    // known findings of PLUS, both with a predicate on the INPUT; in these classes only the clauses that do not depend on the
    // convergence of PLUS's Newton iteration are judged (K, zero impulse on non-participating rows, never-pull)
    bool weak = false, weakOnlySliding = false;
    if (c.plus) {
        bool negSign = false, slide0 = false;
        for (auto& s : c.contacts) if (s.type != 0 && s.fric) { if (s.type == 2 && s.sign < 0 && s.mu > 0) negSign = true; if (std::hypot(c.verr0[s.fk[0]], c.verr0[s.fk[1]]) > c.roll) slide0 = true; }
        // plus-jacobian-ignores-contact-sign: updateJacobianForSliding differentiates softmin0(sign*pi_z) without the factor sign
        // (and, for Sliding, without the sign in the argument): wrong Newton matrix for contacts with sign convention -1
        if (negSign && listed(ctx, "plus-jacobian-ignores-contact-sign")) { weak = true; ctx.label("excluded:plus-negative-sign-friction"); }
        // plus-initial-sliding-unconverged: with a contact sliding at the start (sliding equations, possibly several sliding
        // intervals) the Newton/active-set iteration often stops unconverged ("poor progress", 20 iterations) and solve() has no
        // way to say so (its return value is never true): impulses violate the cone, complementarity and even unconditional rows
        if (slide0 && listed(ctx, "plus-initial-sliding-unconverged")) { weak = true; ctx.label("excluded:plus-initial-sliding"); }
        // plus-impending-spurious-root: the impending-slip equations |d| pi_xy + mu d N = 0 (d = tangential velocity change) are
        // satisfied by d = 0 with ANY pi_xy; Newton regularly lands on that root and returns friction far outside the cone.
        // Site predicate (result): PLUS and a contact is reported Impending at return.
        bool impending = false; for (unsigned k = 0; k < uni.size(); ++k) if (c.contacts[k].type != 0 && c.contacts[k].fric && uni[k].m_frictionCond == ImpulseSolver::Impending) impending = true;
        if (impending && listed(ctx, "plus-impending-spurious-root")) { weak = true; ctx.label("excluded:plus-impending"); }
        weakOnlySliding = weak && slide0 && !(negSign && ctx.isKnownListed("plus-jacobian-ignores-contact-sign")) && !impending;
    }
    // known finding pgs-converged-ignores-unenforced-rows: PGS declares convergence on the RMS error of the ENFORCED rows only (active
    // normals, rolling friction, engaged bounded rows); rows that were just projected (UniOff, Sliding, SlipLow/High) do not count, so
    // it can stop -- even after the first sweep -- while the active set is still changing. The sign/direction conditions of the
    // projected rows (released contact separating, sliding friction opposing the slip, slipping bounded row pushing against its
    // bound) are then not established, and -- because the projected rows keep moving after the enforced rows were measured -- the
    // residual velocities of the enforced rows can exceed the tolerance as well. Site predicate: PGS returned true and at least one
    // row is reported as projected (UniOff / Sliding / SlipLow / SlipHigh); excluded then: the velocity clauses (|vEnd| <= tol of
    // enforced rows, sign/direction of projected rows). Still judged: K, zero rows, never-pull, cone, bounds, on-the-boundary.
    const bool pgsProj = !c.plus && !forceFull && ctx.isKnownListed("pgs-converged-ignores-unenforced-rows");
    auto projExcluded = [&]() { ctx.known("pgs-converged-ignores-unenforced-rows"); ctx.label("excluded:pgs-projected-row-direction"); };
    static const char* only = getenv("C44_ONLY");   // development aid: fail only on messages containing this text
    struct OnlyFilter { pbt::Ctx& c; ~OnlyFilter() { if (only && c.failed && c.msg.find(only) == std::string::npos) { c.failed = false; c.msg.clear(); } } } onlyFilter{ctx};
    // K: bookkeeping
    for (int i = 0; i < m; ++i) if (std::fabs((double)(vEnd[i] - (LD)verrStart[i])) > tolK) { ctx.fail(std::string(S) + ": returned verrStart[" + std::to_string(i) + "]=" + pbt::str((double)verrStart[i]) + " but verrStart0+verrApplied-(A+D)(pi+piExpand) = " + pbt::str((double)vEnd[i])); return; }
    for (int i = 0; i < m; ++i) if (!participates[i] && pi[i] != 0) { ctx.fail(std::string(S) + ": row " + std::to_string(i) + " does not participate but got impulse " + pbt::str((double)pi[i])); return; }
    // U
    if (!weak) for (auto& rows : c.uncond) for (int r : rows) if (!need(vEnd[r], "unconditional row " + std::to_string(r) + " residual velocity")) return;
    // N, F
    int nSliding = 0, nRolling = 0, nOff = 0, nFricContacts = 0;
    for (unsigned k = 0; k < uni.size(); ++k) {
        const ContactSpec& s = c.contacts[k]; const ImpulseSolver::UniContactRT& rt = uni[k];
        if (s.type == 0) {   // observing
            if (pi[s.nk] != 0 || (s.fric && (pi[s.fk[0]] != 0 || pi[s.fk[1]] != 0))) { ctx.fail(std::string(S) + ": observing contact " + std::to_string(k) + " received an impulse"); return; }
            continue;
        }
        const LD sg = s.sign;
        if (s.type == 2) {
            if (sg * pi[s.nk] > tolPi) { ctx.fail(std::string(S) + ": unilateral contact " + std::to_string(k) + " pulls: sign*pi = " + pbt::str((double)(sg * pi[s.nk]))); return; }
            if (weak) { /* conditions not judged */ }
            else if (rt.m_contactCond == ImpulseSolver::UniActive) { if (!need(vEnd[s.nk], "UniActive contact " + std::to_string(k) + " normal velocity")) return; }
            else if (rt.m_contactCond == ImpulseSolver::UniOff) {
                nOff++;
                if (std::fabs(pi[s.nk]) > tolPi) { ctx.fail(std::string(S) + ": UniOff contact " + std::to_string(k) + " has normal impulse " + pbt::str((double)pi[s.nk])); return; }
                LD sep = sg * vEnd[s.nk];
                // known finding plus-released-contacts-not-rechecked: PLUS's active-set loop only ever releases contacts (worst pulling
                // normal first) and never verifies that the released ones end up separating. Site predicate: PLUS, contact reported UniOff.
                if (sep < 0 && c.plus && (double)(-sep) > tol && listed(ctx, "plus-released-contacts-not-rechecked")) ctx.label("excluded:plus-released-contact-approaches");
                else if (sep < 0 && pgsProj) { if ((double)(-sep) > tol) projExcluded(); } else if (sep < 0 && !need(sep, "UniOff contact " + std::to_string(k) + " approaches with sign*v")) return;
            } else { ctx.fail(std::string(S) + ": participating contact " + std::to_string(k) + " reported condition " + ImpulseSolver::getUniCondName(rt.m_contactCond)); return; }
        } else { // Known
            if (pi[s.nk] != 0) { ctx.fail(std::string(S) + ": Known (expanding) contact " + std::to_string(k) + " got an unknown normal impulse " + pbt::str((double)pi[s.nk])); return; }
            if (c.plus && p > 0 /* with p == 0 PLUS returns before classifying */ && rt.m_contactCond != ImpulseSolver::UniKnown) { ctx.fail("PLUS: Known contact reported " + std::string(ImpulseSolver::getUniCondName(rt.m_contactCond))); return; }
        }
        if (!s.fric) continue;
        nFricContacts++;
        if (weak) {
            if (rt.m_frictionCond == ImpulseSolver::Sliding) nSliding++; if (rt.m_frictionCond == ImpulseSolver::Rolling) nRolling++;
            // Even when other contacts slide (finding plus-initial-sliding-unconverged), a contact that starts Rolling and is reported
            // Rolling at the end has passed PLUS's own rolling test |pi_xy| <= mu |pi_z + piE_left| in every sliding interval with the
            // ACCEPTED (not the Newton-dependent) impulses, and the interval fractions add up: its total friction must be inside the
            // cone of the total normal impulse pi_z + piExpand_z. Judged for contacts whose normal is Known (cone size independent of
            // the unknowns) -- the Poisson expansion case.
            if (weakOnlySliding && s.type == 1 && rt.m_frictionCond == ImpulseSolver::Rolling && std::hypot(c.verr0[s.fk[0]], c.verr0[s.fk[1]]) <= c.roll) {
                LD N = std::fabs(piTot[s.nk]); LD fx = pi[s.fk[0]], fy = pi[s.fk[1]], fm = std::sqrt(fx * fx + fy * fy);
                ctx.label("plus:rolling-cone-judged-despite-sliding");
                // tolerance: in an intermediate interval the contact may have been Impending (|pi_xy| = mu N only to the Newton tolerance
                // 1e-10/|slip| ~ 1e-6 relative; observed excess <= 1.2e-6): 1e-3 relative, still far below any real cone violation
                if (calib && N > 0 && fm > s.mu * N) fprintf(stderr, "CALIB PLUS rolling-cone excess rel=%g\n", (double)(fm / (s.mu * N) - 1));
                // known finding plus-hidden-impending-in-earlier-interval: the unchanged solver violates this clause too (up to 2.2x the
                // cone): in an EARLIER sliding interval the contact switches Rolling->Impending, Newton lands on the spurious root d = 0
                // (finding plus-impending-spurious-root), and the next interval re-classifies it Rolling, so nothing shows at return.
                // Site predicate: PLUS, another contact slides at the start, this Known contact is Rolling at start and at return.
                if (fm > s.mu * N * (1 + 1e-3L) + tolPi && listed(ctx, "plus-hidden-impending-in-earlier-interval")) { ctx.label("excluded:plus-hidden-impending"); continue; }
                if (fm > s.mu * N * (1 + 1e-3L) + tolPi) { ctx.fail("PLUS: contact " + std::to_string(k) + " (expanding, Rolling from start to end) friction impulse " + pbt::str((double)fm) + " outside the cone mu*|pi_z+piExpand_z| = " + pbt::str((double)(s.mu * N))); return; }
            }
            continue; }
        LD N = std::fabs(piTot[s.nk]); LD fx = pi[s.fk[0]], fy = pi[s.fk[1]], fm = std::sqrt(fx * fx + fy * fy);
        bool off = s.type == 2 && rt.m_contactCond == ImpulseSolver::UniOff;
        if (fm > s.mu * N * (1 + (c.plus ? 1e-6L : 1e-9L)) + tolPi + (c.plus ? 0 : 1e-14L * (piScale + 1))) { ctx.fail(std::string(S) + ": contact " + std::to_string(k) + " friction impulse " + pbt::str((double)fm) + " outside the cone mu*N = " + pbt::str((double)(s.mu * N)) + " (" + ImpulseSolver::getFricCondName(rt.m_frictionCond) + ")"); return; }
        LD vx = vEnd[s.fk[0]], vy = vEnd[s.fk[1]], vm = std::sqrt(vx * vx + vy * vy);
        if (off && c.plus) continue;   // PLUS drops the friction rows with a released normal
        if (rt.m_frictionCond == ImpulseSolver::Rolling) {
            nRolling++;
            if (c.plus) { if (vm > c.roll + tol) { ctx.fail("PLUS: Rolling contact " + std::to_string(k) + " ends with tangential speed " + pbt::str((double)vm) + " above the roll-to-slip speed " + pbt::str(c.roll)); return; } }
            else if (!need(vm, "Rolling contact " + std::to_string(k) + " tangential velocity")) return;
        } else if (rt.m_frictionCond == ImpulseSolver::Sliding || rt.m_frictionCond == ImpulseSolver::Impending) {
            if (rt.m_frictionCond == ImpulseSolver::Sliding) nSliding++;
            // on the cone boundary
            LD gapc = s.mu * N - fm; double tb = (c.plus ? 1e-6 : 1e-9) * (double)(s.mu * N + 1) + tolPi;
            if (gapc > tb && !(c.plus && rt.m_frictionCond == ImpulseSolver::Sliding)) { ctx.fail(std::string(S) + ": contact " + std::to_string(k) + " reported " + ImpulseSolver::getFricCondName(rt.m_frictionCond) + " but |pi_xy| = " + pbt::str((double)fm) + " is inside the cone mu*N = " + pbt::str((double)(s.mu * N))); return; }
            // dissipative: multipliers are opposite to forces, so pi_xy . v >= 0
            if (!c.plus && calib) { LD dotp = fx * vx + fy * vy; if (fm > 0 && vm > 0) { double cs = (double)(dotp / (fm * vm)); if (cs < -0.05 && (double)vm > 100 * tol) fprintf(stderr, "CALIB PGS sliding cos=%g fm=%g vm=%g m=%d p=%d\n", cs, (double)fm, (double)vm, m, p); } }
            else if (!c.plus) { LD dotp = fx * vx + fy * vy; if (dotp < 0 && pgsProj) { if ((double)(-dotp) > tol * (double)(fm + 1)) projExcluded(); } else if (dotp < 0 && (double)(-dotp) > tol * (double)(fm + 1)) { ctx.fail("PGS: Sliding contact " + std::to_string(k) + " friction impulse does not oppose the slip velocity: pi_xy.v = " + pbt::str((double)dotp)); return; } }
            else if (rt.m_frictionCond == ImpulseSolver::Sliding && rt.m_slipVel[0] == c.verr0[s.fk[0]] && rt.m_slipVel[1] == c.verr0[s.fk[1]]) {
                // single sliding interval: pi_xy = mu N v0/|v0|
                LD v0x = c.verr0[s.fk[0]], v0y = c.verr0[s.fk[1]], v0 = std::sqrt(v0x * v0x + v0y * v0y);
                if (v0 > 0) { LD ex = fx - s.mu * N * v0x / v0, ey = fy - s.mu * N * v0y / v0; LD e = std::sqrt(ex * ex + ey * ey); ctx.label("plus:sliding-law-checked");
                    if ((double)e > 1e-6 * (double)(s.mu * N + 1)) { ctx.fail("PLUS: Sliding contact " + std::to_string(k) + " impulse deviates from mu*N*v/|v| by " + pbt::str((double)e)); return; } }
            }
        } else if (!(off)) { ctx.fail(std::string(S) + ": frictional contact " + std::to_string(k) + " reported friction condition " + ImpulseSolver::getFricCondName(rt.m_frictionCond)); return; }
    }
    // B
    for (unsigned k = 0; k < bd.size(); ++k) {
        const BoundSpec& b = c.bounded[k]; double x = pi[b.ix];
        if (x < b.lb || x > b.ub) { ctx.fail("PGS: bounded row " + std::to_string(b.ix) + " impulse " + pbt::str(x) + " outside [" + pbt::str(b.lb) + "," + pbt::str(b.ub) + "]"); return; }
        ImpulseSolver::BndCond bc = bd[k].m_boundedCond;
        if (bc == ImpulseSolver::Engaged) { if (!need(vEnd[b.ix], "Engaged bounded row " + std::to_string(b.ix) + " residual velocity")) return; }
        else if (bc == ImpulseSolver::SlipLow) { if (x != b.lb) { ctx.fail("PGS: SlipLow but impulse is not at the lower bound"); return; } if (vEnd[b.ix] > 0 && pgsProj) { if ((double)vEnd[b.ix] > tol) projExcluded(); } else if (vEnd[b.ix] > 0 && !need(vEnd[b.ix], "SlipLow bounded row wants a larger impulse, v")) return; }
        else if (bc == ImpulseSolver::SlipHigh) { if (x != b.ub) { ctx.fail("PGS: SlipHigh but impulse is not at the upper bound"); return; } if (vEnd[b.ix] < 0 && pgsProj) { if ((double)(-vEnd[b.ix]) > tol) projExcluded(); } else if (vEnd[b.ix] < 0 && !need(vEnd[b.ix], "SlipHigh bounded row wants a smaller impulse, v")) return; }
        else { ctx.fail("PGS: bounded row reported condition " + std::string(ImpulseSolver::getBndCondName(bc))); return; }
        ctx.label(std::string("bounded:") + ImpulseSolver::getBndCondName(bc));
    }
    // S
    for (unsigned k = 0; k < sl.size(); ++k) {
        const StateLtdSpec& s = c.stateLtd[k]; LD fm = 0, vm = 0, dotp = 0; for (int r : s.fk) { fm += (LD)pi[r] * pi[r]; vm += vEnd[r] * vEnd[r]; dotp += (LD)pi[r] * vEnd[r]; } fm = std::sqrt(fm); vm = std::sqrt(vm);
        LD lim = (LD)s.mu * s.N;
        if (fm > lim * (1 + 1e-9L) + 1e-14L * (piScale + 1)) { ctx.fail("PGS: state-limited friction impulse " + pbt::str((double)fm) + " exceeds mu*N = " + pbt::str((double)lim)); return; }
        if (sl[k].m_frictionCond == ImpulseSolver::Rolling) { if (!need(vm, "Rolling state-limited friction velocity")) return; }
        else if (sl[k].m_frictionCond == ImpulseSolver::Sliding) { if (lim - fm > 1e-9 * (double)(lim + 1)) { ctx.fail("PGS: Sliding state-limited friction is inside its limit"); return; } if (dotp < 0 && (double)(-dotp) > tol * (double)(fm + 1)) { if (pgsProj) projExcluded(); else { ctx.fail("PGS: Sliding state-limited friction does not oppose the slip velocity"); return; } } }
        else { ctx.fail("PGS: state-limited friction reported " + std::string(ImpulseSolver::getFricCondName(sl[k].m_frictionCond))); return; }
        ctx.label(std::string("stateLtd:") + ImpulseSolver::getFricCondName(sl[k].m_frictionCond));
    }
    // C
    for (unsigned k = 0; k < cl.size(); ++k) {
        const ConsLtdSpec& s = c.consLtd[k]; LD fm = 0, nm = 0, vm = 0, dotp = 0; for (int r : s.fk) { fm += (LD)pi[r] * pi[r]; vm += vEnd[r] * vEnd[r]; dotp += (LD)pi[r] * vEnd[r]; } for (int r : s.nk) nm += (LD)pi[r] * pi[r]; fm = std::sqrt(fm); nm = std::sqrt(nm); vm = std::sqrt(vm);
        // the normal rows are visited (and can still move) before the friction rows of the same sweep, so the cone holds for the
        // normal impulse of the last sweep: allow the convergence tolerance
        if (fm > s.mu * nm * (1 + 1e-9L) + 1e-14L * (piScale + 1)) { ctx.fail("PGS: constraint-limited friction impulse " + pbt::str((double)fm) + " exceeds mu*|pi_N| = " + pbt::str((double)(s.mu * nm))); return; }
        if (cl[k].m_frictionCond == ImpulseSolver::Rolling) { if (!need(vm, "Rolling constraint-limited friction velocity")) return; }
        else if (cl[k].m_frictionCond == ImpulseSolver::Sliding) { if (dotp < 0 && (double)(-dotp) > tol * (double)(fm + 1)) { if (pgsProj) projExcluded(); else { ctx.fail("PGS: Sliding constraint-limited friction does not oppose the slip velocity"); return; } } }
        else { ctx.fail("PGS: constraint-limited friction reported " + std::string(ImpulseSolver::getFricCondName(cl[k].m_frictionCond))); return; }
        ctx.label(std::string("consLtd:") + ImpulseSolver::getFricCondName(cl[k].m_frictionCond));
    }
    if (calib) { char b[64]; int e = worst <= 0 ? -9 : std::max(-9, (int)std::floor(std::log10(worst))); snprintf(b, sizeof b, "calib:%s:1e%+03d", S, e); ctx.label(b); if (worst > 0.1) fprintf(stderr, "CALIB %s m=%d p=%d convTol=%g worst=%g\n", S, m, p, c.convTol, worst); }
    if (c.contacts.empty() && c.bounded.empty() && c.stateLtd.empty() && c.consLtd.empty()) ctx.label("only-unconditional");
    if (nSliding) ctx.label("friction:some-sliding"); if (nRolling) ctx.label("friction:some-rolling"); if (nOff) ctx.label("contact:some-off");
    for (auto& s : c.contacts) { if (s.type == 1) ctx.label("contact:known-expanding"); if (s.type == 0) ctx.label("contact:observing"); if (s.sign < 0) ctx.label("contact:negative-sign"); }
    ctx.nontrivial(nFricContacts >= 2 && nSliding >= 1 && (nRolling + nOff) >= 1);
}

pbt::Config config() {
    pbt::Config c; c.prop = "C44"; c.K = 74; c.minUnits = 1;
    c.quick = {2000, 20000, 12, 25}; c.thorough = {20000, 60000, 14, 240};
    c.rule = "rapidcheck tape -> impulse problem: A = G Minv G' (n = 2..14 dofs, m <= 30 rows, rank deficient on purpose in 1/4 of the cases and whenever m > n), D >= 0, rows partitioned into unconditional groups, unilateral contacts (frictionless / 2 friction rows; Participating / Known with expansion impulse / Observing; both sign conventions; mu in [0,2]) and for PGS bounded, state-limited and constraint-limited friction rows; verrStart = G u, verrApplied = 0.1 G Minv f or absent; PLUS and PGS; 1/8 of the cases call solveBilateral. Non-trivial: >= 2 frictional contacts with at least one ending Sliding and one Rolling or Off; distinct by tape hash.";
    c.assumptions = {"PGS returning false (not converged) is a rejection", "PLUS's return value is ignored (never true); its outputs are judged", "uniSpeed rows are not generated (neither solver implements them; the only caller never creates them); PLUS gets no bounded/state-/constraint-limited rows (TODO in its source)", "while plus-ignores-D is listed PLUS cases are generated with D = 0"};
    c.requiredLabels = {"plus:expansion", "plus:slip-reversal-likely", "plus:rolling-cone-judged-despite-sliding", "solver:PLUS", "solver:PGS", "friction:some-sliding", "friction:some-rolling", "contact:some-off", "contact:known-expanding", "contact:observing", "only-unconditional", "call:solveBilateral", "A:rank-deficient"};
    c.directed.push_back({"plus-ignores-D-2x2", "plus-ignores-D", [](pbt::Ctx& ctx) {
        // two unconditional rows, A = I, D = (1,0), verr = (1,1): [A+D] pi = verr  =>  pi = (0.5, 1)
        Matrix A(2, 2); A = 0; A(0, 0) = A(1, 1) = 1; Vector D(2); D[0] = 1; D[1] = 0;
        Array_<ImpulseSolver::UncondRT> unc(1); unc[0].m_mults.push_back(MultiplierIndex(0)); unc[0].m_mults.push_back(MultiplierIndex(1));
        Array_<ImpulseSolver::UniContactRT> uni; Array_<ImpulseSolver::UniSpeedRT> us; Array_<ImpulseSolver::BoundedRT> bd; Array_<ImpulseSolver::ConstraintLtdFrictionRT> cl; Array_<ImpulseSolver::StateLtdFrictionRT> sl;
        Array_<MultiplierIndex> part; part.push_back(MultiplierIndex(0)); part.push_back(MultiplierIndex(1)); Array_<MultiplierIndex> expanding;
        Vector piE(2, 0.0), verr(2, 1.0), vapp, pi(2, NaN);
        PLUSImpulseSolver plus(1e-4); plus.solve(0, part, A, D, expanding, piE, verr, vapp, pi, unc, uni, us, bd, cl, sl);
        ctx.desc << "PLUS, A=I, D=(1,0), verr=(1,1), two unconditional rows: pi=(" << pi[0] << "," << pi[1] << ") verrStart(out)=(" << verr[0] << "," << verr[1] << ")\n";
        ctx.check(std::fabs(pi[0] - 0.5) < 1e-9 && std::fabs(pi[1] - 1) < 1e-9, "PLUS ignores D: pi = (" + pbt::str((double)pi[0]) + "," + pbt::str((double)pi[1]) + ") but [A+D] pi = verr requires (0.5,1)");
    }});
    c.directed.push_back({"plus-releases-the-needed-contact", "plus-released-contacts-not-rechecked", [](pbt::Ctx& ctx) {
        // two frictionless contacts with sign conventions -1 and +1; only contact 1 approaches (sign*verr = -0.416)
        Matrix A(2, 2); A(0, 0) = 1.5015435979692171; A(0, 1) = A(1, 0) = 1.2948858231739706; A(1, 1) = 1.1733689009704733; Vector D(2, 0.0);
        Array_<ImpulseSolver::UncondRT> unc; Array_<ImpulseSolver::UniContactRT> uni(2); Array_<ImpulseSolver::UniSpeedRT> us; Array_<ImpulseSolver::BoundedRT> bd; Array_<ImpulseSolver::ConstraintLtdFrictionRT> cl; Array_<ImpulseSolver::StateLtdFrictionRT> sl;
        for (int k = 0; k < 2; ++k) { uni[k].m_Nk = MultiplierIndex(k); uni[k].m_sign = k == 0 ? -1 : 1; uni[k].m_type = ImpulseSolver::Participating; uni[k].m_effCOR = 0; }
        Array_<MultiplierIndex> part; part.push_back(MultiplierIndex(0)); part.push_back(MultiplierIndex(1)); Array_<MultiplierIndex> expanding;
        Vector piE(2, 0.0), verr(2), vapp, pi(2, NaN); verr[0] = -0.70821964740753174; verr[1] = -0.41643059253692627;
        PLUSImpulseSolver plus(1e-4); plus.solve(0, part, A, D, expanding, piE, verr, vapp, pi, unc, uni, us, bd, cl, sl);
        ctx.desc << "PLUS, two frictionless contacts (signs -1,+1): pi=(" << pi[0] << "," << pi[1] << ") verr(out)=(" << verr[0] << "," << verr[1] << ") conds " << ImpulseSolver::getUniCondName(uni[0].m_contactCond) << "," << ImpulseSolver::getUniCondName(uni[1].m_contactCond) << "\n";
        ctx.check(!(uni[1].m_contactCond == ImpulseSolver::UniOff && verr[1] < -1e-6), "contact 1 is reported UniOff with zero impulse but keeps approaching at " + pbt::str((double)verr[1]) + " (the solution pi=(0,-0.3549) satisfies every condition)");
    }});
    c.directed.push_back({"plus-impending-d-equals-zero", "plus-impending-spurious-root", [](pbt::Ctx& ctx) {
        // one frictional contact (mu = 0.5), tangential speed just below the roll-to-slip speed 0.01: Rolling needs friction outside the
        // cone -> Impending -> Newton converges to "no tangential velocity change" with |pi_xy| = 2.9 mu N
        Matrix A(3, 3); const double a[9] = {1.3999611245674259, -0.026276761970223106, -0.71070804863063586, -0.026276761970223106, 2.3021796466641007, -0.13140881145284311, -0.71070804863063586, -0.13140881145284311, 0.49679201015159435};
        for (int i = 0; i < 3; ++i) for (int k = 0; k < 3; ++k) A(i, k) = a[3 * i + k]; Vector D(3, 0.0);
        Array_<ImpulseSolver::UncondRT> unc; Array_<ImpulseSolver::UniContactRT> uni(1); Array_<ImpulseSolver::UniSpeedRT> us; Array_<ImpulseSolver::BoundedRT> bd; Array_<ImpulseSolver::ConstraintLtdFrictionRT> cl; Array_<ImpulseSolver::StateLtdFrictionRT> sl;
        uni[0].m_Nk = MultiplierIndex(0); uni[0].m_Fk.push_back(MultiplierIndex(1)); uni[0].m_Fk.push_back(MultiplierIndex(2)); uni[0].m_sign = 1; uni[0].m_type = ImpulseSolver::Participating; uni[0].m_effCOR = 0; uni[0].m_effMu = 0.5;
        Array_<MultiplierIndex> part; for (int i = 0; i < 3; ++i) part.push_back(MultiplierIndex(i)); Array_<MultiplierIndex> expanding;
        Vector piE(3, 0.0), verr(3), vapp, pi(3, NaN); verr[0] = -0.097411187587917447; verr[1] = 3.3953454230002749e-06; verr[2] = 0.0099999993503070428;
        PLUSImpulseSolver plus(1e-2); plus.solve(0, part, A, D, expanding, piE, verr, vapp, pi, unc, uni, us, bd, cl, sl);
        double f = std::hypot((double)pi[1], (double)pi[2]), lim = 0.5 * std::fabs((double)pi[0]);
        ctx.desc << "PLUS, one frictional contact mu=0.5: pi=(" << pi[0] << "," << pi[1] << "," << pi[2] << ") |pi_xy|=" << f << " mu*N=" << lim << " cond " << ImpulseSolver::getFricCondName(uni[0].m_frictionCond) << "\n";
        ctx.check(f <= lim * (1 + 1e-6) + 1e-9, "friction impulse " + pbt::str(f) + " is outside the cone mu*N = " + pbt::str(lim) + " (reported " + ImpulseSolver::getFricCondName(uni[0].m_frictionCond) + ")");
    }});
    c.directed.push_back({"plus-sliding-contact-unconverged", "plus-initial-sliding-unconverged", [](pbt::Ctx& ctx) {
        // shrunk generated case: two unconditional rows + one sliding frictional contact (sign +1, mu = 0.0227), 5 rows, n = 4
        static const pbt::Tape tape = { {3u,4721u,0u,0u,0u,0u,0u,0u,0u,0u,0u,0u,0u,0u,0u,0u,0u,0u,0u,0u,0u,0u,0u,0u,0u,0u,0u,0u,0u,0u,0u,0u,0u,0u,0u,0u,0u,0u,0u,0u,0u,0u,0u,1u,0u,0u,0u,0u,0u,0u,0u,0u,0u,0u,0u,0u,0u,0u,0u,0u,0u,0u,0u,0u,0u,0u,0u,0u,0u,0u,0u,0u},
{178155u,1u,0u,0u,0u,0u,0u,0u,0u,0u,6u,0u,0u,0u,0u,0u,0u,0u,0u,0u,0u,0u,0u,271882u,0u,0u,0u,0u,0u,0u,0u,0u,0u,0u,0u,0u,0u,0u,0u,0u,0u,0u,0u,0u,0u,0u,0u,0u,0u,0u,0u,0u,0u,0u,0u,0u,0u,0u,0u,0u,0u,0u,0u,0u,0u,0u,0u,0u,0u,0u,0u,0u},
{0u,0u,0u,0u,48718673u,0u,0u,0u,0u,513864751u,3678916849u,2757047632u,0u,0u,0u,0u,0u,0u,0u,0u,0u,0u,3925383530u,0u,0u,0u,0u,0u,0u,0u,0u,0u,0u,0u,0u,0u,0u,0u,0u,0u,0u,0u,0u,0u,0u,0u,0u,0u,0u,0u,0u,0u,0u,0u,0u,0u,0u,0u,0u,0u,0u,0u,0u,0u,0u,0u,0u,0u,0u,0u,0u,0u} };
        forceFull = true; try { property1(tape, ctx); } catch (...) { forceFull = false; throw; } forceFull = false;
    }});
    c.directed.push_back({"plus-sign-mirror-symmetry", "plus-jacobian-ignores-contact-sign", [](pbt::Ctx& ctx) {
        // one sliding frictional contact solved twice: sign convention +1, and the mirrored problem (normal row negated) with sign -1;
        // the impulses must agree after mirroring (they are bitwise equal once the Jacobian carries the sign)
        const double a[9] = {1.3999611245674259, -0.026276761970223106, -0.71070804863063586, -0.026276761970223106, 2.3021796466641007, -0.13140881145284311, -0.71070804863063586, -0.13140881145284311, 0.49679201015159435};
        const double v[3] = {-0.43650221311558857, -0.78411998083165713, -0.99731188570923057}, mu = 1.2369929126355672;
        Vector res[2];
        for (int sg = 0; sg < 2; ++sg) {
            double sn = sg ? -1 : 1; Matrix A(3, 3); for (int i = 0; i < 3; ++i) for (int k = 0; k < 3; ++k) A(i, k) = a[3 * i + k] * (i == 0 ? sn : 1) * (k == 0 ? sn : 1); Vector D(3, 0.0);
            Array_<ImpulseSolver::UncondRT> unc; Array_<ImpulseSolver::UniContactRT> uni(1); Array_<ImpulseSolver::UniSpeedRT> us; Array_<ImpulseSolver::BoundedRT> bd; Array_<ImpulseSolver::ConstraintLtdFrictionRT> cl; Array_<ImpulseSolver::StateLtdFrictionRT> sl;
            uni[0].m_Nk = MultiplierIndex(0); uni[0].m_Fk.push_back(MultiplierIndex(1)); uni[0].m_Fk.push_back(MultiplierIndex(2)); uni[0].m_sign = sn; uni[0].m_type = ImpulseSolver::Participating; uni[0].m_effCOR = 0; uni[0].m_effMu = mu;
            Array_<MultiplierIndex> part; for (int i = 0; i < 3; ++i) part.push_back(MultiplierIndex(i)); Array_<MultiplierIndex> ex; Vector piE(3, 0.0), verr(3), vapp, pi(3, NaN); verr[0] = sn * v[0]; verr[1] = v[1]; verr[2] = v[2];
            PLUSImpulseSolver plus(1e-2); plus.solve(0, part, A, D, ex, piE, verr, vapp, pi, unc, uni, us, bd, cl, sl); pi[0] *= sn; res[sg] = pi;
        }
        double d = (res[0] - res[1]).norm();
        ctx.desc << "PLUS, mirrored single-contact problem: pi(sign +1)=" << res[0] << " mirrored pi(sign -1)=" << res[1] << " difference " << d << "\n";
        ctx.check(d <= 1e-8, "sign convention -1 gives a different (less converged) impulse than the mirrored +1 problem: difference " + pbt::str(d));
    }});
    c.directed.push_back({"plus-expansion-rolling-contact-outside-cone", "plus-hidden-impending-in-earlier-interval", [](pbt::Ctx& ctx) {
        // expansion phase, two Known frictional contacts (mu = 1, piE = -1): contact 1 slides and is stopped, contact 0 is Rolling at the
        // start and at return, all end velocities are zero, yet |pi_xy| of contact 0 exceeds mu*|piE|
        const int m = 6; Matrix A(m, m); A = 0; for (int i = 0; i < m; ++i) A(i, i) = 1;
        A(0, 1) = A(1, 0) = 0.43011519973894008; A(1, 4) = A(4, 1) = -0.72966512427402663; A(3, 4) = A(4, 3) = -0.41672305494062384; Vector D(m, 0.0);
        Array_<ImpulseSolver::UncondRT> unc; Array_<ImpulseSolver::UniContactRT> uni(2); Array_<ImpulseSolver::UniSpeedRT> us; Array_<ImpulseSolver::BoundedRT> bd; Array_<ImpulseSolver::ConstraintLtdFrictionRT> cl; Array_<ImpulseSolver::StateLtdFrictionRT> sl;
        Array_<MultiplierIndex> part, expanding; Vector piE(m, 0.0), verr(m, 0.0), vapp, pi(m, NaN);
        for (int k = 0; k < 2; ++k) { uni[k].m_Nk = MultiplierIndex(3 * k); uni[k].m_Fk.push_back(MultiplierIndex(3 * k + 1)); uni[k].m_Fk.push_back(MultiplierIndex(3 * k + 2)); uni[k].m_sign = 1; uni[k].m_type = ImpulseSolver::Known; uni[k].m_effCOR = 0; uni[k].m_effMu = 1;
            part.push_back(MultiplierIndex(3 * k + 1)); part.push_back(MultiplierIndex(3 * k + 2)); expanding.push_back(MultiplierIndex(3 * k)); piE[3 * k] = -1; }
        verr[4] = 0.46872116600935587; verr[5] = -0.52099603659215554;
        PLUSImpulseSolver plus(1e-3); plus.solve(0, part, A, D, expanding, piE, verr, vapp, pi, unc, uni, us, bd, cl, sl);
        double f = std::hypot((double)pi[1], (double)pi[2]);
        ctx.desc << "PLUS expansion phase: contact 0 |pi_xy|=" << f << " mu*|piE|=1 reported " << ImpulseSolver::getFricCondName(uni[0].m_frictionCond) << "\n";
        ctx.check(f <= 1 + 1e-6, "contact 0 is reported " + std::string(ImpulseSolver::getFricCondName(uni[0].m_frictionCond)) + " but its friction impulse " + pbt::str(f) + " exceeds mu*|piExpand| = 1");
    }});
    c.directed.push_back({"pgs-one-sweep-convergence", "pgs-converged-ignores-unenforced-rows", [](pbt::Ctx& ctx) {
        Matrix A(2, 2); A(0, 0) = 1; A(0, 1) = A(1, 0) = -1; A(1, 1) = 2; Vector D(2, 0.0);
        Array_<ImpulseSolver::UncondRT> unc; Array_<ImpulseSolver::UniContactRT> uni(1); Array_<ImpulseSolver::UniSpeedRT> us; Array_<ImpulseSolver::BoundedRT> bd; Array_<ImpulseSolver::ConstraintLtdFrictionRT> cl; Array_<ImpulseSolver::StateLtdFrictionRT> sl;
        bd.push_back(ImpulseSolver::BoundedRT(MultiplierIndex(0), -2, -1.98));
        uni[0].m_Nk = MultiplierIndex(1); uni[0].m_sign = 1; uni[0].m_type = ImpulseSolver::Participating; uni[0].m_effCOR = 0;
        Array_<MultiplierIndex> part; part.push_back(MultiplierIndex(1)); part.push_back(MultiplierIndex(0)); Array_<MultiplierIndex> expanding;
        Vector piE(2, 0.0), verr(2), vapp, pi(2, NaN); verr[0] = -5; verr[1] = 0.5;
        PGSImpulseSolver pgs(1e-4); bool ok = pgs.solve(0, part, A, D, expanding, piE, verr, vapp, pi, unc, uni, us, bd, cl, sl);
        ctx.desc << "PGS, bounded row [-2,-1.98] + frictionless contact, A=[[1,-1],[-1,2]], verr=(-5,0.5): returned " << ok << " pi=(" << pi[0] << "," << pi[1] << ") verr(out)=(" << verr[0] << "," << verr[1] << ") contact " << ImpulseSolver::getUniCondName(uni[0].m_contactCond) << "\n";
        ctx.check(!(ok && uni[0].m_contactCond == ImpulseSolver::UniOff && verr[1] < -1e-3), "PGS reports convergence with the contact UniOff (zero impulse) although it approaches at " + pbt::str((double)verr[1]));
    }});
    return c;
}
} // namespace

PBT_MAIN(config(), property)
