// C04 -- Jacobian operators map speeds to the velocities the state reports (DESIGN.md 5, C04).
// Domain: mbgen trees + task lists (1..8 tasks; repeated bodies and Ground allowed) with random stations,
// a speed vector u' different from the state's u, spatial/force vectors, udot.
// Oracle: with u' written into a copy of the state: multiplyBySystemJacobian(u') == reported body velocities;
// calcSystemJacobian (Matrix_<SpatialVec> and scalar Matrix forms) * u' == the same; station Jacobian
// (operator, explicit Vec3 and scalar forms, single-task overloads) == findStationVelocityInGround; frame
// Jacobian == (w_GB, v_station); transpose operators are exact adjoints <F,J u'> = <J'F,u'> and explicit J' is
// the transpose of explicit J; bias: calcBodyAccelerationFromUDot(udot) == J*udot + calcBiasForSystemJacobian
// (both forms); after realize(Acceleration) getBodyAcceleration == J*getUDot + bias; station/frame bias vs
// findStationAccelerationInGround / body acceleration shifted; (R) system bias == d/dt of reported velocity
// along the motion with udot = 0 (refdyn.h finite differences).
#include "pbt.h"
#include "mbgen.h"
#include "refdyn.h"
using namespace SimTK;

namespace {
struct Rng { uint64_t s; double next() { s += 0x9E3779B97F4A7C15ull; uint64_t z = s; z = (z ^ (z >> 30)) * 0xBF58476D1CE4E5B9ull; z = (z ^ (z >> 27)) * 0x94D049BB133111EBull; z ^= z >> 31; return (z >> 11) / 9007199254740992.0 * 2 - 1; } };
std::string S(double a) { return pbt::str(a); }
Real nrm(const SpatialVec& a) { return a[0].norm() + a[1].norm(); }

void property(const pbt::Tape& t, pbt::Ctx& ctx) {
    pbt::Reader g(t[0]);
    mbgen::Options opt; opt.maxBodies = 7;
    mbgen::ModelSpec spec = mbgen::decodeModel(t, 1, (int)t.size() - 1, g, opt);
    Rng rng{(uint64_t)g.w() * 0x100000001ull + 99};
    const int nt = 1 + g.pick(8);
    uint32_t taskWords[8]; for (int k = 0; k < 8; ++k) taskWords[k] = g.w();
    if (ctx.wantDesc) spec.describe(ctx.desc);
    mbgen::labelModel(ctx, spec);

    mbgen::Built m(spec); m.finish(spec); m.setState(spec);
    State& s = m.state; const SimbodyMatterSubsystem& matter = m.matter;
    const int nu = s.getNU(), NB = matter.getNumBodies();
    if (nu == 0) { ctx.reject("nu=0"); return; }
    m.sys.realize(s, Stage::Velocity);
    const Real eps = 2.220446049250313e-16;

    // tasks
    Array_<MobilizedBodyIndex> bodies; Array_<Vec3> stations; bool repeated = false, deep = false, groundTask = false;
    for (int k = 0; k < nt; ++k) { int b = int(taskWords[k] % uint32_t(NB)); for (auto x : bodies) if ((int)x == b) repeated = true; if (b == 0) groundTask = true;
        bodies.push_back(MobilizedBodyIndex(b)); stations.push_back(Vec3(rng.next(), rng.next(), rng.next()));
        if (matter.getMobilizedBody(MobilizedBodyIndex(b)).getLevelInMultibodyTree() > 2) deep = true; }
    if (ctx.wantDesc) { ctx.desc << "tasks:"; for (int k = 0; k < nt; ++k) ctx.desc << " (body " << (int)bodies[k] << ", " << stations[k] << ")"; ctx.desc << "\n"; }
    Vector up(nu); for (int i = 0; i < nu; ++i) up[i] = 2 * rng.next();
    const Real ups = refdyn::maxAbs(up), us = refdyn::maxAbs(s.getU());
    ctx.nontrivial(nt >= 2 && (repeated || deep) && us > 0);
    if (groundTask) ctx.label("task-on-Ground"); if (repeated) ctx.label("repeated-task-body"); if (deep) ctx.label("task-level>2");

    // reported velocities with u = u'
    State s2 = s; s2.updU() = up; m.sys.realize(s2, Stage::Velocity);
    std::vector<SpatialVec> Vrep = refdyn::bodyVelocities(matter, s2);
    Real vscale = 1; for (auto& v : Vrep) vscale = std::max(vscale, nrm(v));
    const Real tol = 1e4 * eps * (nu + 4) * vscale;

    // ---- system Jacobian
    Vector_<SpatialVec> Ju; matter.multiplyBySystemJacobian(s, up, Ju);
    if (!ctx.check(Ju.size() == NB, "multiplyBySystemJacobian wrong size")) return;
    for (int b = 0; b < NB; ++b) if (!(nrm(Ju[b] - Vrep[b]) <= tol)) { ctx.fail("J*u' for body " + std::to_string(b) + " differs from the reported body velocity by " + S(nrm(Ju[b] - Vrep[b]))); return; }
    Matrix_<SpatialVec> JG; matter.calcSystemJacobian(s, JG); Matrix JGs; matter.calcSystemJacobian(s, JGs);
    if (!ctx.check(JG.nrow() == NB && JG.ncol() == nu && JGs.nrow() == 6 * NB && JGs.ncol() == nu, "calcSystemJacobian wrong shape")) return;
    for (int b = 0; b < NB; ++b) { SpatialVec a(Vec3(0), Vec3(0)); Vec6 a2(0); for (int j = 0; j < nu; ++j) { a += JG(b, j) * up[j]; for (int k = 0; k < 6; ++k) a2[k] += JGs(6 * b + k, j) * up[j]; }
        SpatialVec a2s(Vec3(a2[0], a2[1], a2[2]), Vec3(a2[3], a2[4], a2[5]));
        if (!(nrm(a - Vrep[b]) <= tol && nrm(a2s - Vrep[b]) <= tol)) { ctx.fail("explicit system Jacobian times u' differs from reported velocity of body " + std::to_string(b)); return; } }
    {   // adjoint and explicit transpose
        Vector_<SpatialVec> F(NB); for (int b = 0; b < NB; ++b) F[b] = SpatialVec(Vec3(rng.next(), rng.next(), rng.next()), Vec3(rng.next(), rng.next(), rng.next()));
        Vector JtF; matter.multiplyBySystemJacobianTranspose(s, F, JtF);
        Real lhs = 0; for (int b = 0; b < NB; ++b) lhs += refdyn::dot(F[b], Ju[b]); Real rhs = ~JtF * up;
        if (!ctx.check(std::abs(lhs - rhs) <= 1e4 * eps * (NB + nu) * vscale * 4, "<F,J u'> = " + S(lhs) + " != <J'F,u'> = " + S(rhs))) return;
        for (int j = 0; j < nu; ++j) { Real a = 0; for (int b = 0; b < NB; ++b) a += refdyn::dot(JG(b, j), F[b]); if (!(std::abs(a - JtF[j]) <= 1e4 * eps * NB * (1 + std::abs(a)) * 4)) { ctx.fail("multiplyBySystemJacobianTranspose[" + std::to_string(j) + "] != column of explicit J dotted with F"); return; } }
    }
    // ---- station Jacobian
    {
        Vector_<Vec3> JSu; matter.multiplyByStationJacobian(s, bodies, stations, up, JSu);
        Matrix_<Vec3> JS; matter.calcStationJacobian(s, bodies, stations, JS); Matrix JSs; matter.calcStationJacobian(s, bodies, stations, JSs);
        if (!ctx.check(JSu.size() == nt && JS.nrow() == nt && JS.ncol() == nu && JSs.nrow() == 3 * nt && JSs.ncol() == nu, "station Jacobian wrong shape")) return;
        Vector_<Vec3> fS(nt); for (int k = 0; k < nt; ++k) fS[k] = Vec3(rng.next(), rng.next(), rng.next());
        Vector JStf; matter.multiplyByStationJacobianTranspose(s, bodies, stations, fS, JStf);
        Real lhs = 0;
        for (int k = 0; k < nt; ++k) {
            const MobilizedBody& mb = matter.getMobilizedBody(bodies[k]);
            Vec3 v = mb.findStationVelocityInGround(s2, stations[k]);
            Vec3 a(0), a2(0); for (int j = 0; j < nu; ++j) { a += JS(k, j) * up[j]; for (int c = 0; c < 3; ++c) a2[c] += JSs(3 * k + c, j) * up[j]; }
            Vec3 single = matter.multiplyByStationJacobian(s, bodies[k], stations[k], up);
            RowVector_<Vec3> JS1; matter.calcStationJacobian(s, bodies[k], stations[k], JS1); Vec3 a3(0); for (int j = 0; j < nu; ++j) a3 += JS1[j] * up[j];
            if (!((JSu[k] - v).norm() <= tol && (a - v).norm() <= tol && (a2 - v).norm() <= tol && (single - v).norm() <= tol && (a3 - v).norm() <= tol)) {
                ctx.fail("station task " + std::to_string(k) + " (body " + std::to_string((int)bodies[k]) + "): JS*u' differs from findStationVelocityInGround: op " + S((JSu[k] - v).norm()) + " explicit " + S((a - v).norm()) + " scalar " + S((a2 - v).norm()) + " single " + S((single - v).norm()) + " single-explicit " + S((a3 - v).norm())); return; }
            lhs += ~fS[k] * JSu[k];
        }
        Real rhs = ~JStf * up;
        if (!ctx.check(std::abs(lhs - rhs) <= 1e4 * eps * (nt + nu) * vscale * 4, "station Jacobian transpose is not the adjoint: " + S(lhs) + " vs " + S(rhs))) return;
        for (int j = 0; j < nu; ++j) { Real a = 0; for (int k = 0; k < nt; ++k) a += ~JS(k, j) * fS[k]; if (!(std::abs(a - JStf[j]) <= 1e4 * eps * nt * (1 + std::abs(a)) * 4)) { ctx.fail("multiplyByStationJacobianTranspose != explicit JS'f at " + std::to_string(j)); return; } }
        Vector f1; matter.multiplyByStationJacobianTranspose(s, bodies[0], stations[0], fS[0], f1);
        for (int j = 0; j < nu; ++j) { Real a = ~JS(0, j) * fS[0]; if (!(std::abs(a - f1[j]) <= 1e4 * eps * (1 + std::abs(a)) * 4)) { ctx.fail("single-task multiplyByStationJacobianTranspose != explicit row"); return; } }
    }
    // ---- frame Jacobian
    {
        Vector_<SpatialVec> JFu; matter.multiplyByFrameJacobian(s, bodies, stations, up, JFu);
        Matrix_<SpatialVec> JF; matter.calcFrameJacobian(s, bodies, stations, JF); Matrix JFs; matter.calcFrameJacobian(s, bodies, stations, JFs);
        if (!ctx.check(JFu.size() == nt && JF.nrow() == nt && JF.ncol() == nu && JFs.nrow() == 6 * nt && JFs.ncol() == nu, "frame Jacobian wrong shape")) return;
        Vector_<SpatialVec> FF(nt); for (int k = 0; k < nt; ++k) FF[k] = SpatialVec(Vec3(rng.next(), rng.next(), rng.next()), Vec3(rng.next(), rng.next(), rng.next()));
        Vector JFtF; matter.multiplyByFrameJacobianTranspose(s, bodies, stations, FF, JFtF);
        Real lhs = 0;
        for (int k = 0; k < nt; ++k) {
            const MobilizedBody& mb = matter.getMobilizedBody(bodies[k]);
            SpatialVec v(mb.getBodyAngularVelocity(s2), mb.findStationVelocityInGround(s2, stations[k]));
            SpatialVec a(Vec3(0), Vec3(0)); Vec6 a2(0); for (int j = 0; j < nu; ++j) { a += JF(k, j) * up[j]; for (int c = 0; c < 6; ++c) a2[c] += JFs(6 * k + c, j) * up[j]; }
            SpatialVec a2s(Vec3(a2[0], a2[1], a2[2]), Vec3(a2[3], a2[4], a2[5]));
            SpatialVec single = matter.multiplyByFrameJacobian(s, bodies[k], stations[k], up);
            if (!(nrm(JFu[k] - v) <= tol && nrm(a - v) <= tol && nrm(a2s - v) <= tol && nrm(single - v) <= tol)) { ctx.fail("frame task " + std::to_string(k) + ": JF*u' differs from (w_GB, v_station): op " + S(nrm(JFu[k] - v)) + " explicit " + S(nrm(a - v)) + " scalar " + S(nrm(a2s - v)) + " single " + S(nrm(single - v))); return; }
            lhs += refdyn::dot(FF[k], JFu[k]);
        }
        Real rhs = ~JFtF * up;
        if (!ctx.check(std::abs(lhs - rhs) <= 1e4 * eps * (nt + nu) * vscale * 4, "frame Jacobian transpose is not the adjoint: " + S(lhs) + " vs " + S(rhs))) return;
        for (int j = 0; j < nu; ++j) { Real a = 0; for (int k = 0; k < nt; ++k) a += refdyn::dot(JF(k, j), FF[k]); if (!(std::abs(a - JFtF[j]) <= 1e4 * eps * nt * (1 + std::abs(a)) * 4)) { ctx.fail("multiplyByFrameJacobianTranspose != explicit JF'F at " + std::to_string(j)); return; } }
    }
    // ---- bias terms (state's own u)
    {
        Vector udot(nu); for (int i = 0; i < nu; ++i) udot[i] = 2 * rng.next();
        Vector_<SpatialVec> bias; matter.calcBiasForSystemJacobian(s, bias); Vector biasS; matter.calcBiasForSystemJacobian(s, biasS);
        Vector_<SpatialVec> A; matter.calcBodyAccelerationFromUDot(s, udot, A);
        Vector_<SpatialVec> Jud; matter.multiplyBySystemJacobian(s, udot, Jud);
        if (!ctx.check(bias.size() == NB && biasS.size() == 6 * NB && A.size() == NB, "bias sizes")) return;
        Real ascale = 1; for (int b = 0; b < NB; ++b) ascale = std::max(ascale, nrm(A[b]) + nrm(bias[b]));
        const Real tolA = 1e4 * eps * (nu + 4) * ascale;
        for (int b = 0; b < NB; ++b) {
            if (!(nrm(A[b] - (Jud[b] + bias[b])) <= tolA)) { ctx.fail("calcBodyAccelerationFromUDot != J*udot + JDot*u at body " + std::to_string(b) + " by " + S(nrm(A[b] - (Jud[b] + bias[b])))); return; }
            SpatialVec bs(Vec3(biasS[6 * b], biasS[6 * b + 1], biasS[6 * b + 2]), Vec3(biasS[6 * b + 3], biasS[6 * b + 4], biasS[6 * b + 5]));
            if (!(nrm(bs - bias[b]) <= tolA)) { ctx.fail("scalar and SpatialVec forms of calcBiasForSystemJacobian differ at body " + std::to_string(b)); return; }
        }
        // (R) bias = d/dt reported velocity with udot = 0
        bool lineRevQuat = false; for (auto& b : spec.bodies) if (b.reversed && !spec.euler && (b.type == mbgen::LineOrientation || b.type == mbgen::FreeLine)) lineRevQuat = true;
        const bool skipFD = lineRevQuat && ctx.known("line-mobilizer-reversed-quaternion-qdot");
        if (skipFD) ctx.label("excluded:line-rev-quat:FD-branches");
        if (!skipFD) {
            Vector zero(nu); zero = 0; std::vector<SpatialVec> A0 = refdyn::referenceAccelerations(m.sys, matter, s, zero);
            for (int b = 0; b < NB; ++b) if (!(nrm(A0[b] - bias[b]) <= 1e-7 * (1 + nrm(bias[b])) * (1 + us * us))) { ctx.fail("calcBiasForSystemJacobian body " + std::to_string(b) + " differs from d/dt of the reported velocity at udot=0 by " + S(nrm(A0[b] - bias[b]))); return; }
        }
        // station / frame bias vs realized accelerations
        State s3 = s; m.sys.realize(s3, Stage::Acceleration);
        const Vector& ud3 = s3.getUDot();
        Vector_<SpatialVec> Jud3; matter.multiplyBySystemJacobian(s3, ud3, Jud3);
        Vector_<Vec3> JSud; matter.multiplyByStationJacobian(s3, bodies, stations, ud3, JSud);
        Vector_<Vec3> bS; matter.calcBiasForStationJacobian(s3, bodies, stations, bS); Vector bSs; matter.calcBiasForStationJacobian(s3, bodies, stations, bSs);
        Vector_<SpatialVec> JFud; matter.multiplyByFrameJacobian(s3, bodies, stations, ud3, JFud);
        Vector_<SpatialVec> bF; matter.calcBiasForFrameJacobian(s3, bodies, stations, bF); Vector bFs; matter.calcBiasForFrameJacobian(s3, bodies, stations, bFs);
        if (!ctx.check(bS.size() == nt && bSs.size() == 3 * nt && bF.size() == nt && bFs.size() == 6 * nt, "station/frame bias sizes")) return;
        for (int b = 0; b < NB; ++b) { const SpatialVec& Ab = matter.getMobilizedBody(MobilizedBodyIndex(b)).getBodyAcceleration(s3);
            if (!(nrm(Ab - (Jud3[b] + bias[b])) <= tolA * 10 + 1e4 * eps * nrm(Ab))) { ctx.fail("getBodyAcceleration != J*getUDot + bias at body " + std::to_string(b)); return; } }
        for (int k = 0; k < nt; ++k) {
            const MobilizedBody& mb = matter.getMobilizedBody(bodies[k]);
            Vec3 a = mb.findStationAccelerationInGround(s3, stations[k]);
            Real sc = 1 + a.norm() + bS[k].norm() + JSud[k].norm();
            if (!((a - (JSud[k] + bS[k])).norm() <= 1e4 * eps * (nu + 4) * sc)) { ctx.fail("station task " + std::to_string(k) + ": findStationAccelerationInGround != JS*udot + JSDot*u by " + S((a - (JSud[k] + bS[k])).norm())); return; }
            Vec3 bs3(bSs[3 * k], bSs[3 * k + 1], bSs[3 * k + 2]); if (!((bs3 - bS[k]).norm() <= 1e4 * eps * sc)) { ctx.fail("scalar/Vec3 station bias forms differ"); return; }
            Vec3 single = matter.calcBiasForStationJacobian(s3, bodies[k], stations[k]); if (!((single - bS[k]).norm() <= 1e4 * eps * sc)) { ctx.fail("single-task station bias differs from multi-task"); return; }
            SpatialVec aF(mb.getBodyAngularAcceleration(s3), a);
            if (!(nrm(aF - (JFud[k] + bF[k])) <= 1e4 * eps * (nu + 4) * (sc + nrm(aF)))) { ctx.fail("frame task " + std::to_string(k) + ": (alpha_GB, a_station) != JF*udot + JFDot*u by " + S(nrm(aF - (JFud[k] + bF[k])))); return; }
            SpatialVec bf6(Vec3(bFs[6 * k], bFs[6 * k + 1], bFs[6 * k + 2]), Vec3(bFs[6 * k + 3], bFs[6 * k + 4], bFs[6 * k + 5])); if (!(nrm(bf6 - bF[k]) <= 1e4 * eps * (sc + nrm(bF[k])))) { ctx.fail("scalar/SpatialVec frame bias forms differ"); return; }
            SpatialVec singleF = matter.calcBiasForFrameJacobian(s3, bodies[k], stations[k]); if (!(nrm(singleF - bF[k]) <= 1e4 * eps * (sc + nrm(bF[k])))) { ctx.fail("single-task frame bias differs from multi-task"); return; }
        }
    }
    (void)ups;
}

pbt::Config config() {
    pbt::Config c; c.prop = "C04"; c.K = mbgen::K; c.minUnits = 1;
    c.quick = {1500, 6000, 14, 25}; c.thorough = {15000, 50000, 14, 240};
    c.rule = "rapidcheck tape -> mbgen tree (1..7 bodies, all mobilizer types/directions/frame kinds, quaternion/Euler) + 1..8 tasks (body index modulo number of bodies incl. Ground, repeated bodies allowed, tape-seeded stations), speed vector u' != state's u, force and udot vectors. Non-trivial: >= 2 tasks with a repeated body or a task body deeper than level 2, and u != 0; distinct by tape hash.";
    c.assumptions = {"tolerance 1e4*eps*(nu+4)*velocity scale for operator/explicit/reported comparisons; 1e-7 relative for the finite-difference bias check"};
    c.requiredLabels = {"task-on-Ground", "repeated-task-body", "task-level>2", "mob:Ball/rev/quat", "mob:Free/fwd/euler", "mob:Ellipsoid/rev/quat"};
    return c;
}
} // namespace

PBT_MAIN(config(), property)
