// C37 -- Compliant contact forces follow their documented laws (DESIGN.md section 5, C37).
// Domain: cgen scenarios (gen/contactgen.h): one contact element on a small mbgen tree, surfaces posed AROUND the
// touching configuration (signed depth log-dense near 0), designed approach / rebound / slip / spin velocities.
// Elements: HuntCrossleyForce (sphere/sphere, sphere/half-space, one or two probes in the set), ElasticFoundationForce
// (mesh vs sphere / half-space), CompliantContactSubsystem (Hertz circular, Hertz elliptical = ellipsoid on half-space,
// elastic foundation, brick/half-space), SmoothSphereHalfSpaceForce, ExponentialSpringForce.
// Oracle (R): the constitutive law of each class documentation, re-implemented here from the geometry and the body
// kinematics reported by the matter subsystem (depth, normal, rate and slip are computed by me, never taken from the
// element), compared with the body forces the element contributes (and with the reported patch details for the
// CompliantContactSubsystem).  (V): never attractive, exactly zero without penetration (non-smooth models),
// friction opposes slip with the documented magnitude / below the documented limit.
#include "pbt.h"
#include "mbgen.h"
#include "contactgen.h"
using namespace SimTK;
using cgen::BodyKin; using cgen::pointVel;

namespace {
const Real EPS = 2.220446049250313e-16;
std::string S(double a) { return pbt::str(a); }
std::string S3(const Vec3& v) { return "(" + S(v[0]) + "," + S(v[1]) + "," + S(v[2]) + ")"; }
Real harmonic(Real a, Real b) { return (a + b) > 0 ? 2 * a * b / (a + b) : 0; }
Real hollars(Real us, Real ud, Real uv, Real vs, Real vt) { Real v = vs / vt; return std::min(v, Real(1)) * (ud + 2 * (us - ud) / (1 + v * v)) + uv * vs; }

// complete elliptic integrals K(m), E(m) by the arithmetic-geometric mean (parameter m = k^2)
void ellipKE(long double m, long double& K, long double& E) {
    long double a = 1, b = std::sqrt(1 - m), c = std::sqrt(m), sum = 0.5L * c * c, p = 0.5L;
    for (int i = 0; i < 40 && std::fabs(c) > 1e-19L; ++i) { long double an = 0.5L * (a + b), bn = std::sqrt(a * b); c = 0.5L * (a - b); a = an; b = bn; p *= 2; sum += p * c * c; }
    K = 3.14159265358979323846L / (2 * a); E = K * (1 - sum);
}
// Hertz theory, elliptical contact (Johnson, Contact Mechanics, ch. 4): relative semi-curvatures A <= B, ellipse
// ratio k = a/b >= 1 from B/A = (k^2 E(m) - K(m)) / (K(m) - E(m)), m = 1 - 1/k^2; load P = e * (4/3) E* sqrt(R) d^1.5
// with R = 1/(A+B) and e = pi k sqrt(E(m)) / (2 K(m)^1.5).
double hertzEccentricityFactor(double kmax, double kmin) {
    long double ratio = (long double)kmax / kmin; if (ratio < 1 + 1e-9L) return 1;
    auto f = [&](long double lk) { long double k = std::exp(lk), m = 1 - 1 / (k * k), K, E; ellipKE(m, K, E); return (k * k * E - K) / (K - E); };
    long double lo = 1e-9L, hi = std::log(1e6L);
    for (int i = 0; i < 200; ++i) { long double mid = 0.5L * (lo + hi); if (f(mid) < ratio) lo = mid; else hi = mid; }
    long double k = std::exp(0.5L * (lo + hi)), m = 1 - 1 / (k * k), K, E; ellipKE(m, K, E);
    return (double)(3.14159265358979323846L * k * std::sqrt(E) / (2 * K * std::sqrt(K)));
}

struct Geo {        // geometric relation of base (on A) and probe (on B), all in Ground
    Vec3 n;         // unit, from base material towards the probe body
    Real x;         // penetration depth (> 0 overlapping)
    Vec3 P1, P2;    // undeformed surface points of base and probe on the normal line (P1 - P2 = x n)
    Real R;         // relative radius of curvature (sphere pairs)
    Real L;         // length scale of the positions involved (for round-off bounds)
};
Geo sphereGeo(const cgen::Surf& base, const Transform& X_GS1, Real R2, const Vec3& c2) {
    Geo g; g.L = std::max(Real(1), std::max(X_GS1.p().norm(), c2.norm())) + R2;
    if (base.shape == cgen::ShHalfSpace) { g.n = -(X_GS1.R() * Vec3(1, 0, 0)); Real dist = ~(c2 - X_GS1.p()) * g.n; g.x = R2 - dist; g.P1 = c2 - dist * g.n; g.P2 = c2 - R2 * g.n; g.R = R2; }
    else { Vec3 d = c2 - X_GS1.p(); Real dn = d.norm(); g.n = d / dn; g.x = base.R + R2 - dn; g.P1 = X_GS1.p() + base.R * g.n; g.P2 = c2 - R2 * g.n; g.R = base.R * R2 / (base.R + R2); g.L += base.R; }
    return g;
}
Real relTol(const Geo& g) { return 1e-8 + 400 * EPS * g.L / std::max(std::fabs(g.x), Real(1e-300)); }

struct Rel { Real xdot; Vec3 slip; Real vs; };      // of the probe body (2) relative to the base body (1) at C
Rel relAt(const BodyKin& k1, const BodyKin& k2, const Vec3& C, const Vec3& n) {
    Rel r; Vec3 v = pointVel(k2, C) - pointVel(k1, C); r.xdot = -(~v * n); r.slip = v + r.xdot * n; r.vs = r.slip.norm(); return r;
}
void labelRegime(pbt::Ctx& ctx, const std::string& k, Real x, Real size, const Rel* r, Real vt, Real fnFactor) {
    ctx.label(k + "/" + (x < 0 ? "separated" : x == 0 ? "touching" : x < 1e-3 * size ? "shallow" : "deep"));
    if (r && x > 0) {
        ctx.label(k + "/rate:" + (r->xdot > 0 ? "approach" : r->xdot < 0 ? (fnFactor <= 0 ? "yank" : "rebound") : "zero"));
        Real v = r->vs / vt; ctx.label(k + "/slip:" + (r->vs < 1e-12 ? "none" : v < 1 ? "below-vt" : v < 3 ? "transition" : "sliding"));
    }
}

// derive the application point on the normal line P2 + s n from the wrench (tau about origin p, force F) on a body
bool pointOnLine(const Vec3& P2, const Vec3& n, const Vec3& p, const Vec3& tau, const Vec3& F, Real sDefault, Real& s, Real& resid) {
    Vec3 r0 = P2 - p, m = n % F, d = tau - r0 % F; bool determined = m.norm() > 1e-7 * F.norm() && F.norm() > 0;
    s = determined ? (~d * m) / (~m * m) : sDefault;
    resid = (tau - (r0 + s * n) % F).norm();
    return determined;
}

// ------------------------------------------------------------------------------------------------ HuntCrossleyForce
void checkHCProbe(pbt::Ctx& ctx, const cgen::Scenario& sc, const cgen::Surf& base, const cgen::Surf& probe, const Transform& X_BS,
                  const BodyKin& kA, const BodyKin& kB, const SpatialVec& FB, Real& peExpected, bool& nontrivial, const char* tag, bool otherProbeYanks, bool& excluded) {
    Transform X_GS1 = kA.X * base.X_BS; Vec3 c2 = kB.X * X_BS.p();
    Geo g = sphereGeo(base, X_GS1, probe.R, c2);
    const Real E1 = std::pow(base.mat.E, 2. / 3), E2 = std::pow(probe.mat.E, 2. / 3), s1 = E2 / (E1 + E2);
    const Real E = std::pow(s1 * E1, 1.5), c = base.mat.c * s1 + probe.mat.c * (1 - s1), k = (4. / 3) * std::sqrt(g.R) * E;
    const Real us = harmonic(base.mat.us, probe.mat.us), ud = harmonic(base.mat.ud, probe.mat.ud), uv = harmonic(base.mat.uv, probe.mat.uv);
    std::string K = std::string("HC") + tag;
    if (std::fabs(g.x) < 50 * EPS * g.L) { ctx.label(K + "/onset-ambiguous"); return; }
    Real fscale = k * std::pow(std::fabs(g.x), 1.5);
    if (g.x <= 0) {
        labelRegime(ctx, K, g.x, probe.R, nullptr, sc.vt, 1);
        if (FB[0].norm() != 0 || FB[1].norm() != 0) ctx.fail(K + ": separated (gap " + S(-g.x) + ") but force on probe body = " + S3(FB[1]) + " torque " + S3(FB[0]));
        return;
    }
    peExpected += 0.4 * k * std::pow(g.x, 2.5);
    Real s, resid; Vec3 F = FB[1];
    bool det = pointOnLine(g.P2, g.n, kB.X.p(), FB[0], F, 0.5 * g.x, s, resid);
    Real armScale = (g.P2 - kB.X.p()).norm() + g.x + 1e-3;
    if (F.norm() > 0 && resid > 1e-9 * armScale * F.norm() + 1e-13 * fscale) { ctx.fail(K + ": wrench on the probe body is not a pure force applied on the line of centres: residual torque " + S(resid) + " |F|=" + S(F.norm())); return; }
    if (det && (s < -1e-7 * g.x - 1e-12 || s > g.x * (1 + 1e-7) + 1e-12)) {
        // application point determined by the friction torque: must lie between the two undeformed surfaces
        Real slack = 1e-6 * (FB[0].norm() + armScale * F.norm()) / (g.n % F).norm();
        if (s < -slack || s > g.x + slack) { ctx.fail(K + ": force applied outside the overlap region: s=" + S(s) + " depth=" + S(g.x)); return; }
    }
    Vec3 C = g.P2 + std::min(std::max(s, Real(0)), g.x) * g.n;
    Rel r = relAt(kA, kB, C, g.n);
    Real factor = 1 + 1.5 * c * r.xdot, fn = std::max(Real(0), k * std::pow(g.x, 1.5) * factor);
    labelRegime(ctx, K, g.x, probe.R, &r, sc.vt, factor);
    Vec3 Fexp = fn * g.n; Real mu = 0;
    if (r.vs > 0) { mu = hollars(us, ud, uv, r.vs, sc.vt); Fexp -= (fn * mu / r.vs) * r.slip; }
    // known finding hc-return-on-rebound: HuntCrossleyForceImpl::calcForce leaves the loop over the contacts of the set
    // (`return` instead of `continue`) at the first contact whose force is clamped to zero (rebound faster than
    // 2/(3c)), so contacts processed after it get no force. Site: >= 2 contacts in the set, another contact is
    // clamped, and this contact received exactly zero force although its documented force is positive.
    if (otherProbeYanks && fn > 0 && FB[0].norm() == 0 && FB[1].norm() == 0 && ctx.known("hc-return-on-rebound")) { ctx.label("excluded:hc-return-on-rebound"); excluded = true; return; }
    // sensitivity of the friction vector to the (derived, or undetermined) application point: d(friction)/d(slip) <= fn (2 mu_s / vt + mu_v),
    // d(slip) = |w_rel| ds, ds = round-off of the derived s (conditioned by the friction torque) or the whole overlap
    Real ds = det ? 16 * EPS * (FB[0].norm() + armScale * F.norm()) / (g.n % F).norm() : g.x;
    Real tol = relTol(g) * (Fexp.norm() + fscale * 1e-3) + fn * (2 * us / sc.vt + uv) * (kB.V[0] - kA.V[0]).norm() * ds;
    if ((F - Fexp).norm() > tol)
        ctx.fail(K + ": force on probe " + S3(F) + " != documented law " + S3(Fexp) + " (x=" + S(g.x) + " xdot=" + S(r.xdot) + " vs=" + S(r.vs) + " fn=" + S(fn) + " mu=" + S(mu) + " k=" + S(k) + " c=" + S(c) + ")");
    if (~F * g.n < -tol) ctx.fail(K + ": attractive normal force " + S(~F * g.n));
    Vec3 Ft = F - (~F * g.n) * g.n;
    if (r.vs > 0 && ~Ft * r.slip > tol * r.vs) ctx.fail(K + ": friction does not oppose slip");
    if (fn > 0 && r.vs > 1e-9 && std::fabs(r.xdot) > 1e-9) nontrivial = true;
    if (us > 0 && fn > 0) ctx.label(K + "/friction-active");
}

void checkHC(pbt::Ctx& ctx, const cgen::Scenario& sc, cgen::Scene& sn, const State& s) {
    Vector_<SpatialVec> bf; Vector mf; sn.elementForces(s, bf, mf);
    BodyKin kA = cgen::kinOf(sn.body(sc.A), s), kB = cgen::kinOf(sn.body(sc.B), s);
    Real pe = 0; bool nt = false, excluded = false;
    auto yanks = [&](const cgen::Surf& probe, const Transform& X_BS, const BodyKin& kP) {   // penetrating and 1 + 3/2 c xdot <= 0
        Geo g = sphereGeo(sc.s1, kA.X * sc.s1.X_BS, probe.R, kP.X * X_BS.p()); if (g.x <= 0) return false;
        const Real E1 = std::pow(sc.s1.mat.E, 2. / 3), E2 = std::pow(probe.mat.E, 2. / 3), s1 = E2 / (E1 + E2), c = sc.s1.mat.c * s1 + probe.mat.c * (1 - s1);
        Rel r = relAt(kA, kP, 0.5 * (g.P1 + g.P2), g.n); return 1 + 1.5 * c * r.xdot <= 1e-9; };
    BodyKin kD; bool y1 = yanks(sc.s2, sn.X_BS2, kB), y2 = false; if (sc.D >= 0) { kD = cgen::kinOf(sn.body(sc.D), s); y2 = yanks(sc.s3, sn.X_DS3, kD); }
    checkHCProbe(ctx, sc, sc.s1, sc.s2, sn.X_BS2, kA, kB, bf[sc.B], pe, nt, "", y2, excluded);
    if (sc.D >= 0) { checkHCProbe(ctx, sc, sc.s1, sc.s3, sn.X_DS3, kA, kD, bf[sc.D], pe, nt, "2", y1, excluded); ctx.label("HC/two-probes"); if (y1 != y2) ctx.label("HC/two-probes-one-clamped"); }
    for (int i = 0; i < mf.size(); ++i) if (mf[i] != 0) ctx.fail("HC: mobility force applied");
    Real peGot = sn.elementPE(s);
    // same finding, energy side: the contacts after the clamped one are not accumulated into the potential energy
    if (sc.D >= 0 && (y1 || y2) && peGot < pe && !ctx.failed && ctx.known("hc-return-on-rebound")) { ctx.label("excluded:hc-return-on-rebound(pe)"); excluded = true; }
    if (std::fabs(peGot - pe) > 1e-7 * (pe + std::fabs(peGot)) + 1e-300 && !ctx.failed && !excluded) {
        // pe = 2/5 k x^(5/2) per documented law (sum over contacts); tolerance from the depth round-off
        Transform X_GS1 = kA.X * sc.s1.X_BS; Geo g = sphereGeo(sc.s1, X_GS1, sc.s2.R, kB.X * sn.X_BS2.p());
        Real tol = 2.5 * relTol(g); if (sc.D >= 0) { Geo g3 = sphereGeo(sc.s1, X_GS1, sc.s3.R, cgen::kinOf(sn.body(sc.D), s).X * sn.X_DS3.p()); tol = std::max(tol, 2.5 * relTol(g3)); }
        if (std::fabs(peGot - pe) > tol * (pe + std::fabs(peGot))) ctx.fail("HC: potential energy " + S(peGot) + " != sum 2/5 k x^(5/2) = " + S(pe));
    }
    ctx.nontrivial(nt);
}

// ------------------------------------------------------------------------------------------ mesh springs (both EF)
struct Spring { int face; Vec3 cg, N, e; Real x, area; };   // e: unit from the other object's surface point N towards the spring base cg (into the other object)
struct Other { int shape; Real R; const cgen::MeshData* mesh; Transform X; };   // the object the springs of a mesh press into (frame in Ground)
std::vector<Spring> meshSprings(const cgen::MeshData& md, const Transform& X_GM, const Other& o, Real& minMargin, bool* ambiguous = nullptr) {
    std::vector<Spring> out; minMargin = 1e300;
    for (int f = 0; f < md.nFaces(); ++f) {
        Spring sp; sp.face = f; sp.cg = X_GM * md.centroid(f); sp.area = md.area(f);
        Real inside;   // > 0 inside
        if (o.shape == cgen::ShSphere) { Vec3 d = sp.cg - o.X.p(); Real dn = d.norm(); inside = o.R - dn; if (dn == 0) continue; sp.N = o.X.p() + o.R * (d / dn); }
        else if (o.shape == cgen::ShMesh) {     // brute force: nearest point over all triangles, inside by ray parity
            cgen::MeshQuery q = cgen::queryMesh(*o.mesh, ~o.X * sp.cg); inside = q.inside ? q.dist : -q.dist; sp.N = o.X * q.nearest; if (q.ambiguous && ambiguous) *ambiguous = true; }
        else { Vec3 nh = -(o.X.R() * Vec3(1, 0, 0)); Real h = ~(sp.cg - o.X.p()) * nh; inside = -h; sp.N = sp.cg - h * nh; }
        minMargin = std::min(minMargin, std::fabs(inside));
        if (inside <= 0) continue;
        sp.x = inside; sp.e = (sp.cg - sp.N) / sp.x; out.push_back(sp);
    }
    return out;
}

void checkEFF(pbt::Ctx& ctx, const cgen::Scenario& sc, cgen::Scene& sn, const State& s) {
    Vector_<SpatialVec> bf; Vector mf; sn.elementForces(s, bf, mf);
    BodyKin kA = cgen::kinOf(sn.body(sc.A), s), kB = cgen::kinOf(sn.body(sc.B), s);
    const Transform X_G1 = kA.X * sc.s1.X_BS, X_G2 = kB.X * sn.X_BS2;
    // one "side" per parametrised mesh: its springs press into the other surface. Two parametrised meshes in contact
    // share the patch: documented "scale each one's contributions by 50%" (class doc: the springs on each mesh are treated independently)
    struct Side { const cgen::MeshData* md; Transform X_GM; const cgen::Material* mat; const BodyKin* kM; const BodyKin* kO; Other other; bool meshIsBase; };
    std::vector<Side> sides;
    if (sc.paramBase && sc.s1.shape == cgen::ShMesh) sides.push_back({&sc.mesh, X_G1, &sc.s1.mat, &kA, &kB, Other{sc.s2.shape, sc.s2.R, &sc.meshOf(true), X_G2}, true});
    if (sc.paramProbe && sc.s2.shape == cgen::ShMesh) sides.push_back({&sc.meshOf(true), X_G2, &sc.s2.mat, &kB, &kA, Other{sc.s1.shape, sc.s1.R, &sc.mesh, X_G1}, false});
    const Real areaScale = sides.size() == 2 ? 0.5 : 1.0;
    Real L = std::max(Real(1), X_G1.p().norm() + X_G2.p().norm()) + 2;
    std::string K = "EFF";
    ctx.label(K + "/" + cgen::shapeName(sc.s1.shape) + "-" + cgen::shapeName(sc.s2.shape));
    if (sc.meshMesh) ctx.label(sides.size() == 2 ? "eff:mesh-mesh" : "eff:mesh-mesh(one mesh parametrised)");
    SpatialVec FA(Vec3(0), Vec3(0)), FB(Vec3(0), Vec3(0)); Real absSum = 0, margin = 1e300, peExp = 0; bool nt = false, ambiguous = false; int active = 0, yank = 0, nsp = 0, sidesActive = 0;
    for (const Side& sd : sides) {
        Real mg; std::vector<Spring> sp = meshSprings(*sd.md, sd.X_GM, sd.other, mg, &ambiguous); margin = std::min(margin, mg); nsp += (int)sp.size();
        const Real k = sd.mat->E, c = sd.mat->c; int act0 = active;
        for (auto& q : sp) {
            Vec3 v = pointVel(*sd.kO, q.N) - pointVel(*sd.kM, q.N);      // other relative to mesh at the contact point
            Real xdot = -(~v * q.e);                                        // q.e points into the other object
            Vec3 slip = v + xdot * q.e; Real vs = slip.norm();
            Real f = k * (areaScale * q.area) * q.x * (1 + c * xdot);
            peExp += 0.5 * k * (areaScale * q.area) * q.x * q.x;      // energy stored in the documented linear spring k a x (every displaced spring)
            if (f <= 0) { ++yank; continue; }
            ++active;
            Vec3 Fmesh = -f * q.e;                                 // pushes the mesh out of the other object
            if (vs > 0) Fmesh += (f * hollars(sd.mat->us, sd.mat->ud, sd.mat->uv, vs, sc.vt) / vs) * slip;   // dragged along with the other body
            SpatialVec& FM = sd.meshIsBase ? FA : FB; SpatialVec& FO = sd.meshIsBase ? FB : FA;
            FM[1] += Fmesh; FM[0] += (q.N - sd.kM->X.p()) % Fmesh; FO[1] -= Fmesh; FO[0] -= (q.N - sd.kO->X.p()) % Fmesh;
            absSum += Fmesh.norm() * (1 + (q.N - sd.kM->X.p()).norm() + (q.N - sd.kO->X.p()).norm());
            if (vs > 1e-9 && std::fabs(xdot) > 1e-9) nt = true;
        }
        if (active > act0) ++sidesActive;
    }
    if (ambiguous || margin < 100 * EPS * L) { ctx.label(K + "/onset-ambiguous"); return; }
    ctx.label(K + (nsp == 0 ? "/no-spring-displaced" : nsp < 4 ? "/1-3 springs" : "/4+ springs"));
    if (active) ctx.label(K + "/active"); if (yank) ctx.label(K + "/some-springs-yanked");
    if (sc.meshMesh && sidesActive == 2) ctx.label("eff:mesh-mesh/both-directions-active");
    Real tol = (1e-8 + 1000 * EPS * L / std::max(margin, Real(1e-300))) * absSum;
    if (nsp == 0) { if (bf[sc.A][0].norm() + bf[sc.A][1].norm() + bf[sc.B][0].norm() + bf[sc.B][1].norm() != 0) ctx.fail("EFF: no spring base inside the other object but force applied " + S3(bf[sc.B][1])); return; }
    if ((bf[sc.A][1] - FA[1]).norm() > tol || (bf[sc.A][0] - FA[0]).norm() > tol || (bf[sc.B][1] - FB[1]).norm() > tol || (bf[sc.B][0] - FB[0]).norm() > tol)
        ctx.fail("EFF: wrench on base body F=" + S3(bf[sc.A][1]) + " T=" + S3(bf[sc.A][0]) + " / probe body F=" + S3(bf[sc.B][1]) + " T=" + S3(bf[sc.B][0]) + " != sum over displaced springs of k a x (1+c v) + Hollars friction: base F=" + S3(FA[1]) + " T=" + S3(FA[0]) + " / probe F=" + S3(FB[1]) + " T=" + S3(FB[0]) + " (springs " + std::to_string(nsp) + ", area scale " + S(areaScale) + ", tol " + S(tol) + ")");
    // potential energy = integral of the documented elastic spring law k a x of every displaced spring (with the 50% area
    // share when two parametrised meshes touch): sum 1/2 k a x^2
    Real peGot = sn.elementPE(s), peTol = 2 * (1e-8 + 1000 * EPS * L / std::max(margin, Real(1e-300))) * peExp;
    if (!ctx.failed && std::fabs(peGot - peExp) > peTol) ctx.fail("EFF: potential energy " + S(peGot) + " != sum over displaced springs of 1/2 k a x^2 = " + S(peExp) + " (springs " + std::to_string(nsp) + ", area scale " + S(areaScale) + ")");
    ctx.nontrivial(nt);
}

// ------------------------------------------------------------------------------------------ CompliantContactSubsystem
struct CcsContact { ContactForce cf; ContactPatch patch; int body1, body2; };
std::vector<CcsContact> ccsContacts(cgen::Scene& sn, const State& s) {
    std::vector<CcsContact> out; int n = sn.ccs->getNumContactForces(s);
    for (int i = 0; i < n; ++i) {
        CcsContact c; c.cf = sn.ccs->getContactForce(s, i);
        sn.ccs->calcContactPatchDetailsById(s, c.cf.getContactId(), c.patch);
        const Contact& ct = sn.tracker->getActiveContacts(s).getContactById(c.cf.getContactId());
        c.body1 = (int)sn.tracker->getMobilizedBody(ct.getSurface1()).getMobilizedBodyIndex();
        c.body2 = (int)sn.tracker->getMobilizedBody(ct.getSurface2()).getMobilizedBodyIndex();
        out.push_back(c);
    }
    return out;
}
// documented friction clauses for the subsystem (ContactMaterial): tangential force opposes slip, limited by
// (mu_s + mu_v v) N, and equal to (mu_d + mu_v v) N at significant sliding speed (>= 10 vt)
void checkCcsFriction(pbt::Ctx& ctx, const std::string& K, const Vec3& F, const Vec3& n12, const Rel& r, const cgen::Material& a, const cgen::Material& b, Real vt, Real tolF) {
    Real fn = ~F * n12; Vec3 Ft = F - fn * n12; Real ft = Ft.norm();
    Real us = harmonic(a.us, b.us), ud = harmonic(a.ud, b.ud), uv = harmonic(a.uv, b.uv);
    if (fn < -tolF) { ctx.fail(K + ": attractive normal force " + S(fn)); return; }
    if (r.vs > 0 && (Ft + (ft / r.vs) * r.slip).norm() > tolF + 1e-9 * ft) { ctx.fail(K + ": friction force " + S3(Ft) + " is not anti-parallel to the slip velocity " + S3(r.slip)); return; }
    if (ft > fn * (us + uv * r.vs) * (1 + 1e-9) + tolF) { ctx.fail(K + ": friction " + S(ft) + " exceeds (mu_s + mu_v v) N = " + S(fn * (us + uv * r.vs))); return; }
    if (r.vs >= 10 * vt && std::fabs(ft - fn * (ud + uv * r.vs)) > tolF + 1e-9 * ft) { ctx.fail(K + ": sliding friction " + S(ft) + " != (mu_d + mu_v v) N = " + S(fn * (ud + uv * r.vs))); return; }
    if (r.vs >= 10 * vt && fn > 0 && (ud > 0 || uv > 0)) ctx.label(K + "/sliding-friction-checked");
}
bool checkResultantApplied(pbt::Ctx& ctx, const std::string& K, cgen::Scene& sn, const State& s, const std::vector<CcsContact>& cs, int nb) {
    const Vector_<SpatialVec>& bf = sn.m->sys.getRigidBodyForces(s, Stage::Dynamics);
    std::vector<SpatialVec> ex(nb + 1, SpatialVec(Vec3(0), Vec3(0))); Real scale = 0;
    for (auto& c : cs) { const SpatialVec& F2 = c.cf.getForceOnSurface2(); Vec3 C = c.cf.getContactPoint();
        Vec3 p1 = sn.body(c.body1).getBodyOriginLocation(s), p2 = sn.body(c.body2).getBodyOriginLocation(s);
        ex[c.body2] += SpatialVec(F2[0] + (C - p2) % F2[1], F2[1]); ex[c.body1] -= SpatialVec(F2[0] + (C - p1) % F2[1], F2[1]);
        scale += F2[0].norm() + F2[1].norm() * (1 + (C - p1).norm() + (C - p2).norm()); }
    for (int b = 0; b <= nb; ++b) if ((bf[b][0] - ex[b][0]).norm() + (bf[b][1] - ex[b][1]).norm() > 1e-10 * scale) { ctx.fail(K + ": body force on body " + std::to_string(b) + " is not the reported resultant applied at the reported contact point"); return false; }
    return true;
}
bool sumDetails(pbt::Ctx& ctx, const std::string& K, const CcsContact& c) {
    Vec3 F(0), T(0); Real pe = 0, scale = 0; const Vec3 C = c.cf.getContactPoint();
    for (int i = 0; i < c.patch.getNumDetails(); ++i) { const ContactDetail& d = c.patch.getContactDetail(i); F += d.getForceOnSurface2(); T += (d.getContactPoint() - C) % d.getForceOnSurface2(); pe += d.getPotentialEnergy(); scale += d.getForceOnSurface2().norm() * (1 + (d.getContactPoint() - C).norm()); }
    const SpatialVec& R = c.cf.getForceOnSurface2();
    if ((F - R[1]).norm() + (T - R[0]).norm() > 1e-9 * scale) { ctx.fail(K + ": resultant (F=" + S3(R[1]) + ", M=" + S3(R[0]) + ") != sum of the patch details (F=" + S3(F) + ", M=" + S3(T) + ")"); return false; }
    if (std::fabs(pe - c.cf.getPotentialEnergy()) > 1e-9 * (pe + std::fabs(c.cf.getPotentialEnergy()))) { ctx.fail(K + ": resultant potential energy " + S(c.cf.getPotentialEnergy()) + " != sum over details " + S(pe)); return false; }
    return true;
}

// principal curvatures of the ellipsoid (radii r) at the surface point whose outward unit normal is d (ellipsoid frame)
void ellipsoidCurvatures(const Vec3& r, const Vec3& d, Real& kmax, Real& kmin) {
    Vec3 Dd(r[0] * d[0], r[1] * d[1], r[2] * d[2]); Real h = Dd.norm(); Vec3 p(r[0] * Dd[0] / h, r[1] * Dd[1] / h, r[2] * Dd[2] / h);
    Vec3 grad(p[0] / (r[0] * r[0]), p[1] / (r[1] * r[1]), p[2] / (r[2] * r[2])); Real gn = grad.norm(); Vec3 nn = grad / gn;
    Vec3 t1 = std::fabs(nn[0]) < 0.9 ? Vec3(1, 0, 0) % nn : Vec3(0, 1, 0) % nn; t1 = t1 / t1.norm(); Vec3 t2 = nn % t1;
    auto H = [&](const Vec3& a, const Vec3& b) { return a[0] * b[0] / (r[0] * r[0]) + a[1] * b[1] / (r[1] * r[1]) + a[2] * b[2] / (r[2] * r[2]); };
    Real a = H(t1, t1) / gn, b = H(t1, t2) / gn, c = H(t2, t2) / gn, tr = a + c, disc = std::sqrt(std::max(Real(0), (a - c) * (a - c) + 4 * b * b));
    kmax = 0.5 * (tr + disc); kmin = 0.5 * (tr - disc);
}

void checkCcsHertz(pbt::Ctx& ctx, const cgen::Scenario& sc, cgen::Scene& sn, State& s, bool elliptical) {
    const std::string K = elliptical ? "HertzEll" : "HertzCirc";
    BodyKin kA = cgen::kinOf(sn.body(sc.A), s), kB = cgen::kinOf(sn.body(sc.B), s);
    Transform X_GS1 = kA.X * sc.s1.X_BS, X_GS2 = kB.X * sn.X_BS2;
    Geo g; Real ecc = 1;
    if (!elliptical) g = sphereGeo(sc.s1, X_GS1, sc.s2.R, X_GS2.p());
    else {
        g.n = -(X_GS1.R() * Vec3(1, 0, 0)); Vec3 dS = ~X_GS2.R() * (-g.n); Real h = cgen::support(sc.s2, nullptr, dS);
        Real dist = ~(X_GS2.p() - X_GS1.p()) * g.n; g.x = h - dist;
        Vec3 Dd(sc.s2.dims[0] * dS[0], sc.s2.dims[1] * dS[1], sc.s2.dims[2] * dS[2]); Vec3 pS(sc.s2.dims[0] * Dd[0] / h, sc.s2.dims[1] * Dd[1] / h, sc.s2.dims[2] * Dd[2] / h);
        g.P2 = X_GS2 * pS; g.P1 = g.P2 + g.x * g.n; g.L = std::max(Real(1), X_GS1.p().norm() + X_GS2.p().norm()) + 2;
        Real kmax, kmin; ellipsoidCurvatures(sc.s2.dims, dS, kmax, kmin); g.R = 2 / (kmax + kmin); ecc = hertzEccentricityFactor(kmax, kmin);
        ctx.label(kmax / kmin < 1 + 1e-9 ? K + "/curvature-ratio:1" : kmax / kmin < 3 ? K + "/curvature-ratio<3" : kmax / kmin < 30 ? K + "/curvature-ratio<30" : K + "/curvature-ratio>=30");
    }
    ctx.label(K + "/" + cgen::shapeName(sc.s1.shape));
    if (std::fabs(g.x) < 100 * EPS * g.L) { ctx.label(K + "/onset-ambiguous"); return; }
    std::vector<CcsContact> cs = ccsContacts(sn, s);
    Real size = elliptical ? std::min(sc.s2.dims[0], std::min(sc.s2.dims[1], sc.s2.dims[2])) : sc.s2.R;
    if (g.x <= 0) {
        labelRegime(ctx, K, g.x, size, nullptr, sc.vt, 1);
        const Vector_<SpatialVec>& bf = sn.m->sys.getRigidBodyForces(s, Stage::Dynamics); Real tot = 0; for (int b = 0; b < bf.size(); ++b) tot += bf[b][0].norm() + bf[b][1].norm();
        if (!cs.empty() || tot != 0) ctx.fail(K + ": separated (gap " + S(-g.x) + ") but " + std::to_string(cs.size()) + " contact forces, total |body force| " + S(tot));
        return;
    }
    if (cs.size() != 1) { ctx.fail(K + ": penetrating (depth " + S(g.x) + ") but " + std::to_string(cs.size()) + " contact forces reported"); return; }
    const CcsContact& c = cs[0];
    if (!((c.body1 == sc.A && c.body2 == sc.B) || (c.body1 == sc.B && c.body2 == sc.A))) { ctx.fail(K + ": contact between unexpected bodies"); return; }
    if (!checkResultantApplied(ctx, K, sn, s, cs, sc.nb) || !sumDetails(ctx, K, c)) return;
    const bool probeIs2 = c.body2 == sc.B; const Vec3 n12 = probeIs2 ? g.n : Vec3(-g.n);
    const BodyKin& k1 = probeIs2 ? kA : kB; const BodyKin& k2 = probeIs2 ? kB : kA;
    // zero-velocity twin state: elastic force alone
    State s0 = s; s0.updU() = 0; sn.m->sys.realize(s0, Stage::Dynamics);
    std::vector<CcsContact> cs0 = ccsContacts(sn, s0);
    if (cs0.size() != 1 || cs0[0].patch.getNumDetails() != 1) { ctx.fail(K + ": zero-velocity state reports " + std::to_string(cs0.size()) + " contacts"); return; }
    Vec3 F0 = cs0[0].cf.getForceOnSurface2()[1]; Real fH = ~F0 * n12;
    const Real E1 = std::pow(sc.s1.mat.E, 2. / 3), E2 = std::pow(sc.s2.mat.E, 2. / 3), s1 = E2 / (E1 + E2);
    const Real E = std::pow(s1 * E1, 1.5), cc = sc.s1.mat.c * s1 + sc.s2.mat.c * (1 - s1), k = (4. / 3) * std::sqrt(g.R) * E;
    Real fHexp = ecc * k * std::pow(g.x, 1.5), rt = relTol(g);
    Real band = elliptical ? 1e-4 : 0;    // the library documents approximations of the ellipse ratio (5 digits) and of K(m), E(m)
    if ((F0 - fH * n12).norm() > 1e-9 * std::fabs(fH) + 1e-300) { ctx.fail(K + ": force at zero velocity is not along the contact normal"); return; }
    if (std::fabs(fH - fHexp) > (rt + band) * fHexp) { ctx.fail(K + ": elastic force " + S(fH) + " != Hertz law " + S(fHexp) + " (depth " + S(g.x) + ", R=" + S(g.R) + ", E*=" + S(E) + ", eccentricity factor " + S(ecc) + ", rel.dev " + S((fH - fHexp) / fHexp) + ")"); return; }
    if (elliptical) { Real dev = std::fabs(fH - fHexp) / fHexp; ctx.label(dev < 1e-7 ? K + "/dev<1e-7" : dev < 1e-6 ? K + "/dev<1e-6" : dev < 3e-6 ? K + "/dev<3e-6" : dev < 1e-5 ? K + "/dev<1e-5" : K + "/dev<1e-4"); }
    if (c.patch.getNumDetails() == 0) {   // "there is contact, but no force" (rebound faster than 2/(3c))
        Vec3 Cm = 0.5 * (g.P1 + g.P2); Rel r = relAt(k1, k2, Cm, n12); Real factor = 1 + 1.5 * cc * r.xdot;
        if (factor > 1e-6) { ctx.fail(K + ": no patch detail although 1+3/2 c xdot = " + S(factor)); return; }
        labelRegime(ctx, K, g.x, size, &r, sc.vt, factor); return;
    }
    const ContactDetail& d = c.patch.getContactDetail(0);
    Vec3 C = d.getContactPoint(); Real sC = ~(C - g.P2) * (g.n);
    if ((C - g.P2 - sC * g.n).norm() > 1e-9 * g.L || sC < -1e-9 * g.L || sC > g.x + 1e-9 * g.L) { ctx.fail(K + ": contact point not between the undeformed surfaces on the contact normal (s=" + S(sC) + ", depth " + S(g.x) + ")"); return; }
    Rel r = relAt(k1, k2, C, n12); Real factor = 1 + 1.5 * cc * r.xdot;
    labelRegime(ctx, K, g.x, size, &r, sc.vt, factor);
    Real vscale = kA.V[0].norm() + kA.V[1].norm() + kB.V[0].norm() + kB.V[1].norm() + 1e-3;
    if (std::fabs(d.getDeformation() - g.x) > rt * g.x) { ctx.fail(K + ": reported deformation " + S(d.getDeformation()) + " != geometric overlap " + S(g.x)); return; }
    if ((Vec3(d.getContactNormal()) - n12).norm() > 1e-9) { ctx.fail(K + ": reported normal " + S3(Vec3(d.getContactNormal())) + " != from surface 1 to surface 2 " + S3(n12)); return; }
    if (std::fabs(d.getDeformationRate() - r.xdot) > 1e-9 * vscale * g.L) { ctx.fail(K + ": reported deformation rate " + S(d.getDeformationRate()) + " != material approach rate " + S(r.xdot)); return; }
    if ((d.getSlipVelocity() - r.slip).norm() > 1e-9 * vscale * g.L) { ctx.fail(K + ": reported slip velocity " + S3(d.getSlipVelocity()) + " != " + S3(r.slip)); return; }
    Vec3 F = d.getForceOnSurface2(); Real fn = std::max(Real(0), fH * factor), tolF = 1e-9 * (fH * (1 + std::fabs(1.5 * cc * r.xdot))) + 1e-300;
    if (std::fabs(~F * n12 - fn) > tolF) { ctx.fail(K + ": normal force " + S(~F * n12) + " != fH (1 + 3/2 c xdot) = " + S(fn) + " (fH=" + S(fH) + " c=" + S(cc) + " xdot=" + S(r.xdot) + ")"); return; }
    checkCcsFriction(ctx, K, F, n12, r, sc.s1.mat, sc.s2.mat, sc.vt, tolF);
    ctx.nontrivial(fn > 0 && r.vs > 1e-9 && std::fabs(r.xdot) > 1e-9);
}

void checkCcsEF(pbt::Ctx& ctx, const cgen::Scenario& sc, cgen::Scene& sn, State& s) {
    const std::string K = "CcsEF";
    const int M = sc.meshOnBase ? sc.A : sc.B, O = sc.meshOnBase ? sc.B : sc.A;
    const cgen::Surf& ms = sc.meshOnBase ? sc.s1 : sc.s2; const cgen::Surf& os = sc.meshOnBase ? sc.s2 : sc.s1;
    BodyKin kM = cgen::kinOf(sn.body(M), s), kO = cgen::kinOf(sn.body(O), s);
    Transform X_GM = kM.X * (sc.meshOnBase ? sc.s1.X_BS : sn.X_BS2), X_GO = kO.X * (sc.meshOnBase ? sn.X_BS2 : sc.s1.X_BS);
    Real margin; std::vector<Spring> sp = meshSprings(sc.mesh, X_GM, Other{os.shape, os.R, nullptr, X_GO}, margin);
    Real L = std::max(Real(1), X_GM.p().norm() + X_GO.p().norm()) + 2;
    ctx.label(K + "/" + cgen::shapeName(sc.s1.shape) + "-" + cgen::shapeName(sc.s2.shape));
    if (margin < 100 * EPS * L) { ctx.label(K + "/onset-ambiguous"); return; }
    ctx.label(K + (sp.empty() ? "/no-spring-displaced" : sp.size() < 4 ? "/1-3 springs" : "/4+ springs"));
    std::vector<CcsContact> cs = ccsContacts(sn, s);
    if (cs.size() > 1) { ctx.fail(K + ": more than one contact for one pair of surfaces"); return; }
    if (!checkResultantApplied(ctx, K, sn, s, cs, sc.nb)) return;
    if (sp.empty()) {
        // no spring base inside: every reported force must vanish
        for (auto& c : cs) if (c.cf.getForceOnSurface2()[0].norm() + c.cf.getForceOnSurface2()[1].norm() != 0) ctx.fail(K + ": no face centroid inside the other object but force reported");
        return;
    }
    // combined element stiffness per unit area: both layers obey f = k A (x_i / h_i) and share the deformation x
    const Real kh1 = ms.mat.E / ms.mat.h, kh2 = os.mat.E / os.mat.h, kh = kh1 * kh2 / (kh1 + kh2);
    const Real cLo = std::min(ms.mat.c, os.mat.c), cHi = std::max(ms.mat.c, os.mat.c);
    if (cLo == cHi) ctx.label(K + "/equal-dissipation(exact)");
    if (cs.empty()) {   // legitimate only if every displaced spring is yanked
        bool allYank = true; for (auto& q : sp) { Vec3 v = pointVel(kO, q.N) - pointVel(kM, q.N); Real xdot = -(~v * q.e); if (1 + cLo * xdot > 0 || 1 + cHi * xdot > 0) allYank = false; }
        if (!allYank) ctx.fail(K + ": " + std::to_string(sp.size()) + " face centroids inside the other object but no contact force"); else ctx.label(K + "/all-yanked");
        return;
    }
    const CcsContact& c = cs[0]; if (!sumDetails(ctx, K, c)) return;
    const bool otherIs2 = c.body2 == O && c.body1 == M; if (!otherIs2 && !(c.body1 == O && c.body2 == M)) { ctx.fail(K + ": contact between unexpected bodies"); return; }
    std::vector<char> used(sp.size(), 0); bool nt = false; int matched = 0;
    for (int i = 0; i < c.patch.getNumDetails() && !ctx.failed; ++i) {
        const ContactDetail& d = c.patch.getContactDetail(i); Vec3 C = d.getContactPoint(); int best = -1; Real bd = 1e300;
        for (size_t j = 0; j < sp.size(); ++j) { if (used[j]) continue; Real t = ~(C - sp[j].N) * sp[j].e; Real off = (C - sp[j].N - t * sp[j].e).norm(); if (t > -1e-9 * L && t < sp[j].x + 1e-9 * L && off < bd) { bd = off; best = (int)j; } }
        if (best < 0 || bd > 1e-9 * L) { ctx.fail(K + ": patch element at " + S3(C) + " does not lie on the segment between a displaced spring base and its nearest surface point (offset " + S(bd) + ")"); return; }
        used[best] = 1; ++matched; const Spring& q = sp[best];
        Vec3 n12 = otherIs2 ? q.e : Vec3(-q.e);             // from surface 1 towards surface 2's interior
        const BodyKin& k1 = otherIs2 ? kM : kO; const BodyKin& k2 = otherIs2 ? kO : kM;
        Rel r = relAt(k1, k2, C, n12); Real rt = 1e-8 + 1000 * EPS * L / q.x;
        if (std::fabs(d.getDeformation() - q.x) > rt * q.x) { ctx.fail(K + ": element deformation " + S(d.getDeformation()) + " != distance from spring base to nearest surface point " + S(q.x)); return; }
        if ((Vec3(d.getContactNormal()) - n12).norm() > 1e-7 + rt) { ctx.fail(K + ": element normal wrong"); return; }
        if (std::fabs(d.getPatchArea() - q.area) > 1e-9 * q.area) { ctx.fail(K + ": element area " + S(d.getPatchArea()) + " != face area " + S(q.area)); return; }
        Real fK = kh * q.area * q.x, f1 = fK * (1 + cLo * r.xdot), f2 = fK * (1 + cHi * r.xdot), lo = std::max(Real(0), std::min(f1, f2)), hi = std::max(Real(0), std::max(f1, f2));
        Vec3 F = d.getForceOnSurface2(); Real fn = ~F * n12, tolF = (rt + 1e-9) * fK * (1 + cHi * std::fabs(r.xdot));
        if (fn < lo - tolF || fn > hi + tolF) { ctx.fail(K + ": element normal force " + S(fn) + " outside k A x/h (1 + c xdot) = [" + S(lo) + "," + S(hi) + "] (x=" + S(q.x) + " area=" + S(q.area) + " k/h=" + S(kh) + " xdot=" + S(r.xdot) + ")"); return; }
        checkCcsFriction(ctx, K, F, n12, r, ms.mat, os.mat, sc.vt, tolF);
        if (fn > 0 && r.vs > 1e-9 && std::fabs(r.xdot) > 1e-9) nt = true;
    }
    // displaced springs without a patch element must be yanked ones
    for (size_t j = 0; j < sp.size() && !ctx.failed; ++j) if (!used[j]) {
        Vec3 Cm = sp[j].N + 0.5 * sp[j].x * sp[j].e; Vec3 v = pointVel(kO, Cm) - pointVel(kM, Cm); Real xdot = -(~v * sp[j].e);
        if (1 + cLo * xdot > 1e-6 && 1 + cHi * xdot > 1e-6) ctx.fail(K + ": displaced spring of face " + std::to_string(sp[j].face) + " (x=" + S(sp[j].x) + ") produces no patch element although 1 + c xdot > 0");
        else ctx.label(K + "/some-springs-yanked");
    }
    if (matched) ctx.label(K + "/active");
    ctx.nontrivial(nt);
}

void checkCcsBrick(pbt::Ctx& ctx, const cgen::Scenario& sc, cgen::Scene& sn, State& s) {
    const std::string K = "CcsBrick";
    BodyKin kA = cgen::kinOf(sn.body(sc.A), s), kB = cgen::kinOf(sn.body(sc.B), s);
    Transform X_GH = kA.X * sc.s1.X_BS, X_GB = kB.X * sn.X_BS2; Vec3 nh = -(X_GH.R() * Vec3(1, 0, 0));
    Real L = std::max(Real(1), X_GH.p().norm() + X_GB.p().norm()) + 2;
    struct Vx { Vec3 p; Real x; }; std::vector<Vx> vx; Real deepest = -1e300, margin = 1e300;
    for (int i = 0; i < 8; ++i) { Vec3 v((i & 1 ? 1 : -1) * sc.s2.dims[0], (i & 2 ? 1 : -1) * sc.s2.dims[1], (i & 4 ? 1 : -1) * sc.s2.dims[2]); Vx q; q.p = X_GB * v; q.x = -(~(q.p - X_GH.p()) * nh); vx.push_back(q); deepest = std::max(deepest, q.x); margin = std::min(margin, std::fabs(q.x)); }
    if (margin < 100 * EPS * L) { ctx.label(K + "/onset-ambiguous"); return; }
    int npen = 0; for (auto& q : vx) if (q.x > 0) ++npen;
    ctx.label(K + "/vertices-penetrating:" + std::to_string(std::min(npen, 5)));
    std::vector<CcsContact> cs = ccsContacts(sn, s);
    if (!checkResultantApplied(ctx, K, sn, s, cs, sc.nb)) return;
    if (deepest <= 0) { const Vector_<SpatialVec>& bf = sn.m->sys.getRigidBodyForces(s, Stage::Dynamics); Real tot = 0; for (int b = 0; b < bf.size(); ++b) tot += bf[b][0].norm() + bf[b][1].norm();
        if (tot != 0) ctx.fail(K + ": no brick vertex penetrates but body forces are applied"); return; }
    if (cs.size() != 1) { ctx.fail(K + ": brick penetrates (depth " + S(deepest) + ") but " + std::to_string(cs.size()) + " contact forces"); return; }
    const CcsContact& c = cs[0]; if (!sumDetails(ctx, K, c)) return;
    const bool brickIs2 = c.body2 == sc.B; Vec3 n12 = brickIs2 ? nh : Vec3(-nh);
    const BodyKin& k1 = brickIs2 ? kA : kB; const BodyKin& k2 = brickIs2 ? kB : kA;
    State s0 = s; s0.updU() = 0; sn.m->sys.realize(s0, Stage::Dynamics); std::vector<CcsContact> cs0 = ccsContacts(sn, s0);
    if (cs0.size() != 1 || cs0[0].patch.getNumDetails() != c.patch.getNumDetails()) { ctx.fail(K + ": zero-velocity twin reports a different set of patch elements"); return; }
    const Real cLo = std::min(sc.s1.mat.c, sc.s2.mat.c), cHi = std::max(sc.s1.mat.c, sc.s2.mat.c);
    bool sawDeepest = false, nt = false;
    for (int i = 0; i < c.patch.getNumDetails() && !ctx.failed; ++i) {
        const ContactDetail& d = c.patch.getContactDetail(i); const ContactDetail& d0 = cs0[0].patch.getContactDetail(i); Vec3 C = d.getContactPoint(); int best = -1;
        for (int j = 0; j < 8; ++j) { if (vx[j].x <= 0) continue; Real t = ~(C - vx[j].p) * nh; if (t > -1e-9 * L && t < vx[j].x + 1e-9 * L && (C - vx[j].p - t * nh).norm() < 1e-9 * L) best = j; }
        if (best < 0) { ctx.fail(K + ": patch element at " + S3(C) + " is not above a penetrating brick vertex within its depth"); return; }
        if (vx[best].x == deepest) sawDeepest = true;
        Real rt = 1e-8 + 1000 * EPS * L / vx[best].x;
        if (std::fabs(d.getDeformation() - vx[best].x) > rt * vx[best].x) { ctx.fail(K + ": element deformation " + S(d.getDeformation()) + " != vertex depth " + S(vx[best].x)); return; }
        if ((Vec3(d.getContactNormal()) - n12).norm() > 1e-9) { ctx.fail(K + ": element normal is not the half-space normal (surface 1 -> 2)"); return; }
        Rel r = relAt(k1, k2, C, n12);
        Real fK = ~d0.getForceOnSurface2() * n12; if (fK < 0 || (d0.getForceOnSurface2() - fK * n12).norm() > 1e-9 * fK) { ctx.fail(K + ": zero-velocity element force not a repulsive normal force"); return; }
        Real f1 = fK * (1 + cLo * r.xdot), f2 = fK * (1 + cHi * r.xdot), lo = std::max(Real(0), std::min(f1, f2)), hi = std::max(Real(0), std::max(f1, f2));
        Vec3 F = d.getForceOnSurface2(); Real fn = ~F * n12, tolF = 1e-9 * fK * (1 + cHi * std::fabs(r.xdot)) + 1e-300;
        if (fn < lo - tolF || fn > hi + tolF) { ctx.fail(K + ": element normal force " + S(fn) + " outside f_stiffness (1 + c xdot) = [" + S(lo) + "," + S(hi) + "]"); return; }
        checkCcsFriction(ctx, K, F, n12, r, sc.s1.mat, sc.s2.mat, sc.vt, tolF);
        if (fn > 0 && r.vs > 1e-9 && std::fabs(r.xdot) > 1e-9) nt = true;
    }
    if (!ctx.failed && !sawDeepest) ctx.fail(K + ": the most deeply penetrating vertex produces no patch element");
    ctx.label(K + "/active"); ctx.nontrivial(nt);
}

// ------------------------------------------------------------------------------------------ SmoothSphereHalfSpaceForce
void checkSmooth(pbt::Ctx& ctx, const cgen::Scenario& sc, cgen::Scene& sn, const State& s) {
    const std::string K = "Smooth";
    Vector_<SpatialVec> bf; Vector mf; sn.elementForces(s, bf, mf);
    BodyKin kA = cgen::kinOf(sn.body(sc.A), s), kB = cgen::kinOf(sn.body(sc.B), s);
    Transform X_GH = kA.X * sc.s1.X_BS; Vec3 cS = kB.X * sn.X_BS2.p(); Vec3 nIn = X_GH.R() * Vec3(1, 0, 0);   // direction of contact (into the half space)
    const Real R = sc.s2.R, x = ~(cS - X_GH.p()) * nIn + R;       // indentation
    Real L = std::max(Real(1), cS.norm() + X_GH.p().norm()) + R;
    const cgen::Material& mt = sc.s1.mat; const Real cf = sc.cf, bd = sc.bd, bv = sc.bv, vt = sc.vt, c = mt.c;
    const Real k = 0.5 * std::pow(mt.E, 2. / 3);
    const Real fhPos = (4. / 3) * k * std::sqrt(R * k) * std::pow(std::sqrt(x * x + cf), 1.5);
    const Real fhSmooth = fhPos * (0.5 + 0.5 * std::tanh(bd * x));
    // sensitivity of the law to the round-off in x (d/dx of fh_smooth)
    const Real dxErr = 100 * EPS * L, sens = dxErr * (1.5 * std::fabs(x) / (x * x + cf) + bd) ;
    Vec3 F = bf[sc.B][1];                                          // on the sphere body
    Real sDer, resid; Vec3 Psurf = cS + R * nIn;                   // undeformed sphere surface point on the normal line
    bool det = pointOnLine(Psurf, nIn, kB.X.p(), bf[sc.B][0], F, -0.5 * x, sDer, resid);
    if (F.norm() > 0 && resid > 1e-9 * ((Psurf - kB.X.p()).norm() + std::fabs(x) + 1e-3) * F.norm()) { ctx.fail(K + ": wrench on the sphere body is not a pure force on the normal line through the sphere centre"); return; }
    if (!det) sDer = -0.5 * x;
    if (std::fabs(sDer) > 1.5 * std::fabs(x) + 1e-6 * L) {
        // the documented contact point is not specified; it has to be near the two surfaces
        Real slack = 1e-6 * (bf[sc.B][0].norm() + L * F.norm()) / std::max((nIn % F).norm(), Real(1e-300));
        if (std::fabs(sDer) > 1.5 * std::fabs(x) + slack) { ctx.fail(K + ": force applied at distance " + S(sDer) + " from the sphere surface along the normal (indentation " + S(x) + ")"); return; }
    }
    Vec3 C = Psurf + sDer * nIn;
    Vec3 v = pointVel(kB, C) - pointVel(kA, C); Real vn = ~v * nIn; Vec3 vtan = v - vn * nIn;
    Real fhcPos = fhSmooth * (1 + 1.5 * c * vn);
    Real fhcSmooth = fhcPos * (0.5 + 0.5 * std::tanh(bv * (vn + (c > 0 ? 2 / (3 * c) : Infinity))));
    Real vs = std::sqrt(vtan.normSqr() + cf), ff = fhcSmooth * hollars(mt.us, mt.ud, mt.uv, vs, vt);
    Vec3 force = fhcSmooth * nIn + (ff / vs) * vtan;               // documented "contact force" (on the half space); the sphere gets -force
    Real dsS = det ? 16 * EPS * (bf[sc.B][0].norm() + ((Psurf - kB.X.p()).norm() + std::fabs(x) + 1e-3) * F.norm()) / std::max((nIn % F).norm(), Real(1e-300)) : 1.5 * std::fabs(x);
    Real tol = (1e-9 + sens) * (std::fabs(fhSmooth) * (1 + 1.5 * c * std::fabs(vn)) * (1 + mt.us + mt.uv * vs) + 1e-300)
             + std::fabs(fhcSmooth) * (2 * mt.us / vt + mt.uv) * (kB.V[0] - kA.V[0]).norm() * dsS;   // friction sensitivity to the derived application point
    ctx.label(K + (x < 0 ? "/separated" : x < 1e-3 * R ? "/shallow" : "/deep"));
    ctx.label(K + (1 + 1.5 * c * vn < 0 ? "/rate:beyond-rebound-threshold" : vn > 0 ? "/rate:approach" : "/rate:rebound"));
    ctx.label(K + (vtan.norm() / vt < 1 ? "/slip:below-vt" : "/slip:sliding"));
    if ((F + force).norm() > tol) { ctx.fail(K + ": force on sphere " + S3(F) + " != -(fhc_smooth n + ff vtangent/vs) = " + S3(-force) + " (x=" + S(x) + " vn=" + S(vn) + " vs=" + S(vs) + " fh_smooth=" + S(fhSmooth) + " fhc_smooth=" + S(fhcSmooth) + ", tol " + S(tol) + ")"); return; }
    if ((bf[sc.A][1] - force).norm() > tol) { ctx.fail(K + ": force on half-space body != +force"); return; }
    // never attractive wherever the documented law itself is non-negative (v >= -2/(3c))
    if (1 + 1.5 * c * vn >= 0 && ~F * nIn > tol) ctx.fail(K + ": attractive normal force on the sphere");
    if (1 + 1.5 * c * vn >= 0 && vtan.norm() > 0 && ~(F - (~F * nIn) * nIn) * vtan > tol * vtan.norm()) ctx.fail(K + ": friction on the sphere does not oppose its slip");
    Real pe = sn.elementPE(s), peExp = 0.4 * fhSmooth * x;
    if (std::fabs(pe - peExp) > (1e-9 + sens + dxErr / std::max(std::fabs(x), Real(1e-300))) * std::fabs(peExp) + 1e-300 && std::fabs(x) > 1e-12) ctx.fail(K + ": potential energy " + S(pe) + " != 2/5 fh_smooth x = " + S(peExp));
    ctx.nontrivial(x > 0 && vtan.norm() > 1e-9 && std::fabs(vn) > 1e-9);
}

// ------------------------------------------------------------------------------------------ ExponentialSpringForce
void checkExp(pbt::Ctx& ctx, const cgen::Scenario& sc, cgen::Scene& sn, const State& s) {
    const std::string K = "Exp";
    Vector_<SpatialVec> bf; Vector mf; sn.elementForces(s, bf, mf);
    BodyKin kB = cgen::kinOf(sn.body(sc.B), s); const Transform& X_GP = sn.X_GP;
    Vec3 pG = kB.X * sc.station, vG = pointVel(kB, pG); Vec3 pP = ~X_GP * pG, vP = ~X_GP.R() * vG;
    const GeneralForceSubsystem& fs = sn.m->forces;
    const Real sliding = Value<Real>::downcast(fs.getDiscreteVariable(s, sn.exp->getSlidingStateIndex()));
    const Vec3 p0 = Value<Vec3>::downcast(fs.getDiscreteVariable(s, sn.exp->getAnchorPointStateIndex()));
    const Real mus = sn.exp->getMuStatic(s), muk = sn.exp->getMuKinetic(s);
    if (mus != sc.mus || muk != sc.muk) { ctx.fail(K + ": initial friction coefficients in the state differ from the parameters"); return; }
    Real L = std::max(Real(1), pG.norm() + X_GP.p().norm());
    Real pz = pP[2], vz = vP[2]; Vec3 pxy(pP[0], pP[1], 0), vxy(vP[0], vP[1], 0);
    Real fzE = sc.d1 * std::exp(-sc.d2 * (pz - sc.d0)), fz = fzE * (1 - sc.cz * vz);
    bool clampLo = fz < 0, clampHi = fz > sc.maxFz; if (clampLo) fz = 0; if (clampHi) fz = sc.maxFz;
    Real mu = mus - sliding * (mus - muk), lim = mu * fz;
    Vec3 fricDamp = -sc.cxy * vxy; if (fricDamp.norm() > lim) fricDamp = vxy.norm() > 0 ? Vec3(-(lim / vxy.norm()) * vxy) : Vec3(0);
    Vec3 dampSpr = -sc.cxy * vxy, elasSpr = -sc.kxy * (pxy - p0), spr = elasSpr + dampSpr;
    if (spr.norm() > lim) { Real sf = spr.norm() > 0 ? lim / spr.norm() : 0; dampSpr *= sf; elasSpr *= sf; }
    Vec3 elasBlend = elasSpr * (1 - sliding), dampBlend = dampSpr + (fricDamp - dampSpr) * sliding, fric = elasBlend + dampBlend;
    Vec3 FexpP = fric + Vec3(0, 0, fz), Fexp = X_GP.R() * FexpP;
    Real zerr = sc.d2 * 200 * EPS * L;      // relative error of the exponential from round-off in pz
    Real tol = (1e-9 + zerr) * (fzE * (1 + sc.cz * std::fabs(vz)) * (1 + mu) + sc.cxy * vxy.norm() + sc.kxy * ((pxy - p0).norm() + 200 * EPS * L)) + sc.kxy * 200 * EPS * L + 1e-300;
    ctx.label(K + (clampLo ? "/fz-clamped-at-0" : clampHi ? "/fz-clamped-at-max" : "/fz-unclamped"));
    ctx.label(K + (sliding == 0 ? "/sliding=0" : sliding == 1 ? "/sliding=1" : "/sliding-blend"));
    ctx.label(K + (spr.norm() > lim ? "/spring-model-limited" : "/spring-model-unlimited")); ctx.label(K + ((sc.cxy * vxy).norm() > lim ? "/damping-model-limited" : "/damping-model-unlimited"));
    ctx.label(K + (pz > sc.d0 ? "/above-d0" : "/below-d0"));
    Vec3 F = bf[sc.B][1]; Vec3 T = bf[sc.B][0];
    if ((F - Fexp).norm() > tol) { ctx.fail(K + ": force on body " + S3(F) + " != documented model " + S3(Fexp) + " (pz=" + S(pz) + " vz=" + S(vz) + " fz=" + S(fz) + " mu=" + S(mu) + " sliding=" + S(sliding) + " p0=" + S3(p0) + " pxy=" + S3(pxy) + " vxy=" + S3(vxy) + " tol " + S(tol) + ")"); return; }
    if ((T - (pG - kB.X.p()) % F).norm() > 1e-9 * (1 + (pG - kB.X.p()).norm()) * F.norm() + 1e-300) { ctx.fail(K + ": force not applied at the body station"); return; }
    Real fzGot = ~F * (X_GP.R() * Vec3(0, 0, 1));
    if (fzGot < -tol) ctx.fail(K + ": attractive normal force " + S(fzGot));
    Vec3 ft = F - fzGot * (X_GP.R() * Vec3(0, 0, 1));
    if (ft.norm() > lim * (1 + 1e-9) + tol) ctx.fail(K + ": friction " + S(ft.norm()) + " exceeds mu fz = " + S(lim));
    if (std::fabs(sn.exp->getMu(s) - mu) > 1e-12 * (1 + mu)) ctx.fail(K + ": getMu " + S(sn.exp->getMu(s)) + " != mu_s - Sliding (mu_s - mu_k) = " + S(mu));
    if (std::fabs(sn.exp->getFrictionForceLimit(s) - lim) > tol) ctx.fail(K + ": getFrictionForceLimit " + S(sn.exp->getFrictionForceLimit(s)) + " != mu fz = " + S(lim));
    if ((sn.exp->getNormalForce(s) - X_GP.R() * Vec3(0, 0, fz)).norm() > tol) ctx.fail(K + ": getNormalForce != fz along the plane normal");
    if ((sn.exp->getFrictionForce(s) - X_GP.R() * fric).norm() > tol) ctx.fail(K + ": getFrictionForce != blended friction");
    // reaction on Ground at the same point
    if ((bf[0][1] + F).norm() > 1e-12 * F.norm() + 1e-300 || (bf[0][0] + pG % F).norm() > 1e-9 * (1 + pG.norm()) * F.norm() + 1e-300) ctx.fail(K + ": Ground does not receive the opposite force at the station location");
    ctx.nontrivial(fz > 0 && vxy.norm() > 1e-9 && std::fabs(vz) > 1e-9);
}

void property(const pbt::Tape& t, pbt::Ctx& ctx) {
    static const unsigned mask = getenv("C37_KINDS") ? (unsigned)atoi(getenv("C37_KINDS")) : (1u << cgen::NumKinds) - 1;
    cgen::Scenario sc = cgen::decode(t, mask);
    if (ctx.wantDesc) sc.describe(ctx.desc);
    ctx.label(std::string("element:") + cgen::kindName(sc.kind));
    ctx.label(sc.A == 0 ? "base-on:Ground" : "base-on:body");
    std::unique_ptr<cgen::Scene> sn = cgen::build(sc);
    ctx.label(sn->velTargeted ? "velocity:designed" : "velocity:tree-random");
    State& s = sn->state();
    sn->m->sys.realize(s, Stage::Dynamics);
    switch (sc.kind) {
        case cgen::HC: checkHC(ctx, sc, *sn, s); break;
        case cgen::EFF: checkEFF(ctx, sc, *sn, s); break;
        case cgen::HertzCirc: checkCcsHertz(ctx, sc, *sn, s, false); break;
        case cgen::HertzEll: checkCcsHertz(ctx, sc, *sn, s, true); break;
        case cgen::CcsEF: checkCcsEF(ctx, sc, *sn, s); break;
        case cgen::CcsBrick: checkCcsBrick(ctx, sc, *sn, s); break;
        case cgen::Smooth: checkSmooth(ctx, sc, *sn, s); break;
        case cgen::ExpSpring: checkExp(ctx, sc, *sn, s); break;
    }
}

pbt::Config config() {
    pbt::Config c; c.prop = "C37"; c.K = mbgen::K; c.minUnits = 3;
    c.quick = {3000, 12000, 30, 10}; c.thorough = {20000, 200000, 30, 60};
    c.rule = "rapidcheck tape -> cgen scenario: element kind x surface pair x materials (E 1e3..1e8, c 0..2, mu_s/mu_d/mu_v incl. frictionless) x tree of 1-4 bodies (probe body 6-dof in 3/4) x signed depth log-dense around touching x designed approach/rebound(threshold)/slip(multiples of vt)/spin. Non-trivial: penetrating (exponential spring: fz > 0) with non-zero slip and non-zero normal rate; distinct by tape hash.";
    c.assumptions = {"body poses and velocities reported by the matter subsystem are correct (C03/C05)",
                     "CompliantContactSubsystem combines material properties as documented for HuntCrossleyForce (E, c, friction coefficients); where the combination is not documented the check uses the interval spanned by the two materials (exact when they are equal)",
                     "Hertz elliptical: library documents approximations (ellipse ratio to 5 digits, K(m),E(m)); band 1e-4 (observed max < 1e-5) against Hertz theory evaluated with AGM elliptic integrals"};
    c.requiredLabels = {"element:HuntCrossleyForce", "element:ElasticFoundationForce", "element:CCS-HertzCircular", "element:CCS-HertzElliptical", "element:CCS-ElasticFoundation", "element:CCS-BrickHalfSpace",
                        "element:SmoothSphereHalfSpaceForce", "element:ExponentialSpringForce", "HC/two-probes-one-clamped", "HC/rate:yank", "HC/slip:transition", "EFF/active", "EFF/some-springs-yanked", "eff:mesh-mesh", "eff:mesh-mesh/both-directions-active", "CcsEF/active",
                        "CcsEF/equal-dissipation(exact)", "HertzCirc/sliding-friction-checked", "HertzEll/curvature-ratio>=30", "CcsBrick/vertices-penetrating:4", "Smooth/rate:beyond-rebound-threshold",
                        "Exp/fz-clamped-at-max", "Exp/fz-clamped-at-0", "Exp/sliding-blend", "Exp/spring-model-limited"};
    c.directed.push_back({"hc-two-spheres-one-rebounding", "hc-return-on-rebound", [](pbt::Ctx& ctx) {
        // two spheres on a ground half-space in one contact set; one rests (depth 0.01), the other leaves faster than
        // 2/(3c). Whatever the processing order, the resting sphere must receive k x^1.5. Both role assignments and both lateral orders tried.
        for (int order = 0; order < 4 && !ctx.failed; ++order) {
            MultibodySystem sys; SimbodyMatterSubsystem matter(sys); GeneralForceSubsystem forces(sys); GeneralContactSubsystem contacts(sys);
            Body::Rigid body(MassProperties(1, Vec3(0), Inertia(1)));
            MobilizedBody::Translation b1(matter.Ground(), Transform(), body, Transform()), b2(matter.Ground(), Transform(), body, Transform());
            ContactSetIndex cs = contacts.createContactSet();
            contacts.addBody(cs, matter.Ground(), ContactGeometry::HalfSpace(), Transform());      // occupies x > 0
            contacts.addBody(cs, b1, ContactGeometry::Sphere(0.5), Transform()); contacts.addBody(cs, b2, ContactGeometry::Sphere(0.5), Transform());
            HuntCrossleyForce hc(forces, contacts, cs);
            for (int i = 0; i < 3; ++i) hc.setBodyParameters(ContactSurfaceIndex(i), 1e6, 1.0, 0, 0, 0);
            State s = sys.realizeTopology(); sys.realizeModel(s);
            MobilizedBody& rest = order % 2 == 0 ? b1 : b2; MobilizedBody& leave = order % 2 == 0 ? b2 : b1;
            rest.setQToFitTranslation(s, Vec3(-0.49, 0, 0)); leave.setQToFitTranslation(s, Vec3(-0.49, order < 2 ? 3 : -3, 0)); leave.setUToFitLinearVelocity(s, Vec3(-5, 0, 0));
            sys.realize(s, Stage::Dynamics);
            Vector_<SpatialVec> bf; Vector_<Vec3> pf; Vector mf; hc.calcForceContribution(s, bf, pf, mf);
            Real E = std::pow(0.5 * std::pow(1e6, 2. / 3), 1.5), k = (4. / 3) * std::sqrt(0.5) * E, fexp = k * std::pow(0.01, 1.5);
            Real got = -bf[rest.getMobilizedBodyIndex()][1][0];
            ctx.desc << "order " << order << ": resting sphere (depth 0.01) force " << got << " expected " << fexp << "; leaving sphere force " << bf[leave.getMobilizedBodyIndex()][1] << "\n";
            ctx.check(std::fabs(got - fexp) <= 1e-9 * fexp, "resting sphere in the same contact set as a rebounding one gets force " + S(got) + " instead of k x^1.5 = " + S(fexp));
        }
    }});
    return c;
}
} // namespace

PBT_MAIN(config(), property)
