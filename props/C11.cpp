// C11 -- Simulations conserve energy and momentum when physics says so (DESIGN.md 5, C11).
// Domain: small mbgen trees (1..4 bodies; mobilizer types without coordinate singularities) with conservative
// force sets (UniformGravity, TwoPointLinearSpring, MobilityLinearSpring on qdot==u coordinates); free-floating
// variants (Free base, internal forces only, no gravity); dissipative variants (TwoPointLinearDamper,
// MobilityLinearDamper, GlobalDamper); every error-controlled integrator; accuracy 1e-3..1e-7; horizon 0.5..2.
// Oracle (V over the trajectory, every returned step): conservative => |E(t)-E(0)| <= C_int*Escale*(t+0.1)*acc^e_int
// (e_int = p/(p+1), the law measured by probes AE/AO; C_int frozen after calibration, table in DESIGN 10.3);
// free-floating => linear and angular momentum about the Ground origin drift within the same bound;
// dissipative => E never increases by more than that bound; tightening accuracy 100x never makes the final
// energy drift more than 10x worse (above a floor).
#include "pbt.h"
#include "mbgen.h"
#include "refdyn.h"
using namespace SimTK;

namespace {
struct Rng { uint64_t s; double next() { s += 0x9E3779B97F4A7C15ull; uint64_t z = s; z = (z ^ (z >> 30)) * 0xBF58476D1CE4E5B9ull; z = (z ^ (z >> 27)) * 0x94D049BB133111EBull; z ^= z >> 31; return (z >> 11) / 9007199254740992.0 * 2 - 1; } };
std::string S(double a) { return pbt::str(a); }

enum IntegKind { RKM = 0, RK3, RKF, RK2, Verlet, SEE2, CPodes, NumInteg };
const char* integName(int k) { static const char* n[] = {"RungeKuttaMerson", "RungeKutta3", "RungeKuttaFeldberg", "RungeKutta2", "Verlet", "SemiExplicitEuler2", "CPodes"}; return n[k]; }
// exponent e = p/(p+1) of the drift law and frozen constant C (calibration: DESIGN 10.3, >= 10x above the maximum seen)
const double kExp[NumInteg]   = {0.8, 0.75, 0.8, 0.6667, 0.6667, 0.5, 0.8};
const double kConst[NumInteg] = {100, 100, 100, 100, 10000, 1000, 1000};

Integrator* makeIntegrator(int k, const System& sys) {
    switch (k) {
        case RKM: return new RungeKuttaMersonIntegrator(sys); case RK3: return new RungeKutta3Integrator(sys);
        case RKF: return new RungeKuttaFeldbergIntegrator(sys); case RK2: return new RungeKutta2Integrator(sys);
        case Verlet: return new VerletIntegrator(sys); case SEE2: return new SemiExplicitEuler2Integrator(sys);
        default: return new CPodesIntegrator(sys);
    }
}

struct ForceSpec { int kind; int b1, b2; Vec3 s1, s2; double k, x0, c; int coordBody, coord; };

struct Run { bool ok = false; std::string why; double maxDiss = 0, maxDrift = 0, finalDrift = 0, maxP = 0, maxL = 0, maxIncrease = 0, Escale = 0, Pscale = 0, Lscale = 0, T = 0; int steps = 0; };

void property(const pbt::Tape& t, pbt::Ctx& ctx) {
    pbt::Reader g(t[0]);
    mbgen::Options opt; opt.maxBodies = 4; opt.allowEuler = false; opt.allowUnnormalizedQuat = false; opt.uRange = 1.5;
    opt.only({mbgen::Pin, mbgen::Slider, mbgen::Universal, mbgen::Cylinder, mbgen::Planar, mbgen::Ball, mbgen::Free, mbgen::Translation, mbgen::Screw, mbgen::Ellipsoid, mbgen::LineOrientation, mbgen::FreeLine, mbgen::Weld});
    const int nUnits = (int)t.size() - 1;
    const int nb = std::max(1, std::min(4, (nUnits + 1) / 2));           // first units: bodies; remaining: force elements
    mbgen::ModelSpec spec = mbgen::decodeModel(t, 1, nb, g, opt);
    const int variant = g.pick(6);          // 0,1 conservative (gravity+springs); 2 free-floating; 3 dissipative; 4 dissipation tracked; 5 conservative + workless constraints
    const int integ0_ = g.pick(NumInteg); const int integ = getenv("C11_INTEG") ? atoi(getenv("C11_INTEG")) : integ0_;
    const double acc = std::pow(10.0, -3.0 - 4.0 * g.unit());
    const double T = 0.5 + 1.5 * g.unit();
    Vec3 grav(g.real(-10, 10), g.real(-10, 10), g.real(-10, 10));
    const bool compareTighter = g.chance(1, 4);
    Rng rng{(uint64_t)g.w() * 0x100000001ull + 31337};
    const bool freeFloat = variant == 2, dissip = variant == 3, tracked = variant == 4;
    // variant 4: elements that REPORT the energy they dissipate (LinearBushing with damping, CableSpring with
    // dissipation): E + sum(dissipated) must be conserved like the energy of a conservative model.
    const double trkK = g.logreal(2, 60), trkC = g.logreal(0.1, 4), trkSlack = g.uniform(0.1, 0.6); const int trkKind = g.pick(3);   // 0 bushing, 1 cable, 2 both
    // variant 5: the conservative model plus 1..2 workless constraints (Rod, Ball, PointInPlane) whose parameters are fitted to
    // the generated configuration; velocities are projected onto the constraints before the run starts
    const bool constrained = variant == 5;
    struct ConsSpec { int kind, a, b; Vec3 pa, pb, n; };
    std::vector<ConsSpec> cons;
    if (constrained) { const int nc = 1 + g.pick(2); for (int i = 0; i < nc; ++i) { ConsSpec c; c.kind = g.pick(3); c.a = g.pick(nb + 1); c.b = g.pick(nb + 1);
            c.pa = Vec3(g.real(-0.5, 0.5), g.real(-0.5, 0.5), g.real(-0.5, 0.5)); c.pb = Vec3(g.real(-0.5, 0.5), g.real(-0.5, 0.5), g.real(-0.5, 0.5)); c.n = Vec3(g.real(-1, 1), g.real(-1, 1), g.real(-1, 1)); cons.push_back(c); } }
    if (freeFloat) { spec.bodies[0].type = mbgen::Free; spec.bodies[0].parent = 0; spec.bodies[0].reversed = false; for (int k = 0; k < 7; ++k) spec.bodies[0].q[k] = k == 0 ? 1 : (k < 4 ? 0 : spec.bodies[0].q[k]);
        for (size_t i = 1; i < spec.bodies.size(); ++i) if (spec.bodies[i].parent == 0) spec.bodies[i].parent = 1; }

    // force units
    std::vector<ForceSpec> fs;
    for (int i = nb + 1; i <= nUnits; ++i) {
        pbt::Reader r(t[i]); ForceSpec f; f.kind = r.pick(dissip ? 5 : 2);   // 0 two-point spring, 1 mobility spring, 2 two-point damper, 3 mobility damper, 4 global damper
        f.b1 = r.pick(nb + 1); f.b2 = r.pick(nb + 1); if (freeFloat) { f.b1 = 1 + f.b1 % nb; f.b2 = 1 + f.b2 % nb; }
        f.s1 = Vec3(r.real(-0.5, 0.5), r.real(-0.5, 0.5), r.real(-0.5, 0.5)); f.s2 = Vec3(r.real(-0.5, 0.5), r.real(-0.5, 0.5), r.real(-0.5, 0.5));
        f.k = r.logreal(0.5, 50); f.x0 = r.uniform(0.2, 1.5); f.c = r.logreal(0.05, 5); f.coordBody = 1 + r.pick(nb); f.coord = r.pick(6);
        fs.push_back(f);
    }
    if (ctx.wantDesc) { spec.describe(ctx.desc); ctx.desc << "variant=" << (freeFloat ? "free-floating" : dissip ? "dissipative" : tracked ? "dissipation-tracked" : "conservative") << " integrator=" << integName(integ) << " accuracy=" << acc << " T=" << T << " gravity=" << grav << " forces=" << fs.size() << "\n";
        for (auto& f : fs) ctx.desc << "  force kind " << f.kind << " bodies " << f.b1 << "," << f.b2 << " k=" << f.k << " x0=" << f.x0 << " c=" << f.c << " coord body " << f.coordBody << " coord " << f.coord << "\n"; }
    mbgen::labelModel(ctx, spec);
    ctx.label(std::string("integ:") + integName(integ)); ctx.label(freeFloat ? "variant:free-floating" : dissip ? "variant:dissipative" : tracked ? "variant:dissipation-tracked" : constrained ? "variant:constrained-conservative" : "variant:conservative");
    if (constrained) for (auto& c : cons) if (c.a != c.b) ctx.label(c.kind == 0 ? "cons:Rod" : c.kind == 1 ? "cons:Ball" : "cons:PointInPlane");
    if (tracked) ctx.label(trkKind == 0 ? "tracked:bushing" : trkKind == 1 ? "tracked:cablespring" : "tracked:bushing+cablespring");

    auto simulate = [&](double accuracy) -> Run {
        Run R; R.T = T;
        struct Quiet { std::streambuf* old; std::ostringstream sink; Quiet() : old(std::cout.rdbuf()) { std::cout.rdbuf(sink.rdbuf()); } ~Quiet() { std::cout.rdbuf(old); } } quiet;   // CablePath.cpp prints unconditional debug text to cout
        mbgen::Built m(spec);
        if (!freeFloat) Force::UniformGravity(m.forces, m.matter, grav);
        for (auto& f : fs) {
            if (f.kind == 0 || f.kind == 2) { if (f.b1 == f.b2) continue; if (f.kind == 0) Force::TwoPointLinearSpring(m.forces, m.mb[f.b1], f.s1, m.mb[f.b2], f.s2, f.k, f.x0); else Force::TwoPointLinearDamper(m.forces, m.mb[f.b1], f.s1, m.mb[f.b2], f.s2, f.c); }
            else if (f.kind == 1 || f.kind == 3) { const mbgen::BodySpec& b = spec.bodies[f.coordBody - 1]; int nq = mbgen::mobNQ(b.type, false); if (nq == 0 || !mbgen::mobQDotIsU(b.type)) continue; if (freeFloat && f.coordBody == 1) continue;
                if (f.kind == 1) Force::MobilityLinearSpring(m.forces, m.mb[f.coordBody], MobilizerQIndex(f.coord % nq), f.k, f.x0 - 0.8); else Force::MobilityLinearDamper(m.forces, m.mb[f.coordBody], MobilizerUIndex(f.coord % nq), f.c); }
            else Force::GlobalDamper(m.forces, m.matter, f.c * 0.2);
        }
        std::unique_ptr<CableTrackerSubsystem> cables; Force::LinearBushing bushing; CableSpring cable;
        if (tracked) {
            const int last = (int)m.mb.size() - 1;
            if (trkKind != 1) bushing = Force::LinearBushing(m.forces, m.mb[0], Transform(Vec3(0.1, -0.2, 0.3)), m.mb[last], Transform(Vec3(-0.1, 0.05, 0.2)),
                                                           Vec6(trkK, 0.7 * trkK, 1.3 * trkK, 2 * trkK, trkK, 1.5 * trkK), Vec6(trkC, trkC, 0.5 * trkC, trkC, 2 * trkC, trkC));
            if (trkKind != 0) { cables.reset(new CableTrackerSubsystem(m.sys));
                CablePath path(*cables, m.mb[0], Vec3(0.4, 0.6, -0.2), m.mb[last], Vec3(0.05, -0.1, 0.15));
                cable = CableSpring(m.forces, path, trkK, trkSlack, trkC); }
        }
        m.forces.setNumberOfThreads(1);
        // constraints are added with placeholder parameters, then fitted to the generated configuration below
        std::vector<Constraint> builtCons;
        if (constrained) for (auto& c : cons) { if (c.a == c.b) continue; MobilizedBody& A = m.mb[c.a]; MobilizedBody& B = m.mb[c.b];
            if (c.kind == 0) builtCons.push_back(Constraint::Rod(A, c.pa, B, c.pb, 1.0));
            else if (c.kind == 1) builtCons.push_back(Constraint::Ball(A, c.pa, B, c.pb));
            else { if (c.n.norm() < 0.1) continue; builtCons.push_back(Constraint::PointInPlane(A, UnitVec3(c.n), 0.0, B, c.pb)); } }
        if (constrained && builtCons.empty()) { R.why = "no-constraint-built"; return R; }
        if (constrained) {      // fit the DEFAULT parameters to the generated pose (same result for both accuracy runs), then rebuild the State
            m.finish(spec); m.setState(spec); State& s0 = m.state; m.sys.realize(s0, Stage::Position);
            for (auto& k : builtCons) {
                if (Constraint::Rod::isInstanceOf(k)) { Constraint::Rod& r = Constraint::Rod::updDowncast(k); const MobilizedBody& A = m.matter.getMobilizedBody(r.getBody1MobilizedBodyIndex()); const MobilizedBody& B = m.matter.getMobilizedBody(r.getBody2MobilizedBodyIndex());
                    double L = (A.findStationLocationInGround(s0, r.getDefaultPointOnBody1()) - B.findStationLocationInGround(s0, r.getDefaultPointOnBody2())).norm(); if (L < 0.3) { R.why = "rod-too-short"; return R; } r.setDefaultRodLength(L); }
                else if (Constraint::Ball::isInstanceOf(k)) { Constraint::Ball& b = Constraint::Ball::updDowncast(k); const MobilizedBody& A = m.matter.getMobilizedBody(b.getBody1MobilizedBodyIndex()); const MobilizedBody& B = m.matter.getMobilizedBody(b.getBody2MobilizedBodyIndex());
                    b.setDefaultPointOnBody2(B.findStationAtGroundPoint(s0, A.findStationLocationInGround(s0, b.getDefaultPointOnBody1()))); }
                else { Constraint::PointInPlane& pp = Constraint::PointInPlane::updDowncast(k); const MobilizedBody& A = m.matter.getMobilizedBody(pp.getPlaneMobilizedBodyIndex()); const MobilizedBody& B = m.matter.getMobilizedBody(pp.getFollowerMobilizedBodyIndex());
                    Vec3 pInA = A.findStationAtGroundPoint(s0, B.findStationLocationInGround(s0, pp.getDefaultFollowerPoint())); pp.setDefaultPlaneHeight(~Vec3(pp.getDefaultPlaneNormal()) * pInA); }
            }
            m.finish(spec); m.setState(spec);
        } else { m.finish(spec); m.setState(spec); }
        State& s = m.state;
        if (s.getNU() == 0) { R.why = "nu=0"; return R; }
        if (constrained) {
            try { m.sys.realize(s, Stage::Position); m.sys.project(s, 1e-10); } catch (const std::exception&) { R.why = "assembly-failed"; return R; }
            m.sys.realize(s, Stage::Velocity); Matrix G; m.matter.calcG(s, G);      // independent, non-vanishing constraint rows only (cf. C21)
            if (G.nrow() == 0) { R.why = "no-constraint-built"; return R; }
            Matrix GGt = G * ~G; std::vector<Real> ev; refdyn::symEig(GGt, ev); if (!(ev.front() > 1e-8 * std::max(ev.back(), 1.0))) { R.why = "rank-deficient-constraints"; return R; }
        }
        auto dissipated = [&](const State& c) { double d = 0; if (tracked && trkKind != 1) d += bushing.getDissipatedEnergy(c); if (tracked && trkKind != 0) d += cable.getDissipatedEnergy(c); return d; };
        std::unique_ptr<Integrator> in(makeIntegrator(integ, m.sys));
        if (!in->methodHasErrorControl()) { R.why = "no-error-control"; return R; }
        in->setAccuracy(accuracy); in->setReturnEveryInternalStep(true); in->setFinalTime(T);
        try {
            m.sys.realize(s, Stage::Dynamics);
            in->initialize(s);
            const State& s0 = in->getState(); m.sys.realize(s0, Stage::Dynamics);
            const double E0 = m.sys.calcEnergy(s0) + dissipated(s0), PE0 = m.sys.calcPotentialEnergy(s0);
            SpatialVec P0 = m.matter.calcSystemMomentumAboutGroundOrigin(s0);
            double Eprev = E0, KEmax = m.sys.calcKineticEnergy(s0), dPEmax = 0, Pmax = P0[1].norm(), Lmax = P0[0].norm();
            double mtot = m.matter.calcSystemMass(s0);
            while (true) {
                Integrator::SuccessfulStepStatus st = in->stepTo(T);
                const State& c = in->getState(); m.sys.realize(c, Stage::Dynamics);
                double E = m.sys.calcEnergy(c) + dissipated(c), KE = m.sys.calcKineticEnergy(c), PE = m.sys.calcPotentialEnergy(c);
                R.maxDiss = std::max(R.maxDiss, dissipated(c));
                // LinearBushing is documented singular when its middle Euler angle nears 90 degrees (PE is discontinuous there) and x/z wrap at pi
                if (tracked && trkKind != 1) { const Vec6& bq = bushing.getQ(c); if (std::abs(bq[1]) > 1.2 || std::abs(bq[0]) > 2.8 || std::abs(bq[2]) > 2.8) { R.why = "bushing-near-euler-singularity"; return R; } }
                KEmax = std::max(KEmax, KE); dPEmax = std::max(dPEmax, std::abs(PE - PE0));
                R.maxDrift = std::max(R.maxDrift, std::abs(E - E0)); R.finalDrift = std::abs(E - E0);
                R.maxIncrease = std::max(R.maxIncrease, E - Eprev); Eprev = E;
                SpatialVec P = m.matter.calcSystemMomentumAboutGroundOrigin(c);
                R.maxP = std::max(R.maxP, (P[1] - P0[1]).norm()); R.maxL = std::max(R.maxL, (P[0] - P0[0]).norm());
                Pmax = std::max(Pmax, P[1].norm()); Lmax = std::max(Lmax, P[0].norm());
                R.steps++;
                if (st == Integrator::EndOfSimulation || c.getTime() >= T) break;
                if (R.steps > 200000) { R.why = "too-many-steps"; return R; }
            }
            R.Escale = KEmax + dPEmax + R.maxDiss + 1e-2 * mtot;
            double vscale = std::sqrt(2 * (KEmax + 1e-2 * mtot) / mtot);
            R.Pscale = mtot * vscale + Pmax; R.Lscale = mtot * vscale * 1.0 + Lmax;
            R.ok = true;
        } catch (const std::exception& e) { R.why = std::string("integrator-exception"); if (ctx.wantDesc) ctx.desc << "exception: " << std::string(e.what()).substr(0, 300) << "\n"; }
        return R;
    };

    Run R = simulate(acc);
    if (!R.ok) { ctx.reject(R.why); return; }
    const double law = std::pow(acc, kExp[integ]) * (T + 0.1);
    static const bool calib = getenv("C11_CALIB") != nullptr;
    // the constrained variant was calibrated on a smaller sample (seeds 31-36: ~100 judged runs per integrator, largest ratios
    // within the frozen constants with >= 10x margin); it gets a further factor 10
    const double Cfac = constrained ? 10.0 : 1.0;
    const double C = Cfac * (calib ? (atof(getenv("C11_CALIB")) > 1 ? atof(getenv("C11_CALIB")) : 1e300) : kConst[integ]);
    int nuTot = 0; for (auto& b : spec.bodies) nuTot += mbgen::mobNU(b.type);
    bool u0 = spec.zeroU;
    ctx.nontrivial(nuTot >= 3 && !u0 && !fs.empty());
    if (tracked) { ctx.label(R.maxDiss > 1e-3 * R.Escale ? "tracked:dissipation>0.1%" : "tracked:dissipation-negligible"); }
    if (ctx.wantDesc) ctx.desc << "dissipated=" << R.maxDiss << " steps=" << R.steps << " maxEnergyDrift=" << R.maxDrift << " Escale=" << R.Escale << " dP=" << R.maxP << " dL=" << R.maxL << " maxIncrease=" << R.maxIncrease << "\n";
    auto bin = [&](const char* what, double ratio) { if (!calib) return; int e = ratio <= 0 ? -9 : (int)std::floor(std::log10(ratio)); char b[96]; snprintf(b, sizeof b, "calib:%s:%s:1e%+03d", what, integName(integ), e); ctx.label(b); };

    if (!dissip) {
        double ratio = R.maxDrift / (R.Escale * law); bin(tracked ? "Etrk" : constrained ? "Econ" : "E", ratio);
        if (!(ratio <= C)) { ctx.fail(std::string(integName(integ)) + ": energy drift " + S(R.maxDrift) + " (scale " + S(R.Escale) + ") = " + S(ratio) + " x acc^" + S(kExp[integ]) + "*(T+0.1) exceeds the calibrated constant " + S(C) + " at accuracy " + S(acc)); return; }
    } else {
        double ratio = R.maxIncrease / (R.Escale * law); bin("Einc", ratio);
        if (!(ratio <= C)) { ctx.fail(std::string(integName(integ)) + ": energy of a dissipative model increased by " + S(R.maxIncrease) + " in one step (scale " + S(R.Escale) + ", ratio " + S(ratio) + ")"); return; }
    }
    if (freeFloat) {
        double rp = R.maxP / (R.Pscale * law), rl = R.maxL / (R.Lscale * law); bin("P", rp); bin("L", rl);
        if (!(rp <= C)) { ctx.fail(std::string(integName(integ)) + ": linear momentum of a free-floating model drifted by " + S(R.maxP) + " (scale " + S(R.Pscale) + ", ratio " + S(rp) + ")"); return; }
        if (!(rl <= C)) { ctx.fail(std::string(integName(integ)) + ": angular momentum of a free-floating model drifted by " + S(R.maxL) + " (scale " + S(R.Lscale) + ", ratio " + S(rl) + ")"); return; }
    }
    if (compareTighter && !dissip && acc >= 1e-5) {
        Run R2 = simulate(acc / 100);
        if (R2.ok) { ctx.label("tighter-accuracy-compared"); double floor = 1e-9 * R.Escale;
            if (!(R2.finalDrift <= std::max(10 * R.finalDrift, std::max(floor, kConst[integ] * R.Escale * std::pow(acc / 100, kExp[integ]) * (T + 0.1) / 10)))) { ctx.fail(std::string(integName(integ)) + ": tightening accuracy 100x made the final energy drift worse: " + S(R.finalDrift) + " -> " + S(R2.finalDrift)); return; } }
    }
}

pbt::Config config() {
    pbt::Config c; c.prop = "C11"; c.K = mbgen::K; c.minUnits = 2;
    c.quick = {120, 500, 8, 30}; c.thorough = {1500, 6000, 8, 300};
    c.rule = "rapidcheck tape -> mbgen tree (1..4 bodies; Pin, Slider, Universal, Cylinder, Planar, Ball, Free, Translation, Screw, Ellipsoid, LineOrientation, FreeLine, Weld; quaternion mode) + force units (two-point springs, mobility springs on qdot==u coordinates; dampers in the dissipative variant) + variant {conservative with uniform gravity, free-floating without gravity, dissipative, constrained-conservative: the conservative model plus 1..2 workless constraints (Rod / Ball / PointInPlane fitted to the generated pose, velocities projected, independent rows only), dissipation-tracked: damped LinearBushing and/or CableSpring over a CablePath between the first and last body, judged on energy + sum getDissipatedEnergy} + integrator in {RK Merson, RK3, RK Feldberg, RK2, Verlet, SemiExplicitEuler2, CPodes} + accuracy 1e-3..1e-7 + horizon 0.5..2, every internal step examined. Non-trivial: >= 3 mobilities, u(0) != 0 and at least one force element; distinct by tape hash.";
    c.assumptions = {"drift law C_int * Escale * (t+0.1) * acc^(p/(p+1)) with C_int frozen >= 10x above the calibration maximum (DESIGN 10.3)", "Escale = max KE + max |PE-PE0| + 0.01*total mass; integrator exceptions are clean rejections", "force evaluation single-threaded", "LinearBushing cases end (rejected) when its Euler angles leave |qy|<=1.2, |qx|,|qz|<=2.8 rad: the element is documented singular near 90 deg of the middle angle"};
    c.requiredLabels = {"variant:constrained-conservative", "cons:Rod", "cons:Ball", "cons:PointInPlane", "variant:dissipation-tracked", "tracked:cablespring", "integ:RungeKuttaMerson", "integ:Verlet", "integ:CPodes", "integ:SemiExplicitEuler2", "variant:free-floating", "variant:dissipative", "variant:conservative"};
    c.caseTimeoutSecs = 300;
    return c;
}
} // namespace

PBT_MAIN(config(), property)
