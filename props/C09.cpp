// C09 -- Successful projection lands on the constraint manifold minimally (DESIGN.md 5, C09).
// Domain: mbgen tree + 1..4 constraints (consgen.h, all 19 types, some disabled), parameters usually fitted to the
// generated state (assembled by construction) and then assembled with project(1e-10); locked (prescribed) mobilizers;
// random u weights, qerr/uerr weights; perturbation of the free q (or u) of size 1e-7..0.3, quaternions optionally
// scaled to norm 0.5..2; random ProjectOptions (accuracy 1e-3..1e-10, RMS/infinity norm, ForceProjection, LocalOnly,
// DontThrow, ForceFullNewton) through the advanced projectQ/projectU signatures, or the simple
// projectQ/projectU/project(state, accuracy) calls.
// Oracle when projection reports success (status Succeeded / no exception):
//  (V) my recomputation of the documented norm -- max( norm(Tp*perr over the holonomic rows), norm(quaternion rows) ),
//      each part RMS or infinity norm on its own; norm(Tpv*[pverr;verr]) for projectU -- is <= accuracy;
//      getNormOnEntrance == my norm of the state on entry; getNormOnExit <= accuracy;
//  (V) quaternions of free mobilizers have |q| = 1 +- 1e-12 whenever anything had to be done (norm on entry >
//      accuracy or ForceProjection); always |q|-error within the accuracy through the norm clause;
//  (V) prescribed (locked) q and u keep their bit patterns; projectQ leaves u, projectU leaves q untouched;
//  (V) already satisfied and not forced => q (u) bitwise unchanged and getAnyChangeMade()==false; a changed state
//      => getAnyChangeMade()==true;
//  (R) minimum norm: projectU always (verr affine in u), projectQ when every enabled holonomic constraint is linear
//      in coordinates of mobilizers with qdot=u: the correction equals E^-1*pinv(T*J*E^-1)*T*err computed with my own
//      dense algebra (Jacobi eigen-decomposition) from calcPV / calcPq over the free columns and the documented
//      weights (E = Wu for q; E_i = min(Wu_i, 1/|u_i|) for u).
// Failures, exceptions and non-convergence are legitimate outcomes (counted, never violations).
#include "pbt.h"
#include "mbgen.h"
#include "consgen.h"
#include "refdyn.h"
#include <malloc.h>
using namespace SimTK;

namespace {
struct Rng { uint64_t s; double next() { s += 0x9E3779B97F4A7C15ull; uint64_t z = s; z = (z ^ (z >> 30)) * 0xBF58476D1CE4E5B9ull; z = (z ^ (z >> 27)) * 0x94D049BB133111EBull; z ^= z >> 31; return (z >> 11) / 9007199254740992.0 * 2 - 1; } };
std::string S(double a) { return pbt::str(a); }
std::string I(int a) { return std::to_string(a); }
Real maxAbsV(const Vector& v) { return refdyn::maxAbs(v); }

struct Calib { std::map<std::string, double> worst; ~Calib() { if (getenv("C09_CALIB")) for (auto& kv : worst) fprintf(stderr, "CALIB %-28s %.3e\n", kv.first.c_str(), kv.second); } };
Calib& calib() { static Calib c; return c; }
bool within(const char* clause, double err, double tol) { if (getenv("C09_CALIB")) { double& w = calib().worst[clause]; if (std::isfinite(err / tol)) w = std::max(w, err / tol); else w = 1e300; } return err <= tol; }

// While alive, glibc fills every malloc'ed block with 0xFF bytes (NaN doubles): a result vector that is allocated but never written
// shows up deterministically as NaN instead of as whatever the heap contained (see C08).
struct HeapPoison { HeapPoison() { mallopt(M_PERTURB, 0x100); } ~HeapPoison() { mallopt(M_PERTURB, 0); } };

void jacobiEig(Matrix A, std::vector<Real>& ev, Matrix& Vec) {   // symmetric A = Vec diag(ev) Vec'
    int n = A.nrow(); Vec.resize(n, n); Vec = 0; for (int i = 0; i < n; ++i) Vec(i, i) = 1;
    for (int sweep = 0; sweep < 80; ++sweep) {
        Real off = 0, dia = 0; for (int i = 0; i < n; ++i) { dia += A(i, i) * A(i, i); for (int j = i + 1; j < n; ++j) off += A(i, j) * A(i, j); }
        if (off <= 1e-40 * dia || off < 1e-300) break;
        for (int p = 0; p < n; ++p) for (int q = p + 1; q < n; ++q) {
            if (std::abs(A(p, q)) < 1e-300) continue;
            Real th = (A(q, q) - A(p, p)) / (2 * A(p, q)), t = (th >= 0 ? 1 : -1) / (std::abs(th) + std::sqrt(th * th + 1)), c = 1 / std::sqrt(t * t + 1), sn = t * c;
            for (int k = 0; k < n; ++k) { Real akp = A(k, p), akq = A(k, q); A(k, p) = c * akp - sn * akq; A(k, q) = sn * akp + c * akq; }
            for (int k = 0; k < n; ++k) { Real apk = A(p, k), aqk = A(q, k); A(p, k) = c * apk - sn * aqk; A(q, k) = sn * apk + c * aqk; }
            for (int k = 0; k < n; ++k) { Real vkp = Vec(k, p), vkq = Vec(k, q); Vec(k, p) = c * vkp - sn * vkq; Vec(k, q) = sn * vkp + c * vkq; }
        }
    }
    ev.resize(n); for (int i = 0; i < n; ++i) ev[i] = A(i, i);
}
// minimum-norm solution x of A x = b (A is m x n); returns false if the rank decision is ambiguous or b is not in range(A)
bool minNormSolve(const Matrix& A, const Vector& b, Vector& x) {
    const int m = A.nrow(), n = A.ncol(); x.resize(n); x = 0; if (m == 0 || n == 0) return m == 0;
    Matrix AAt(m, m); for (int i = 0; i < m; ++i) for (int j = 0; j < m; ++j) { Real a = 0; for (int k = 0; k < n; ++k) a += A(i, k) * A(j, k); AAt(i, j) = a; }
    std::vector<Real> ev; Matrix Q; jacobiEig(AAt, ev, Q);
    Real lmax = 0; for (Real e : ev) lmax = std::max(lmax, e); if (!(lmax > 1e-16)) return false;      // nothing but rounding noise: no reference
    Vector y(m); y = 0;
    for (int k = 0; k < m; ++k) { Real r = ev[k] / lmax, c = 0; for (int i = 0; i < m; ++i) c += Q(i, k) * b[i];
        if (r > 1e-6) { for (int i = 0; i < m; ++i) y[i] += Q(i, k) * c / ev[k]; }    // (normal equations: keep cond(A)^2 <= 1e6)
        else if (r < 1e-22) { if (std::abs(c) > 1e-9 * (1 + maxAbsV(b))) return false; }       // inconsistent
        else return false; }                                                                       // ambiguous rank
    for (int k = 0; k < n; ++k) { Real a = 0; for (int i = 0; i < m; ++i) a += A(i, k) * y[i]; x[k] = a; }
    return true;
}
Real normOf(const Vector& v, int from, int n, const Vector* w, bool inf) {
    if (n <= 0) return 0; Real a = 0; for (int i = 0; i < n; ++i) { Real e = v[from + i] * (w ? (*w)[from + i] : 1.0); a = inf ? std::max(a, std::abs(e)) : a + e * e; }
    return inf ? a : std::sqrt(a / n);
}

struct Plan { uint64_t seed = 1; double t0 = 0.7, mag = 1e-3, acc = 1e-6; int mode = 0; double fixedDU = 0; bool fitted = true, inf = false, force = false, local = false, dontThrow = true, fullNewton = false, simpleApi = false, weights = false, unnorm = false, withErrEst = false; uint32_t lockBits = 0; };

void judge(pbt::Ctx& ctx, const consgen::Model& cm, const Plan& pl, bool applyKnown = true) {
    // known finding: projectQ normalises the quaternions AFTER driving the position errors to zero ("normalization of quaternions can't have
    // any effect on the constraints we just fixed"), which is not true for a constraint placed directly on a quaternion component
    // (ConstantCoordinate / CoordinateCoupler / PrescribedMotion / Custom on q_k of a Ball, Free, Ellipsoid, LineOrientation or FreeLine
    // mobilizer in quaternion mode): success is reported with the constraint violated. Site predicate on the input: such a constraint is enabled.
    for (const consgen::ConsSpec& c : cm.cons) { int a, b, d; c.counts(a, b, d); if (!c.disabled && a > 0 && c.qOnNonIdentityN && !cm.spec.euler) { ctx.label("has-constraint-on-quaternion-component");
        if (applyKnown && ctx.known("c09-quaternion-component-constraint-denormalized")) { ctx.label("excluded:c09-quaternion-component-constraint-denormalized"); return; } break; } }
    consgen::BuiltCons m(cm); m.finish(cm.spec); m.setState(cm.spec);
    State& s = m.state; const MultibodySystem& sys = m.sys; const SimbodyMatterSubsystem& matter = m.matter; s.setTime(pl.t0);
    const int nb = cm.spec.nBodies();
    if (s.getNU() == 0) { ctx.reject("nu=0"); return; }
    // locks (prescribed coordinates): at the generated values
    std::vector<char> locked(nb + 1, 0); int nLocked = 0;
    for (int b = 1; b <= nb; ++b) if ((pl.lockBits >> (2 * (b - 1)) & 3u) == 3u && m.mb[b].getNumU(s) > 0) { m.mb[b].lock(s, Motion::Position); locked[b] = 1; ++nLocked; }
    sys.realize(s, Stage::Instance);
    const int nq = s.getNQ(), nu = s.getNU();
    Rng rng{pl.seed * 0x100000001ull + 99};
    if (pl.weights) { for (int i = 0; i < nu; ++i) s.updUWeights()[i] = std::exp(2.3 * rng.next()); for (int i = 0; i < s.getNQErr(); ++i) s.updQErrWeights()[i] = std::exp(4.6 * rng.next()); for (int i = 0; i < s.getNUErr(); ++i) s.updUErrWeights()[i] = std::exp(4.6 * rng.next()); }
    // assembled base state
    try { HeapPoison poison; sys.project(s, 1e-10); } catch (const std::exception&) { ctx.reject("base-assembly-failed"); return; }
    {   // (a zero Jacobian over the free coordinates makes the library subtract uninitialised memory -- NaN under the heap poisoning -- and still
        //  report success: the listed QTZ rank-0 defect; the directed reproducer judges it, here the case is merely unusable)
        bool finite = true; for (int i = 0; i < nq; ++i) if (!std::isfinite(s.getQ()[i])) finite = false; for (int i = 0; i < nu; ++i) if (!std::isfinite(s.getU()[i])) finite = false;
        if (!finite) { ctx.reject("base-assembly-nonfinite"); return; } }
    if (!consgen::inDomain(cm.spec, m, s) || !(maxAbsV(s.getU()) <= 50)) { ctx.reject("base-assembly-left-domain"); return; }
    for (size_t i = 0; i < cm.cons.size(); ++i) { std::string why; if (!cm.cons[i].disabled && consgen::degenerateAt(cm.cons[i], m, s, why)) { ctx.reject("degenerate:" + why); return; } }
    // which q/u are free
    std::vector<char> qFree(nq, 1), uFree(nu, 1), qIsQuat(nq, 0); std::vector<int> quatStart;
    for (int b = 1; b <= nb; ++b) { const MobilizedBody& mb = m.mb[b]; int q0 = mb.getFirstQIndex(s), u0 = mb.getFirstUIndex(s);
        if (locked[b]) { for (int k = 0; k < mb.getNumQ(s); ++k) qFree[q0 + k] = 0; for (int k = 0; k < mb.getNumU(s); ++k) uFree[u0 + k] = 0; }
        if (mbgen::mobHasQuaternion(cm.spec.bodies[b - 1].type) && !cm.spec.euler) { for (int k = 0; k < 4; ++k) qIsQuat[q0 + k] = 1; if (!locked[b]) quatStart.push_back(q0); } }
    // perturbation
    State p = s;
    const bool doQ = pl.mode != 1;
    if (doQ) { for (int i = 0; i < nq; ++i) if (qFree[i]) p.updQ()[i] += pl.mag * rng.next();
        for (int q0 : quatStart) { Real n = 0; for (int k = 0; k < 4; ++k) n += p.getQ()[q0 + k] * p.getQ()[q0 + k]; n = std::sqrt(n); Real target = pl.unnorm ? 0.5 + 0.75 * (1 + rng.next()) : 1.0; if (pl.mag >= 1e-5 || pl.unnorm) for (int k = 0; k < 4; ++k) p.updQ()[q0 + k] *= target / n; } }
    if (pl.mode != 0) for (int i = 0; i < nu; ++i) if (uFree[i]) p.updU()[i] += pl.fixedDU != 0 ? pl.fixedDU : pl.mag * rng.next();     // (fixedDU: directed cases only)
    if (doQ) { sys.realize(p, Stage::Position); if (!consgen::inDomain(cm.spec, m, p)) { ctx.reject("perturbed-outside-domain"); return; } }

    ProjectOptions opt(pl.acc); if (pl.inf) opt.setOption(ProjectOptions::UseInfinityNorm); if (pl.force) opt.setOption(ProjectOptions::ForceProjection); if (pl.local) opt.setOption(ProjectOptions::LocalOnly);
    if (pl.dontThrow) opt.setOption(ProjectOptions::DontThrow); if (pl.fullNewton) opt.setOption(ProjectOptions::ForceFullNewton);
    const bool inf = pl.simpleApi ? false : pl.inf, force = pl.simpleApi ? false : pl.force;
    int mp = 0, mv = 0; for (size_t i = 0; i < cm.cons.size(); ++i) { consgen::Rows r = consgen::rowsOf(m.cons[i], p); mp += r.mp; mv += r.mv; }
    const int nquat = matter.getNumQuaternionsInUse(p);
    auto qNorm = [&](const State& x) { const Vector& e = x.getQErr(); const Vector& w = x.getQErrWeights(); return std::max(normOf(e, 0, mp, &w, inf), normOf(e, mp, nquat, nullptr, inf)); };
    auto uNorm = [&](const State& x) { const Vector& e = x.getUErr(); const Vector& w = x.getUErrWeights(); return normOf(e, 0, mp + mv, &w, inf); };
    auto changedBits = [](const Vector& a, const Vector& b) { for (int i = 0; i < a.size(); ++i) if (std::memcmp(&a[i], &b[i], sizeof(Real)) != 0) return true; return false; };

    // ------------------------------------------------------------------ one projection stage
    auto stage = [&](bool isQ) -> bool {    // returns false to stop (failure/rejection/violation)
        const char* nm = isQ ? "projectQ" : "projectU";
        sys.realize(p, isQ ? Stage::Position : Stage::Velocity);
        const Vector q0 = p.getQ(), u0 = p.getU();
        const Real n0 = isQ ? qNorm(p) : uNorm(p);
        // the part of the norm that decides whether the constraint equations themselves are iterated on (projectQ handles quaternions separately)
        const Real nEq0 = isQ ? normOf(p.getQErr(), 0, mp, &p.getQErrWeights(), inf) : n0;
        // reference minimum-norm correction, from the state on entry
        bool haveRef = false; Vector refDelta;
        if (isQ) {
            bool linear = mp > 0; for (size_t i = 0; i < cm.cons.size(); ++i) { const consgen::ConsSpec& c = cm.cons[i]; if (c.disabled) continue; int a, b2, c3; c.counts(a, b2, c3); if (a == 0) continue;
                bool lin = (c.type == consgen::ConstantCoordinate || c.type == consgen::PrescribedMotion || (c.type == consgen::CoordinateCoupler && c.linear)) && !c.qOnNonIdentityN; if (!lin) linear = false; }
            if (linear) {
                Matrix Pq; matter.calcPq(p, Pq); const Vector& Tp = p.getQErrWeights(); const Vector& Wu = p.getUWeights();
                // columns: free q's of mobilizers with qdot = u (the only ones these constraints touch); q index <-> u index through the mobilizer
                std::vector<int> cols, ucol; for (int b = 1; b <= nb; ++b) { const MobilizedBody& mb = m.mb[b]; if (locked[b] || !mbgen::mobQDotIsU(cm.spec.bodies[b - 1].type)) continue; for (int k = 0; k < mb.getNumQ(p); ++k) { cols.push_back(mb.getFirstQIndex(p) + k); ucol.push_back(mb.getFirstUIndex(p) + k); } }
                Matrix A(mp, (int)cols.size()); Vector bb(mp); for (int i = 0; i < mp; ++i) { bb[i] = Tp[i] * p.getQErr()[i]; for (size_t k = 0; k < cols.size(); ++k) A(i, (int)k) = Tp[i] * Pq(i, cols[k]) / Wu[ucol[k]]; }
                Vector x; if (minNormSolve(A, bb, x)) { haveRef = true; refDelta.resize(nq); refDelta = 0; for (size_t k = 0; k < cols.size(); ++k) refDelta[cols[k]] = x[(int)k] / Wu[ucol[k]]; }
            }
        } else if (mp + mv > 0 && [&] { for (auto& c : cm.cons) if (!c.disabled && !c.affineInU()) return false; return true; }()) {
            Matrix PV; matter.calcPV(p, PV); const Vector& T = p.getUErrWeights(); const Vector& Wu = p.getUWeights();
            std::vector<int> cols; for (int i = 0; i < nu; ++i) if (uFree[i]) cols.push_back(i);
            auto Einv = [&](int i) { Real ui = std::abs(u0[i]), wi = Wu[i]; return ui * wi > 1 ? ui : 1 / wi; };
            Matrix A(mp + mv, (int)cols.size()); Vector bb(mp + mv); for (int i = 0; i < mp + mv; ++i) { bb[i] = T[i] * p.getUErr()[i]; for (size_t k = 0; k < cols.size(); ++k) A(i, (int)k) = T[i] * PV(i, cols[k]) * Einv(cols[k]); }
            Vector x; if (minNormSolve(A, bb, x)) { haveRef = true; refDelta.resize(nu); refDelta = 0; for (size_t k = 0; k < cols.size(); ++k) refDelta[cols[k]] = x[(int)k] * Einv(cols[k]); }
        }
        {   // known finding (same defect as C08's c08-qtz-rank0-multipliers-uninitialized): FactorQTZ::solve returns uninitialised memory for
            // an all-zero matrix, so when the constraint Jacobian restricted to the free coordinates is exactly zero (every constrained
            // mobilizer is locked) the "correction" subtracted from q (u) is garbage. Site predicate: that Jacobian == 0 exactly and an
            // iteration is going to be made. The matrix the library factors is not observable; its entries are exactly zero for SOME of the
            // inputs whose operator-level Jacobian is zero up to rounding noise, so the predicate is: max |Jacobian over free coordinates| < 1e-12.
            bool zeroJac = false;
            // (the library builds the matrix it factors from the constraint FORCE routines, i.e. the transposed operators)
            if (isQ && mp > 0) { Matrix Pt; matter.calcPqTranspose(p, Pt); Real a = 0; for (int i = 0; i < mp; ++i) for (int j = 0; j < nq; ++j) if (qFree[j]) a = std::max(a, std::abs(Pt(j, i))); zeroJac = a < 1e-12; }
            if (!isQ && mp + mv > 0) { Matrix PVt; matter.calcPVTranspose(p, PVt); Real a = 0; for (int i = 0; i < mp + mv; ++i) for (int j = 0; j < nu; ++j) if (uFree[j]) a = std::max(a, std::abs(PVt(j, i))); zeroJac = a < 1e-12; }
            if (zeroJac) ctx.label(std::string(nm) + ":zero-free-jacobian");
            if (zeroJac && applyKnown && ctx.known("c09-qtz-rank0-correction-uninitialized")) { ctx.label("excluded:c09-qtz-rank0-correction-uninitialized"); return false; }
        }
        ProjectResults res; bool success = false; Vector errEst; if (pl.withErrEst && !pl.simpleApi) { errEst.resize(isQ ? nq : nu); for (int i = 0; i < errEst.size(); ++i) errEst[i] = 1e-3 * rng.next(); }
        try {
            HeapPoison poison;
            if (pl.simpleApi) { if (isQ) sys.projectQ(p, pl.acc); else sys.projectU(p, pl.acc); success = true; }
            else { if (isQ) sys.projectQ(p, errEst, opt, res); else sys.projectU(p, errEst, opt, res); success = res.getExitStatus() == ProjectResults::Succeeded; }
        } catch (const std::exception&) { ctx.label(std::string(nm) + ":threw" + (pl.dontThrow && !pl.simpleApi ? "-despite-DontThrow" : "")); return false; }
        if (!success) { ctx.label(std::string(nm) + ":reported-failure"); return false; }
        ctx.label(std::string(nm) + ":succeeded");
        sys.realize(p, isQ ? Stage::Position : Stage::Velocity);
        const Vector& q1 = p.getQ(); const Vector& u1 = p.getU();
        const Real n1 = isQ ? qNorm(p) : uNorm(p);
        const std::string who = std::string(nm) + " (accuracy " + S(pl.acc) + (inf ? ", infinity norm" : ", RMS norm") + (force ? ", ForceProjection" : "") + (pl.simpleApi ? ", simple signature" : "") + "): ";
        for (int i = 0; i < nq; ++i) if (!std::isfinite(q1[i])) { ctx.fail(who + "reported success but q[" + I(i) + "] = " + S(q1[i])); return false; }
        for (int i = 0; i < nu; ++i) if (!std::isfinite(u1[i])) {
            // known finding: projectU factors [P;V] once (modified Newton); for a velocity constraint that is NOT affine in u (SpeedCoupler with a
            // quadratic function) the iteration can diverge to overflow within its 7 steps, the norm becomes NaN, "norm > accuracy" is false and
            // Succeeded is returned with NaN speeds. Site predicate: projectU, an enabled constraint that is not affine in u, non-finite result.
            bool nonAffine = false; for (auto& c : cm.cons) if (!c.disabled && !c.affineInU()) nonAffine = true;
            if (!isQ && nonAffine && applyKnown && ctx.known("c09-projectu-divergence-reported-as-success")) { ctx.label("excluded:c09-projectu-divergence-reported-as-success"); return false; }
            ctx.fail(who + "reported success but u[" + I(i) + "] = " + S(u1[i])); return false; }
        if (!within("norm<=acc", n1, pl.acc * (1 + 1e-9))) { ctx.fail(who + "reported success but the documented norm of the result is " + S(n1) + " (on entry " + S(n0) + ")"); return false; }
        if (!pl.simpleApi) {
            if (!within("entrance-norm", std::abs(res.getNormOnEntrance() - n0), 1e-12 * (n0 + 1e-300))) { ctx.fail(who + "getNormOnEntrance() = " + S(res.getNormOnEntrance()) + " but the documented norm of the state on entry is " + S(n0)); return false; }
            if (!(res.getNormOnExit() <= pl.acc)) { ctx.fail(who + "reported success with getNormOnExit() = " + S(res.getNormOnExit()) + " > accuracy"); return false; }
        }
        // untouched parts
        for (int i = 0; i < nq; ++i) if ((!qFree[i] || !isQ) && std::memcmp(&q0[i], &q1[i], sizeof(Real)) != 0) { ctx.fail(who + (isQ ? "prescribed (locked) q[" : "q[") + I(i) + "] changed from " + S(q0[i]) + " to " + S(q1[i])); return false; }
        for (int i = 0; i < nu; ++i) if ((!uFree[i] || isQ) && std::memcmp(&u0[i], &u1[i], sizeof(Real)) != 0) { ctx.fail(who + (isQ ? "u[" : "prescribed (locked) u[") + I(i) + "] changed from " + S(u0[i]) + " to " + S(u1[i])); return false; }
        const bool changed = isQ ? changedBits(q0, q1) : changedBits(u0, u1);
        if (!pl.simpleApi) {
            if (changed && !res.getAnyChangeMade()) { ctx.fail(who + "the state changed but getAnyChangeMade() is false"); return false; }
            if (n0 <= pl.acc && !force) { ctx.label(std::string(nm) + ":early-return"); if (res.getAnyChangeMade()) { ctx.fail(who + "state already satisfied the constraints (norm " + S(n0) + ") and projection was not forced, but getAnyChangeMade() is true"); return false; } }
        }
        if (n0 <= pl.acc && !force && changed) { ctx.fail(who + "state already satisfied the constraints (norm " + S(n0) + " <= accuracy) and projection was not forced, but the state was changed"); return false; }
        if (isQ && (n0 > pl.acc || force)) for (int qs : quatStart) { Real n = 0; for (int k = 0; k < 4; ++k) n += q1[qs + k] * q1[qs + k]; if (!within("quat-unit", std::abs(std::sqrt(n) - 1), 1e-12)) { ctx.fail(who + "quaternion at q[" + I(qs) + "] has length " + S(std::sqrt(n)) + " after a successful projection"); return false; } }
        // minimum norm
        if (haveRef && (nEq0 > pl.acc || force) && nEq0 != 0) {
            ctx.label(std::string(nm) + ":min-norm-checked");
            const Vector& a0 = isQ ? q0 : u0; const Vector& a1 = isQ ? q1 : u1; Real sc = maxAbsV(refDelta) + 1e-300; const int n = isQ ? nq : nu;
            for (int i = 0; i < n; ++i) { if (isQ && qIsQuat[i]) continue; Real d = a0[i] - a1[i];
                if (!within("min-norm", std::abs(d - refDelta[i]), 1e-8 * sc + 1e-13 * (1 + std::abs(a0[i])))) { ctx.fail(who + "correction of " + (isQ ? "q[" : "u[") + I(i) + "] is " + S(d) + " but the weighted minimum-norm correction is " + S(refDelta[i]) + " (largest component " + S(sc) + ")"); return false; } }
        }
        return true;
    };
    ctx.nontrivial(pl.mag >= 1e-7 && (mp + mv > 0 || nquat > 0));
    if (pl.mode == 0) stage(true);
    else if (pl.mode == 1) stage(false);
    else { if (stage(true)) stage(false); }
}

void property(const pbt::Tape& t, pbt::Ctx& ctx) {
    pbt::Reader g(t[0]);
    mbgen::Options mo; mo.maxBodies = 5; mo.allowUnnormalizedQuat = false;
    consgen::Options co; co.maxCons = 4; co.allowDisabled = true;
    consgen::Model cm = consgen::decode(t, 1, (int)t.size() - 1, g, mo, co);
    Plan pl; pl.seed = g.w(); pl.t0 = g.real(-2, 2); if (pl.t0 == 0) pl.t0 = 0.7;
    pl.fitted = !g.chance(1, 4); pl.mag = std::pow(10.0, -7 + 6.5 * g.unit()); pl.acc = std::pow(10.0, -3 - 7 * g.unit()); pl.mode = g.pick(3);
    { uint32_t w = g.w(); pl.inf = w & 1u; pl.force = (w >> 1) & 1u; pl.local = (w >> 2) & 1u; pl.dontThrow = !((w >> 3) & 1u); pl.fullNewton = (w >> 4) & 1u; pl.simpleApi = ((w >> 5) & 3u) == 3u; pl.weights = (w >> 7) & 1u; pl.unnorm = (w >> 8) & 1u; pl.withErrEst = ((w >> 9) & 3u) == 3u; }
    pl.lockBits = g.w();
    if (pl.fitted) consgen::fitToState(cm, pl.t0);
    if (ctx.wantDesc) { cm.describe(ctx.desc); ctx.desc << "time=" << pl.t0 << " fitted=" << pl.fitted << " perturbation=" << pl.mag << " accuracy=" << pl.acc << " mode=" << pl.mode << " inf=" << pl.inf << " force=" << pl.force << " local=" << pl.local << " dontThrow=" << pl.dontThrow << " fullNewton=" << pl.fullNewton
        << " simpleApi=" << pl.simpleApi << " weights=" << pl.weights << " unnormQuat=" << pl.unnorm << " errEst=" << pl.withErrEst << " lockBits=" << pl.lockBits << " seed=" << pl.seed << "\n"; }
    consgen::labelModel(ctx, cm);
    ctx.label(pl.mode == 0 ? "mode:projectQ" : pl.mode == 1 ? "mode:projectU" : "mode:projectQ+U");
    if (pl.inf) ctx.label("opt:infinity-norm"); if (pl.force) ctx.label("opt:force"); if (pl.local) ctx.label("opt:local-only"); if (pl.simpleApi) ctx.label("api:simple"); if (pl.weights) ctx.label("weights:random"); if (pl.unnorm) ctx.label("quaternions:unnormalised"); if (pl.lockBits) ctx.label("some-lock-bits");
    judge(ctx, cm, pl);
}

// ---- directed reproducers
void directedQuatCoord(pbt::Ctx& ctx) {   // ConstantCoordinate on q0 of a Ball in quaternion mode, quaternion scaled before projectQ
    consgen::Model cm; mbgen::BodySpec a; a.parent = 0; a.type = mbgen::Ball; a.q[0] = 1; cm.spec.bodies.push_back(a);
    consgen::ConsSpec c; c.type = consgen::ConstantCoordinate; c.mob[0] = 1; c.qi[0] = 0; c.value = 1; c.qOnNonIdentityN = true; cm.cons.push_back(c);
    Plan pl; pl.seed = 0; pl.mag = 1e-7; pl.acc = 1e-3; pl.mode = 0; pl.unnorm = true; pl.fitted = true;
    if (ctx.wantDesc) cm.describe(ctx.desc);
    judge(ctx, cm, pl, false);
}
void directedZeroJac(pbt::Ctx& ctx) {     // ConstantCoordinate on a locked Pin: the Jacobian over the free coordinates is exactly zero
    consgen::Model cm; mbgen::BodySpec a, b; a.parent = 0; a.type = mbgen::Pin; a.q[0] = 0.3; b.parent = 1; b.type = mbgen::Pin; b.q[0] = -0.2; b.X_PF = Transform(Vec3(.5, 0, 0)); b.inKind = 1; cm.spec.bodies.push_back(a); cm.spec.bodies.push_back(b);
    consgen::ConsSpec c; c.type = consgen::ConstantCoordinate; c.mob[0] = 1; c.qi[0] = 0; c.value = 0.3 + 1e-12; cm.cons.push_back(c);   // error 1e-12: assembled, but not exactly zero
    Plan pl; pl.seed = 0; pl.mag = 1e-2; pl.acc = 1e-6; pl.mode = 0; pl.fitted = false; pl.lockBits = 3u; pl.force = true;
    if (ctx.wantDesc) cm.describe(ctx.desc);
    judge(ctx, cm, pl, false);
}

void directedDiverge(pbt::Ctx& ctx) {      // quadratic SpeedCoupler u^2+u-0.75, start where its slope almost vanishes: modified Newton overflows
    consgen::Model cm; mbgen::BodySpec a; a.parent = 0; a.type = mbgen::Pin; a.q[0] = 0.3; a.u[0] = 0.5; cm.spec.bodies.push_back(a);
    consgen::ConsSpec c; c.type = consgen::SpeedCoupler; c.mob[0] = 1; c.ui[0] = 0; c.nArgs = 1; c.nQArgs = 0; c.linear = false; c.c[1] = 1; c.c[5] = 2; c.c[6] = 1; cm.cons.push_back(c);
    Plan pl; pl.seed = 5; pl.mag = 1; pl.fixedDU = -0.999; pl.acc = 1e-6; pl.mode = 1; pl.fitted = true;       // roots at 0.5 and -1.5, start next to the vertex -0.5
    if (ctx.wantDesc) cm.describe(ctx.desc);
    consgen::fitToState(cm, pl.t0);      // constant term := -0.75, so that the generated speed 0.5 is a root
    judge(ctx, cm, pl, false);
}

pbt::Config config() {
    pbt::Config c; c.prop = "C09"; c.K = consgen::K; c.minUnits = 2;
    c.quick = {800, 4000, 20, 30}; c.thorough = {6000, 40000, 24, 240};
    c.rule = "rapidcheck tape -> body units (mbgen: 1..5 bodies) and constraint units (consgen: 1..4 constraints of the 19 built-in types, 1/4 disabled), parameters fitted to the generated state in 3/4 of the cases, random position locks (prescribed q, u), base state assembled with project(1e-10) (failure = rejected), then free q and/or u perturbed by 1e-7..0.3, quaternions optionally scaled to norm 0.5..2, random u / qerr / uerr weights, ProjectOptions (accuracy 1e-3..1e-10, RMS/infinity, ForceProjection, LocalOnly, DontThrow, ForceFullNewton) or the simple signatures. Non-trivial: perturbation >= 1e-7 and at least one position/velocity constraint equation or quaternion in use; distinct by tape hash.";
    c.assumptions = {"documented norm: max(norm(Tp*perr), norm(quaternion errors)) with each part RMS or infinity norm (SimbodyMatterSubsystemRep::projectQ header comment and System::project documentation)",
                     "minimum-norm reference only where one Newton step is exact (velocity projection; position constraints linear in coordinates with qdot=u) and my eigen-analysis sees an unambiguous rank (eigenvalue ratios of A*A' > 1e-6 or < 1e-22) with a consistent right-hand side; tolerance 1e-8 x largest correction component"};
    c.directed = {{"constantcoordinate-on-quaternion-component", "c09-quaternion-component-constraint-denormalized", directedQuatCoord},
                  {"constraint-on-locked-mobilizer-zero-jacobian", "c09-qtz-rank0-correction-uninitialized", directedZeroJac},
                  {"quadratic-speedcoupler-far-start", "c09-projectu-divergence-reported-as-success", directedDiverge}};
    c.requiredLabels = {"projectQ:succeeded", "projectU:succeeded", "projectQ:early-return", "projectU:early-return", "projectQ:min-norm-checked", "projectU:min-norm-checked", "opt:infinity-norm", "opt:force", "api:simple", "weights:random", "quaternions:unnormalised"};
    return c;
}
} // namespace

#ifdef PBT_FUZZ
PBT_MAIN(config(), property)
#else
// glibc serves small blocks from its per-thread cache without applying M_PERTURB, which would leave the heap poisoning above ineffective
// for exactly the small result vectors it is meant for: restart once with the cache switched off (same pid, same arguments).
int main(int argc, char** argv) {
    const char* t = getenv("GLIBC_TUNABLES");
    if (!t || !strstr(t, "tcache_count=0")) { setenv("GLIBC_TUNABLES", "glibc.malloc.tcache_count=0", 1); execv("/proc/self/exe", argv); }
    return pbt::run(argc, argv, config(), property);
}
#endif
