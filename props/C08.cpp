// C08 -- Constrained forward dynamics satisfies constraints and Newton's law (DESIGN.md 5, C08).
// Domain: mbgen tree + 1..6 constraints of the 19 built-in types (consgen.h), random enable/disable masks (disabled by
// default, disabled/enabled in the State), redundant-but-consistent sets by construction (a duplicated constraint,
// Weld + Ball on the same pair and points, a constraint between two bodies welded to each other), applied mobility
// forces and body wrenches (Force::DiscreteForces) and optionally gravity; random / fitted / projected states.
// Oracle after realize(Acceleration):
//  (R) Newton: Kane residual from kinematics (refdyn.h: M_ref, 5-point differences of reported velocities) at the
//      reported udot, plus G'*lambda with the reported multipliers, is zero -- for ANY constraint set;
//      calcResidualForce(f, F, udot, lambda) = 0; getUDotErr = calcConstraintAccelerationErrors(getUDot).
//  (V) consistent sets: udoterr = 0. Consistency is decided by my own eigen-analysis of W = G*M_ref^-1*G': full rank
//      (lambda_min/lambda_max > 1e-8), or rank deficient with a clean gap and the bias aerr(udot=0) inside range(G);
//      anything else (ill-conditioned or inconsistent random sets) is only held to Newton's law.
//  (M) a twin model WITHOUT the disabled constraints gives the same udot, constraint forces G'*lambda (multipliers too
//      when W has full rank) and mobilizer reaction forces.
//  (M) history: after all of the above, only u (then only q, then only t if a time-dependent constraint is enabled) is changed in the
//      SAME State and everything re-realized: qerr/uerr/udoterr, multipliers, udot, qdot, qdotdot, constraint body and mobility forces
//      and power must equal those of a fresh State of a fresh copy of the system at the identical (t,q,u) (1e-12; observed bit-identical).
//  (V) power: calcConstraintPower = sum of Constraint::calcPower = -lambda.(G u); when every enabled constraint has a
//      velocity error homogeneous in u: |power| <= 10*|lambda|*|verr| (+rounding), i.e. zero on the velocity manifold.
#include "pbt.h"
#include "mbgen.h"
#include "consgen.h"
#include "refdyn.h"
#include <malloc.h>
using namespace SimTK;

namespace {
struct Rng { uint64_t s; double next() { s += 0x9E3779B97F4A7C15ull; uint64_t z = s; z = (z ^ (z >> 30)) * 0xBF58476D1CE4E5B9ull; z = (z ^ (z >> 27)) * 0x94D049BB133111EBull; z ^= z >> 31; return (z >> 11) / 9007199254740992.0 * 2 - 1; } };
std::string S(double a) { return pbt::str(a); }
std::string I(int a) { return std::to_string(a); }
Real maxAbsV(const Vector& v) { return refdyn::maxAbs(v); }
const Real Eps = 2.220446049250313e-16;

struct Calib { std::map<std::string, double> worst; ~Calib() { if (getenv("C08_CALIB")) for (auto& kv : worst) fprintf(stderr, "CALIB %-28s %.3e\n", kv.first.c_str(), kv.second); } };
Calib& calib() { static Calib c; return c; }
bool within(const char* clause, double err, double tol) { if (getenv("C08_CALIB")) { double& w = calib().worst[clause]; if (std::isfinite(err / tol)) w = std::max(w, err / tol); else w = 1e300; } return err <= tol; }

// my own dense helpers (independent of the library's factorizations)
bool choleskySolve(Matrix A, Matrix& B) {   // A SPD (n x n), B (n x k) overwritten by A^-1 B
    int n = A.nrow(), k = B.ncol();
    for (int j = 0; j < n; ++j) { Real d = A(j, j); for (int p = 0; p < j; ++p) d -= A(j, p) * A(j, p); if (!(d > 0)) return false; d = std::sqrt(d); A(j, j) = d;
        for (int i = j + 1; i < n; ++i) { Real v = A(i, j); for (int p = 0; p < j; ++p) v -= A(i, p) * A(j, p); A(i, j) = v / d; } }
    for (int c = 0; c < k; ++c) { for (int i = 0; i < n; ++i) { Real v = B(i, c); for (int p = 0; p < i; ++p) v -= A(i, p) * B(p, c); B(i, c) = v / A(i, i); }
        for (int i = n - 1; i >= 0; --i) { Real v = B(i, c); for (int p = i + 1; p < n; ++p) v -= A(p, i) * B(p, c); B(i, c) = v / A(i, i); } }
    return true;
}
void jacobiEig(Matrix A, std::vector<Real>& ev, Matrix& Vec) {   // symmetric A = Vec diag(ev) Vec'
    int n = A.nrow(); Vec.resize(n, n); Vec = 0; for (int i = 0; i < n; ++i) Vec(i, i) = 1;
    for (int sweep = 0; sweep < 80; ++sweep) {
        Real off = 0, dia = 0; for (int i = 0; i < n; ++i) { dia += A(i, i) * A(i, i); for (int j = i + 1; j < n; ++j) off += A(i, j) * A(i, j); }
        if (off <= 1e-40 * dia || off < 1e-300) break;
        for (int p = 0; p < n; ++p) for (int q = p + 1; q < n; ++q) {
            if (std::abs(A(p, q)) < 1e-300) continue;
            Real th = (A(q, q) - A(p, p)) / (2 * A(p, q)), t = (th >= 0 ? 1 : -1) / (std::abs(th) + std::sqrt(th * th + 1)), c = 1 / std::sqrt(t * t + 1), sn = t * c;
            for (int k = 0; k < n; ++k) { Real akp = A(k, p), akq = A(k, q); A(k, p) = c * akp - sn * akq; A(k, q) = sn * akp + c * akq; }
            for (int k = 0; k < n; ++k) { Real apk = A(p, k), aqk = A(q, k); A(p, k) = c * apk - sn * aqk; A(q, k) = sn * apk + c * aqk; }
            for (int k = 0; k < n; ++k) { Real vkp = Vec(k, p), vkq = Vec(k, q); Vec(k, p) = c * vkp - sn * vkq; Vec(k, q) = sn * vkp + c * vkq; }
        }
    }
    ev.resize(n); for (int i = 0; i < n; ++i) ev[i] = A(i, i);
}

// While alive, glibc fills every malloc'ed block with 0xFF bytes (quiet NaN for doubles), so that a result vector that is allocated
// but never written shows up deterministically as NaN instead of whatever the heap happened to contain (M_PERTURB: allocated bytes are
// set to the complement of the low byte of the value; 0x100 is non-zero with low byte 0).
struct HeapPoison { HeapPoison() { mallopt(M_PERTURB, 0x100); } ~HeapPoison() { mallopt(M_PERTURB, 0); } };

struct Plan {       // everything decoded from the tape besides the model
    uint64_t seed = 1; double t0 = 0.7, fMag = 1, FMag = 1; int redundancy = 0; bool fitted = false, project = false, gravity = false; uint32_t routeBits = 0;
};
enum Redundancy { None = 0, Duplicate = 4, WeldPlusBall = 5, ImmobilePair = 6, DuplicateLast = 7 };

// Build one system; route bit i = 1: constraint i reaches its final enabled/disabled status through the State
// (enable()/disable()) instead of through setDisabledByDefault.
struct Sys {
    consgen::Model cm; std::unique_ptr<consgen::BuiltCons> m; Force::DiscreteForces disc; Force::Gravity grav;
    Sys(const consgen::Model& model, const Plan& pl, bool useRoutes) : cm(model) {
        consgen::Model build = cm;
        if (useRoutes) for (size_t i = 0; i < build.cons.size(); ++i) if (pl.routeBits >> i & 1u) build.cons[i].disabled = !build.cons[i].disabled;
        m.reset(new consgen::BuiltCons(build));
        disc = Force::DiscreteForces(m->forces, m->matter);
        if (pl.gravity) grav = Force::Gravity(m->forces, m->matter, Vec3(0.3, -9.8, 0.5));
        m->finish(cm.spec);
        if (useRoutes) for (size_t i = 0; i < build.cons.size(); ++i) if (pl.routeBits >> i & 1u) { if (cm.cons[i].disabled) m->cons[i].disable(m->state); else m->cons[i].enable(m->state); }
        m->sys.realizeModel(m->state);
        m->setState(cm.spec); m->state.setTime(pl.t0);
    }
};

void judge(pbt::Ctx& ctx, const consgen::Model& cm, const Plan& pl, bool applyKnown) {
    auto known = [&](const char* id) { return applyKnown && ctx.known(id); };
    Sys A(cm, pl, true); consgen::BuiltCons& m = *A.m; State& s = m.state; const SimbodyMatterSubsystem& matter = m.matter; const MultibodySystem& sys = m.sys;
    const int nu = s.getNU(), NB = matter.getNumBodies(), nc = (int)cm.cons.size();
    if (nu == 0) { ctx.reject("nu=0"); return; }
    for (int i = 0; i < nc; ++i) if (!ctx.check(m.cons[i].isDisabled(s) == cm.cons[i].disabled, "constraint " + I(i) + " isDisabled() does not report the status set through " + ((pl.routeBits >> i & 1u) ? "the State" : "setDisabledByDefault"))) return;
    if (pl.project) {
        try { sys.project(s, 1e-9); ctx.label("state:projected"); } catch (const std::exception&) { ctx.label("state:projection-failed-using-unprojected"); m.setState(cm.spec); }
        bool finite = true; for (int i = 0; i < s.getNU(); ++i) if (!std::isfinite(s.getU()[i])) finite = false;    // (project() can come back "successful" with NaN speeds: C09's c09-projectu-divergence-reported-as-success)
        if (!finite || !consgen::inDomain(cm.spec, m, s) || !(maxAbsV(s.getU()) <= 20)) { ctx.label("state:projected-outside-domain-using-unprojected"); m.setState(cm.spec); }
    }
    const Vector q0 = s.getQ(), u0 = s.getU();
    sys.realize(s, Stage::Velocity);
    for (int i = 0; i < nc; ++i) { std::string why; if (!cm.cons[i].disabled && consgen::degenerateAt(cm.cons[i], m, s, why)) { ctx.reject("degenerate:" + why); return; } }
    Rng rng{pl.seed * 0x100000001ull + 4242};
    Vector f(nu); Vector_<SpatialVec> F(NB);
    for (int i = 0; i < nu; ++i) f[i] = pl.fMag * rng.next();
    for (int b = 0; b < NB; ++b) F[b] = pl.FMag * SpatialVec(Vec3(rng.next(), rng.next(), rng.next()), Vec3(rng.next(), rng.next(), rng.next()));
    A.disc.setAllMobilityForces(s, f); A.disc.setAllBodyForces(s, F);
    sys.realize(s, Stage::Dynamics);
    bool zeroW = false;
    {   // known finding: FactorQTZ::solve leaves its result unset for a rank-0 (all-zero) matrix, so when the projected inverse mass matrix
        // G*M^-1*G' the library factors is exactly zero the multipliers are uninitialised memory (and udot = NaN if that memory happens to
        // hold NaN/Inf). Site predicate: calcProjectedMInv() == 0 exactly (e.g. constraints between two bodies welded to each other).
        Matrix W0; matter.calcProjectedMInv(s, W0);
        zeroW = W0.nrow() > 0 && refdyn::maxAbs(W0) == 0;
        if (zeroW && known("c08-qtz-rank0-multipliers-uninitialized")) { ctx.label("excluded:c08-qtz-rank0-multipliers-uninitialized"); ctx.label("set:zero-GMInvGt"); return; }
        if (zeroW) ctx.label("set:zero-GMInvGt");
    }
    try { HeapPoison poison; sys.realize(s, Stage::Acceleration); } catch (const std::exception& e) { ctx.reject("realize-acceleration-threw"); return; }
    const Vector udot = s.getUDot(), lam = s.getMultipliers(), udoterr = s.getUDotErr();
    const Vector fApp = sys.getMobilityForces(s, Stage::Dynamics); const Vector_<SpatialVec> FApp = sys.getRigidBodyForces(s, Stage::Dynamics);
    if (!pl.gravity) { for (int i = 0; i < nu; ++i) if (!ctx.check(fApp[i] == f[i], "applied mobility forces differ from the ones set")) return; }

    int mp = 0, mv = 0, ma = 0, nEnabled = 0; std::vector<consgen::Rows> rows(nc);
    for (int i = 0; i < nc; ++i) { rows[i] = consgen::rowsOf(m.cons[i], s); mp += rows[i].mp; mv += rows[i].mv; ma += rows[i].ma; if (!cm.cons[i].disabled) ++nEnabled; }
    const int mt = mp + mv + ma;
    if (!ctx.check(lam.size() == mt && udoterr.size() == mt && udot.size() == nu, "getMultipliers/getUDotErr/getUDot sizes " + I(lam.size()) + "/" + I(udoterr.size()) + "/" + I(udot.size()) + ", expected " + I(mt) + "/" + I(mt) + "/" + I(nu))) return;
    for (int i = 0; i < nc; ++i) if (cm.cons[i].disabled && !ctx.check(rows[i].mp + rows[i].mv + rows[i].ma == 0, "disabled constraint " + I(i) + " still owns constraint equations")) return;
    for (int i = 0; i < mt; ++i) if (!std::isfinite(lam[i])) { ctx.fail("multiplier " + I(i) + " is not finite (" + S(lam[i]) + ")"); return; }
    for (int i = 0; i < nu; ++i) if (!std::isfinite(udot[i])) { ctx.fail("udot[" + I(i) + "] is not finite"); return; }

    // ---- reference pieces
    auto J = refdyn::referenceJacobian(sys, matter, s); auto si = refdyn::bodyInertias(matter, s); auto V = refdyn::bodyVelocities(matter, s);
    Matrix Mref = refdyn::referenceM(J, si); std::vector<Real> evM; refdyn::symEig(Mref, evM);
    if (!(evM.front() > 0) || !(evM.back() / evM.front() < 1e8)) { ctx.reject("ill-conditioned-mass-matrix"); return; }
    const Real kappaM = evM.back() / evM.front();
    Matrix G(mt, nu); G = 0; Vector aerr0(mt); aerr0 = 0;
    if (mt) { matter.calcG(s, G); Vector z(nu); z = 0; matter.calcConstraintAccelerationErrors(s, z, aerr0); }
    Vector Gtl(nu); Gtl = 0; if (mt) matter.multiplyByGTranspose(s, lam, Gtl);
    const Real lamMax = mt ? maxAbsV(lam) : 0;

    // ---- classification of the enabled set
    enum Cls { NoCons, FullRank, DeficientConsistent, Inconsistent, IllConditioned, NullG } cls = NoCons; Real cond = 1, wl = 0;
    if (mt) {
        Matrix X(nu, mt); for (int i = 0; i < nu; ++i) for (int j = 0; j < mt; ++j) X(i, j) = G(j, i);
        if (!choleskySolve(Mref, X)) { ctx.reject("reference-M-not-SPD"); return; }
        Matrix W(mt, mt); for (int i = 0; i < mt; ++i) for (int j = 0; j < mt; ++j) { Real a = 0; for (int k = 0; k < nu; ++k) a += G(i, k) * X(k, j); W(i, j) = a; }
        for (int i = 0; i < mt; ++i) for (int j = i + 1; j < mt; ++j) W(i, j) = W(j, i) = 0.5 * (W(i, j) + W(j, i));
        for (int i = 0; i < mt; ++i) { Real a = 0; for (int j = 0; j < mt; ++j) a += std::abs(W(i, j) * lam[j]); wl = std::max(wl, a); }   // size of the multipliers' effect on the acceleration errors
        std::vector<Real> ev; Matrix Q; jacobiEig(W, ev, Q);
        Real lmax = 0; for (Real e : ev) lmax = std::max(lmax, e);
        if (refdyn::maxAbs(G) < 1e-10) cls = NullG;
        else {
            bool gapOK = true, deficient = false; Real lminPos = lmax;
            for (Real e : ev) { Real r = e / lmax; if (r > 1e-8) lminPos = std::min(lminPos, e); else if (r < 1e-13) deficient = true; else gapOK = false; }
            cond = lmax / lminPos;
            if (!gapOK || cond * kappaM > 1e10) cls = IllConditioned;
            else if (!deficient) cls = FullRank;
            else {   // is the bias inside range(G) = range(W)?
                Real out = 0; for (int k = 0; k < mt; ++k) if (ev[k] / lmax < 1e-13) { Real c = 0; for (int i = 0; i < mt; ++i) c += Q(i, k) * aerr0[i]; out = std::max(out, std::abs(c)); }
                cls = out <= 1e-12 * (1 + maxAbsV(aerr0)) ? DeficientConsistent : Inconsistent;    // (100x below the udoterr tolerance: a slightly inconsistent set leaves exactly this residual)
            }
        }
    }
    static const char* clsName[] = {"no-enabled-equations", "full-rank", "rank-deficient-consistent", "inconsistent", "ill-conditioned", "null-G"};
    ctx.label(std::string("set:") + clsName[cls]);
    {   bool diffClass = false, anyDisabled = nEnabled < nc; int first = -1; for (int i = 0; i < nc; ++i) if (!cm.cons[i].disabled) { int c = consgen::typeInfo(cm.cons[i].type).cls; if (first < 0) first = c; else if (c != first) diffClass = true; }
        ctx.nontrivial(nEnabled >= 2 && (diffClass || cls == DeficientConsistent) && anyDisabled);
        if (anyDisabled) ctx.label("some-disabled"); if (diffClass) ctx.label("mixed-classes"); }

    // known finding: every enabled equation has a null row of G (constraints between relatively immobile bodies): the
    // relative rank threshold of the multiplier solve sees pure noise as full rank.
    const bool nullSet = cls == NullG;
    const bool blowup = cls == NullG && !zeroW && known("c08-null-constraint-multiplier-blowup");
    if (blowup) ctx.label("excluded:c08-null-constraint-multiplier-blowup");

    // ---- a set whose G and bias vanish imposes nothing: its constraint force G'*lambda must vanish whatever lambda is
    if (nullSet && !blowup) {
        Real fsc = 1 + maxAbsV(fApp); for (int b = 0; b < NB; ++b) fsc = std::max(fsc, FApp[b][0].norm() + FApp[b][1].norm());
        Vector udFree; Vector_<SpatialVec> Afree; matter.calcAccelerationIgnoringConstraints(s, fApp, FApp, udFree, Afree);
        for (int i = 0; i < nu; ++i) if (!within("null-G-udot", std::abs(udot[i] - udFree[i]), 1e-8 * kappaM * (1 + maxAbsV(udFree)))) { ctx.fail("every enabled constraint row of G is null (max|G| = " + S(refdyn::maxAbs(G)) + ", max|bias| = " + S(maxAbsV(aerr0)) + ") but udot[" + I(i) + "] = " + S(udot[i]) + " differs from the unconstrained acceleration " + S(udFree[i]) + " (max|lambda| = " + S(lamMax) + ")"); return; }
        for (int i = 0; i < nu; ++i) if (!within("null-G-force", std::abs(Gtl[i]), 1e-8 * fsc)) { ctx.fail("every enabled constraint row of G is null (max|G| = " + S(refdyn::maxAbs(G)) + ", max|bias| = " + S(maxAbsV(aerr0)) + ") but the constraint force G'*lambda[" + I(i) + "] = " + S(Gtl[i]) + " with max|lambda| = " + S(lamMax)); return; }
    }
    // ---- (R) Newton's law with the reported multipliers
    auto forceScale = [&](const std::vector<SpatialVec>& Acc) { Real sc = 0;
        for (int i = 0; i < nu; ++i) { Real a = std::abs(fApp[i]); for (int j = 0; j < mt; ++j) a += std::abs(G(j, i) * lam[j]);
            for (int b = 1; b < NB; ++b) { SpatialVec ma = refdyn::mul(si[b], Acc[b]), gy = refdyn::gyro(si[b], V[b]); a += J[i][b][0].norm() * (ma[0].norm() + gy[0].norm() + FApp[b][0].norm()) + J[i][b][1].norm() * (ma[1].norm() + gy[1].norm() + FApp[b][1].norm()); }
            sc = std::max(sc, a); } return sc + 1e-300; };
    if (!blowup) {
        const Real hFD = 1e-3 / std::max(1.0, maxAbsV(udot) / 10);   // keep |udot|*h small: large accelerations come from small inertias
        std::vector<SpatialVec> Aref = refdyn::referenceAccelerations(sys, matter, s, udot, hFD);
        Vector rref = refdyn::referenceResidual(J, si, V, Aref, FApp, fApp);
        const Real sc = forceScale(Aref), UU = 1 + maxAbsV(u0) * maxAbsV(u0);
        for (int i = 0; i < nu; ++i) if (!within("newton-kane", std::abs(rref[i] + Gtl[i]), 3e-7 * sc * UU)) { ctx.fail("M_ref*udot + inertial_ref - f_applied + G'*lambda = " + S(rref[i] + Gtl[i]) + " at mobility " + I(i) + " (scale " + S(sc) + ", set " + clsName[cls] + ", max|lambda| " + S(lamMax) + ")"); return; }
        Vector res; matter.calcResidualForce(s, fApp, FApp, udot, lam, res);
        for (int i = 0; i < nu; ++i) if (!within("calcResidualForce", std::abs(res[i]), 1e4 * Eps * nu * kappaM * sc)) { ctx.fail("calcResidualForce(f, F, udot, lambda)[" + I(i) + "] = " + S(res[i]) + " (scale " + S(sc) + ", set " + clsName[cls] + ")"); return; }
        // body accelerations in the state are the ones of udot
        for (int b = 0; b < NB; ++b) { const SpatialVec& Ab = matter.getMobilizedBody(MobilizedBodyIndex(b)).getBodyAcceleration(s); Real d = (Ab[0] - Aref[b][0]).norm() + (Ab[1] - Aref[b][1]).norm();
            if (!within("body-acc", d, 1e-7 * (1 + Aref[b][0].norm() + Aref[b][1].norm()) * UU)) { ctx.fail("body " + I(b) + " acceleration in the state differs from d/dt of its reported velocity at the reported udot by " + S(d)); return; } }
    }
    // ---- (V) acceleration constraints
    if (mt) {
        Vector ae; matter.calcConstraintAccelerationErrors(s, udot, ae);
        const Real asc = 1 + maxAbsV(aerr0) + [&] { Real a = 0; for (int i = 0; i < mt; ++i) { Real r = 0; for (int j = 0; j < nu; ++j) r += std::abs(G(i, j) * udot[j]); a = std::max(a, r); } return a; }();
        for (int i = 0; i < mt; ++i) if (!within("udoterr=aerr(udot)", std::abs(ae[i] - udoterr[i]), 1e-10 * asc)) { ctx.fail("getUDotErr[" + I(i) + "]=" + S(udoterr[i]) + " != calcConstraintAccelerationErrors(getUDot)=" + S(ae[i])); return; }
        if ((cls == FullRank || cls == DeficientConsistent) && !blowup) {
            ctx.label(cls == FullRank ? "demanded:udoterr=0/full-rank" : "demanded:udoterr=0/redundant-consistent");
            for (int i = 0; i < mt; ++i) { if (!within("udoterr=0", std::abs(udoterr[i]), (1e-10 + 1e-13 * cond * kappaM) * (asc + wl))) {
                int ow = -1; for (int c = 0; c < nc; ++c) { const consgen::Rows& r = rows[c]; if ((r.mp && i >= r.px0 && i < r.px0 + r.mp) || (r.mv && i >= r.vx0 && i < r.vx0 + r.mv) || (r.ma && i >= r.ax0 && i < r.ax0 + r.ma)) ow = c; }
                ctx.fail("consistent constraint set (" + std::string(clsName[cls]) + ", cond(G M^-1 G') = " + S(cond) + ") but getUDotErr[" + I(i) + "] = " + S(udoterr[i]) + " (constraint " + I(ow) + (ow >= 0 ? std::string(" ") + consgen::consName(cm.cons[ow].type) : "") + ", scale " + S(asc) + ")"); return; } }
        }
    }
    // ---- (V) power
    if (mt && !blowup) {
        Real P = matter.calcConstraintPower(s), Psum = 0, ref = 0, psc = 0; bool homogeneous = true;
        for (int i = 0; i < nc; ++i) if (!cm.cons[i].disabled) { Psum += m.cons[i].calcPower(s); if (!cm.cons[i].homogeneousInU()) homogeneous = false; }
        for (int i = 0; i < mt; ++i) for (int j = 0; j < nu; ++j) { ref -= lam[i] * G(i, j) * s.getU()[j]; psc += std::abs(lam[i] * G(i, j) * s.getU()[j]); }
        {   // the power is a sum over bodies of force.velocity products: its rounding error scales with those products
            Vector_<SpatialVec> bf; Vector mf; matter.calcConstraintForcesFromMultipliers(s, lam, bf, mf);
            for (int b = 0; b < NB; ++b) psc += bf[b][0].norm() * V[b][0].norm() + bf[b][1].norm() * V[b][1].norm();
            for (int i = 0; i < nu; ++i) psc += std::abs(mf[i] * s.getU()[i]); }
        // ... and the reference -lambda.(G u) inherits the rounding noise of calcG (~eps x lever arms) amplified by |lambda|
        const Real tolP = 1e-10 * (1 + psc) * (mt + nu) + 1e-13 * lamMax * (1 + refdyn::maxAbs(G) + maxAbsV(aerr0)) * (1 + maxAbsV(s.getU())) * (mt + nu);
        if (!within("power=-lam.Gu", std::abs(P - ref), tolP)) { ctx.fail("calcConstraintPower = " + S(P) + " != -lambda.(G u) = " + S(ref)); return; }
        if (!within("power=sum", std::abs(P - Psum), tolP)) { ctx.fail("calcConstraintPower = " + S(P) + " != sum of Constraint::calcPower = " + S(Psum)); return; }
        if (homogeneous) { const Vector& verr = s.getUErr(); Real ln = 0, vn = 0; for (int i = 0; i < mt; ++i) ln += lam[i] * lam[i]; for (int i = 0; i < verr.size(); ++i) vn += verr[i] * verr[i];
            ctx.label(std::sqrt(vn) <= 1e-8 ? "power:workless-on-velocity-manifold" : "power:workless-off-manifold");
            if (!within("power-bound", std::abs(P), 10 * std::sqrt(ln) * std::sqrt(vn) + tolP)) { ctx.fail("workless constraints (velocity errors homogeneous in u) but |power| = " + S(std::abs(P)) + " > 10*|lambda|*|verr| = " + S(10 * std::sqrt(ln) * std::sqrt(vn))); return; } }
    }
    // ---- (M) twin model without the disabled constraints
    if (nEnabled < nc && !blowup) {
        consgen::Model tw; tw.spec = cm.spec; std::vector<int> map; for (int i = 0; i < nc; ++i) if (!cm.cons[i].disabled) { tw.cons.push_back(cm.cons[i]); map.push_back(i); }
        Sys B(tw, pl, false); consgen::BuiltCons& m2 = *B.m; State& s2 = m2.state; s2.updQ() = s.getQ(); s2.updU() = s.getU();
        B.disc.setAllMobilityForces(s2, f); B.disc.setAllBodyForces(s2, F);
        try { m2.sys.realize(s2, Stage::Acceleration); } catch (const std::exception&) { ctx.fail("the model without the disabled constraints throws at realize(Acceleration) while the model with them does not"); return; }
        if (!ctx.check(s2.getMultipliers().size() == mt && s2.getNQErr() == s.getNQErr() && s2.getNUErr() == s.getNUErr(), "model without the disabled constraints has a different number of constraint equations")) return;
        const bool unique = cls == FullRank || cls == DeficientConsistent || cls == NoCons;
        if (unique) {
            const Real usc = 1 + maxAbsV(udot), tolU = (1e-10 + 1e-14 * cond * kappaM) * usc * kappaM;
            for (int i = 0; i < nu; ++i) if (!within("twin-udot", std::abs(s2.getUDot()[i] - udot[i]), tolU)) { ctx.fail("udot[" + I(i) + "] = " + S(udot[i]) + " with disabled constraints present, " + S(s2.getUDot()[i]) + " with them absent"); return; }
            Vector Gtl2(nu); Gtl2 = 0; if (mt) m2.matter.multiplyByGTranspose(s2, s2.getMultipliers(), Gtl2);
            const Real fsc = 1 + maxAbsV(Gtl) + maxAbsV(fApp);
            for (int i = 0; i < nu; ++i) if (!within("twin-Gtl", std::abs(Gtl2[i] - Gtl[i]), (1e-9 + 1e-14 * cond * kappaM) * fsc * kappaM)) { ctx.fail("constraint force G'*lambda[" + I(i) + "] = " + S(Gtl[i]) + " with disabled constraints present, " + S(Gtl2[i]) + " with them absent"); return; }
            if (cls == FullRank) for (size_t k = 0; k < map.size(); ++k) { Vector a = m.cons[map[k]].getMultipliersAsVector(s), b = m2.cons[k].getMultipliersAsVector(s2);
                if (!ctx.check(a.size() == b.size(), "multiplier count of constraint " + I(map[k]) + " differs between the two models")) return;
                for (int i = 0; i < a.size(); ++i) if (!within("twin-lambda", std::abs(a[i] - b[i]), (1e-9 + 1e-13 * cond * kappaM) * (1 + lamMax))) { ctx.fail("multiplier " + I(i) + " of constraint " + I(map[k]) + " = " + S(a[i]) + " with disabled constraints present, " + S(b[i]) + " with them absent"); return; } }
            Vector_<SpatialVec> R1, R2; matter.calcMobilizerReactionForces(s, R1); m2.matter.calcMobilizerReactionForces(s2, R2);
            Real rsc = 1; for (int b = 0; b < NB; ++b) rsc = std::max(rsc, R1[b][0].norm() + R1[b][1].norm());
            for (int b = 0; b < NB; ++b) if (!within("twin-reactions", (R1[b][0] - R2[b][0]).norm() + (R1[b][1] - R2[b][1]).norm(), (1e-9 + 1e-14 * cond * kappaM) * rsc * kappaM)) { ctx.fail("mobilizer reaction of body " + I(b) + " differs between the model with disabled constraints and the model without them by " + S((R1[b][0] - R2[b][0]).norm() + (R1[b][1] - R2[b][1]).norm())); return; }
        }
    }
    // ---- (M) same-State history: the State judged above has been realized to Acceleration and queried through many operators. Now change
    // ONLY u (then only q, then only t) in that very State, realize again and compare everything C08 judges with a brand new State of a
    // brand new copy of the system set to the identical (t,q,u) and forces: a cache entry that is not invalidated by the change shows up as
    // a difference (the computations are otherwise the same operations in the same order: observed bit-identical, tolerance 1e-12).
    if (!blowup && !ctx.failed) {
        Sys C(cm, pl, true); const State pristine = C.m->state;      // realized to Model stage only
        struct Snap { Vector qerr, uerr, udoterr, lam, udot, qdot, qdotdot; std::vector<Vector_<SpatialVec>> bf; std::vector<Vector> mf; Real power = 0; bool threw = false; };
        auto take = [&](const MultibodySystem& sy, consgen::BuiltCons& mm, State& x) { Snap o;
            try { HeapPoison poison; sy.realize(x, Stage::Acceleration); } catch (const std::exception&) { o.threw = true; return o; }
            o.qerr = x.getQErr(); o.uerr = x.getUErr(); o.udoterr = x.getUDotErr(); o.lam = x.getMultipliers(); o.udot = x.getUDot(); o.qdot = x.getQDot(); o.qdotdot = x.getQDotDot();
            for (int i = 0; i < nc; ++i) { Vector_<SpatialVec> b; Vector f2; if (!cm.cons[i].disabled) mm.cons[i].getConstraintForcesAsVectors(x, b, f2); o.bf.push_back(b); o.mf.push_back(f2); }
            o.power = mm.matter.calcConstraintPower(x); return o; };
        auto same = [](Real a, Real b) { return a == b || (std::isnan(a) && std::isnan(b)) || std::abs(a - b) <= 1e-12 * (1 + std::abs(a) + std::abs(b)); };
        auto cmpV = [&](const char* step, const char* what, const Vector& a, const Vector& b) { if (a.size() != b.size()) { ctx.fail(std::string(step) + ": " + what + " has " + I(a.size()) + " entries in the re-used State and " + I(b.size()) + " in a fresh one"); return false; }
            for (int i = 0; i < a.size(); ++i) if (!same(a[i], b[i])) { ctx.fail(std::string(step) + ": " + what + "[" + I(i) + "] = " + S(a[i]) + " in the State that was realized before the change, " + S(b[i]) + " in a fresh State with the same (t,q,u) and forces: a stale cache entry survives the change"); return false; } return true; };
        auto step = [&](const char* name) {     // s already modified by the caller
            State fr = pristine; fr.setTime(s.getTime()); fr.updQ() = s.getQ(); fr.updU() = s.getU();
            C.disc.setAllMobilityForces(fr, f); C.disc.setAllBodyForces(fr, F);
            Snap a = take(sys, m, s), b = take(C.m->sys, *C.m, fr);
            if (a.threw != b.threw) { ctx.fail(std::string(name) + ": realize(Acceleration) " + (a.threw ? "throws" : "succeeds") + " on the re-used State but " + (b.threw ? "throws" : "succeeds") + " on a fresh State with the same (t,q,u)"); return false; }
            if (a.threw) { ctx.label(std::string(name) + ":both-threw"); return false; }
            ctx.label(name);
            if (!cmpV(name, "getQErr", a.qerr, b.qerr) || !cmpV(name, "getUErr", a.uerr, b.uerr) || !cmpV(name, "getUDotErr", a.udoterr, b.udoterr) || !cmpV(name, "getMultipliers", a.lam, b.lam)
                || !cmpV(name, "getUDot", a.udot, b.udot) || !cmpV(name, "getQDot", a.qdot, b.qdot) || !cmpV(name, "getQDotDot", a.qdotdot, b.qdotdot)) return false;
            for (int i = 0; i < nc; ++i) { if (!cmpV(name, ("mobility forces of constraint " + I(i)).c_str(), a.mf[i], b.mf[i])) return false;
                if (a.bf[i].size() != b.bf[i].size()) { ctx.fail(std::string(name) + ": constrained body force count differs"); return false; }
                for (int k = 0; k < a.bf[i].size(); ++k) for (int c = 0; c < 2; ++c) for (int d = 0; d < 3; ++d) if (!same(a.bf[i][k][c][d], b.bf[i][k][c][d])) { ctx.fail(std::string(name) + ": body force " + I(k) + " of constraint " + I(i) + " (" + consgen::consName(cm.cons[i].type) + ") = " + S(a.bf[i][k][c][d]) + " in the re-used State, " + S(b.bf[i][k][c][d]) + " in a fresh State with the same (t,q,u)"); return false; } }
            if (!same(a.power, b.power)) { ctx.fail(std::string(name) + ": calcConstraintPower = " + S(a.power) + " in the re-used State, " + S(b.power) + " in a fresh one"); return false; }
            return true; };
        bool go = true;
        {   Vector un(nu); for (int i = 0; i < nu; ++i) un[i] = 2 * rng.next(); s.updU() = un; go = step("history:u-only"); }
        if (go) { Vector qn = s.getQ(); for (int i = 0; i < qn.size(); ++i) qn[i] += 0.05 * rng.next(); s.updQ() = qn; go = step("history:q-only"); }
        bool timeDep = false; for (auto& c : cm.cons) if (!c.disabled && (c.type == consgen::PrescribedMotion || (c.type == consgen::Custom && c.flavour == 0))) timeDep = true;
        if (go && timeDep) { s.setTime(s.getTime() + 0.37); step("history:t-only"); }
    }
}

// ---- redundancy classes by construction
void addRedundancy(consgen::Model& cm, int kind, pbt::Ctx& ctx) {
    if (cm.cons.empty()) return;
    if (kind == Duplicate || kind == DuplicateLast) { consgen::ConsSpec c = kind == Duplicate ? cm.cons.front() : cm.cons.back(); c.disabled = false; (kind == Duplicate ? cm.cons.front() : cm.cons.back()).disabled = false; cm.cons.push_back(c); ctx.label("redundant:duplicated-constraint"); }
    else if (kind == WeldPlusBall) {
        for (auto& c : cm.cons) if (c.twoBody() && c.type != consgen::NoSlip1D) { consgen::ConsSpec w = c, b = c; w.type = consgen::Weld; b.type = consgen::Ball; w.disabled = b.disabled = false; w.flavour = b.flavour = 0; c = w; cm.cons.push_back(b); ctx.label("redundant:weld+ball-same-pair"); return; }
    } else if (kind == ImmobilePair) {
        const int nb = cm.spec.nBodies(); mbgen::BodySpec& last = cm.spec.bodies[nb - 1];
        for (auto& c : cm.cons) if (c.twoBody()) {
            last.type = mbgen::Weld; last.reversed = false;
            // coordinate-based constraints must not refer to the now immobile body
            for (auto& d : cm.cons) if (!d.twoBody()) for (int k = 0; k < 3; ++k) if (d.mob[k] == nb) { d.type = consgen::Ball; d.b1 = 0; d.b2 = nb; }
            c.b1 = last.parent; c.b2 = nb; if (c.type == consgen::NoSlip1D) c.b3 = last.parent; c.disabled = false; ctx.label("redundant:relatively-immobile-pair"); return; }
    }
}

Plan readPlan(pbt::Reader& g) {
    Plan p; p.seed = g.w(); p.t0 = g.real(-2, 2); if (p.t0 == 0) p.t0 = 0.7; p.fMag = g.logreal(0.01, 100); p.FMag = g.logreal(0.01, 100);
    p.redundancy = g.pick(8); p.fitted = g.boolean(); p.project = g.boolean(); p.gravity = g.boolean(); p.routeBits = g.w(); return p;
}

void property(const pbt::Tape& t, pbt::Ctx& ctx) {
    pbt::Reader g(t[0]);
    mbgen::Options mo; mo.maxBodies = 6;
    consgen::Options co; co.maxCons = 5; co.allowDisabled = true;
    consgen::Model cm = consgen::decode(t, 1, (int)t.size() - 1, g, mo, co);
    Plan pl = readPlan(g);
    addRedundancy(cm, pl.redundancy, ctx);
    if (pl.fitted) consgen::fitToState(cm, pl.t0);
    if (ctx.wantDesc) { cm.describe(ctx.desc); ctx.desc << "time=" << pl.t0 << " fMag=" << pl.fMag << " FMag=" << pl.FMag << " redundancy=" << pl.redundancy << " fitted=" << pl.fitted << " project=" << pl.project << " gravity=" << pl.gravity << " routeBits=" << pl.routeBits << " seed=" << pl.seed << "\n"; }
    consgen::labelModel(ctx, cm);
    judge(ctx, cm, pl, true);
}

// ---- directed reproducer: a Rod from the centre of a Pin joint on Ground to a station of the pinned body: the distance cannot
// change whatever the coordinates do, so the row of G and the bias are zero up to rounding noise
void directedNull(pbt::Ctx& ctx) {
    consgen::Model cm; mbgen::BodySpec a; a.parent = 0; a.type = mbgen::Pin; a.q[0] = -2.9285273104906082; a.u[0] = -2; cm.spec.bodies.push_back(a);
    consgen::ConsSpec c; c.type = consgen::Rod; c.b1 = 0; c.b2 = 1; c.p1 = Vec3(0); c.p2 = Vec3(.3, .5, .2); c.length = 0.3; cm.cons.push_back(c);
    Plan pl; pl.seed = 0; pl.fMag = 1; pl.FMag = 1;
    if (ctx.wantDesc) cm.describe(ctx.desc);
    judge(ctx, cm, pl, false);
}

// ---- directed reproducer: two PointInPlane constraints between a free body and a body welded to it: G is exactly zero
void directedZero(pbt::Ctx& ctx) {
    consgen::Model cm; mbgen::BodySpec a, b; a.parent = 0; a.type = mbgen::Free; a.q[0] = 1; a.q[4] = 0.3; a.u[0] = 0.4; a.u[1] = -0.3; a.u[2] = 0.2; a.u[3] = 0.1; a.com = Vec3(.1, .2, .3);
    b.parent = 1; b.type = mbgen::Weld; b.X_PF = Transform(Rotation(0.3, XAxis), Vec3(.5, 0, 0)); b.inKind = 2; b.com = Vec3(.2, 0, .1); cm.spec.bodies.push_back(a); cm.spec.bodies.push_back(b);
    consgen::ConsSpec c; c.type = consgen::PointInPlane; c.b1 = 1; c.b2 = 2; c.a1 = UnitVec3(Vec3(1, 2, 3)); c.height = 0.2; c.p2 = Vec3(.3, .1, -.2); cm.cons.push_back(c);
    c.a1 = UnitVec3(Vec3(-1, 1, 0.5)); c.p2 = Vec3(-.2, .4, .1); c.height = -0.1; cm.cons.push_back(c);
    Plan pl; pl.seed = 3; pl.gravity = true; pl.fMag = 1; pl.FMag = 1;
    if (ctx.wantDesc) cm.describe(ctx.desc);
    judge(ctx, cm, pl, false);
}

pbt::Config config() {
    pbt::Config c; c.prop = "C08"; c.K = consgen::K; c.minUnits = 2;
    c.quick = {1000, 6000, 20, 30}; c.thorough = {6000, 40000, 24, 240};
    c.rule = "rapidcheck tape -> body units (mbgen: 1..6 bodies, 18 mobilizer types) and constraint units (consgen: 1..5 constraints of the 19 built-in types, each disabled with probability 1/4, the status reached through setDisabledByDefault or through enable()/disable() on the State) + a redundancy class by construction (none / duplicated constraint / Weld+Ball on one pair / constraint between two bodies welded together), parameters random or fitted to the state, state optionally projected (1e-9), applied mobility forces and body wrenches (log-uniform magnitudes) and optional gravity. Non-trivial: >= 2 enabled constraints of different holonomic class or a redundant consistent set, and at least one disabled constraint; distinct by tape hash.";
    c.assumptions = {"Kane reference: refdyn.h M_ref and 5-point differences (h=1e-3) of reported body velocities; tolerance 1e-7 x force scale x (1+|u|^2)",
                     "consistency of a constraint set is decided by my own eigen-analysis of G*M_ref^-1*G' (Cholesky + Jacobi): eigenvalue ratios > 1e-8 count as independent, < 1e-13 as dependent, anything between makes the set 'ill-conditioned' (only Newton's law is demanded); the library's own rank threshold is m*eps^(3/4) ~ 1e-11",
                     "udoterr tolerance (1e-11 + 1e-14*cond(G M^-1 G')*kappa(M)) x scale"};
    c.directed = {{"rod-from-pin-centre-to-body-station", "c08-null-constraint-multiplier-blowup", directedNull},
                  {"two-pointinplane-between-welded-bodies", "c08-qtz-rank0-multipliers-uninitialized", directedZero}};
    c.requiredLabels = {"set:full-rank", "set:rank-deficient-consistent", "set:inconsistent", "set:null-G", "set:zero-GMInvGt", "history:u-only", "history:q-only", "history:t-only", "some-disabled", "mixed-classes", "redundant:duplicated-constraint", "redundant:weld+ball-same-pair", "redundant:relatively-immobile-pair",
                        "power:workless-on-velocity-manifold", "demanded:udoterr=0/full-rank", "demanded:udoterr=0/redundant-consistent"};
    return c;
}
} // namespace

#ifdef PBT_FUZZ
PBT_MAIN(config(), property)
#else
// glibc serves small blocks from its per-thread cache without applying M_PERTURB, which would leave the heap poisoning above ineffective
// for exactly the small result vectors it is meant for: restart once with the cache switched off (same pid, same arguments).
int main(int argc, char** argv) {
    const char* t = getenv("GLIBC_TUNABLES");
    if (!t || !strstr(t, "tcache_count=0")) { setenv("GLIBC_TUNABLES", "glibc.malloc.tcache_count=0", 1); execv("/proc/self/exe", argv); }
    return pbt::run(argc, argv, config(), property);
}
#endif
