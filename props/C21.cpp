// C21 -- Integrators keep constrained states on the manifold (DESIGN.md 5, C21).
// Domain: constrained mbgen trees (consgen.h: every built-in constraint type incl. loops, nonholonomic and
// quaternion bodies), gravity + a spring so things move, initial state assembled with project(); all nine
// integrators; accuracy, constraint tolerance, norm kind (RMS / infinity), project-every-step, interpolation,
// interpolated-state projection generated; a report grid finer than the steps (most returned states are
// interpolated) or return-every-step.
// Oracle (V, every returned state): the documented weighted norms
//   max( norm(qerr[0:mp] .* qerrWeights), norm(quaternion rows of qerr) )  and  norm(uerr .* uerrWeights)
// (RMS or infinity, the one in use) are <= getConstraintToleranceInUse(); for interpolated states only when
// interpolated-state projection is on (the default); every quaternion |q| = 1 within the tolerance.
#include "pbt.h"
#include "mbgen.h"
#include "consgen.h"
#include "refdyn.h"
using namespace SimTK;

namespace {
std::string S(double a) { return pbt::str(a); }
enum IntegKind { EE = 0, RK2, RK3, RKF, RKM, Verlet, SEE, SEE2, CPodes, NumInteg };
const char* integName(int k) { static const char* n[] = {"ExplicitEuler", "RungeKutta2", "RungeKutta3", "RungeKuttaFeldberg", "RungeKuttaMerson", "Verlet", "SemiExplicitEuler", "SemiExplicitEuler2", "CPodes"}; return n[k]; }
Integrator* makeIntegrator(int k, const System& sys) {
    switch (k) {
        case EE: return new ExplicitEulerIntegrator(sys); case RK2: return new RungeKutta2Integrator(sys); case RK3: return new RungeKutta3Integrator(sys);
        case RKF: return new RungeKuttaFeldbergIntegrator(sys); case RKM: return new RungeKuttaMersonIntegrator(sys); case Verlet: return new VerletIntegrator(sys);
        case SEE: return new SemiExplicitEulerIntegrator(sys, 0.002); case SEE2: return new SemiExplicitEuler2Integrator(sys); default: return new CPodesIntegrator(sys);
    }
}
// Do-nothing triggered handler with a time-only witness sin(w (t - c)): forces the integrator to localize events
// inside steps (bisection probes, backed-up advanced states); returned states after an event are judged like any other.
struct TimeWitness : public TriggeredEventHandler {
    double w, c;
    TimeWitness(double w_, double c_) : TriggeredEventHandler(Stage::Time), w(w_), c(c_) {}
    Real getValue(const State& st) const override { return std::sin(w * (st.getTime() - c)); }
    void handleEvent(State&, Real, bool&) const override {}
};
Real nrm(const Vector& v, bool inf) { if (!v.size()) return 0; return inf ? v.normInf() : v.normRMS(); }

void property(const pbt::Tape& t, pbt::Ctx& ctx) {
    pbt::Reader g(t[0]);
    mbgen::Options mo; mo.maxBodies = 5; mo.uRange = 1.0; mo.allowUnnormalizedQuat = false;
    consgen::Options co; co.maxCons = 3; co.allowNonlinearCouplers = false;   // nonlinear couplers can turn singular along a trajectory
    consgen::Model cm = consgen::decode(t, 1, (int)t.size() - 1, g, mo, co);
    // constraint PARAMETERS adjusted so that the generated state is (nearly) assembled; a rod whose end points
    // (nearly) coincide in that state cannot be fitted (length >= 0.3 is kept), so its second station is moved first
    for (auto& c : cm.cons) if (c.type == consgen::Rod || (c.type == consgen::Custom && c.flavour == 1)) { c.p2 += Vec3(0.45, 0.2, -0.3); c.p1 += Vec3(-0.3, 0.25, 0.4); }
    consgen::fitToState(cm, 0.0);
    const int integ = g.pick(NumInteg);
    const double acc = std::pow(10.0, -2.0 - 3.0 * g.unit());
    const bool inf = g.boolean(), setTol = g.boolean(), projEvery = g.boolean(), interp = !g.chance(1, 4), everyStep = g.chance(1, 4);
    const int projMode = g.pick(4);            // 0,1: option left at its documented default ("true"); 2: set true; 3: set false
    const bool projInterp = projMode != 3;
    const double tolFactor = g.logreal(0.01, 1);
    const double T = 0.15 + 0.35 * g.unit(), dt = 0.004 + 0.03 * g.unit();
    // (CPodes does its own root finding and has several recorded event findings under C22; its constrained
    // report states are the known finding below. Triggered events are generated for the other eight integrators.)
    const bool withEvents = g.boolean() && integ != CPodes; const double evW = 20 + 60 * g.unit(), evC = 0.01 + 0.05 * g.unit();   // witness zero every pi/w = 0.04..0.16
    Vec3 grav(g.real(-10, 10), g.real(-10, 10), g.real(-10, 10));
    // (drawn last so that older tapes keep their meaning; word 0 = feature off) a fixed step size for any non-CPodes method -- the
    // step then cannot be reduced, which is when a non-converged step is accepted -- and a velocity-proportional damper that
    // makes the implicit iterations of Verlet / SemiExplicitEuler2 slow to converge (contraction ~ h*c/(2m))
    const bool fixedStep = g.pick(4) == 3 && integ != CPodes; const double hFix = 0.002 * std::pow(10.0, g.unit());   // 0.002 .. 0.02
    const int dampMode = g.pick(3); const double dampC = dampMode == 2 ? g.logreal(20, 400) : 2.0;
    if (ctx.wantDesc) { ctx.desc << "fixedStep=" << (fixedStep ? hFix : 0.0) << " damper=" << (dampMode ? dampC : 0.0) << "\n"; }
    if (ctx.wantDesc) { cm.describe(ctx.desc); ctx.desc << "integrator=" << integName(integ) << " events=" << withEvents << " accuracy=" << acc << " infNorm=" << inf << " consTol=" << (setTol ? acc * tolFactor : -1) << " projectEveryStep=" << projEvery
        << " allowInterpolation=" << interp << " projectInterpolated=" << (projMode < 2 ? "default" : projInterp ? "true" : "false") << " returnEveryStep=" << everyStep << " T=" << T << " dt=" << dt << " gravity=" << grav << "\n"; }
    consgen::labelModel(ctx, cm);
    ctx.label(std::string("integ:") + integName(integ));
    // Feasibility precondition: a time-varying (or arbitrary) value imposed on one QUATERNION component, or on a
    // coordinate whose range is bounded, can leave the reachable set (|q_i| <= 1) -- an infeasible model, outside the
    // property ("consistent constraints"). Coordinate constraints on mobilizers with qdot != u are not simulated.
    for (auto& c : cm.cons) if (c.qOnNonIdentityN) { ctx.reject("coordinate-constraint-on-quaternion-mobilizer"); return; }
    // the synthetic coordinate-relation Custom constraint (consgen flavour 0: c1*qB^2/2, c4*qB*uB, c7*uB^2 terms) loses rank
    // or feasibility along a trajectory; it exists to test derivative bookkeeping (C07), not simulation
    for (auto& c : cm.cons) if (c.type == consgen::Custom && c.flavour == 0) { ctx.reject("synthetic-custom-constraint"); return; }

    consgen::BuiltCons m(cm);
    Force::UniformGravity(m.forces, m.matter, grav);
    if (m.mb.size() >= 2) Force::TwoPointLinearSpring(m.forces, m.mb[0], Vec3(0.3, 0.2, -0.1), m.mb.back(), Vec3(0.1, 0, 0.2), 5.0, 0.7);
    if (dampMode) { Force::GlobalDamper(m.forces, m.matter, dampC); ctx.label(dampMode == 2 ? "damper:stiff" : "damper:mild"); }
    m.forces.setNumberOfThreads(1);
    if (withEvents) { m.sys.addEventHandler(new TimeWitness(evW, evC)); ctx.label("with-triggered-events"); }
    m.finish(cm.spec); m.setState(cm.spec);
    State& s = m.state;
    if (s.getNU() == 0) { ctx.reject("nu=0"); return; }
    if (getenv("C21_DEBUG")) { m.sys.realize(s, Stage::Position); double n = s.getQErr().size() ? s.getQErr().normInf() : 0; char b[64]; snprintf(b, sizeof b, "dbg:qerr0:1e%d", n > 0 ? (int)std::floor(std::log10(n)) : -99); ctx.label(b);
        if (n > 1e-6) for (auto& c : cm.cons) ctx.label(std::string("dbg:bad:") + consgen::consName(c.type)); }
    try { m.sys.realize(s, Stage::Position); m.sys.project(s, 1e-9); }
    catch (const std::exception& e) { ctx.reject("assembly-failed"); if (getenv("C21_DEBUG")) { std::string w = e.what(); size_t p = w.find("Exception type"); ctx.label("dbg:" + w.substr(w.size() > 150 ? w.size() - 150 : 0)); } return; }
    {   // the property is about consistent, independent constraint sets: a constraint whose rows of G vanish or
        // duplicate others (e.g. a Rod between two points that cannot move relative to each other) is a different,
        // already recorded defect class (C08 null-constraint multiplier blow-up). Full row rank of G is required.
        m.sys.realize(s, Stage::Velocity); Matrix G; m.matter.calcG(s, G);
// model lengths are O(1): an absolute floor catches vanishing rows, the ratio catches dependent ones
        if (G.nrow() > 0) { Matrix GGt = G * ~G; std::vector<Real> ev; refdyn::symEig(GGt, ev); if (!(ev.front() > 1e-12 * std::max(ev.back(), 1.0))) { ctx.reject("rank-deficient-constraints"); return; } }
    }
    { std::string why; m.sys.realize(s, Stage::Velocity); for (size_t i = 0; i < cm.cons.size(); ++i) if (consgen::degenerateAt(cm.cons[i], m, s, why)) { ctx.reject("degenerate-geometry"); return; } }

    std::unique_ptr<Integrator> in(makeIntegrator(integ, m.sys));
    in->setAccuracy(acc); in->setUseInfinityNorm(inf); if (setTol) in->setConstraintTolerance(acc * tolFactor);
    in->setProjectEveryStep(projEvery); in->setAllowInterpolation(interp); if (projMode >= 2) in->setProjectInterpolatedStates(projInterp); in->setReturnEveryInternalStep(everyStep);
    if (integ == EE) in->setFixedStepSize(0.002);
    else if (fixedStep) { in->setFixedStepSize(hFix); ctx.label("fixed-step"); ctx.label(std::string("fixed-step:") + integName(integ)); if (dampMode == 2) ctx.label("fixed-step+stiff-damper"); }
    in->setInternalStepLimit(2500);   // a run that needs more internal steps is ended (classified), never judged as failing
    int nStates = 0, nInterp = 0, nq4 = 0; bool holo = false, nonholo = false; double worst = 0;
    const bool cpodesKnown = integ == CPodes && ctx.isKnownListed("cpodes-report-states-off-manifold");
    try {
        std::unique_ptr<TimeStepper> ts;
        if (withEvents) { ts.reset(new TimeStepper(m.sys, *in)); ts->setReportAllSignificantStates(true); ts->initialize(s); }
        else in->initialize(s);
        int guard = 0, nEvents = 0;
        for (double tr = dt; guard < 4000; ++guard) {
            Integrator::SuccessfulStepStatus st = withEvents ? ts->stepTo(tr) : in->stepTo(tr);
            if (st == Integrator::ReachedEventTrigger || st == Integrator::StartOfContinuousInterval) nEvents++;
            const State& c = in->getState(); m.sys.realize(c, Stage::Velocity);
            const double tol = in->getConstraintToleranceInUse();
            const bool isInterp = in->isStateInterpolated();
            const int nqerr = c.getNQErr(), nuerr = c.getNUErr(); int nquat = m.matter.getNumQuaternionsInUse(c); const int mp = nqerr - nquat;
            Vector pe(mp), qe(nquat), ue(nuerr);
            for (int i = 0; i < mp; ++i) pe[i] = c.getQErr()[i] * c.getQErrWeights()[i];
            for (int i = 0; i < nquat; ++i) qe[i] = c.getQErr()[mp + i];
            for (int i = 0; i < nuerr; ++i) ue[i] = c.getUErr()[i] * c.getUErrWeights()[i];
            const double n1 = std::max(nrm(pe, inf), nrm(qe, inf)), n2 = nrm(ue, inf);
            // a fixed-step method without error control may legitimately blow up (non-finite state): that ends the case
            if ((!in->methodHasErrorControl() || fixedStep) && !(std::isfinite(n1) && std::isfinite(n2) && std::isfinite(c.getY().norm()))) { ctx.label("fixed-step-blow-up"); break; }
            nStates++; if (isInterp) nInterp++; nq4 = nquat; if (mp > 0) holo = true; if (nuerr > mp) nonholo = true;
            bool judged = !isInterp || projInterp;
            // known finding: CPodes returns CPODES-interpolated, unprojected states at report times and does not flag
            // them as interpolated. Site predicate: CPodes and the return is not an internal-step return.
            if (cpodesKnown && st != Integrator::TimeHasAdvanced) { if (ctx.known("cpodes-report-states-off-manifold")) judged = false; }
            if (judged) {
                worst = std::max(worst, std::max(n1, n2) / tol);
                if (!(n1 <= tol * (1 + 1e-6))) { ctx.fail(std::string(integName(integ)) + ": returned state at t=" + S(c.getTime()) + (isInterp ? " (interpolated)" : "") + " has position-constraint norm " + S(n1) + " > tolerance in use " + S(tol)); return; }
                if (!(n2 <= tol * (1 + 1e-6))) { ctx.fail(std::string(integName(integ)) + ": returned state at t=" + S(c.getTime()) + (isInterp ? " (interpolated)" : "") + " has velocity-constraint norm " + S(n2) + " > tolerance in use " + S(tol)); return; }
            }
            if (st == Integrator::EndOfSimulation) break;
            if (st == Integrator::ReachedStepLimit) { ctx.label("step-limit-reached"); break; }
            if (c.getTime() >= T) break;
            if (st == Integrator::ReachedReportTime || c.getTime() >= tr) tr += dt;
        }
    } catch (const std::exception& e) { ctx.reject("integrator-exception"); if (ctx.wantDesc) ctx.desc << "exception: " << std::string(e.what()).substr(0, 300) << "\n"; return; }
    if (withEvents) ctx.label("events-driven-through-TimeStepper");
    if (ctx.wantDesc) ctx.desc << "withEvents=" << withEvents << " states=" << nStates << " interpolated=" << nInterp << " worst norm/tol=" << worst << "\n";
    ctx.nontrivial(holo && (nq4 > 0 || nonholo) && nInterp > 0);
    if (nInterp > 0) ctx.label("interpolated-states-examined"); if (nonholo) ctx.label("nonholonomic"); if (nq4 > 0) ctx.label("quaternions"); if (holo) ctx.label("holonomic");
    ctx.label(worst < 0.1 ? "worst<0.1tol" : worst < 0.9 ? "worst<0.9tol" : "worst>=0.9tol");
}

pbt::Config config() {
    pbt::Config c; c.prop = "C21"; c.K = consgen::K; c.minUnits = 2;
    c.quick = {800, 3000, 12, 30}; c.thorough = {8000, 30000, 12, 300};
    c.rule = "rapidcheck tape -> consgen model (mbgen tree of 1..5 bodies + 1..3 constraints of any built-in type), uniform gravity + one spring + (2 of 3 cases) a GlobalDamper (mild c=2 or stiff c=20..400), assembled with project(1e-9); integrator in the nine built-ins; accuracy 1e-2..1e-5; fixed step size 0.002..0.02 in 1 of 4 non-CPodes cases; RMS/infinity norm; explicit or default constraint tolerance; project-every-step, interpolation, interpolated-state projection, return-every-step generated; report grid 0.004..0.034 over T = 0.15..0.5. Non-trivial: >= 1 holonomic constraint and (a quaternion in use or a nonholonomic constraint) and >= 1 interpolated state examined; distinct by tape hash.";
    c.assumptions = {"norm = max(norm(qerr[0:mp].*qerrWeights), norm(quaternion rows)) and norm(uerr.*uerrWeights), RMS or infinity as configured (the documented projection norm, probe Y/AD)", "assembly failures, integrator exceptions and state-dependent degenerate geometry are rejections", "interpolated states are judged only when interpolated-state projection is on"};
    c.requiredLabels = {"with-triggered-events", "integ:ExplicitEuler", "integ:CPodes", "integ:Verlet", "fixed-step:Verlet", "fixed-step+stiff-damper", "integ:RungeKuttaMerson", "interpolated-states-examined", "nonholonomic", "quaternions"};
    c.directed.push_back({"cpodes-report-state-off-manifold", "cpodes-report-states-off-manifold", [](pbt::Ctx& ctx) {
        // pendulum on a rod constraint, CPodes, report grid finer than the steps
        MultibodySystem sys; SimbodyMatterSubsystem matter(sys); GeneralForceSubsystem forces(sys); Force::UniformGravity(forces, matter, Vec3(0, -9.8, 0));
        Body::Rigid body(MassProperties(1, Vec3(0.1, 0, 0), Inertia(1, 1.1, 1.2)));
        MobilizedBody::Free b1(matter.Ground(), Transform(), body, Transform());
        Constraint::Rod(matter.Ground(), Vec3(0), b1, Vec3(0.2, 0, 0), 1.0); Constraint::PointInPlane(matter.Ground(), UnitVec3(0, 0, 1), 0, b1, Vec3(0));
        State s = sys.realizeTopology(); sys.realizeModel(s); b1.setQToFitTranslation(s, Vec3(0.8, -0.2, 0)); b1.setUToFitLinearVelocity(s, Vec3(0.3, 1, 0)); b1.setUToFitAngularVelocity(s, Vec3(1, 2, 3));
        sys.realize(s, Stage::Position); sys.project(s, 1e-9);
        CPodesIntegrator in(sys); in.setAccuracy(1e-3); in.initialize(s); double worst = 0;
        for (double tr = 0.01; tr <= 1.0; tr += 0.01) { in.stepTo(tr); const State& c = in.getState(); sys.realize(c, Stage::Velocity); double tol = in.getConstraintToleranceInUse();
            int nquat = matter.getNumQuaternionsInUse(c), mp = c.getNQErr() - nquat; Vector ue(c.getNUErr()); for (int i = 0; i < c.getNUErr(); ++i) ue[i] = c.getUErr()[i] * c.getUErrWeights()[i];
            Vector pe(mp); for (int i = 0; i < mp; ++i) pe[i] = c.getQErr()[i] * c.getQErrWeights()[i];
            worst = std::max(worst, std::max(pe.size() ? pe.normRMS() : 0.0, ue.size() ? ue.normRMS() : 0.0) / tol); }
        ctx.desc << "CPodes, accuracy 1e-3, 100 report states: worst constraint norm / tolerance in use = " << worst << "\n";
        ctx.check(worst <= 1 + 1e-9, "CPodes report states violate the constraint tolerance in use by a factor " + S(worst));
    }});
    c.caseTimeoutSecs = 300;
    return c;
}
} // namespace

PBT_MAIN(config(), property)
