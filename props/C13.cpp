// C13 -- Interaction forces obey Newton's third law (DESIGN.md section 5, C13).
// Domain: ONE interaction element on an mbgen tree at a random state:
//   contact family (gen/contactgen.h): HuntCrossleyForce (1-2 probes), ElasticFoundationForce, CompliantContactSubsystem
//     (Hertz circular/elliptical, elastic foundation, brick/half-space), SmoothSphereHalfSpaceForce,
//     ExponentialSpringForce -- posed around touching, designed approach / rebound / slip / spin velocities;
//   two-point family (gen/forcegen.h, read-only): TwoPointLinearSpring / Damper / ConstantForce, LinearBushing with random
//     attachment bodies (Ground and the same body twice included), stations, frames, parameters, all 18 mobilizers;
//   cable family: CableSpring over a CablePath (CableTrackerSubsystem) between two stations on random bodies (Ground and the same
//     body twice included) through 0-3 ViaPoint obstacles on random bodies, each enabled or disabled by default; taut and slack.
// Oracle (V): with the body forces (tau_b, F_b) at the body origins p_b (Ground row included) contributed by the element
// alone: sum F_b = 0, sum (tau_b + p_b x F_b) = 0, and no mobility forces.  p_b from the matter subsystem.
#include "pbt.h"
#include "mbgen.h"
#include "contactgen.h"
#include "forcegen.h"
#include <iostream>
#include <sstream>
using namespace SimTK;

namespace {
std::string S(double a) { return pbt::str(a); }
std::string S3(const Vec3& v) { return "(" + S(v[0]) + "," + S(v[1]) + "," + S(v[2]) + ")"; }

struct Verdict { bool active = false; int nLoaded = 0; bool groundLoaded = false; };
Verdict judge(pbt::Ctx& ctx, const std::string& name, const SimbodyMatterSubsystem& matter, const State& s, const Vector_<SpatialVec>& bf, const Vector& mf, Real floorScale = 0) {
    Verdict v; Vec3 F(0), M(0); Real scale = 0; const int nb = matter.getNumBodies();
    if (bf.size() != nb) { ctx.fail(name + ": body force vector has " + std::to_string(bf.size()) + " rows for " + std::to_string(nb) + " bodies"); return v; }
    for (MobilizedBodyIndex b(0); b < nb; ++b) {
        const Vec3 p = matter.getMobilizedBody(b).getBodyOriginLocation(s);
        F += bf[b][1]; M += bf[b][0] + p % bf[b][1];
        Real load = bf[b][0].norm() + bf[b][1].norm(); scale += bf[b][0].norm() + bf[b][1].norm() * (1 + p.norm());
        if (load > 0) { v.nLoaded++; if (b == 0) v.groundLoaded = true; }
    }
    v.active = scale > 0;
    for (int i = 0; i < mf.size(); ++i) if (mf[i] != 0) { ctx.fail(name + ": applies a mobility force (" + S(mf[i]) + " on u#" + std::to_string(i) + ")"); return v; }
    const Real tol = 1e-9 * scale + 1e-12 * floorScale;   // floorScale: magnitude of the forces before they cancel on one body (same body twice)
    if (F.norm() > tol) ctx.fail(name + ": total force over all bodies incl. Ground = " + S3(F) + " (scale " + S(scale) + ")");
    else if (M.norm() > tol) ctx.fail(name + ": total moment about the Ground origin over all bodies incl. Ground = " + S3(M) + " (scale " + S(scale) + ", total force " + S3(F) + ")");
    return v;
}

void contactCase(const pbt::Tape& t, pbt::Ctx& ctx) {
    static const unsigned mask = getenv("C13_KINDS") ? (unsigned)atoi(getenv("C13_KINDS")) : (1u << cgen::NumKinds) - 1;
    cgen::Scenario sc = cgen::decode(t, mask);
    if (ctx.wantDesc) sc.describe(ctx.desc);
    const std::string name = cgen::kindName(sc.kind);
    ctx.label("element:" + name);
    std::unique_ptr<cgen::Scene> sn = cgen::build(sc);
    State& s = sn->state(); sn->m->sys.realize(s, Stage::Dynamics);
    Vector_<SpatialVec> bf; Vector mf; sn->elementForces(s, bf, mf);
    Verdict v = judge(ctx, name, sn->m->matter, s, bf, mf);
    ctx.label(name + (v.active ? "/active" : "/inactive"));
    if (v.active) ctx.label(name + (sc.A == 0 ? "/with-Ground" : "/two-moving-bodies"));
    if (sc.meshMesh) ctx.label(std::string(sc.paramBase && sc.paramProbe ? "eff:mesh-mesh" : "eff:mesh-mesh(one mesh parametrised)") + (v.active ? "/active" : "/inactive"));
    if (v.active && sc.D >= 0 && v.nLoaded >= 3) ctx.label(name + "/three-bodies-loaded");
    // bodies that carry no surface of the element must not be loaded
    for (int b = 0; b <= sc.nb && !ctx.failed; ++b) if (b != sc.A && b != sc.B && b != sc.D && (bf[b][0].norm() + bf[b][1].norm()) != 0) ctx.fail(name + ": body " + std::to_string(b) + " carries no contact surface but receives a force");
    ctx.nontrivial(v.active && sc.A != 0);
}

void twoPointCase(const pbt::Tape& t, pbt::Ctx& ctx) {
    pbt::Reader g(t[0]); g.skip(32);
    mbgen::Options opt; opt.maxBodies = 6;
    mbgen::ModelSpec spec = mbgen::decodeModel(t, 3, (int)t.size() - 3, g, opt);
    forcegen::Options fo; fo.only({forcegen::TwoPointLinearSpring, forcegen::TwoPointLinearDamper, forcegen::TwoPointConstantForce, forcegen::LinearBushing}); fo.allowDisabledByDefault = false;
    forcegen::ForceSpec fs = forcegen::decodeForce(t[1], spec, fo);
    if (ctx.wantDesc) { fs.describe(ctx.desc); spec.describe(ctx.desc); }
    const std::string name = forcegen::kindName(fs.kind);
    ctx.label("element:" + name); mbgen::labelModel(ctx, spec);
    mbgen::Built m(spec); forcegen::Element e = forcegen::addToModel(m, spec, fs);
    m.finish(spec); m.setState(spec); State& s = m.state; m.sys.realize(s, Stage::Dynamics);
    if (forcegen::isTwoPoint(fs.kind)) {   // documented: direction undefined for coincident points
        Vec3 p1 = m.mb[fs.b1].findStationLocationInGround(s, fs.s1), p2 = m.mb[fs.b2].findStationLocationInGround(s, fs.s2);
        if ((p1 - p2).norm() < 1e-6) { ctx.reject("coincident-points"); return; }
    }
    Vector_<SpatialVec> bf; Vector_<Vec3> pf; Vector mf; e.force.calcForceContribution(s, bf, pf, mf);
    Real L = 1, vmax = 1; for (int b = 1; b <= spec.nBodies(); ++b) { L = std::max(L, m.mb[b].getBodyOriginLocation(s).norm() + 1.5); SpatialVec V = m.mb[b].getBodyVelocity(s); vmax = std::max(vmax, V[1].norm() + 1.5 * V[0].norm()); }
    Real floorScale = 0;
    switch (fs.kind) { case forcegen::TwoPointLinearSpring: floorScale = fs.k * (2 * L + fs.x0) * L; break; case forcegen::TwoPointLinearDamper: floorScale = fs.c * 2 * vmax * L; break; case forcegen::TwoPointConstantForce: floorScale = std::fabs(fs.f) * L; break;
        default: { Real sk = 0, sc = 0; for (int i = 0; i < 6; ++i) { sk += fs.bk[i]; sc += fs.bc[i]; } floorScale = (sk * (4 + 2 * L) + sc * 2 * vmax) * L; } }
    Verdict v = judge(ctx, name, m.matter, s, bf, mf, floorScale);
    ctx.label(name + (v.active ? "/active" : "/inactive"));
    ctx.label(name + (fs.b1 == fs.b2 ? "/same-body-twice" : (fs.b1 == 0 || fs.b2 == 0) ? "/with-Ground" : "/two-moving-bodies"));
    for (int b = 0; b <= spec.nBodies() && !ctx.failed; ++b) if (b != fs.b1 && b != fs.b2 && (bf[b][0].norm() + bf[b][1].norm()) != 0) ctx.fail(name + ": body " + std::to_string(b) + " is not an attachment body but receives a force");
    ctx.nontrivial(v.active && fs.b1 != fs.b2 && fs.b1 != 0 && fs.b2 != 0);
}

void cableCase(const pbt::Tape& t, pbt::Ctx& ctx) {
    struct Quiet { std::streambuf* old; std::ostringstream sink; Quiet() : old(std::cout.rdbuf()) { std::cout.rdbuf(sink.rdbuf()); } ~Quiet() { std::cout.rdbuf(old); } } quiet;   // CablePath.cpp prints unconditional debug text to cout
    pbt::Reader g(t[0]); g.skip(32);
    mbgen::Options opt; opt.maxBodies = 5;
    mbgen::ModelSpec spec = mbgen::decodeModel(t, 3, (int)t.size() - 3, g, opt);
    pbt::Reader r(t[2]); const int nb = spec.nBodies();
    uint32_t wa = r.w(), wb = r.w(), wv = r.w();
    int b1 = int(wa % uint32_t(nb + 1)), b2 = int(wb % uint32_t(nb + 1)); if (wa == 0 && wb == 0) { b1 = 0; b2 = nb; }
    if (b1 == b2 && (wb >> 8) % 8u != 0) b2 = (b1 + 1 + int((wb >> 11) % uint32_t(nb))) % (nb + 1);
    Vec3 s1 = mbgen::readVec3(r, -0.8, 0.8), s2 = mbgen::readVec3(r, -0.8, 0.8);
    if (b1 == b2 && (s1 - s2).norm() < 0.1) s2 = s1 + Vec3(0.3, 0.2, -0.1);
    // 0-3 via points, each on a random body (Ground, the end bodies and repeats included), each enabled or disabled by default
    struct Via { int body; Vec3 station; bool disabled; }; std::vector<Via> vias;
    const int nvia = int(wv % 4u);
    for (int i = 0; i < 3; ++i) { uint32_t w = r.w(); Vec3 st = mbgen::readVec3(r, -0.8, 0.8); if (i < nvia) vias.push_back({int((w >> 1) % uint32_t(nb + 1)), st, (w & 1u) != 0}); }
    Real k = r.logreal(0.1, 100), x0 = r.real(0, 2), c = r.chance(3, 4) ? 1.0 : 0.0; c *= r.uniform(0, 2);
    if (ctx.wantDesc) { ctx.desc.precision(17); ctx.desc << "CableSpring origin body " << b1 << " station " << s1 << ", termination body " << b2 << " station " << s2 << ", k=" << k << " slack length=" << x0 << " c=" << c << "\n";
        for (auto& v : vias) ctx.desc << "  via point on body " << v.body << " station " << v.station << (v.disabled ? " DISABLED by default" : "") << "\n"; spec.describe(ctx.desc); }
    const std::string name = "CableSpring"; ctx.label("element:" + name); mbgen::labelModel(ctx, spec);
    mbgen::Built m(spec);
    CableTrackerSubsystem cables(m.sys); CablePath path(cables, m.mb[b1], s1, m.mb[b2], s2);
    for (auto& v : vias) { CableObstacle::ViaPoint vp(path, m.mb[v.body], v.station); if (v.disabled) vp.setDisabledByDefault(true); }
    CableSpring spring(m.forces, path, k, x0, c);
    m.finish(spec); m.setState(spec); State& s = m.state;
    m.sys.realize(s, Stage::Position);
    int nActiveVia = 0, nDisabled = 0; std::vector<char> carries(nb + 1, 0); carries[b1] = carries[b2] = 1;
    {   // degenerate geometry (zero-length segments between consecutive ACTIVE points have no direction) is outside the documented domain
        std::vector<Vec3> pts; pts.push_back(m.mb[b1].findStationLocationInGround(s, s1));
        for (auto& v : vias) { if (v.disabled) { ++nDisabled; continue; } ++nActiveVia; carries[v.body] = 1; pts.push_back(m.mb[v.body].findStationLocationInGround(s, v.station)); }
        pts.push_back(m.mb[b2].findStationLocationInGround(s, s2));
        for (size_t i = 0; i + 1 < pts.size(); ++i) if ((pts[i] - pts[i + 1]).norm() < 1e-3) { ctx.reject("zero-length-cable-segment"); return; }
    }
    try { path.solveForInitialCablePath(s); } catch (const std::exception&) { ctx.reject("cable-initialisation-failed"); return; }
    m.sys.realize(s, Stage::Dynamics);
    Vector_<SpatialVec> bf; Vector_<Vec3> pf; Vector mf; spring.calcForceContribution(s, bf, pf, mf);
    Real L = 1, vmax = 1; for (int b = 1; b <= nb; ++b) { L = std::max(L, m.mb[b].getBodyOriginLocation(s).norm() + 1.5); SpatialVec V = m.mb[b].getBodyVelocity(s); vmax = std::max(vmax, V[1].norm() + 1.5 * V[0].norm()); }
    const Real tension = spring.getTension(s);
    Verdict v = judge(ctx, name, m.matter, s, bf, mf, k * (4 * L * (2 + nActiveVia) + x0) * (1 + c * 4 * vmax) * L);
    // a taut cable must load something unless all its points sit on one body (where the pulls cancel)
    int nCarrying = 0; for (int b = 0; b <= nb; ++b) nCarrying += carries[b];
    if (!ctx.failed && tension > 0 && nCarrying >= 2 && !v.active) ctx.fail(name + ": tension " + S(tension) + " > 0 but no body receives a force");
    ctx.label(name + (tension > 0 ? "/taut" : "/slack")); ctx.label(name + (nActiveVia ? "/via-point" : "/straight"));
    if (!vias.empty()) ctx.label("cable:via-points"); ctx.label("cable:via-points:" + std::to_string(vias.size()));
    if (nDisabled) ctx.label(std::string("cable:disabled-via-between-active") + (tension > 0 ? "" : "(slack)"));
    if (nDisabled && nActiveVia) ctx.label("cable:disabled-and-enabled-vias-mixed");
    bool distinct = b1 != b2 && b1 != 0 && b2 != 0;
    ctx.label(name + (b1 == b2 ? "/same-body-twice" : (b1 == 0 || b2 == 0) ? "/with-Ground" : "/two-moving-bodies"));
    // a body carrying no origin, termination or ACTIVE obstacle (disabled via points do not count) receives nothing
    for (int b = 0; b <= nb && !ctx.failed; ++b) if (!carries[b] && (bf[b][0].norm() + bf[b][1].norm()) != 0) ctx.fail(name + ": body " + std::to_string(b) + " carries no active point of the cable but receives a force");
    ctx.nontrivial(v.active && distinct);
}

void property(const pbt::Tape& t, pbt::Ctx& ctx) {
    static const int famOnly = getenv("C13_FAMILY") ? atoi(getenv("C13_FAMILY")) : -1;
    pbt::Reader sel(t[0]); sel.skip(50); int w = sel.pick(8);
    int fam = w < 4 ? 0 : w < 6 ? 1 : 2;    // 1/2 contact, 1/4 two-point, 1/4 cable
    if (famOnly >= 0) fam = famOnly;
    ctx.label(fam == 0 ? "family:contact" : fam == 1 ? "family:two-point" : "family:cable");
    if (fam == 0) contactCase(t, ctx); else if (fam == 1) twoPointCase(t, ctx); else cableCase(t, ctx);
}

pbt::Config config() {
    pbt::Config c; c.prop = "C13"; c.K = mbgen::K; c.minUnits = 3;
    c.quick = {3000, 12000, 30, 10}; c.thorough = {20000, 200000, 30, 60};
    c.rule = "rapidcheck tape -> one interaction element on an mbgen tree: contact family (cgen: 8 element kinds, surfaces around touching, designed velocities), two-point family (forcegen: TwoPointLinearSpring/Damper/ConstantForce, LinearBushing; Ground and same-body-twice attachments; all mobilizers) or CableSpring (straight / via point). Non-trivial: the element applies a non-zero force and its two attachment bodies are distinct and not Ground; distinct by tape hash.";
    c.assumptions = {"body origin locations reported by the matter subsystem are correct (C03/C05)", "Force::calcForceContribution / MultibodySystem::getRigidBodyForces return the element's contribution at body origins in Ground, Ground row included (documented)"};
    c.requiredLabels = {"element:HuntCrossleyForce", "element:ElasticFoundationForce", "element:CCS-HertzCircular", "element:CCS-ElasticFoundation", "element:CCS-BrickHalfSpace", "element:SmoothSphereHalfSpaceForce", "element:ExponentialSpringForce",
                        "element:TwoPointLinearSpring", "element:TwoPointLinearDamper", "element:TwoPointConstantForce", "element:LinearBushing", "element:CableSpring", "LinearBushing/same-body-twice", "CableSpring/via-point", "eff:mesh-mesh/active", "cable:via-points", "cable:disabled-via-between-active", "cable:disabled-and-enabled-vias-mixed", "CableSpring/same-body-twice", "CableSpring/slack"};
    return c;
}
} // namespace

PBT_MAIN(config(), property)
