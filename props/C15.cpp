// C15 -- System mass, momentum and composite inertias equal per-body sums (DESIGN.md 5, C15).
// Domain: mbgen trees (branching, all mobilizers), u != 0 mostly, realized to Acceleration.
// Oracle (R): my own sums over bodies using only getBodyTransform, getBodyVelocity, getBodyAcceleration and
// getBodyMassProperties (parallel-axis shifts written here): total mass, COM location / velocity /
// acceleration, central inertia, inertia about the Ground origin (calcSystemMassPropertiesInGround),
// momentum about the Ground origin and about the COM, P = m_tot * v_COM, kinetic energy, and
// calcCompositeBodyInertias[b] == sum of the spatial inertias of the subtree of b shifted to b's origin (in G).
#include "pbt.h"
#include "mbgen.h"
#include "refdyn.h"
using namespace SimTK;

namespace {
std::string S(double a) { return pbt::str(a); }
Mat33 pointInertia(Real m, const Vec3& p) { Mat33 I(0); Real pp = ~p * p; for (int i = 0; i < 3; ++i) for (int j = 0; j < 3; ++j) I(i, j) = m * ((i == j ? pp : 0) - p[i] * p[j]); return I; }
Real maxAbs33(const Mat33& A) { Real m = 0; for (int i = 0; i < 3; ++i) for (int j = 0; j < 3; ++j) m = std::max(m, std::abs(A(i, j))); return m; }

void property(const pbt::Tape& t, pbt::Ctx& ctx) {
    pbt::Reader g(t[0]);
    mbgen::Options opt; opt.maxBodies = 8;
    mbgen::ModelSpec spec = mbgen::decodeModel(t, 1, (int)t.size() - 1, g, opt);
    Vec3 grav(g.real(-10, 10), g.real(-10, 10), g.real(-10, 10));
    // massless inner bodies (1/3 of the cases): any body that has a child may lose its mass; leaves keep theirs.
    // Accelerations of such systems can be singular, so those cases are realized to Velocity and skip the acceleration clause.
    bool anyMassless = false; int masslessWithTwoMassiveKids = 0;
    if (g.pick(3) == 0) {
        const int n = (int)spec.bodies.size(); std::vector<int> nkids(n + 1, 0);
        for (int i = 0; i < n; ++i) nkids[spec.bodies[i].parent]++;
        for (int i = 0; i < n; ++i) { bool want = g.pick(3) != 0; if (nkids[i + 1] >= 1 && want) { spec.bodies[i].mass = 0; anyMassless = true; } }
        for (int i = 0; i < n; ++i) if (spec.bodies[i].mass == 0) { int k = 0; for (int j = 0; j < n; ++j) if (spec.bodies[j].parent == i + 1 && spec.bodies[j].mass > 0) ++k; if (k >= 2) ++masslessWithTwoMassiveKids; }
    }
    if (ctx.wantDesc) { spec.describe(ctx.desc); ctx.desc << "gravity=" << grav << (anyMassless ? " (massless inner bodies; Velocity stage only)" : "") << "\n"; }
    mbgen::labelModel(ctx, spec);
    if (anyMassless) ctx.label("massless-inner-body"); if (masslessWithTwoMassiveKids) ctx.label("massless-body-with-2+-massive-children");

    mbgen::Built m(spec);
    Force::UniformGravity gr(m.forces, m.matter, grav);      // something to make accelerations non-trivial
    m.finish(spec); m.setState(spec);
    State& s = m.state; const SimbodyMatterSubsystem& matter = m.matter;
    const int NB = matter.getNumBodies();
    m.sys.realize(s, anyMassless ? Stage::Velocity : Stage::Acceleration);
    const Real eps = 2.220446049250313e-16;

    // ---- per-body data (reported)
    std::vector<Real> mass(NB, 0); std::vector<Vec3> com(NB), vcom(NB), acom(NB), org(NB); std::vector<Mat33> Ic(NB); std::vector<SpatialVec> V(NB), A(NB); std::vector<int> parent(NB, -1);
    for (int b = 1; b < NB; ++b) {
        const MobilizedBody& mb = matter.getMobilizedBody(MobilizedBodyIndex(b));
        MassProperties mp = mb.getBodyMassProperties(s); const Transform& X = mb.getBodyTransform(s);
        mass[b] = mp.getMass(); Vec3 c = X.R() * mp.getMassCenter(); com[b] = X.p() + c; org[b] = X.p();
        V[b] = mb.getBodyVelocity(s); A[b] = anyMassless ? SpatialVec(Vec3(0), Vec3(0)) : mb.getBodyAcceleration(s);
        vcom[b] = V[b][1] + V[b][0] % c; acom[b] = A[b][1] + A[b][0] % c + V[b][0] % (V[b][0] % c);
        Mat33 Io = X.R() * mp.getInertia().toMat33() * ~X.R();          // about body origin, in G
        Ic[b] = Io - pointInertia(mass[b], c);                         // central
        parent[b] = (int)mb.getParentMobilizedBody().getMobilizedBodyIndex();
    }
    Real M = 0; Vec3 mc(0), mv(0), ma(0);
    for (int b = 1; b < NB; ++b) { M += mass[b]; mc += mass[b] * com[b]; mv += mass[b] * vcom[b]; ma += mass[b] * acom[b]; }
    Vec3 C = mc / M, vC = mv / M, aC = ma / M;
    Mat33 Icen(0), Iorg(0); Vec3 L0(0), Lc(0); Real ke = 0;
    for (int b = 1; b < NB; ++b) {
        Icen += Ic[b] + pointInertia(mass[b], com[b] - C); Iorg += Ic[b] + pointInertia(mass[b], com[b]);
        Vec3 Lb = Ic[b] * V[b][0];
        L0 += Lb + mass[b] * (com[b] % vcom[b]); Lc += Lb + mass[b] * ((com[b] - C) % vcom[b]);
        ke += 0.5 * (~V[b][0] * Lb) + 0.5 * mass[b] * (~vcom[b] * vcom[b]);
    }
    Real len = 1; for (int b = 1; b < NB; ++b) len = std::max(len, com[b].norm());
    Real vs = 1; for (int b = 1; b < NB; ++b) vs = std::max(vs, vcom[b].norm() + V[b][0].norm());
    Real as = 1; for (int b = 1; b < NB; ++b) as = std::max(as, acom[b].norm());
    const Real k = 1e3 * eps * NB;

    bool branching = false; { std::vector<int> nchild(NB, 0); for (int b = 1; b < NB; ++b) nchild[parent[b]]++; for (int b = 0; b < NB; ++b) if (nchild[b] >= 2) branching = true; }
    ctx.nontrivial(NB >= 4 && branching && refdyn::maxAbs(s.getU()) > 0);
    if (branching) ctx.label("branching");

    if (!ctx.check(std::abs(matter.calcSystemMass(s) - M) <= k * M, "calcSystemMass " + S(matter.calcSystemMass(s)) + " != sum " + S(M))) return;
    Vec3 Cl = matter.calcSystemMassCenterLocationInGround(s);
    if (!ctx.check((Cl - C).norm() <= k * len, "system mass centre location differs from mass-weighted sum by " + S((Cl - C).norm()))) return;
    Vec3 vl = matter.calcSystemMassCenterVelocityInGround(s);
    if (!ctx.check((vl - vC).norm() <= k * vs * len, "system mass centre velocity differs by " + S((vl - vC).norm()))) return;
    Vec3 al = anyMassless ? aC : matter.calcSystemMassCenterAccelerationInGround(s);
    if (!ctx.check((al - aC).norm() <= 10 * k * (as + vs * vs * len), "system mass centre acceleration differs by " + S((al - aC).norm()) + " (lib " + S(al.norm()) + ")")) return;
    Mat33 Il = matter.calcSystemCentralInertiaInGround(s).toMat33();
    if (!ctx.check(maxAbs33(Il - Icen) <= 10 * k * M * len * len, "system central inertia differs by " + S(maxAbs33(Il - Icen)))) return;
    MassProperties mpG = matter.calcSystemMassPropertiesInGround(s);
    if (!ctx.check(std::abs(mpG.getMass() - M) <= k * M && (mpG.getMassCenter() - C).norm() <= k * len && maxAbs33(mpG.getInertia().toMat33() - Iorg) <= 10 * k * M * len * len,
                   "calcSystemMassPropertiesInGround differs (inertia about Ground origin diff " + S(maxAbs33(mpG.getInertia().toMat33() - Iorg)) + ")")) return;
    SpatialVec P0 = matter.calcSystemMomentumAboutGroundOrigin(s), Pc = matter.calcSystemCentralMomentum(s);
    const Real ps = M * vs * len * len;
    if (!ctx.check((P0[0] - L0).norm() <= 10 * k * ps && (P0[1] - mv).norm() <= 10 * k * ps, "momentum about Ground origin differs: angular " + S((P0[0] - L0).norm()) + " linear " + S((P0[1] - mv).norm()))) return;
    if (!ctx.check((Pc[0] - Lc).norm() <= 10 * k * ps && (Pc[1] - mv).norm() <= 10 * k * ps, "central momentum differs: angular " + S((Pc[0] - Lc).norm()) + " linear " + S((Pc[1] - mv).norm()))) return;
    if (!ctx.check((P0[1] - M * vl).norm() <= 10 * k * ps, "linear momentum != total mass * mass-centre velocity")) return;
    Real kel = matter.calcKineticEnergy(s);
    if (!ctx.check(std::abs(kel - ke) <= 10 * k * M * vs * vs * len * len, "kinetic energy " + S(kel) + " != per-body sum " + S(ke))) return;

    // ---- composite body inertias
    Array_<SpatialInertia, MobilizedBodyIndex> R; matter.calcCompositeBodyInertias(s, R);
    if (!ctx.check((int)R.size() == NB, "calcCompositeBodyInertias wrong size")) return;
    for (int b = 1; b < NB; ++b) {
        Real mm = 0; Vec3 mcb(0); Mat33 I(0);
        for (int d = 1; d < NB; ++d) { int a = d; while (a > 0 && a != b) a = parent[a]; if (a != b) continue;
            mm += mass[d]; mcb += mass[d] * (com[d] - org[b]); I += Ic[d] + pointInertia(mass[d], com[d] - org[b]); }
        const SpatialInertia& r = R[MobilizedBodyIndex(b)];
        Real dm = std::abs(r.getMass() - mm); Vec3 dc = r.getMass() * r.getMassCenter() - mcb; Mat33 dI = r.calcInertia().toMat33() - I;
        if (!(dm <= k * M && dc.norm() <= 10 * k * M * len && maxAbs33(dI) <= 10 * k * M * len * len)) {
            ctx.fail("composite body inertia of body " + std::to_string(b) + " differs from the subtree sum: mass " + S(dm) + " first moment " + S(dc.norm()) + " inertia " + S(maxAbs33(dI))); return; }
    }
    {   // the accessor form after realizing composite body inertias
        m.matter.realizeCompositeBodyInertias(s);
        for (int b = 1; b < NB; ++b) { const SpatialInertia& r = matter.getCompositeBodyInertia(s, MobilizedBodyIndex(b)); const SpatialInertia& r2 = R[MobilizedBodyIndex(b)];
            if (!(std::abs(r.getMass() - r2.getMass()) <= k * M && (r.getMassCenter() - r2.getMassCenter()).norm() <= 10 * k * len)) { ctx.fail("getCompositeBodyInertia differs from calcCompositeBodyInertias for body " + std::to_string(b)); return; } }
    }
}

pbt::Config config() {
    pbt::Config c; c.prop = "C15"; c.K = mbgen::K; c.minUnits = 1;
    c.quick = {3000, 12000, 16, 25}; c.thorough = {30000, 100000, 16, 240};
    c.rule = "rapidcheck tape -> mbgen tree (1..8 bodies, all mobilizer types incl. Weld, branching by random parent choice, distinct log-uniform masses, random COM/inertia; in 1/3 of the cases inner bodies are made massless and the case is realized to Velocity only), uniform gravity, realized to Acceleration. Non-trivial: >= 3 bodies, a body with >= 2 children (branching) and u != 0; distinct by tape hash.";
    c.assumptions = {"per-body poses, velocities and accelerations are taken as reported (they are the subject of C03/C04/C02)", "tolerance 1e3..1e4 * eps * NB * (mass x length^2 x velocity scale)"};
    c.requiredLabels = {"branching", "mob:Weld/fwd", "nbodies:7+", "massless-inner-body", "massless-body-with-2+-massive-children"};
    return c;
}
} // namespace

PBT_MAIN(config(), property)
