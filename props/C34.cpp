// C34 -- Contact surface queries are geometrically correct (DESIGN.md section 5, C34).
// Domain: every analytic ContactGeometry (HalfSpace, Sphere, Ellipsoid, Cylinder, Torus, Brick,
// SmoothHeightMap over a generated bicubic surface), generated parameters (aspect ratios up to 1:20,
// overall scale 1e-2..1e2), and per case a list of queries (tape units): nearest point, implicit-function
// derivatives, curvatures, support point, ray, all with query points inside / outside / within 1e-9..1e-3
// of the surface / on symmetry axes and planes / at the centre / far away.
// Oracle: an independent description of each shape written here (own implicit function, own surface
// parameterisation, own closed forms): validity of the nearest point (on surface, unit outward normal,
// (Q-P) || n, inside flag), optimality against ~300 own surface samples refined by a pattern search and
// against the closed-form distance where one exists, finite differences of the library's implicit
// function, curvatures against the shape operator of MY implicit function (and closed forms), support
// points against own samples + closed-form support function, bounding sphere against own samples, rays
// against the exact restriction of my (at most quadratic) implicit function to the ray.
// Methods a shape does not offer (UnimplementedVirtualMethod, SimTK_ASSERT_ALWAYS(false,"unimplemented"),
// or assert(false) stubs that are compiled out under NDEBUG) are listed in offers() and skipped as
// "not-offered:<shape>/<method>" (never a violation).
#include "pbt.h"
#include "SimTKmath.h"
#include <memory>
using namespace SimTK;

namespace {

enum Shape { SPHERE = 0, ELLIPSOID, CYLINDER, TORUS, BRICK, HALFSPACE, HEIGHTMAP, NSHAPES };
const char* shapeName[] = {"sphere", "ellipsoid", "cylinder", "torus", "brick", "halfspace", "heightmap"};
enum Method { M_NEAREST = 0, M_RAY, M_SUPPORT, M_BSPHERE, M_IMPLICIT, M_CURVATURE, M_PRINCIPAL, NMETHODS };
const char* methodName[] = {"findNearestPoint", "intersectsRay", "calcSupportPoint", "getBoundingSphere", "implicitFunction", "calcCurvature", "calcSurfacePrincipalCurvatures"};

// What each shape offers (read off the sources, see notes/C34.md):
//  'y' offered; 't' not offered, the call throws cleanly (UnimplementedVirtualMethod or SimTK_ASSERT_ALWAYS):
//  we call it and require the throw to be clean; 'a' not offered and implemented as assert(false)+garbage return,
//  which NDEBUG compiles out: never called.
char offers(Shape s, Method m) {
    static const char* tab[NSHAPES] = {
        //            NRSBICP
        /*sphere   */ "yyyyyyy",
        /*ellipsoid*/ "yyyyyyy",
        /*cylinder */ "yyayyyy",
        /*torus    */ "yttyyty",
        /*brick    */ "ttyyttt",
        /*halfspace*/ "yytyyyy",
        /*heightmap*/ "aaayyyy"};
    return tab[s][m];
}

const double PI = 3.14159265358979323846;

struct Ref {
    Shape sh = SPHERE;
    Vec3 par = Vec3(1, 1, 1);   // sphere r,-,- | ellipsoid a,b,c | cylinder r | torus R,r | brick hx,hy,hz
    double L = 1;               // characteristic length (largest dimension)
    // height map
    int nx = 0, ny = 0; std::vector<double> gx, gy, gf; std::shared_ptr<BicubicSurface> surf;
    double h(double x, double y) const { return surf->calcValue(Vec2(x, y)); }

    // MY implicit function: negative inside, positive outside, zero on the surface; a signed distance for
    // sphere, cylinder, torus, half space and brick, dimensionless for the ellipsoid, vertical distance for the map.
    double F(const Vec3& p) const {
        switch (sh) {
        case SPHERE: return std::sqrt(p[0]*p[0] + p[1]*p[1] + p[2]*p[2]) - par[0];
        case ELLIPSOID: { double x = p[0]/par[0], y = p[1]/par[1], z = p[2]/par[2]; return x*x + y*y + z*z - 1; }
        case CYLINDER: return std::sqrt(p[0]*p[0] + p[1]*p[1]) - par[0];
        case TORUS: { double rho = std::sqrt(p[0]*p[0] + p[1]*p[1]) - par[0]; return std::sqrt(rho*rho + p[2]*p[2]) - par[1]; }
        case BRICK: { double q[3], out2 = 0, in = -1e300; for (int i = 0; i < 3; ++i) { q[i] = std::abs(p[i]) - par[i]; if (q[i] > 0) out2 += q[i]*q[i]; in = std::max(in, q[i]); } return out2 > 0 ? std::sqrt(out2) : in; }
        case HALFSPACE: return -p[0];
        case HEIGHTMAP: return p[2] - h(p[0], p[1]);
        default: return 0; }
    }
    // gradient of F (analytic, by hand); only used at/near surface points
    Vec3 gradF(const Vec3& p) const {
        switch (sh) {
        case SPHERE: return p / p.norm();
        case ELLIPSOID: return Vec3(2*p[0]/(par[0]*par[0]), 2*p[1]/(par[1]*par[1]), 2*p[2]/(par[2]*par[2]));
        case CYLINDER: { double rho = std::sqrt(p[0]*p[0] + p[1]*p[1]); return Vec3(p[0]/rho, p[1]/rho, 0); }
        case TORUS: { double rho = std::sqrt(p[0]*p[0] + p[1]*p[1]); Vec3 c(par[0]*p[0]/rho, par[0]*p[1]/rho, 0); Vec3 d = p - c; return d / d.norm(); }
        case HALFSPACE: return Vec3(-1, 0, 0);
        case HEIGHTMAP: { double e = 1e-6 * std::min(gx.back() - gx.front(), gy.back() - gy.front()); return Vec3(-(h(p[0]+e, p[1]) - h(p[0]-e, p[1]))/(2*e), -(h(p[0], p[1]+e) - h(p[0], p[1]-e))/(2*e), 1); }
        default: return Vec3(NaN); }
    }
    Vec3 normal(const Vec3& p) const { Vec3 g = gradF(p); return g / g.norm(); }
    // signed distance estimate (exact except ellipsoid / height map: first order)
    double sdist(const Vec3& p) const {
        if (sh == ELLIPSOID || sh == HEIGHTMAP) { double f = F(p); if (sh == ELLIPSOID && p.norm() < 1e-3*L) return -std::min(par[0], std::min(par[1], par[2])); return f / gradF(p).norm(); }
        return F(p);
    }
    bool hasExactDistance() const { return sh == SPHERE || sh == CYLINDER || sh == TORUS || sh == HALFSPACE || sh == BRICK; }
    // surface parameterisation, u,v in [0,1); ctr/H: window for the infinite shapes
    Vec3 param(double u, double v, const Vec3& ctr, double H) const {
        switch (sh) {
        case SPHERE: case ELLIPSOID: { double z = 2*v - 1, r = std::sqrt(std::max(0.0, 1 - z*z)), ph = 2*PI*u; Vec3 d(r*std::cos(ph), r*std::sin(ph), z);
            return sh == SPHERE ? Vec3(par[0]*d) : Vec3(par[0]*d[0], par[1]*d[1], par[2]*d[2]); }
        case CYLINDER: { double ph = 2*PI*u; return Vec3(par[0]*std::cos(ph), par[0]*std::sin(ph), ctr[2] + (2*v - 1)*H); }
        case TORUS: { double a = 2*PI*u, b = 2*PI*v, rr = par[0] + par[1]*std::cos(b); return Vec3(rr*std::cos(a), rr*std::sin(a), par[1]*std::sin(b)); }
        case BRICK: { double u6 = 6*u; int f = std::min(5, (int)u6); double s = 2*(u6 - f) - 1, t = 2*v - 1; int ax = f % 3, a1 = (ax+1)%3, a2 = (ax+2)%3; Vec3 p; p[ax] = (f < 3 ? 1 : -1)*par[ax]; p[a1] = s*par[a1]; p[a2] = t*par[a2]; return p; }
        case HALFSPACE: return Vec3(0, ctr[1] + (2*u - 1)*H, ctr[2] + (2*v - 1)*H);
        case HEIGHTMAP: { u = 0.002 + 0.996*u; v = 0.002 + 0.996*v; double x = gx.front() + u*(gx.back() - gx.front()), y = gy.front() + v*(gy.back() - gy.front()); return Vec3(x, y, h(x, y)); }
        default: return Vec3(0); }
    }
    bool finite() const { return sh != CYLINDER && sh != HALFSPACE; }
    bool spherical() const { return sh == SPHERE || (sh == ELLIPSOID && par[0] == par[1] && par[1] == par[2]); }
};

struct Case { Ref ref; std::unique_ptr<ContactGeometry> geo; std::string descr; };

void buildCase(const pbt::Seg& s0, Case& c) {
    pbt::Reader g(s0); Ref& R = c.ref;
    R.sh = (Shape)g.pick(NSHAPES);
    double scale = g.logreal(1e-2, 1e2);
    double r1 = g.logreal(1, 20), r2 = g.logreal(1, 20);   // aspect ratios (word 0 -> 1)
    int perm = g.pick(6);
    std::ostringstream d; d.precision(17);
    switch (R.sh) {
    case SPHERE: R.par = Vec3(scale, 0, 0); R.L = scale; c.geo.reset(new ContactGeometry::Sphere(scale)); d << "Sphere(r=" << scale << ")"; break;
    case ELLIPSOID: { double v[3] = {scale, scale/r1, scale/r2}; static const int P[6][3] = {{0,1,2},{0,2,1},{1,0,2},{1,2,0},{2,0,1},{2,1,0}};
        R.par = Vec3(v[P[perm][0]], v[P[perm][1]], v[P[perm][2]]); R.L = scale; c.geo.reset(new ContactGeometry::Ellipsoid(R.par)); d << "Ellipsoid(" << R.par << ")"; break; }
    case CYLINDER: R.par = Vec3(scale, 0, 0); R.L = scale; c.geo.reset(new ContactGeometry::Cylinder(scale)); d << "Cylinder(r=" << scale << ")"; break;
    case TORUS: { double tube = scale / (1.05 + (r1 - 1)); R.par = Vec3(scale, tube, 0); R.L = scale + tube; c.geo.reset(new ContactGeometry::Torus(scale, tube)); d << "Torus(R=" << scale << ", r=" << tube << ")"; break; }
    case BRICK: { double v[3] = {scale, scale/r1, scale/r2}; static const int P[6][3] = {{0,1,2},{0,2,1},{1,0,2},{1,2,0},{2,0,1},{2,1,0}};
        R.par = Vec3(v[P[perm][0]], v[P[perm][1]], v[P[perm][2]]); R.L = scale; c.geo.reset(new ContactGeometry::Brick(R.par)); d << "Brick(" << R.par << ")"; break; }
    case HALFSPACE: R.L = scale; c.geo.reset(new ContactGeometry::HalfSpace()); d << "HalfSpace (scale of queries " << scale << ")"; break;
    case HEIGHTMAP: {
        R.L = scale; R.nx = 4 + g.pick(4); R.ny = 4 + g.pick(4);
        double dx = scale * g.logreal(0.2, 2) / 3, dy = scale * g.logreal(0.2, 2) / 3; bool irregular = g.boolean();
        double A = g.real(0, 1), wx = g.real(0.2, 2), wy = g.real(0.2, 2), ph = g.angle(), B = g.real(-1, 1), C = g.real(-1, 1);
        double x0 = scale * g.real(-2, 2), y0 = scale * g.real(-2, 2);
        R.gx.resize(R.nx); R.gy.resize(R.ny); R.gf.resize(R.nx * R.ny);
        for (int i = 0; i < R.nx; ++i) R.gx[i] = x0 + dx * (i + (irregular ? 0.3*std::sin(1.7*i + ph) : 0.0));
        for (int j = 0; j < R.ny; ++j) R.gy[j] = y0 + dy * (j + (irregular ? 0.3*std::cos(2.3*j + ph) : 0.0));
        Vector X(R.nx), Y(R.ny); Matrix Fm(R.nx, R.ny);
        for (int i = 0; i < R.nx; ++i) X[i] = R.gx[i];
        for (int j = 0; j < R.ny; ++j) Y[j] = R.gy[j];
        for (int i = 0; i < R.nx; ++i) for (int j = 0; j < R.ny; ++j) {
            double f = scale * 0.5 * (A*std::sin(wx*i + ph)*std::cos(wy*j) + B*i/double(R.nx) + C*(i/double(R.nx))*(j/double(R.ny)));
            R.gf[i*R.ny + j] = f; Fm(i, j) = f; }
        if (irregular) R.surf.reset(new BicubicSurface(X, Y, Fm, 0));
        else R.surf.reset(new BicubicSurface(Vec2(x0, y0), Vec2(dx, dy), Fm, 0));
        c.geo.reset(new ContactGeometry::SmoothHeightMap(*R.surf));
        d << "SmoothHeightMap(" << R.nx << "x" << R.ny << (irregular ? " irregular" : " regular") << ", x0=" << x0 << " y0=" << y0 << " dx=" << dx << " dy=" << dy << ", A=" << A << " wx=" << wx << " wy=" << wy << " ph=" << ph << " B=" << B << " C=" << C << " scale=" << scale << ")";
        break; }
    default: break;
    }
    c.descr = d.str();
}

// query point generator (shared by the units)
struct QP { Vec3 q; int mode; bool onAxis; };
QP genPoint(pbt::Reader& g, const Ref& R) {
    QP o; o.mode = g.pick(6); const double L = R.L; Vec3 ctr(0); o.onAxis = false;
    double a = g.real(-3, 3), b = g.real(-3, 3), cc = g.real(-3, 3); double u = g.unit(), v = g.unit(); double e = g.real(3, 9); bool neg = g.boolean();
    switch (o.mode) {
    default:
    case 0: o.q = L * Vec3(a, b, cc); break;                                      // box (specials give axes/planes/centre)
    case 1: case 2: {                                                             // near / on the surface
        Vec3 S = R.param(u, v, L * Vec3(a, b, cc), 2*L);
        if (R.sh == BRICK) { o.q = S * (o.mode == 2 ? 1.0 : 1 + (neg ? -1 : 1) * std::pow(10.0, -e)); break; }
        Vec3 n = R.normal(S); o.q = o.mode == 2 ? S : Vec3(S + n * ((neg ? -1 : 1) * L * std::pow(10.0, -e))); break; }
    case 3: o.q = L * Vec3(0, 0, R.sh == CYLINDER || R.sh == TORUS ? cc : 0.0); if (neg && R.sh == ELLIPSOID) o.q = Vec3(0, 0, cc * R.par[2] / 3); break;   // centre / axis
    case 4: { double m = L * std::pow(10.0, e / 3); Vec3 d(a, b, cc); if (d.norm() == 0) d = Vec3(0, 0, 1); o.q = m * d / d.norm(); break; }   // far
    case 5: { o.q = L * Vec3(a, b, cc); int k = g.pick(7) + 1; for (int i = 0; i < 3; ++i) if (k & (1 << i)) o.q[i] = 0; if (k == 7) o.q = L * Vec3(0, 0, 0); break; }  // symmetry planes / axes
    }
    if (R.sh == HEIGHTMAP) {   // keep (x,y) strictly inside the grid (the surface is not defined outside)
        double mx = 1e-3 * (R.gx.back() - R.gx.front()), my = 1e-3 * (R.gy.back() - R.gy.front());
        double X0 = R.gx.front() + mx, X1 = R.gx.back() - mx, Y0 = R.gy.front() + my, Y1 = R.gy.back() - my;
        if (o.mode == 0 || o.mode >= 3) { o.q[0] = X0 + (X1 - X0) * u; o.q[1] = Y0 + (Y1 - Y0) * v; o.q[2] = R.h(o.q[0], o.q[1]) + L * cc; }
        o.q[0] = std::min(X1, std::max(X0, o.q[0])); o.q[1] = std::min(Y1, std::max(Y0, o.q[1]));
    }
    const Vec3& q = o.q;
    switch (R.sh) {
    case SPHERE: o.onAxis = q.norm() == 0; break;
    case ELLIPSOID: case BRICK: o.onAxis = q[0] == 0 || q[1] == 0 || q[2] == 0; break;
    case CYLINDER: case TORUS: o.onAxis = q[0] == 0 && q[1] == 0; break;
    default: break; }
    return o;
}

std::string v3(const Vec3& v) { std::ostringstream o; o.precision(17); o << "(" << v[0] << "," << v[1] << "," << v[2] << ")"; return o.str(); }

const bool CALIB = getenv("C34_CALIB") != nullptr;
struct Judge {
    pbt::Ctx& ctx; const Ref& R; std::string where;
    // value must be <= tol; in calibration mode record the decade of value/tol instead of failing
    bool le(const char* name, double value, double tol, const std::string& detail) {
        if (CALIB) { double r = value / tol; int dec = r <= 0 || !(r == r) ? (r == r ? -20 : 99) : (int)std::floor(std::log10(r)); if (dec < -20) dec = -20; char b[160]; snprintf(b, sizeof b, "calib:%s/%s:1e%+03d", shapeName[R.sh], name, dec); ctx.label(b); return true; }
        if (!(value <= tol)) { ctx.fail(where + ": " + name + " = " + pbt::str(value) + " > tolerance " + pbt::str(tol) + " -- " + detail); return false; }
        return true;
    }
};

// minimise |Q - param(u,v)| : samples on a lattice (+offset from the tape) then pattern search from the best 3
double sampledMinDistance(const Ref& R, const Vec3& Q, const Vec3& ctr, double H, double ou, double ov, Vec3& bestS) {
    const int N = 320; const double gold = 0.6180339887498949;
    double bd[3] = {1e300, 1e300, 1e300}; double bu[3] = {0,0,0}, bv[3] = {0,0,0};
    for (int k = 0; k < N; ++k) {
        double u = std::fmod(ou + k * gold, 1.0), v = std::fmod(ov + (k + 0.5) / N, 1.0);
        double d = (Q - R.param(u, v, ctr, H)).norm();
        for (int j = 0; j < 3; ++j) if (d < bd[j]) { for (int m = 2; m > j; --m) { bd[m] = bd[m-1]; bu[m] = bu[m-1]; bv[m] = bv[m-1]; } bd[j] = d; bu[j] = u; bv[j] = v; break; }
    }
    double best = 1e300;
    for (int j = 0; j < 3; ++j) {
        double u = bu[j], v = bv[j], d = bd[j], step = 0.05; int evals = 0;
        auto wrap = [&](double x) { if (R.sh == TORUS || R.sh == CYLINDER || R.sh == SPHERE || R.sh == ELLIPSOID) { x = std::fmod(x, 1.0); if (x < 0) x += 1; return x; } return std::min(1.0 - 1e-16, std::max(0.0, x)); };
        auto clampv = [&](double x) { if (R.sh == TORUS) { x = std::fmod(x, 1.0); if (x < 0) x += 1; return x; } return std::min(1.0, std::max(0.0, x)); };
        while (step > 1e-13 && evals < 2000) {
            bool moved = false;
            for (int di = -1; di <= 1; ++di) for (int dj = -1; dj <= 1; ++dj) { if (!di && !dj) continue;
                double uu = wrap(u + di*step), vv = clampv(v + dj*step); double dd = (Q - R.param(uu, vv, ctr, H)).norm(); ++evals;
                if (dd < d) { d = dd; u = uu; v = vv; moved = true; } }
            if (!moved) step *= 0.5;
        }
        if (d < best) { best = d; bestS = R.param(u, v, ctr, H); }
    }
    return best;
}

// 5-point central difference of a scalar function along axis i
template <class Fn> double fd1(Fn f, Vec3 p, int i, double h) {
    Vec3 a = p, b = p, c = p, d = p; a[i] -= 2*h; b[i] -= h; c[i] += h; d[i] += 2*h;
    return (f(a) - 8*f(b) + 8*f(c) - f(d)) / (12*h);
}

// shape operator of MY implicit function at surface point S (finite differences of my own F):
// normal curvature of unit tangent t = t^T Hess(F) t / |grad F| (positive for convex, outward normal)
struct MyCurv { Vec3 n; Mat33 Hn; double k1, k2; };   // Hn = Hess(F)/|grad F|
MyCurv myCurvature(const Ref& R, const Vec3& S, double hstep) {
    MyCurv o; auto F = [&](const Vec3& p) { return R.F(p); };
    Vec3 g; for (int i = 0; i < 3; ++i) g[i] = fd1(F, S, i, hstep);
    Mat33 H;
    for (int i = 0; i < 3; ++i) for (int j = 0; j < 3; ++j) { auto gi = [&](const Vec3& p) { return fd1(F, p, i, hstep); }; H(i, j) = fd1(gi, S, j, hstep); }
    for (int i = 0; i < 3; ++i) for (int j = i + 1; j < 3; ++j) H(i, j) = H(j, i) = 0.5 * (H(i, j) + H(j, i));
    double gn = g.norm(); o.n = g / gn; o.Hn = H / gn;
    // restrict to tangent plane: basis t1,t2
    Vec3 t1 = std::abs(o.n[0]) < 0.7 ? Vec3(1, 0, 0) : Vec3(0, 1, 0); t1 -= (~t1 * o.n) * o.n; t1 /= t1.norm(); Vec3 t2 = o.n % t1;
    double a = ~t1 * (o.Hn * t1), b = ~t1 * (o.Hn * t2), c = ~t2 * (o.Hn * t2);
    double m = 0.5 * (a + c), dsc = std::sqrt(0.25 * (a - c) * (a - c) + b * b);
    o.k1 = m + dsc; o.k2 = m - dsc; return o;
}

bool isNaN3(const Vec3& v) { return v[0] != v[0] || v[1] != v[1] || v[2] != v[2]; }
bool fin3(const Vec3& v) { return std::isfinite(v[0]) && std::isfinite(v[1]) && std::isfinite(v[2]); }

// ------------------------------------------------------------------ units
void unitNearest(pbt::Reader& g, Case& c, pbt::Ctx& ctx, int ui) {
    const Ref& R = c.ref; const ContactGeometry& geo = *c.geo; const double L = R.L;
    QP qp = genPoint(g, R); Vec3 Q = qp.q; double ou = g.unit(), ov = g.unit();
    Judge J{ctx, R, "unit " + std::to_string(ui) + " findNearestPoint Q=" + v3(Q)};
    if (ctx.wantDesc) ctx.desc << "  [" << ui << "] findNearestPoint Q=" << v3(Q) << " (mode " << qp.mode << ")\n";
    char off = offers(R.sh, M_NEAREST);
    if (off != 'y') {
        ctx.label(std::string("not-offered:") + shapeName[R.sh] + "/findNearestPoint");
        if (off == 't') { bool in = false; UnitVec3 n; bool threw = false; try { geo.findNearestPoint(Q, in, n); } catch (const std::exception&) { threw = true; }
            if (!threw) ctx.label(std::string("not-offered-but-returned:") + shapeName[R.sh] + "/findNearestPoint"); }
        return;
    }
    // known finding ellipsoid-nearestpoint-rootfinder: Ellipsoid::findNearestPoint solves a degree-6 polynomial (roots have
    // units length^2) with PolynomialRootFinder and accepts roots with |imag| < 1e-10 (absolute). Queries near a symmetry plane
    // give (nearly) multiple roots and 0/0 (garbage, NaN, points off the surface), and small ellipsoids hit the absolute
    // thresholds (garbage, +-inf, or an ErrorCheck exception "Failure to find any roots"). Site predicate on the INPUT:
    // some |Q_i|/a_i < 0.1, or largest radius < 0.3, or two radii within 1% of each other (multiple roots whatever Q).
    // Everything else about ellipsoids is decided.
    if (R.sh == ELLIPSOID) {
        double minrel = std::min(std::abs(Q[0]) / R.par[0], std::min(std::abs(Q[1]) / R.par[1], std::abs(Q[2]) / R.par[2]));
        double a = R.par[0], b = R.par[1], cc = R.par[2];
        bool nearEqual = std::abs(a - b) < 0.01 * std::max(a, b) || std::abs(a - cc) < 0.01 * std::max(a, cc) || std::abs(b - cc) < 0.01 * std::max(b, cc);
        if ((minrel < 0.1 || L < 0.3 || nearEqual) && ctx.known("ellipsoid-nearestpoint-rootfinder")) {
            ctx.label(minrel < 0.1 ? "excluded:ellipsoid-near-symmetry-plane" : L < 0.3 ? "excluded:ellipsoid-small-scale" : "excluded:ellipsoid-nearly-equal-radii");
            bool in = false; UnitVec3 n; try { geo.findNearestPoint(Q, in, n); } catch (const std::exception&) { ctx.label("excluded:ellipsoid-nearest-threw"); }
            return;
        }
    }
    // pre-poisoned outputs, two calls with opposite presets of the bool
    bool inA = false, inB = true; UnitVec3 nA(NaN, NaN, NaN), nB(NaN, NaN, NaN);
    Vec3 P = geo.findNearestPoint(Q, inA, nA); Vec3 P2 = geo.findNearestPoint(Q, inB, nB);
    ctx.label(std::string("nearest:") + shapeName[R.sh]); ctx.label("nearest-mode:" + std::to_string(qp.mode));
    ctx.nontrivial(!R.spherical() && !qp.onAxis);
    const double scale = L + Q.norm();
    double sd = R.sdist(Q);   // my signed distance (negative inside)
    bool degenerate = false;   // several nearest points exist
    if (R.sh == SPHERE) degenerate = Q.norm() <= 1e-12 * L;
    if (R.sh == CYLINDER) degenerate = std::hypot(Q[0], Q[1]) <= 1e-12 * L;
    if (R.sh == TORUS) degenerate = std::hypot(Q[0], Q[1]) <= 1e-12 * L;
    if (degenerate) ctx.label("nearest:degenerate-query");
    if (!ctx.check(!isNaN3(P - P2) && (P - P2).norm() == 0 || (isNaN3(P) && isNaN3(P2)), J.where + ": two identical calls returned different points " + v3(P) + " vs " + v3(P2))) return;
    // (V) finite point on the surface
    if (!fin3(P)) {
        // known findings: degenerate queries where the library divides 0/0
        if (R.sh == SPHERE && Q.norm() == 0 && ctx.known("sphere-nearestpoint-centre-nan")) { ctx.label("excluded:sphere-centre-nan"); return; }
        ctx.fail(J.where + ": returned point is not finite: " + v3(P)); return;
    }
    double onSurf = std::abs(R.sdist(P));
    double dLib = (Q - P).norm();
    Vec3 ctr = Q; double H = 2 * std::abs(sd) + L; Vec3 bestS(0);
    double dSamp = sampledMinDistance(R, Q, ctr, H, ou, ov, bestS);
    double dRef = dSamp; if (R.hasExactDistance()) dRef = std::min(dRef, std::abs(sd));
    const double tolP = 1e-7 * scale;
    bool okSurf = onSurf <= tolP, okOpt = dLib <= dRef + tolP;
    if (getenv("C34_DEBUG") && (!okSurf || !okOpt)) fprintf(stderr, "DEBUG %s par=%s Q=%s P=%s onSurf/L=%.3g (dLib-dRef)/L=%.3g sd/L=%.3g onAxis=%d\n", shapeName[R.sh], v3(R.par).c_str(), v3(Q).c_str(), v3(P).c_str(), onSurf / L, (dLib - dRef) / L, sd / L, (int)qp.onAxis);
    if (!J.le("on-surface|sdist(P)|", onSurf, tolP, "P=" + v3(P))) return;
    {   // library's own implicit function agrees that P is on the surface
        double f = geo.calcSurfaceValue(P), gn = geo.calcSurfaceGradient(P).norm();
        if (!J.le("calcSurfaceValue(P)/|grad|", std::abs(f) / std::max(gn, 1e-300), tolP, "P=" + v3(P) + " f=" + pbt::str(f))) return;
    }
    // (R) optimality
    if (!J.le("optimality |Q-P|-dRef", dLib - dRef, tolP, "P=" + v3(P) + " |Q-P|=" + pbt::str(dLib) + " but my surface point " + v3(bestS) + " is at " + pbt::str(dSamp) + (R.hasExactDistance() ? " (closed-form distance " + pbt::str(std::abs(sd)) + ")" : ""))) return;
    if (R.hasExactDistance() && !J.le("closed-form distance - |Q-P|", std::abs(sd) - dLib, tolP, "P=" + v3(P))) return;
    // outputs assigned?
    bool normalUnset = isNaN3(Vec3(nA)) && isNaN3(Vec3(nB)), insideUnset = (inA == false && inB == true);
    if (R.sh == TORUS && (normalUnset || insideUnset) && ctx.known("torus-nearestpoint-outputs-unset")) { ctx.label("excluded:torus-outputs-unset"); return; }
    if (!ctx.check(!insideUnset, J.where + ": output argument `inside` was not assigned (kept both pre-set values false/true)")) return;
    if (!ctx.check(!normalUnset, J.where + ": output argument `normal` was not assigned (still the pre-set NaN)")) return;
    if (!ctx.check(inA == inB, J.where + ": `inside` depends on its value before the call")) return;
    // inside flag <=> my implicit function negative (dead band around the surface)
    if (std::abs(sd) > 1e-12 * scale) { ctx.label(sd < 0 ? "nearest:inside" : "nearest:outside");
        if (!ctx.check(inA == (sd < 0), J.where + ": inside=" + std::to_string(inA) + " but my signed distance of Q is " + pbt::str(sd))) return;
        // documented sign convention of the library's implicit function: positive inside
        double fQ = geo.calcSurfaceValue(Q);
        if (!ctx.check((fQ > 0) == inA, J.where + ": inside=" + std::to_string(inA) + " but calcSurfaceValue(Q)=" + pbt::str(fQ) + " (documented: positive inside)")) return;
    } else ctx.label("nearest:on-surface-deadband");
    // unit outward normal at P
    Vec3 n(nA);
    if (!ctx.check(fin3(n), J.where + ": normal not finite " + v3(n))) return;
    if (!J.le("|normal|-1", std::abs(n.norm() - 1), 1e-12, v3(n))) return;
    if (!ctx.check((Vec3(nA) - Vec3(nB)).norm() == 0, J.where + ": normal differs between identical calls")) return;
    if (degenerate) return;   // any valid point was accepted; normal/parallel clauses need a unique foot point
    Vec3 nRef = R.normal(P);
    // conditioning: the normal turns by kappa_max * (error of P)
    double kmax = R.sh == ELLIPSOID ? std::max(R.par[0], std::max(R.par[1], R.par[2])) / std::pow(std::min(R.par[0], std::min(R.par[1], R.par[2])), 2) : R.sh == TORUS ? 1 / R.par[1] + 1 / (R.par[0] - R.par[1]) : 1 / L;
    double tolN = 1e-9 + kmax * tolP;
    if (!J.le("normal vs my outward normal at P", (n - nRef).norm(), tolN, "n=" + v3(n) + " mine=" + v3(nRef))) return;
    {   // library's own calcSurfaceUnitNormal agrees
        Vec3 nl(geo.calcSurfaceUnitNormal(P));
        if (!J.le("normal vs calcSurfaceUnitNormal(P)", (n - nl).norm(), tolN, "n=" + v3(n) + " lib=" + v3(nl))) return;
    }
    // (Q-P) parallel to n, pointing outward iff Q outside
    if (dLib > 1e-6 * scale) {
        Vec3 w = (Q - P) / dLib; double s = sd < 0 ? -1 : 1;
        if (!J.le("(Q-P) parallel to normal", (w - s * n).norm(), tolN + tolP / dLib, "unit(Q-P)=" + v3(w) + " n=" + v3(n))) return;
    }
}

void unitImplicit(pbt::Reader& g, Case& c, pbt::Ctx& ctx, int ui) {
    const Ref& R = c.ref; const ContactGeometry& geo = *c.geo; const double L = R.L;
    QP qp = genPoint(g, R); Vec3 p = qp.q;
    Judge J{ctx, R, "unit " + std::to_string(ui) + " implicit function at p=" + v3(p)};
    if (ctx.wantDesc) ctx.desc << "  [" << ui << "] implicit value/gradient/Hessian at p=" << v3(p) << "\n";
    if (offers(R.sh, M_IMPLICIT) != 'y') {
        ctx.label(std::string("not-offered:") + shapeName[R.sh] + "/implicitFunction");
        bool threw = false; try { geo.calcSurfaceValue(p); } catch (const std::exception&) { threw = true; }
        if (!threw) ctx.label(std::string("not-offered-but-returned:") + shapeName[R.sh] + "/implicitFunction");
        return;
    }
    double h = 1e-3 * L;
    // keep the stencil away from the singular sets of the implicit functions
    if (R.sh == TORUS && std::hypot(p[0], p[1]) < 0.1 * R.par[0]) { double m = std::hypot(p[0], p[1]); if (m == 0) { p[0] = 0.1 * R.par[0]; } else { p[0] *= 0.1 * R.par[0] / m; p[1] *= 0.1 * R.par[0] / m; } h = 1e-3 * 0.1 * R.par[0]; }
    if (R.sh == ELLIPSOID) h = 1e-3 * std::min(R.par[0], std::min(R.par[1], R.par[2]));
    if (R.sh == TORUS) h = std::min(h, 1e-3 * R.par[1]);
    if (R.sh == HEIGHTMAP) {   // stay inside one patch: the surface is piecewise bicubic (C2 only)
        int i = 0, j = 0; while (i + 2 < R.nx && p[0] >= R.gx[i + 1]) ++i; while (j + 2 < R.ny && p[1] >= R.gy[j + 1]) ++j;
        double cx = R.gx[i + 1] - R.gx[i], cy = R.gy[j + 1] - R.gy[j]; h = std::min(cx, cy) / 16;
        p[0] = std::min(R.gx[i + 1] - 0.25 * cx, std::max(R.gx[i] + 0.25 * cx, p[0])); p[1] = std::min(R.gy[j + 1] - 0.25 * cy, std::max(R.gy[j] + 0.25 * cy, p[1]));
    }
    ctx.label(std::string("implicit:") + shapeName[R.sh]); ctx.nontrivial(!R.spherical() && !qp.onAxis);
    const Function& fn = geo.getImplicitFunction();
    auto fLib = [&](const Vec3& x) { return geo.calcSurfaceValue(x); };
    auto fFun = [&](const Vec3& x) { return fn.calcValue(Vector(x)); };
    // sign convention and zero set against MY implicit function
    double sd = R.sdist(p), f0 = fLib(p), f1 = fFun(p);
    if (std::abs(sd) > 1e-9 * (L + p.norm())) {
        if (!ctx.check((f0 > 0) == (sd < 0), J.where + ": calcSurfaceValue=" + pbt::str(f0) + " has the wrong sign (documented positive inside); my signed distance " + pbt::str(sd))) return;
        if (!ctx.check((f1 > 0) == (sd < 0), J.where + ": getImplicitFunction().calcValue=" + pbt::str(f1) + " has the wrong sign; my signed distance " + pbt::str(sd))) return;
    }
    for (int route = 0; route < 2; ++route) {
        // route 0: calcSurfaceValue / calcSurfaceGradient / calcSurfaceHessian; route 1: the Function object
        auto f = [&](const Vec3& x) { return route == 0 ? fLib(x) : fFun(x); };
        auto grad = [&](const Vec3& x) { if (route == 0) return geo.calcSurfaceGradient(x); Vec3 o; Vector X(x); for (int i = 0; i < 3; ++i) { Array_<int> d(1, i); o[i] = fn.calcDerivative(d, X); } return o; };
        Vec3 ga = grad(p); Vec3 gf; double fmax = std::abs(f(p));
        for (int i = 0; i < 3; ++i) { gf[i] = fd1(f, p, i, h); Vec3 a = p; a[i] += 2*h; fmax = std::max(fmax, std::abs(f(a))); a[i] -= 4*h; fmax = std::max(fmax, std::abs(f(a))); }
        double tolG = 1e-6 * (ga.norm() + gf.norm()) + 1e-9 * fmax / h;
        if (!J.le(route == 0 ? "calcSurfaceGradient vs FD(calcSurfaceValue)" : "Function d/dx vs FD(Function value)", (ga - gf).norm(), tolG, "analytic " + v3(ga) + " fd " + v3(gf))) return;
        Mat33 Ha; if (route == 0) Ha = geo.calcSurfaceHessian(p); else { Vector X(p); for (int i = 0; i < 3; ++i) for (int j = 0; j < 3; ++j) { Array_<int> d; d.push_back(i); d.push_back(j); Ha(i, j) = fn.calcDerivative(d, X); } }
        double gmax = ga.norm(), err = 0, hn = 0; Mat33 Hf;
        for (int j = 0; j < 3; ++j) { Vec3 a = p; a[j] += 2*h; gmax = std::max(gmax, grad(a).norm()); a[j] -= 4*h; gmax = std::max(gmax, grad(a).norm());
            for (int i = 0; i < 3; ++i) { auto gi = [&](const Vec3& x) { return grad(x)[i]; }; Hf(i, j) = fd1(gi, p, j, h); } }
        for (int i = 0; i < 3; ++i) for (int j = 0; j < 3; ++j) { err = std::max(err, std::abs(Ha(i, j) - Hf(i, j))); hn = std::max(hn, std::max(std::abs(Ha(i, j)), std::abs(Hf(i, j)))); }
        double tolH = 1e-6 * hn + 1e-9 * gmax / h;
        if (!J.le(route == 0 ? "calcSurfaceHessian vs FD(calcSurfaceGradient)" : "Function d2/dxdy vs FD(Function d/dx)", err, tolH, "worst element difference, |H|max=" + pbt::str(hn))) return;
        for (int i = 0; i < 3; ++i) for (int j = i + 1; j < 3; ++j) if (!ctx.check(Ha(i, j) == Ha(j, i) || std::abs(Ha(i, j) - Ha(j, i)) <= 1e-12 * hn, J.where + ": Hessian not symmetric")) return;
        if (route == 0) {   // calcSurfaceUnitNormal = -grad/|grad|
            if (ga.norm() > 1e-6 * fmax / L) { Vec3 nl(geo.calcSurfaceUnitNormal(p)); if (!J.le("calcSurfaceUnitNormal vs -grad/|grad|", (nl + ga / ga.norm()).norm(), 1e-12, v3(nl))) return; }
        }
    }
    if (R.sh == HEIGHTMAP) {   // interpolation property at a grid node, and the domain predicate
        int i = g.pick(R.nx), j = g.pick(R.ny); double z = L * g.real(-1, 1);
        double f = geo.calcSurfaceValue(Vec3(R.gx[i], R.gy[j], z)), want = R.gf[i * R.ny + j] - z;
        if (!J.le("height map passes through sample", std::abs(f - want), 1e-9 * L, "node " + std::to_string(i) + "," + std::to_string(j) + " value " + pbt::str(f) + " expected " + pbt::str(want))) return;
        if (!ctx.check(geo.isSurfaceDefined(p), J.where + ": isSurfaceDefined false inside the grid")) return;
        Vec3 out(R.gx.back() + (1 + std::abs(z)) * 1e-3 * L, p[1], 0);
        if (!ctx.check(!geo.isSurfaceDefined(out), J.where + ": isSurfaceDefined true outside the grid at " + v3(out))) return;
    }
}

void unitCurvature(pbt::Reader& g, Case& c, pbt::Ctx& ctx, int ui) {
    const Ref& R = c.ref; const ContactGeometry& geo = *c.geo; const double L = R.L;
    double u = g.unit(), v = g.unit(); Vec3 ctr = L * Vec3(g.real(-3, 3), g.real(-3, 3), g.real(-3, 3)); double ang = g.angle();
    if (ctx.wantDesc) ctx.desc << "  [" << ui << "] curvature";
    if (R.sh == BRICK) { ctx.label("not-offered:brick/calcCurvature"); ctx.label("not-offered:brick/calcSurfacePrincipalCurvatures");
        bool threw = false; Vec2 k; Rotation Rr; try { geo.calcCurvature(Vec3(R.par[0], 0, 0), k, Rr); } catch (const std::exception&) { threw = true; }
        if (!threw) ctx.label("not-offered-but-returned:brick/calcCurvature");
        if (ctx.wantDesc) ctx.desc << " (brick: not offered)\n"; return; }
    // keep away from the parameterisation's poles only in the sense that S is any surface point
    if (R.sh == HEIGHTMAP) { u = 0.02 + 0.96 * u; v = 0.02 + 0.96 * v; }
    Vec3 S = R.param(u, v, ctr, 2 * L);
    double hstep = 1e-3 * L;
    if (R.sh == ELLIPSOID) hstep = 1e-3 * std::min(R.par[0], std::min(R.par[1], R.par[2]));
    if (R.sh == TORUS) hstep = 1e-3 * std::min(R.par[1], R.par[0] - R.par[1]);
    if (R.sh == HEIGHTMAP) {   // my F uses the library's bicubic evaluation: keep the stencil inside one patch
        int i = 0, j = 0; while (i + 2 < R.nx && S[0] >= R.gx[i + 1]) ++i; while (j + 2 < R.ny && S[1] >= R.gy[j + 1]) ++j;
        double cx = R.gx[i + 1] - R.gx[i], cy = R.gy[j + 1] - R.gy[j]; hstep = std::min(cx, cy) / 32;
        double x = std::min(R.gx[i + 1] - 0.25 * cx, std::max(R.gx[i] + 0.25 * cx, S[0])), y = std::min(R.gy[j + 1] - 0.25 * cy, std::max(R.gy[j] + 0.25 * cy, S[1]));
        S = Vec3(x, y, R.h(x, y));
    }
    Judge J{ctx, R, "unit " + std::to_string(ui) + " curvature at S=" + v3(S)};
    if (ctx.wantDesc) ctx.desc << " at surface point S=" << v3(S) << "\n";
    ctx.label(std::string("curvature:") + shapeName[R.sh]); ctx.nontrivial(!R.spherical());
    MyCurv mc = myCurvature(R, S, hstep);
    // closed forms double-check my finite-difference reference
    double ck1 = NaN, ck2 = NaN;
    if (R.sh == SPHERE) ck1 = ck2 = 1 / R.par[0];
    if (R.sh == CYLINDER) { ck1 = 1 / R.par[0]; ck2 = 0; }
    if (R.sh == HALFSPACE) ck1 = ck2 = 0;
    if (R.sh == TORUS) { double b = 2 * PI * v; double kb = std::cos(b) / (R.par[0] + R.par[1] * std::cos(b)), ka = 1 / R.par[1]; ck1 = std::max(ka, kb); ck2 = std::min(ka, kb); }
    if (R.sh == ELLIPSOID) { double a = R.par[0], b = R.par[1], cc = R.par[2]; double hh = 1 / std::sqrt(S[0]*S[0]/(a*a*a*a) + S[1]*S[1]/(b*b*b*b) + S[2]*S[2]/(cc*cc*cc*cc));
        double K = hh*hh*hh*hh / (a*a*b*b*cc*cc), Hm = hh*hh*hh * (a*a + b*b + cc*cc - S.normSqr()) / (2*a*a*b*b*cc*cc); double ds = std::sqrt(std::max(0.0, Hm*Hm - K)); ck1 = Hm + ds; ck2 = Hm - ds; }
    const double ksc = std::max(std::abs(mc.k1), std::abs(mc.k2)) + 1 / L;
    if (ck1 == ck1) { if (!ctx.check(std::abs(ck1 - mc.k1) <= 1e-5 * ksc && std::abs(ck2 - mc.k2) <= 1e-5 * ksc, J.where + ": ORACLE SELF-CHECK: closed-form curvatures (" + pbt::str(ck1) + "," + pbt::str(ck2) + ") vs my finite-difference shape operator (" + pbt::str(mc.k1) + "," + pbt::str(mc.k2) + ")")) return; mc.k1 = ck1; mc.k2 = ck2; }
    const double tolK = 1e-6 * ksc, tolKfd = ck1 == ck1 ? tolK : 1e-5 * ksc;
    auto kn = [&](const Vec3& t) { return ~t * (mc.Hn * t); };
    auto checkFrame = [&](const char* what, const Vec2& k, const Rotation& Rot) -> bool {
        Vec3 x(Rot.x()), y(Rot.y()), z(Rot.z());
        if (!ctx.check(fin3(x) && fin3(y) && fin3(z) && std::isfinite(k[0]) && std::isfinite(k[1]), J.where + ": " + what + " returned non-finite output k=(" + pbt::str(k[0]) + "," + pbt::str(k[1]) + ")")) return false;
        if (!J.le((std::string(what) + " kmax").c_str(), std::abs(k[0] - mc.k1), tolKfd, "k=(" + pbt::str(k[0]) + "," + pbt::str(k[1]) + ") mine (" + pbt::str(mc.k1) + "," + pbt::str(mc.k2) + ")")) return false;
        if (!J.le((std::string(what) + " kmin").c_str(), std::abs(k[1] - mc.k2), tolKfd, "k=(" + pbt::str(k[0]) + "," + pbt::str(k[1]) + ") mine (" + pbt::str(mc.k1) + "," + pbt::str(mc.k2) + ")")) return false;
        if (!ctx.check(k[0] >= k[1] - tolK, J.where + ": " + what + " kmax < kmin")) return false;
        Mat33 M = Rot.asMat33(); double orth = 0; Mat33 MtM = ~M * M; for (int i = 0; i < 3; ++i) for (int j = 0; j < 3; ++j) orth = std::max(orth, std::abs(MtM(i, j) - (i == j)));
        if (!J.le((std::string(what) + " frame orthonormal").c_str(), orth, 1e-10, "")) return false;
        if (!ctx.check(det(M) > 0, J.where + ": " + what + " frame is left handed")) return false;
        // known finding: HalfSpace::calcCurvature returns the frame (-x, y, -z): its z axis is a tangent, the normal is its x axis
        if (R.sh == HALFSPACE && std::string(what) == "calcCurvature" && (z - mc.n).norm() > 1e-6 && ctx.known("halfspace-calccurvature-frame")) { ctx.label("excluded:halfspace-calccurvature-frame"); return true; }
        if (!J.le((std::string(what) + " z axis = outward normal").c_str(), (z - mc.n).norm(), 1e-6, "z=" + v3(z) + " mine=" + v3(mc.n))) return false;
        // axes are principal directions: normal curvature along x is kmax, along y is kmin (robust at umbilics)
        if (!J.le((std::string(what) + " x axis is a kmax direction").c_str(), std::abs(kn(x) - mc.k1), 10 * tolKfd, "normal curvature along x=" + pbt::str(kn(x)))) return false;
        if (!J.le((std::string(what) + " y axis is a kmin direction").c_str(), std::abs(kn(y) - mc.k2), 10 * tolKfd, "normal curvature along y=" + pbt::str(kn(y)))) return false;
        return true;
    };
    {   // generic implicit route
        Vec2 k(NaN, NaN); Rotation Rot; Rot.setRotationToNaN();
        geo.calcSurfacePrincipalCurvatures(S, k, Rot);
        if (!checkFrame("calcSurfacePrincipalCurvatures", k, Rot)) return;
    }
    if (offers(R.sh, M_CURVATURE) == 'y') {
        Vec2 k(NaN, NaN); Rotation Rot; Rot.setRotationToNaN();
        geo.calcCurvature(S, k, Rot);
        if (!checkFrame("calcCurvature", k, Rot)) return;
    } else { ctx.label(std::string("not-offered:") + shapeName[R.sh] + "/calcCurvature");
        bool threw = false; Vec2 k; Rotation Rr; try { geo.calcCurvature(S, k, Rr); } catch (const std::exception&) { threw = true; }
        if (!threw) ctx.label(std::string("not-offered-but-returned:") + shapeName[R.sh] + "/calcCurvature"); }
    // Gaussian curvature
    double Kg = geo.calcGaussianCurvature(S);
    if (!J.le("calcGaussianCurvature", std::abs(Kg - mc.k1 * mc.k2), 10 * tolKfd * ksc, "Kg=" + pbt::str(Kg) + " mine=" + pbt::str(mc.k1 * mc.k2))) return;
    // curvature in a tangent direction
    Vec3 t1 = std::abs(mc.n[0]) < 0.7 ? Vec3(1, 0, 0) : Vec3(0, 1, 0); t1 -= (~t1 * mc.n) * mc.n; t1 /= t1.norm(); Vec3 t2 = mc.n % t1;
    Vec3 t = std::cos(ang) * t1 + std::sin(ang) * t2;
    double kd = geo.calcSurfaceCurvatureInDirection(S, UnitVec3(t));
    if (!J.le("calcSurfaceCurvatureInDirection", std::abs(kd - kn(t)), 10 * tolKfd, "dir=" + v3(t) + " k=" + pbt::str(kd) + " mine=" + pbt::str(kn(t)))) return;
    // geodesic torsion magnitude: |t^T Hn (n x t)|
    double tau = geo.calcSurfaceTorsionInDirection(S, UnitVec3(t)); double myTau = ~t * (mc.Hn * (mc.n % t));
    if (!J.le("|calcSurfaceTorsionInDirection|", std::abs(std::abs(tau) - std::abs(myTau)), 10 * tolKfd, "tau=" + pbt::str(tau) + " mine(+-)=" + pbt::str(myTau))) return;
}

void unitSupport(pbt::Reader& g, Case& c, pbt::Ctx& ctx, int ui) {
    const Ref& R = c.ref; const ContactGeometry& geo = *c.geo; const double L = R.L;
    double dv[3]; g.unit3(dv); Vec3 d(dv[0], dv[1], dv[2]); double ou = g.unit(), ov = g.unit();
    Judge J{ctx, R, "unit " + std::to_string(ui) + " calcSupportPoint d=" + v3(d)};
    if (ctx.wantDesc) ctx.desc << "  [" << ui << "] calcSupportPoint d=" << v3(d) << "\n";
    char off = offers(R.sh, M_SUPPORT);
    if (off != 'y') { ctx.label(std::string("not-offered:") + shapeName[R.sh] + "/calcSupportPoint");
        if (off == 't') { bool threw = false; try { geo.calcSupportPoint(UnitVec3(d)); } catch (const std::exception&) { threw = true; } if (!threw) ctx.label(std::string("not-offered-but-returned:") + shapeName[R.sh] + "/calcSupportPoint"); }
        return; }
    ctx.label(std::string("support:") + shapeName[R.sh]); ctx.nontrivial(!R.spherical());
    if (!ctx.check(geo.isConvex(), J.where + ": shape offering a support point is not flagged convex")) return;
    Vec3 S = geo.calcSupportPoint(UnitVec3(d));
    if (!ctx.check(fin3(S), J.where + ": support point not finite " + v3(S))) return;
    if (!J.le("support point on surface", std::abs(R.sdist(S)), 1e-9 * L, "S=" + v3(S))) return;
    double hS = ~d * S, best = -1e300; Vec3 bs(0);
    for (int k = 0; k < 400; ++k) { double u = std::fmod(ou + k * 0.6180339887498949, 1.0), v = std::fmod(ov + (k + 0.5) / 400, 1.0); Vec3 s = R.param(u, v, Vec3(0), L); double hv = ~d * s; if (hv > best) { best = hv; bs = s; } }
    if (!J.le("support value vs sampled surface points", best - hS, 1e-9 * L, "d.S=" + pbt::str(hS) + " but my surface point " + v3(bs) + " has d.S'=" + pbt::str(best))) return;
    double exact = R.sh == SPHERE ? R.par[0] : R.sh == ELLIPSOID ? std::sqrt(square(R.par[0]*d[0]) + square(R.par[1]*d[1]) + square(R.par[2]*d[2])) : R.par[0]*std::abs(d[0]) + R.par[1]*std::abs(d[1]) + R.par[2]*std::abs(d[2]);
    if (!J.le("support value vs closed-form support function", std::abs(exact - hS), 1e-9 * L, "d.S=" + pbt::str(hS) + " closed form " + pbt::str(exact))) return;
}

void unitBounding(pbt::Reader& g, Case& c, pbt::Ctx& ctx, int ui) {
    const Ref& R = c.ref; const ContactGeometry& geo = *c.geo; const double L = R.L; double ou = g.unit(), ov = g.unit();
    Judge J{ctx, R, "unit " + std::to_string(ui) + " getBoundingSphere"};
    Vec3 ctr(NaN); Real rad = NaN; geo.getBoundingSphere(ctr, rad);
    if (ctx.wantDesc) ctx.desc << "  [" << ui << "] getBoundingSphere -> centre " << v3(ctr) << " radius " << rad << "\n";
    ctx.label(std::string("bsphere:") + shapeName[R.sh]); ctx.nontrivial(!R.spherical());
    if (!ctx.check(fin3(ctr) && rad == rad && rad >= 0, J.where + ": centre/radius not assigned or invalid: " + v3(ctr) + " r=" + pbt::str(rad))) return;
    if (!R.finite()) { ctx.check(std::isinf(rad), J.where + ": infinite shape with finite bounding sphere radius " + pbt::str(rad)); return; }
    if (!ctx.check(std::isfinite(rad), J.where + ": finite shape with infinite bounding radius")) return;
    double worst = -1e300; Vec3 ws(0);
    for (int k = 0; k < 400; ++k) { double u = std::fmod(ou + k * 0.6180339887498949, 1.0), v = std::fmod(ov + (k + 0.5) / 400, 1.0); Vec3 s = R.param(u, v, Vec3(0), L); double e = (s - ctr).norm() - rad; if (e > worst) { worst = e; ws = s; } }
    if (R.sh == BRICK) for (int k = 0; k < 8; ++k) { Vec3 s((k & 1 ? 1 : -1) * R.par[0], (k & 2 ? 1 : -1) * R.par[1], (k & 4 ? 1 : -1) * R.par[2]); double e = (s - ctr).norm() - rad; if (e > worst) { worst = e; ws = s; } }
    if (R.sh == HEIGHTMAP) for (int i = 0; i < R.nx; ++i) for (int j = 0; j < R.ny; ++j) { Vec3 s(R.gx[i], R.gy[j], R.gf[i * R.ny + j]); double e = (s - ctr).norm() - rad; if (e > worst) { worst = e; ws = s; } }
    J.le("surface point outside bounding sphere", worst, 1e-9 * (L + rad), "surface point " + v3(ws) + " is " + pbt::str(worst) + " outside (centre " + v3(ctr) + ", radius " + pbt::str(rad) + ")");
}

void unitRay(pbt::Reader& g, Case& c, pbt::Ctx& ctx, int ui) {
    const Ref& R = c.ref; const ContactGeometry& geo = *c.geo; const double L = R.L;
    QP qp = genPoint(g, R); Vec3 o = qp.q; int dmode = g.pick(4); double dv[3]; g.unit3(dv); Vec3 d(dv[0], dv[1], dv[2]); double u = g.unit(), v = g.unit(); double e = g.real(3, 12); bool neg = g.boolean();
    char off = offers(R.sh, M_RAY);
    if (off == 'y' && dmode >= 1) {
        Vec3 S = R.param(u, v, o, 2 * L);
        if (dmode == 1 || dmode == 2) { Vec3 w = S - o; if (w.norm() > 0) d = (dmode == 1 ? 1.0 : -1.0) * w / w.norm(); }
        else { Vec3 n = R.normal(S); Vec3 t = d - (~d * n) * n; if (t.norm() > 1e-3) { t /= t.norm(); d = t; o = S + n * ((neg ? -1 : 1) * L * std::pow(10.0, -e)) - t * (L * (1 + 3 * u)); } }
    }
    Judge J{ctx, R, "unit " + std::to_string(ui) + " intersectsRay o=" + v3(o) + " d=" + v3(d)};
    if (ctx.wantDesc) ctx.desc << "  [" << ui << "] intersectsRay origin=" << v3(o) << " direction=" << v3(d) << " (dmode " << dmode << ")\n";
    if (off != 'y') { ctx.label(std::string("not-offered:") + shapeName[R.sh] + "/intersectsRay");
        if (off == 't') { bool threw = false; Real dist = 0; UnitVec3 n; try { geo.intersectsRay(o, UnitVec3(d), dist, n); } catch (const std::exception&) { threw = true; } if (!threw) ctx.label(std::string("not-offered-but-returned:") + shapeName[R.sh] + "/intersectsRay"); }
        return; }
    UnitVec3 ud(d); d = Vec3(ud);
    ctx.label(std::string("ray:") + shapeName[R.sh]); ctx.label("ray-dmode:" + std::to_string(dmode)); ctx.nontrivial(!R.spherical());
    // exact restriction of my implicit function (quadratic form, negative inside) to the ray: A t^2 + B t + C
    typedef long double LD; LD A = 0, B = 0, C = 0;
    { LD w[3] = {1, 1, 1}; LD k0 = 0;
      if (R.sh == SPHERE) { k0 = (LD)R.par[0] * R.par[0]; }
      if (R.sh == ELLIPSOID) { for (int i = 0; i < 3; ++i) w[i] = 1 / ((LD)R.par[i] * R.par[i]); k0 = 1; }
      if (R.sh == CYLINDER) { w[2] = 0; k0 = (LD)R.par[0] * R.par[0]; }
      if (R.sh == HALFSPACE) { A = 0; B = -(LD)d[0]; C = -(LD)o[0]; }
      else { for (int i = 0; i < 3; ++i) { A += w[i] * (LD)d[i] * d[i]; B += 2 * w[i] * (LD)o[i] * d[i]; C += w[i] * (LD)o[i] * o[i]; } C -= k0; } }
    // roots with dead bands: status of "a hit exists" = +1 certainly, -1 certainly not, 0 undecided (grazing / on-surface origin)
    const LD band = 1e-9L; LD tFirst = -1, tSecond = -1; int status;
    LD Cs = std::abs(C), magC = 0;   // magnitude of the terms forming C (for the on-surface dead band)
    if (R.sh == HALFSPACE) magC = std::abs((LD)o[0]) + (LD)1e-300; else { magC = (R.sh == SPHERE || R.sh == CYLINDER) ? (LD)R.par[0]*R.par[0] : 1; for (int i = 0; i < 3; ++i) { LD wi = R.sh == ELLIPSOID ? 1 / ((LD)R.par[i]*R.par[i]) : (R.sh == CYLINDER && i == 2 ? 0 : 1); magC += wi * (LD)o[i] * o[i]; } }
    bool originOnSurface = Cs <= band * magC || (R.sh == HALFSPACE && std::abs(o[0]) <= 1e-12 * (L + o.norm()));
    if (R.sh == HALFSPACE || A == 0) {
        if (R.sh != HALFSPACE) { status = (A == 0 && !originOnSurface) ? -1 : 0; }   // cylinder ray parallel to the axis: never hits
        else if (std::abs(B) < 1e-9L) status = 0;
        else { LD t = -C / B; if (originOnSurface) status = 0; else if (t > 0) { status = 1; tFirst = t; } else status = -1; }
    } else {
        LD disc = B * B - 4 * A * C, dmag = B * B + 4 * A * magC;
        if (originOnSurface) status = 0;                                      // first hit is the origin itself or the other root
        else if (std::abs(disc) <= 1e-9L * dmag) status = 0;                  // grazing
        else if (disc < 0) status = -1;
        else { LD sq = std::sqrt(disc), q = -(B + (B >= 0 ? sq : -sq)) / 2; LD t1 = q / A, t2 = (q != 0 ? C / q : 0); if (t1 > t2) std::swap(t1, t2);
            if (t1 > 0) { status = 1; tFirst = t1; tSecond = t2; } else if (t2 > 0) { status = 1; tFirst = t2; } else status = -1; }
    }
    Real dist = NaN; UnitVec3 n(NaN, NaN, NaN);
    bool hit = geo.intersectsRay(o, ud, dist, n);
    ctx.label(status == 1 ? (hit ? "ray:hit" : "ray:MISSED") : status == -1 ? (hit ? "ray:PHANTOM" : "ray:no-hit") : "ray:undecided(grazing/on-surface)");
    if (!hit) {
        if (!ctx.check(status != 1, J.where + ": no intersection reported but the ray hits the surface at distance " + pbt::str((double)tFirst))) return;
        if (!ctx.check(dist != dist && isNaN3(Vec3(n)), J.where + ": returned false but modified its outputs (documented: left unchanged): distance=" + pbt::str(dist))) return;
        return;
    }
    // known finding: Cylinder::intersectsRay divides 0/0 for a ray exactly parallel to the axis and reports a hit with NaN outputs
    if (R.sh == CYLINDER && d[0] == 0 && d[1] == 0 && !std::isfinite(dist) && ctx.known("cylinder-ray-parallel-axis-nan")) { ctx.label("excluded:cylinder-ray-parallel-axis-nan"); return; }
    // hit reported: outputs valid whatever my classification
    if (!ctx.check(std::isfinite(dist) && fin3(Vec3(n)), J.where + ": intersection reported with non-finite distance/normal: distance=" + pbt::str(dist) + " normal=" + v3(Vec3(n)))) return;
    const double scale = L + o.norm() + std::abs(dist);
    if (!ctx.check(dist >= -1e-9 * scale, J.where + ": negative distance " + pbt::str(dist))) return;
    Vec3 Pt = o + dist * d;
    // conditioning of the hit point: error grows like 1/|cos(incidence)| near grazing
    Vec3 nRef = R.normal(Pt); double cosInc = std::abs(~nRef * d);
    double tolPt = 1e-9 * scale / std::max(cosInc, 1e-4);
    if (!J.le("hit point on surface", std::abs(R.sdist(Pt)) * (status == 0 ? 1e-3 : 1.0), 1e-9 * scale * 10, "point " + v3(Pt) + " distance " + pbt::str(dist))) return;
    if (!J.le("|normal|-1", std::abs(Vec3(n).norm() - 1), 1e-12, "")) return;
    if (!J.le("normal at hit point", (Vec3(n) - nRef).norm(), 1e-9 + tolPt / L * (R.sh == ELLIPSOID ? square(std::max(R.par[0], std::max(R.par[1], R.par[2])) / std::min(R.par[0], std::min(R.par[1], R.par[2]))) : 1.0), "n=" + v3(Vec3(n)) + " mine=" + v3(nRef))) return;
    if (status == -1) { ctx.fail(J.where + ": intersection reported at distance " + pbt::str(dist) + " but the ray never meets the surface"); return; }
    if (status == 1) {
        if (!J.le("distance vs first root of my implicit function along the ray", std::abs(dist - (double)tFirst), tolPt + 1e-9 * scale, "distance=" + pbt::str(dist) + " first root=" + pbt::str((double)tFirst) + (tSecond > 0 ? " (second " + pbt::str((double)tSecond) + ")" : ""))) return;
    }
}

void property(const pbt::Tape& t, pbt::Ctx& ctx) {
    Case c; buildCase(t[0], c);
    ctx.label(std::string("shape:") + shapeName[c.ref.sh]);
    if (ctx.wantDesc) ctx.desc << c.descr << "\n";
    for (size_t k = 1; k < t.size() && !ctx.failed; ++k) {
        pbt::Reader g(t[k]); int kind = g.pick(8);
        switch (kind) {
        case 0: case 6: unitNearest(g, c, ctx, (int)k); break;
        case 1: unitImplicit(g, c, ctx, (int)k); break;
        case 2: unitCurvature(g, c, ctx, (int)k); break;
        case 3: unitSupport(g, c, ctx, (int)k); break;
        case 4: case 7: unitRay(g, c, ctx, (int)k); break;
        case 5: unitBounding(g, c, ctx, (int)k); break;
        }
        if (CALIB && ctx.failed) { std::string m = ctx.msg; size_t p = m.find(": "); if (p != std::string::npos) m = m.substr(p + 2); ctx.label(std::string("calib:HARD-FAIL:") + shapeName[c.ref.sh] + ":" + m.substr(0, 60)); ctx.failed = false; ctx.msg.clear(); }
    }
}

pbt::Config config() {
    pbt::Config c; c.prop = "C34"; c.K = 16; c.minUnits = 1;
    c.quick = {2500, 20000, 24, 8}; c.thorough = {20000, 400000, 30, 60};
    c.rule = "rapidcheck tape -> shape {sphere, ellipsoid, cylinder, torus, brick, half space, smooth height map} with scale 1e-2..1e2 and aspect ratios 1..20, then 1..N query units {nearest point, implicit value/gradient/Hessian, curvatures, support point, ray, bounding sphere} with query points in a box (special values give centre/axes/planes), within 1e-9..1e-3 of / exactly on the surface, on symmetry axes, far away. Non-trivial: non-spherical shape and (for point queries) query not on a symmetry axis/plane; distinct by tape hash.";
    c.assumptions = {"my own implicit functions / parameterisations / closed forms of the seven shapes (written from the class documentation) are the reference",
                     "BicubicSurface::calcValue is the definition of the height-map surface (the interpolation property at the grid nodes is checked)",
                     "methods listed as not offered (throwing or assert(false) stubs) are outside the property"};
    c.directed.push_back({"torus-nearest-point-outputs", "torus-nearestpoint-outputs-unset", [](pbt::Ctx& ctx) {
        ContactGeometry::Torus tor(2, 0.5); Vec3 Q(3, 0, 0);
        bool inA = false, inB = true; UnitVec3 nA(NaN, NaN, NaN), nB(NaN, NaN, NaN);
        Vec3 P = tor.findNearestPoint(Q, inA, nA), P2 = tor.findNearestPoint(Q, inB, nB);
        ctx.desc << "Torus(2,0.5).findNearestPoint((3,0,0)) -> P=" << v3(P) << " inside(preset false)=" << inA << " inside(preset true)=" << inB << " normal=" << v3(Vec3(nA)) << "\n";
        ctx.check((P - Vec3(2.5, 0, 0)).norm() < 1e-12 && (P2 - P).norm() == 0, "nearest point wrong");
        ctx.check(inA == false && inB == false, "`inside` not assigned: a query outside the torus keeps the caller's value (false->" + std::to_string(inA) + ", true->" + std::to_string(inB) + ")");
        ctx.check((Vec3(nA) - Vec3(1, 0, 0)).norm() < 1e-12 && (Vec3(nB) - Vec3(1, 0, 0)).norm() < 1e-12, "`normal` not assigned: " + v3(Vec3(nA)));
        // inside query
        Vec3 Qi(2.1, 0, 0.1); bool in = false; UnitVec3 n(NaN, NaN, NaN); tor.findNearestPoint(Qi, in, n);
        ctx.check(in == true, "`inside` false for a query inside the tube");
    }});
    c.directed.push_back({"sphere-nearest-point-centre", "sphere-nearestpoint-centre-nan", [](pbt::Ctx& ctx) {
        ContactGeometry::Sphere sph(1.5); bool in = false; UnitVec3 n(NaN, NaN, NaN); Vec3 P = sph.findNearestPoint(Vec3(0), in, n);
        ctx.desc << "Sphere(1.5).findNearestPoint((0,0,0)) -> P=" << v3(P) << " inside=" << in << " normal=" << v3(Vec3(n)) << "\n";
        ctx.check(fin3(P) && std::abs(P.norm() - 1.5) < 1e-12, "query at the centre (every surface point is nearest; documented: any of them may be returned) returns " + v3(P));
        ctx.check(fin3(Vec3(n)) && (Vec3(n) - P / 1.5).norm() < 1e-12, "normal at the returned point is " + v3(Vec3(n)));
        ctx.check(in, "centre not reported inside");
    }});
    c.directed.push_back({"halfspace-calccurvature-frame", "halfspace-calccurvature-frame", [](pbt::Ctx& ctx) {
        ContactGeometry::HalfSpace hs; Vec2 k(NaN, NaN); Rotation Rot; hs.calcCurvature(Vec3(0, 1, 2), k, Rot);
        ctx.desc << "HalfSpace.calcCurvature((0,1,2)) -> k=(" << k[0] << "," << k[1] << ") x=" << v3(Vec3(Rot.x())) << " y=" << v3(Vec3(Rot.y())) << " z=" << v3(Vec3(Rot.z())) << "\n";
        ctx.check(k[0] == 0 && k[1] == 0, "curvatures not zero");
        ctx.check((Vec3(Rot.z()) - Vec3(-1, 0, 0)).norm() < 1e-12, "z axis of the returned frame is " + v3(Vec3(Rot.z())) + ", documented: the surface normal, here (-1,0,0) (= HalfSpace::getNormal())");
        ctx.check(det(Rot.asMat33()) > 0.999, "frame not right handed");
    }});
    c.directed.push_back({"cylinder-ray-parallel-to-axis", "cylinder-ray-parallel-axis-nan", [](pbt::Ctx& ctx) {
        ContactGeometry::Cylinder cyl(1);
        for (int k = 0; k < 2; ++k) { Vec3 o(k == 0 ? 3.0 : 0.25, 0, 0); Real dist = NaN; UnitVec3 n(NaN, NaN, NaN);
            bool hit = cyl.intersectsRay(o, UnitVec3(0, 0, 1), dist, n);
            ctx.desc << "Cylinder(1).intersectsRay(" << v3(o) << ",(0,0,1)) -> " << hit << " distance=" << dist << " normal=" << v3(Vec3(n)) << "\n";
            ctx.check(!hit, std::string("ray parallel to the axis (origin ") + (k == 0 ? "outside" : "inside") + ") never meets the surface but a hit is reported with distance " + pbt::str(dist));
            ctx.check(dist != dist, "distance modified although no intersection exists"); }
    }});
    c.directed.push_back({"ellipsoid-nearest-point-symmetry-plane", "ellipsoid-nearestpoint-rootfinder", [](pbt::Ctx& ctx) {
        // (a) query on the major axis inside: the nearest points are off the axis; (b) the centre; (c) a small ellipsoid, generic outside query
        struct T { Vec3 rad, Q; } tests[] = {{Vec3(1, 0.6, 0.4), Vec3(0.2, 0, 0)}, {Vec3(1, 0.6, 0.4), Vec3(0, 0, 0)}, {Vec3(1, 1, 1), Vec3(-1.2347227670252323, 1.5707963267948966, -0.1)},
                                     {Vec3(0.010923677810653017, 0.03277103343195905, 0.019441599882910058), Vec3(-0.037428594561322887, -0.008872123367046552, -0.079769140376634379)}};
        for (auto& t : tests) { Ref R; R.sh = ELLIPSOID; R.par = t.rad; R.L = std::max(t.rad[0], std::max(t.rad[1], t.rad[2]));
            ContactGeometry::Ellipsoid e(t.rad); bool in = false; UnitVec3 n(NaN, NaN, NaN); Vec3 P(NaN); std::string exc;
            try { P = e.findNearestPoint(t.Q, in, n); } catch (const std::exception& ex) { exc = ex.what(); }
            Vec3 bs(0); double dRef = sampledMinDistance(R, t.Q, t.Q, R.L, 0.1, 0.2, bs);
            ctx.desc << "Ellipsoid" << v3(t.rad) << ".findNearestPoint(" << v3(t.Q) << ") -> P=" << v3(P) << (exc.empty() ? "" : " EXCEPTION") << "; my nearest surface point " << v3(bs) << " at distance " << dRef << "\n";
            if (!ctx.check(exc.empty(), "exception for a valid query: " + exc.substr(0, 160))) continue;
            if (!ctx.check(fin3(P) && std::abs(R.sdist(P)) <= 1e-6 * R.L, "returned point " + v3(P) + " is not on the ellipsoid " + v3(t.rad) + " (query " + v3(t.Q) + ")")) continue;
            ctx.check((t.Q - P).norm() <= dRef + 1e-6 * R.L, "returned point " + v3(P) + " at distance " + pbt::str((t.Q - P).norm()) + " but the surface point " + v3(bs) + " is at " + pbt::str(dRef)); }
    }});
    c.requiredLabels = {"nearest:sphere", "nearest:ellipsoid", "nearest:cylinder", "nearest:torus", "nearest:halfspace", "nearest:inside", "nearest:outside",
                        "implicit:ellipsoid", "implicit:torus", "implicit:heightmap", "curvature:ellipsoid", "curvature:torus", "curvature:heightmap", "curvature:cylinder",
                        "support:ellipsoid", "support:brick", "support:sphere", "ray:sphere", "ray:ellipsoid", "ray:cylinder", "ray:halfspace", "ray:hit", "ray:no-hit",
                        "bsphere:brick", "bsphere:heightmap", "bsphere:torus", "not-offered:brick/findNearestPoint", "not-offered:torus/intersectsRay"};
    return c;
}
} // namespace

PBT_MAIN(config(), property)
