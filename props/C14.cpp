// C14 -- Mobilizer reaction forces satisfy Newton-Euler for every body (DESIGN.md 5, C14).
// Domain: mbgen trees (all 18 mobilizer types incl. Weld, branching, reversed, general frames, Euler/quaternion),
// massless bodies where legal (non-terminal or welded; a singular reference mass matrix is rejected), gravity +
// random mobility forces and body wrenches on every body incl. Ground through Force::DiscreteForces, and
// (second stage) Constraint::Ball / Rod / Weld between random bodies plus prescribed motion / locks (presc.h).
// Oracle, after realize(Acceleration):
//  (R1) for every body b >= 1, with my own spatial inertia SI_b about Bo in G (refdyn.h), reported V_b, A_b:
//         SI_b A_b + gyro_b = F_applied,b - F_constraint,b + shift(R_b: Mo->Bo) - sum_{c child of b} shift(R_c: Mc->Bo)
//       R = calcMobilizerReactionForces (on the body, at Mo, in G); F_applied = getRigidBodyForces(Dynamics);
//       F_constraint from calcConstraintForcesFromMultipliers (constraint sign: opposite to applied);
//       mobility forces are INCLUDED in the reactions (header) and so do not appear.
//  (R2) Ground: 0 = F_applied,0 - F_constraint,0 + R_0 - sum_{base bodies} shift(R_c -> Ground origin).
//  (R3) "mobility forces are included": the reaction's power along each of its mobilizer's own motion directions
//       H_i (relative spatial velocity child-vs-parent for u_i=1, from the reference Jacobian of REPORTED velocities)
//       equals the generalized force acting at that mobility: f_applied,i - f_constraint,i - tau_i.
//  (D1) calcMobilizerReactionForcesUsingFreebodyMethod == calcMobilizerReactionForces.
//  (D2) MobilizedBody::findMobilizerReactionOnBodyAtMInGround == R_b; ...OnBodyAtOriginInGround == shift(R_b->Bo);
//       ...OnParentAtFInGround == -shift(R_b: Mo->Fo) (also through the header's code sample with X_FM);
//       ...OnParentAtOriginInGround == -shift(R_b: Mo->Po).
#include "pbt.h"
#include "mbgen.h"
#include "refdyn.h"
#include "presc.h"
using namespace SimTK;

namespace {
std::string S(double a) { return pbt::str(a); }
typedef presc::Rng Rng;
SpatialVec shiftTo(const SpatialVec& FatP, const Vec3& P, const Vec3& Q) { return SpatialVec(FatP[0] + (P - Q) % FatP[1], FatP[1]); }   // same wrench, moment taken about Q
Real nrm(const SpatialVec& a) { return a[0].norm() + a[1].norm(); }

struct ConSpec { int type = 0, b1 = 0, b2 = 1; Vec3 p1, p2; double len = 1, ang = 0; int axis = 0; };

void property(const pbt::Tape& t, pbt::Ctx& ctx) {
    pbt::Reader g(t[0]);
    mbgen::Options opt; opt.maxBodies = 7; opt.allowUnnormalizedQuat = false;
    mbgen::ModelSpec spec = mbgen::decodeModel(t, 1, (int)t.size() - 1, g, opt);
    const int nb = spec.nBodies(), NB = nb + 1;
    const double tCase = g.real(0, 2);
    Vec3 grav(g.real(-10, 10), g.real(-10, 10), g.real(-10, 10)); const int gravKind = g.pick(3);   // 0 Force::Gravity, 1 UniformGravity, 2 none
    Rng rng{(uint64_t)g.w() * 0x100000001ull + 4242};
    const double fMag = g.logreal(0.01, 100), FMag = g.logreal(0.01, 100);
    const bool zeroF = g.chance(1, 8), zeroMob = g.chance(1, 8);
    int nCons = 0; { uint32_t w = g.w(); int k = int(w % 8u); nCons = w == 0 ? 0 : k < 4 ? 0 : k < 6 ? 1 : k - 4; }
    std::vector<ConSpec> cons;
    for (int c = 0; c < 3; ++c) {
        ConSpec cs; cs.type = g.pick(3); cs.b1 = g.pick(NB); cs.b2 = g.pick(NB); if (cs.b2 == cs.b1) cs.b2 = (cs.b1 + 1) % NB;
        cs.p1 = mbgen::readVec3(g, -0.7, 0.7); cs.p2 = mbgen::readVec3(g, -0.7, 0.7); cs.len = g.logreal(0.3, 2); cs.ang = g.real(-3, 3); cs.axis = g.pick(3);
        if (c < nCons) cons.push_back(cs);
    }
    // per-body extras: words 49..51 of each body unit
    std::vector<presc::MotionSpec> mot(NB); std::vector<int> massless(NB, 0); std::vector<int> nChild(NB, 0);
    for (int i = 1; i <= nb; ++i) nChild[spec.bodies[i - 1].parent]++;
    bool anyMotion = false, anyMassless = false;
    for (int i = 1; i <= nb; ++i) {
        static const pbt::Seg zero(mbgen::K, 0u); const pbt::Seg& seg = i < (int)t.size() ? t[i] : zero;
        uint32_t a = seg.size() > 49 ? seg[49] : 0, b = seg.size() > 50 ? seg[50] : 0, c = seg.size() > 51 ? seg[51] : 0;
        mot[i] = presc::decodeMotion(a, b, spec.bodies[i - 1], spec.euler, tCase, 14);
        if (mot[i].kind != presc::None) anyMotion = true;
        // massless only where legal: not terminal, or welded to its parent (DESIGN 3.1)
        bool may = nChild[i] > 0 || spec.bodies[i - 1].type == mbgen::Weld;
        if (c != 0 && (c % 6u) == 1 && may) { massless[i] = 1 + int((c >> 3) & 1u); anyMassless = true; }
    }
    if (ctx.wantDesc) {
        spec.describe(ctx.desc);
        ctx.desc << "t=" << tCase << " gravity(kind " << gravKind << ")=" << grav << " fMag=" << fMag << " FMag=" << FMag << " zeroF=" << zeroF << " zeroMobForces=" << zeroMob << "\n";
        for (int i = 1; i <= nb; ++i) { if (massless[i]) ctx.desc << " body " << i << " is MASSLESS (" << (massless[i] == 1 ? "Body::Rigid zero mass" : "Body::Massless") << ")\n"; presc::describe(ctx.desc, i, mot[i]); }
        for (auto& c : cons) ctx.desc << " constraint " << (c.type == 0 ? "Ball" : c.type == 1 ? "Rod" : "Weld") << " bodies " << c.b1 << "," << c.b2 << " p1=" << c.p1 << " p2=" << c.p2 << " len=" << c.len << " ang=" << c.ang << " axis=" << c.axis << "\n";
    }
    mbgen::labelModel(ctx, spec);

    // ---- build
    mbgen::Built m;
    m.mb.push_back(m.matter.Ground());
    for (int i = 1; i <= nb; ++i) {
        const mbgen::BodySpec& b = spec.bodies[i - 1];
        Body body = massless[i] == 2 ? Body(Body::Massless()) : massless[i] == 1 ? Body(Body::Rigid(MassProperties(0, Vec3(0), Inertia(0)))) : Body(Body::Rigid(b.massProps()));
        m.mb.push_back(mbgen::Built::makeMobilizer(m.mb[b.parent], b, body));
    }
    for (int i = 1; i <= nb; ++i) presc::addMotion(m.mb[i], mot[i], mbgen::mobNU(spec.bodies[i - 1].type));
    for (auto& c : cons) {
        if (c.type == 0) Constraint::Ball(m.mb[c.b1], c.p1, m.mb[c.b2], c.p2);
        else if (c.type == 1) Constraint::Rod(m.mb[c.b1], c.p1, m.mb[c.b2], c.p2, c.len);
        else Constraint::Weld(m.mb[c.b1], Transform(Rotation(c.ang, CoordinateAxis(c.axis)), c.p1), m.mb[c.b2], Transform(c.p2));
    }
    if (gravKind == 0) Force::Gravity(m.forces, m.matter, grav); else if (gravKind == 1) Force::UniformGravity(m.forces, m.matter, grav);
    Force::DiscreteForces disc(m.forces, m.matter);
    m.finish(spec); m.setState(spec);
    State& s = m.state; const SimbodyMatterSubsystem& matter = m.matter;
    const int nu = s.getNU();
    for (int i = 1; i <= nb; ++i) {   // locks (state level)
        const presc::MotionSpec& ms = mot[i]; const MobilizedBody& mb = m.mb[i];
        if (ms.kind == presc::Lock) mb.lock(s, ms.mlevel());
        else if (ms.kind == presc::LockAt) { int n = ms.level == 2 ? mb.getNumQ(s) : mb.getNumU(s); Vector v(n); for (int k = 0; k < n; ++k) v[k] = ms.lockVal[k]; mb.lockAt(s, v, ms.mlevel()); }
    }
    s.setTime(tCase);
    Vector f(nu); Vector_<SpatialVec> F(NB);
    for (int i = 0; i < nu; ++i) f[i] = zeroMob ? 0 : fMag * rng.next();
    for (int b = 0; b < NB; ++b) F[b] = zeroF ? SpatialVec(Vec3(0), Vec3(0)) : FMag * SpatialVec(Vec3(rng.next(), rng.next(), rng.next()), Vec3(rng.next(), rng.next(), rng.next()));
    disc.setAllMobilityForces(s, f); disc.setAllBodyForces(s, F);
    m.sys.prescribe(s);                       // realize(Time), prescribeQ, realize(Position), prescribeU
    m.sys.realize(s, Stage::Velocity);

    // ---- reference quantities; legality of the mass distribution (massless bodies) via my own mass matrix
    auto si = refdyn::bodyInertias(matter, s);
    std::vector<std::vector<SpatialVec>> J; Real kappa = 1;
    if (nu > 0) {
        J = refdyn::referenceJacobian(m.sys, matter, s);
        Matrix Mref = refdyn::referenceM(J, si); std::vector<Real> ev; refdyn::symEig(Mref, ev);
        if (!(ev.front() > 0) || !(ev.back() / ev.front() < 1e8)) { ctx.reject(anyMassless ? "singular-mass-matrix(massless)" : "ill-conditioned-reference"); return; }
        kappa = ev.back() / ev.front();
    }
    try { m.sys.realize(s, Stage::Acceleration); }
    catch (const std::exception& e) { if (!cons.empty()) { ctx.reject("constraint-solve-refused"); return; } throw; }
    const Vector& lam = s.getMultipliers();
    const Vector_<SpatialVec>& Fapp = m.sys.getRigidBodyForces(s, Stage::Dynamics);
    const Vector& fapp = m.sys.getMobilityForces(s, Stage::Dynamics);
    Vector_<SpatialVec> Fcons(NB); Fcons = SpatialVec(Vec3(0), Vec3(0)); Vector fcons(nu); fcons = 0;
    if (lam.size()) matter.calcConstraintForcesFromMultipliers(s, lam, Fcons, fcons);
    Vector tau; matter.findMotionForces(s, tau);
    if (!ctx.check(tau.size() == nu && Fcons.size() == NB && fcons.size() == nu, "wrong sizes of motion/constraint force arrays")) return;
    {   // constraint multipliers that blew up (constraints between relatively immobile bodies, C08's subject): nothing to judge
        Real appScale = 1 + fMag + FMag + grav.norm() * 20 * 8; bool bad = false;
        for (int i = 0; i < lam.size(); ++i) if (!std::isfinite(lam[i]) || std::abs(lam[i]) > 1e8 * appScale) bad = true;
        for (int i = 0; i < nu; ++i) if (!std::isfinite(s.getUDot()[i])) bad = true;
        if (bad && !cons.empty()) { ctx.reject("constraint-multiplier-blowup"); return; }
    }

    std::vector<int> parent(NB, -1); std::vector<Vec3> pBo(NB, Vec3(0)), pMo(NB, Vec3(0)), pFo(NB, Vec3(0)); std::vector<SpatialVec> V(NB), A(NB);
    for (int b = 0; b < NB; ++b) {
        const MobilizedBody& mb = matter.getMobilizedBody(MobilizedBodyIndex(b)); const Transform& X = mb.getBodyTransform(s);
        pBo[b] = X.p(); pMo[b] = X * mb.getOutboardFrame(s).p(); V[b] = mb.getBodyVelocity(s); A[b] = mb.getBodyAcceleration(s);
        if (b > 0) { const MobilizedBody& par = mb.getParentMobilizedBody(); parent[b] = (int)par.getMobilizedBodyIndex(); pFo[b] = par.getBodyTransform(s) * mb.getInboardFrame(s).p(); }
    }
    Vector_<SpatialVec> R; matter.calcMobilizerReactionForces(s, R);
    if (!ctx.check(R.size() == NB, "calcMobilizerReactionForces returned " + std::to_string(R.size()) + " entries for " + std::to_string(NB) + " bodies")) return;

    // ---- classification
    bool uNonzero = refdyn::maxAbs(s.getU()) > 0, interesting = false;
    for (int b = 1; b < NB; ++b) if (nChild[b] >= 2 || spec.bodies[b - 1].type == mbgen::Weld || mot[b].kind != presc::None) interesting = true;
    if (nChild[0] >= 2) ctx.label("ground-branching");
    for (int b = 1; b < NB; ++b) if (nChild[b] >= 2) { ctx.label("branching-body"); break; }
    ctx.nontrivial(interesting && uNonzero && NB >= 3);
    ctx.label(uNonzero ? "u!=0" : "u==0"); if (zeroF) ctx.label("F==0"); if (zeroMob) ctx.label("f==0");
    if (anyMassless) ctx.label("massless-body"); if (anyMotion) ctx.label("prescribed"); else ctx.label("no-prescription");
    for (int b = 1; b < NB; ++b) if (mot[b].kind != presc::None) ctx.label(std::string("presc:") + presc::kindName(mot[b].kind) + "/" + presc::levelName(mot[b].level));
    if (cons.empty()) ctx.label("no-constraints"); for (auto& c : cons) ctx.label(c.type == 0 ? "cons:Ball" : c.type == 1 ? "cons:Rod" : "cons:Weld");
    ctx.label(gravKind == 0 ? "gravity:Gravity" : gravKind == 1 ? "gravity:Uniform" : "gravity:none");

    const Real eps = 2.220446049250313e-16; Real worstNE = 0, worstFB = 0, worstPr = 0;
    // known finding loneparticle-reaction-com-offset: RBNodeLoneParticle (terminal forward Translation on Ground with identity
    // frames) omits the moment com x (m*a) in zPlus, so its reaction torque is wrong whenever the mass centre is not at the
    // body origin. Site predicate on the INPUT: exactly that mobilizer class with com != 0. Excluded: the body's own balance
    // (R1) and the free-body comparison (D1) for that body and for Ground (whose free-body reaction accumulates the correct value).
    std::vector<int> lone(NB, 0); bool anyLone = false;
    for (int b = 1; b < NB; ++b) { const mbgen::BodySpec& bs = spec.bodies[b - 1];
        if (bs.type == mbgen::Translation && !bs.reversed && bs.parent == 0 && nChild[b] == 0 && bs.inKind == 0 && bs.outKind == 0 && !massless[b] && bs.com.norm() > 0 && ctx.known("loneparticle-reaction-com-offset")) { lone[b] = 1; anyLone = true; } }
    if (anyLone) ctx.label("excluded:loneparticle-reaction-com-offset");
    // ---- (R1) Newton-Euler per body, (R2) Ground
    // scale of a balance: magnitudes of all terms before any cancellation, summed over ALL bodies with lever arms (a reaction
    // is P+ A+ + z+: it carries the rounding of the whole tree's O(1) inertia forces even where they cancel; accelerations
    // are taken as sum_i |J_ib| |udot_i| + |A_b| for the same reason)
    std::vector<Real> own0(NB, 0), bodyScale(NB, 0);
    for (int b = 0; b < NB; ++b) {
        Real In = 0; for (int i = 0; i < 3; ++i) for (int j = 0; j < 3; ++j) In = std::max(In, std::abs(si[b].I(i, j)));
        Real w2 = V[b][0].normSqr(), mcn = si[b].mc.norm(), aw = A[b][0].norm(), av = A[b][1].norm();
        for (int i = 0; i < nu; ++i) { aw += J[i][b][0].norm() * std::abs(s.getUDot()[i]); av += J[i][b][1].norm() * std::abs(s.getUDot()[i]); }
        own0[b] = (b == 0 ? 0 : (In + mcn) * (aw + w2) + (mcn + si[b].m) * av + mcn * w2) + nrm(Fapp[b]) + nrm(Fcons[b]);
    }
    for (int b = 0; b < NB; ++b) for (int d = 0; d < NB; ++d) bodyScale[b] += own0[d] * (1 + (pBo[d] - pBo[b]).norm());
    for (int b = 0; b < NB; ++b) {
        SpatialVec lhs = b == 0 ? SpatialVec(Vec3(0), Vec3(0)) : refdyn::mul(si[b], A[b]) + refdyn::gyro(si[b], V[b]);
        SpatialVec Rb = shiftTo(R[b], pMo[b], pBo[b]);
        SpatialVec rhs = Fapp[b] - Fcons[b] + Rb;
        Real sc = bodyScale[b] + nrm(R[b]) + (pMo[b] - pBo[b]).norm() * R[b][1].norm();
        for (int c = 1; c < NB; ++c) if (parent[c] == b) { rhs -= shiftTo(R[c], pMo[c], pBo[b]); sc += nrm(R[c]) + (pMo[c] - pBo[b]).norm() * R[c][1].norm(); }
        bodyScale[b] = sc;
        if (lone[b]) continue;
        Real d = nrm(lhs - rhs), tol = 200 * eps * NB * std::sqrt(kappa) * sc + 1e-300;
        if (!(d <= tol)) {
            ctx.fail(std::string(b == 0 ? "Ground" : "body ") + (b == 0 ? "" : std::to_string(b)) + ": Newton-Euler balance violated by the reported reactions: |SI*A + gyro - (F_applied - F_constraint + R_own - sum R_children)| = " + S(d) + " (scale " + S(sc) + ", tol " + S(tol) + ")");
            return;
        }
        worstNE = std::max(worstNE, d / (eps * NB * sc));
    }
    // ---- (D1) free-body method agrees
    {
        Vector_<SpatialVec> R2; matter.calcMobilizerReactionForcesUsingFreebodyMethod(s, R2);
        if (!ctx.check(R2.size() == NB, "calcMobilizerReactionForcesUsingFreebodyMethod wrong size")) return;
        // the free-body recursion accumulates from the tips: error scale = largest body scale in the subtree
        const std::vector<Real>& sub = bodyScale;
        for (int b = 0; b < NB; ++b) { if (lone[b] || (b == 0 && anyLone)) continue; Real d = nrm(R2[b] - R[b]), tol = 200 * eps * NB * std::sqrt(kappa) * sub[b] + 1e-300;
            worstFB = std::max(worstFB, d / (eps * NB * sub[b] + 1e-300));
            if (!(d <= tol)) { ctx.fail("body " + std::to_string(b) + ": free-body-method reaction differs from calcMobilizerReactionForces by " + S(d) + " (scale " + S(sub[b]) + ")"); return; } }
    }
    // ---- (D2) per-body accessors; reaction on parent equal and opposite, shifted to F
    for (int b = 0; b < NB; ++b) {
        const MobilizedBody& mb = matter.getMobilizedBody(MobilizedBodyIndex(b));
        const Real tol = 1e3 * eps * (bodyScale[b] + nrm(R[b]) * (1 + (pMo[b] - pFo[b]).norm())) + 1e-300;
        SpatialVec atM = mb.findMobilizerReactionOnBodyAtMInGround(s), atB = mb.findMobilizerReactionOnBodyAtOriginInGround(s);
        SpatialVec onPF = mb.findMobilizerReactionOnParentAtFInGround(s), onPO = mb.findMobilizerReactionOnParentAtOriginInGround(s);
        if (!(nrm(atM - R[b]) <= tol)) { ctx.fail("body " + std::to_string(b) + ": findMobilizerReactionOnBodyAtMInGround differs from calcMobilizerReactionForces by " + S(nrm(atM - R[b]))); return; }
        if (!(nrm(atB - shiftTo(R[b], pMo[b], pBo[b])) <= tol)) { ctx.fail("body " + std::to_string(b) + ": findMobilizerReactionOnBodyAtOriginInGround is not the reaction at Mo shifted to Bo (diff " + S(nrm(atB - shiftTo(R[b], pMo[b], pBo[b]))) + ")"); return; }
        if (b == 0) {   // header: "forcesAtFInG[0] = -forcesAtMInG[0]; Ground is welded at origin"
            if (!(nrm(onPF + R[0]) <= tol && nrm(onPO + R[0]) <= tol)) { ctx.fail("Ground: reaction on the (imaginary) parent is not the negative of the Ground reaction"); return; }
            continue;
        }
        SpatialVec expF = -1.0 * shiftTo(R[b], pMo[b], pFo[b]), expO = -1.0 * shiftTo(R[b], pMo[b], pBo[parent[b]]);
        if (!(nrm(onPF - expF) <= tol)) { ctx.fail("body " + std::to_string(b) + ": findMobilizerReactionOnParentAtFInGround is not equal and opposite to the reaction on the body shifted to Fo: diff " + S(nrm(onPF - expF)) + " (tol " + S(tol) + ")"); return; }
        if (!(nrm(onPO - expO) <= tol)) { ctx.fail("body " + std::to_string(b) + ": findMobilizerReactionOnParentAtOriginInGround is not equal and opposite to the reaction on the body shifted to Po: diff " + S(nrm(onPO - expO))); return; }
        {   // the header's code sample (uses the reported X_FM)
            const Vec3& p_FM = mb.getMobilizerTransform(s).p(); const Rotation& R_PF = mb.getInboardFrame(s).R(); const Rotation& R_GP = mb.getParentMobilizedBody().getBodyTransform(s).R();
            Rotation R_GF = R_GP * R_PF; Vec3 p_MF_G = -(R_GF * p_FM);
            SpatialVec viaSample = -shiftForceBy(R[b], p_MF_G);
            Real tol2 = tol + 1e3 * eps * R[b][1].norm() * (1 + pMo[b].norm() + pFo[b].norm());
            if (!(nrm(viaSample - onPF) <= tol2)) { ctx.fail("body " + std::to_string(b) + ": the header's recipe for the reaction on the parent at F disagrees with findMobilizerReactionOnParentAtFInGround by " + S(nrm(viaSample - onPF))); return; }
        }
    }
    // ---- (R3) the reaction projected on the mobilizer's own motion directions is the generalized force acting there
    for (int b = 1; b < NB && nu > 0; ++b) {
        const MobilizedBody& mb = matter.getMobilizedBody(MobilizedBodyIndex(b)); const int nub = mb.getNumU(s); if (nub == 0) continue;
        const int u0 = (int)mb.getFirstUIndex(s), p = parent[b];
        SpatialVec Rb = shiftTo(R[b], pMo[b], pBo[b]);
        for (int k = 0; k < nub; ++k) {
            const int i = u0 + k;
            Vec3 Hw = J[i][b][0] - J[i][p][0], Hv = J[i][b][1] - (J[i][p][1] + J[i][p][0] % (pBo[b] - pBo[p]));
            Real pw = ~Hw * Rb[0] + ~Hv * Rb[1], want = fapp[i] - fcons[i] - tau[i];
            Real sc = Hw.norm() * Rb[0].norm() + Hv.norm() * Rb[1].norm() + std::abs(fapp[i]) + std::abs(fcons[i]) + std::abs(tau[i]) + (Hw.norm() + Hv.norm()) * bodyScale[b];
            Real tol = 200 * eps * NB * std::sqrt(kappa) * sc + 1e-300;
            worstPr = std::max(worstPr, std::abs(pw - want) / (eps * NB * sc));
            if (!(std::abs(pw - want) <= tol)) { ctx.fail("body " + std::to_string(b) + " mobility " + std::to_string(k) + ": reaction projected on the mobilizer's motion direction = " + S(pw) + " but the generalized force acting there (applied - constraint - tau) = " + S(want) + " (tol " + S(tol) + ")"); return; }
        }
    }
    if (getenv("C14_CALIB")) fprintf(stderr, "CALIB kappa=%.3g NE=%.3g FB=%.3g PR=%.3g\n", kappa, worstNE, worstFB, worstPr);
}

// Directed reproducer of loneparticle-reaction-com-offset: one Translation body on Ground, identity frames, com=(0,0,-0.5),
// unit force along x applied at the body origin: a=(1,0,0), so the mobilizer must supply the moment com x (m a) = (0,-0.5,0).
void directedLoneParticle(pbt::Ctx& ctx) {
    MultibodySystem sys; SimbodyMatterSubsystem matter(sys); GeneralForceSubsystem forces(sys);
    const Vec3 com(0, 0, -0.5); const Real mass = 1;
    Body::Rigid body(MassProperties(mass, com, UnitInertia(0.1, 0.1, 0.1).shiftFromMassCenter(com, 1) * mass));
    MobilizedBody::Translation tr(matter.Ground(), Transform(), body, Transform());
    Force::DiscreteForces disc(forces, matter);
    State s = sys.realizeTopology(); sys.realizeModel(s);
    disc.setOneBodyForce(s, tr, SpatialVec(Vec3(0), Vec3(1, 0, 0)));
    sys.realize(s, Stage::Acceleration);
    Vector_<SpatialVec> R, R2; matter.calcMobilizerReactionForces(s, R); matter.calcMobilizerReactionForcesUsingFreebodyMethod(s, R2);
    const Vec3 a = tr.getBodyOriginAcceleration(s), want = com % (mass * a);
    ctx.desc << "lone particle: com=" << com << " a=" << a << " reaction moment reported " << R[1][0] << " free-body method " << R2[1][0] << " required com x m a = " << want << "\n";
    ctx.check((R[1][0] - want).norm() <= 1e-12, "Translation body on Ground (RBNodeLoneParticle) with com=(0,0,-0.5), force (1,0,0): reaction moment " + S(R[1][0][1]) + " (y) but Newton-Euler requires com x m*a = " + S(want[1]) + "; free-body method gives " + S(R2[1][0][1]));
}

pbt::Config config() {
    pbt::Config c; c.prop = "C14"; c.K = mbgen::K; c.minUnits = 1;
    c.quick = {2000, 10000, 30, 25}; c.thorough = {20000, 60000, 30, 240};
    c.rule = "rapidcheck tape -> mbgen tree (1..7 bodies, 18 mobilizer types incl. Weld, random parents = branching, forward/reversed, frame specialisations, quaternion/Euler, u in [-2,2] or all zero); per body: massless (1/6 of the bodies that are non-terminal or welded; Body::Massless or zero MassProperties), prescription (1/3: Motion::Steady/Sinusoid/Custom polynomial at 3 levels, lock/lockAt/lockByDefault at 3 levels); gravity (Force::Gravity / UniformGravity / none), DiscreteForces mobility forces and body wrenches on all bodies incl. Ground; 0-3 constraints (Ball, Rod, Weld) between random bodies (50% of cases none). Non-trivial: u != 0, >= 2 bodies and a body with >= 2 children or a welded or prescribed mobilizer; distinct by tape hash.";
    c.assumptions = {"body poses, velocities and accelerations are taken as reported (C03/C04/C02 decide them); spatial inertias and gyroscopic terms are my own (refdyn.h)",
                     "tolerance 200*eps*NB*sqrt(kappa(M_ref)) x (sum over all bodies of the magnitudes of every term of the balance before cancellation, with lever arms); calibrated on 60000 cases: worst observed 0.77 (Newton-Euler), 0.77 (free-body), 0.34 (projection) in these units; kappa(M_ref) >= 1e8 or a non-positive-definite reference mass matrix (illegal massless arrangement) rejected",
                     "constraint multipliers that are non-finite or > 1e8 x the applied force scale (constraints between relatively immobile bodies, finding c08-null-constraint-multiplier-blowup) are rejected, not judged"};
    c.directed = {{"loneparticle-com-offset", "loneparticle-reaction-com-offset", directedLoneParticle}};
    c.requiredLabels = {"branching-body", "ground-branching", "mob:Weld/fwd", "massless-body", "prescribed", "cons:Ball", "cons:Rod", "cons:Weld", "u==0", "F==0", "presc:lock/Position", "presc:Sinusoid/Acceleration", "presc:Steady/Velocity", "presc:Traj/Position"};
    return c;
}
} // namespace

PBT_MAIN(config(), property)
