// C35 -- Collision detection reports exactly the overlapping pairs (DESIGN.md section 5, C35).
// One case = one shape pair (tape segment 0) + a list of relative configurations (units), each generated around the
// touching configuration (signed gap log-dense near 0, or far apart). For every configuration:
//   * ContactTracker::<pair>::trackContact (prior = UntrackedContact, the caller precondition) and, where registered,
//     CollisionDetectionAlgorithm::getAlgorithm(type1,type2)->processObjects are judged against
//       - closed forms (half-space/sphere, sphere/sphere, half-space/ellipsoid, half-space/brick): contact <=> depth > -cutoff,
//         depth, normal (surface 1 -> surface 2), origin midway between the surfaces, radii/curvatures, X_S1S2;
//       - brute force over faces in long double (half-space/mesh, sphere/mesh, mesh/mesh): definite faces must be
//         reported, reported faces must be possible (both directions, ambiguity band);
//       - validity + independent separation (support functions, multi-start minimisation) for the implicit pairs
//         (sphere/ellipsoid, ellipsoid/ellipsoid): contact points on their surfaces, normals antiparallel, depth =
//         signed separation along the normal, contact <=> no separating direction;
//   * metamorphic: the same rigid motion applied to both shapes changes nothing in the pair frame; same-type pairs
//     called in the other order give the mirrored result (normal reversed, same point, same depth, face sets swapped);
//   * the first configuration is also run through a ContactTrackerSubsystem with the two surfaces added in both orders.
#include "pbt.h"
#include "Simbody.h"
#include "geo2_mesh.h"
using namespace SimTK;
using namespace geo2;

namespace {
const LD EPS = 2.220446049250313e-16L;
enum Pair { HS_SPHERE, SPHERE_SPHERE, HS_ELLIPSOID, HS_BRICK, HS_MESH, SPHERE_MESH, MESH_MESH, SPHERE_ELLIPSOID, ELLIPSOID_ELLIPSOID, NPAIR };
const char* pairName[] = {"halfspace-sphere", "sphere-sphere", "halfspace-ellipsoid", "halfspace-brick", "halfspace-mesh", "sphere-mesh", "mesh-mesh", "sphere-ellipsoid", "ellipsoid-ellipsoid"};

struct Shape {      // 0 halfspace, 1 sphere, 2 ellipsoid, 3 brick, 4 mesh
    int type = 0; double r = 1; Vec3 rad = Vec3(1); std::shared_ptr<ContactGeometry> geo; GenMesh gm; std::vector<V3> A, B, C; std::vector<std::array<int,3> > FV; std::vector<V3> VL; double L = 1; std::string desc;
    const ContactGeometry& g() const { return *geo; }
    double size() const { return type == 1 ? r : type == 2 || type == 3 ? std::max(rad[0], std::max(rad[1], rad[2])) : type == 4 ? L : 1; }
    LD support(V3 d) const {       // support function h(d) of the convex shapes, d unit in the shape frame
        if (type == 1) return r; if (type == 2) return std::sqrt(rad[0]*rad[0]*d.x*d.x + rad[1]*rad[1]*d.y*d.y + rad[2]*rad[2]*d.z*d.z);
        if (type == 3) return rad[0]*std::fabs(d.x) + rad[1]*std::fabs(d.y) + rad[2]*std::fabs(d.z);
        LD m = -1e4000L; for (auto& v : gm.V) m = std::max(m, dot(toL(v), d)); return m; }
    V3 supportPoint(V3 d) const {  // smooth shapes only
        if (type == 1) return (LD)r * d; LD h = support(d); return V3{(LD)(rad[0]*rad[0])*d.x / h, (LD)(rad[1]*rad[1])*d.y / h, (LD)(rad[2]*rad[2])*d.z / h}; }
    LD implicitValue(V3 p) const { if (type == 1) return dot(p, p) / ((LD)r * r) - 1; return p.x*p.x/((LD)rad[0]*rad[0]) + p.y*p.y/((LD)rad[1]*rad[1]) + p.z*p.z/((LD)rad[2]*rad[2]) - 1; }
    V3 outwardNormal(V3 p) const { V3 g = type == 1 ? p : V3{p.x/((LD)rad[0]*rad[0]), p.y/((LD)rad[1]*rad[1]), p.z/((LD)rad[2]*rad[2])}; return (1 / norm(g)) * g; }
};

void finishMesh(Shape& s) {     // build the TriangleMesh (vertex/index constructor) and the brute-force arrays from the library's own accessors
    Array_<Vec3> V(s.gm.V.begin(), s.gm.V.end()); Array_<int> I; for (auto& t : s.gm.tris()) for (int k = 0; k < 3; ++k) I.push_back(t[k]);
    auto* tm = new ContactGeometry::TriangleMesh(V, I); s.geo.reset(tm); s.L = 0; for (auto& v : s.gm.V) s.L = std::max(s.L, (double)v.norm());
    for (int i = 0; i < tm->getNumVertices(); ++i) s.VL.push_back(toL(tm->getVertexPosition(i)));
    for (int f = 0; f < tm->getNumFaces(); ++f) { std::array<int,3> ix = {tm->getFaceVertex(f, 0), tm->getFaceVertex(f, 1), tm->getFaceVertex(f, 2)}; s.FV.push_back(ix); s.A.push_back(s.VL[ix[0]]); s.B.push_back(s.VL[ix[1]]); s.C.push_back(s.VL[ix[2]]); }
}
// Finely tessellated closed mesh for the deep mesh/mesh cases: octasphere subdivided 4x (2048 faces) or icosphere 3x (1280 -> not used: < 2000),
// nonuniform scale 0.6..1 per axis, <= 4 % radial noise, own rotation baked into the vertices, so no two cases share the mesh.
Shape makeFineMesh(pbt::Reader& g, double& radius) {
    Shape s; s.type = 4; radius = g.logreal(0.2, 5); double noise = g.chance(1, 2) ? g.uniform(0, 0.04) : 0; uint32_t seed = g.w(); Rng rng(seed); s.gm = makeBase(1, 4, 0, 0, rng, noise);
    double sc[3] = {g.uniform(0.6, 1), g.uniform(0.6, 1), g.uniform(0.6, 1)}; double u[3]; g.unit3(u); double ang = g.angle(); Rotation R(ang, UnitVec3(u[0], u[1], u[2]));
    for (auto& v : s.gm.V) v = R * (radius * Vec3(v[0] * sc[0], v[1] * sc[1], v[2] * sc[2])); if (signedVolume(s.gm) < 0) for (auto& f : s.gm.F) std::reverse(f.begin(), f.end());
    finishMesh(s); std::ostringstream o; o.precision(17); o << "FineMesh(octasphere4 faces=" << s.A.size() << " radius=" << radius << " scale=(" << sc[0] << "," << sc[1] << "," << sc[2] << ") noise=" << noise << " seed=" << seed << " rot=" << ang << "@(" << u[0] << "," << u[1] << "," << u[2] << "))"; s.desc = o.str(); return s;
}
Shape makeCoarseMesh(pbt::Reader& g, double fineRadius) {     // the other mesh: 80..512 faces, 1.5..2.5 x the fine radius
    Shape s; s.type = 4; int kind = g.pick(4); double base = fineRadius * g.uniform(1.5, 2.5); uint32_t seed = g.w(); Rng rng(seed); double noise = g.chance(1, 2) ? g.uniform(0, 0.1) : 0;
    s.gm = kind == 0 ? makeBase(1, 3, 0, 0, rng, noise) : kind == 1 ? makeBase(1, 2, 0, 0, rng, noise) : kind == 2 ? makeBase(2, 2, 0, 0, rng, noise) : makeBase(3, 2, 2, 2, rng, noise);
    for (auto& v : s.gm.V) v = base * v; if (signedVolume(s.gm) < 0) for (auto& f : s.gm.F) std::reverse(f.begin(), f.end());
    finishMesh(s); std::ostringstream o; o.precision(17); o << "Mesh(" << s.gm.kind << " faces=" << s.A.size() << " size=" << base << " noise=" << noise << " seed=" << seed << ")"; s.desc = o.str(); return s;
}

Shape makeShape(int type, pbt::Reader& g, int maxAspect) {
    Shape s; s.type = type; std::ostringstream o; o.precision(17);
    double base = g.logreal(0.05, 20);
    if (type == 0) { s.geo.reset(new ContactGeometry::HalfSpace()); o << "HalfSpace"; }
    else if (type == 1) { s.r = base; s.geo.reset(new ContactGeometry::Sphere(base)); o << "Sphere(r=" << base << ")"; }
    else if (type == 2 || type == 3) { double f1 = g.logreal(1.0 / maxAspect, 1), f2 = g.logreal(1.0 / maxAspect, 1); int perm = g.pick(3); Vec3 r(base, base * f1, base * f2); s.rad = Vec3(r[perm], r[(perm + 1) % 3], r[(perm + 2) % 3]);
        if (type == 2) { s.geo.reset(new ContactGeometry::Ellipsoid(s.rad)); o << "Ellipsoid(" << s.rad[0] << "," << s.rad[1] << "," << s.rad[2] << ")"; } else { s.geo.reset(new ContactGeometry::Brick(s.rad)); o << "Brick(half=" << s.rad[0] << "," << s.rad[1] << "," << s.rad[2] << ")"; } }
    else { int kind = g.pick(4), res = g.pick(64), a = g.pick(64), b = g.pick(64); if (kind == 1) res %= 3; if (kind == 2) res %= 2; if (kind == 3) { res %= 3; a %= 3; b %= 3; }
        double noise = g.chance(1, 2) ? g.uniform(0, 0.35) : 0; uint32_t seed = g.w(); Rng rng(seed); s.gm = makeBase(kind, res, a, b, rng, noise); double sq = g.chance(1, 3) ? g.logreal(0.2, 1) : 1;
        for (auto& v : s.gm.V) v = base * Vec3(v[0], v[1] * sq, v[2]); if (signedVolume(s.gm) < 0) for (auto& f : s.gm.F) std::reverse(f.begin(), f.end());
        finishMesh(s);
        o << "Mesh(" << s.gm.kind << " faces=" << s.A.size() << " size=" << base << " noise=" << noise << " seed=" << seed << " ysquash=" << sq << ")"; }
    s.desc = o.str(); return s;
}

// long double rigid transforms
struct XF { V3 c[3]; V3 p; };   // columns of R, translation
XF toX(const Transform& X) { XF x; for (int k = 0; k < 3; ++k) x.c[k] = toL(Vec3(X.R().col(k))); x.p = toL(X.p()); return x; }
V3 rot(const XF& X, V3 v) { return v.x * X.c[0] + v.y * X.c[1] + v.z * X.c[2]; }
V3 rotT(const XF& X, V3 v) { return V3{dot(X.c[0], v), dot(X.c[1], v), dot(X.c[2], v)}; }
V3 app(const XF& X, V3 v) { return rot(X, v) + X.p; }
V3 appInv(const XF& X, V3 v) { return rotT(X, v - X.p); }
std::string sv(V3 v) { std::ostringstream o; o.precision(17); o << "(" << (double)v.x << "," << (double)v.y << "," << (double)v.z << ")"; return o.str(); }
std::string sx(const Transform& X) { std::ostringstream o; o.precision(17); Vec4 q = X.R().convertRotationToAngleAxis(); o << "[rot " << q[0] << "@(" << q[1] << "," << q[2] << "," << q[3] << ") p=(" << X.p()[0] << "," << X.p()[1] << "," << X.p()[2] << ")]"; return o.str(); }

Transform readX(pbt::Reader& r, double pscale) { double u[3]; r.unit3(u); double a = r.angle(); Vec3 p(r.real(-3, 3), r.real(-3, 3), r.real(-3, 3)); return Transform(Rotation(a, UnitVec3(u[0], u[1], u[2])), pscale * p); }

// segment-segment distance (Ericson 5.1.9)
LD segSeg(V3 p1, V3 q1, V3 p2, V3 q2) {
    V3 d1 = q1 - p1, d2 = q2 - p2, r = p1 - p2; LD a = dot(d1, d1), e = dot(d2, d2), f = dot(d2, r), s, t;
    if (a <= 0 && e <= 0) return norm(r);
    if (a <= 0) { s = 0; t = std::min(std::max(f / e, (LD)0), (LD)1); }
    else { LD c = dot(d1, r); if (e <= 0) { t = 0; s = std::min(std::max(-c / a, (LD)0), (LD)1); }
        else { LD b = dot(d1, d2), den = a * e - b * b; s = den > 0 ? std::min(std::max((b * f - c * e) / den, (LD)0), (LD)1) : 0; t = (b * s + f) / e;
            if (t < 0) { t = 0; s = std::min(std::max(-c / a, (LD)0), (LD)1); } else if (t > 1) { t = 1; s = std::min(std::max((b - c) / a, (LD)0), (LD)1); } } }
    return norm((p1 + s * d1) - (p2 + t * d2));
}
// triangle/triangle: definite crossing (with margin) and distance
struct TT { bool definite; LD dist; };
TT triTri(const V3 a[3], const V3 b[3], LD delta) {
    TT r; r.definite = false; r.dist = 1e4000L;
    for (int w = 0; w < 2; ++w) { const V3* T = w ? a : b; const V3* S = w ? b : a;    // edges of S against triangle T
        V3 n = cross(T[1] - T[0], T[2] - T[0]); LD nn = norm(n); if (!(nn > 0)) continue; n = (1 / nn) * n;
        for (int k = 0; k < 3; ++k) { V3 p = S[k], q = S[(k + 1) % 3]; LD sp = dot(p - T[0], n), sq = dot(q - T[0], n);
            if ((sp > delta && sq < -delta) || (sp < -delta && sq > delta)) { V3 x = p + (sp / (sp - sq)) * (q - p); Closest c = closestPtTri(x, T[0], T[1], T[2]);
                if (c.feature == 0 && c.d <= delta) { // inside, how far from the border?
                    LD border = std::min(std::min(segSeg(x, x, T[0], T[1]), segSeg(x, x, T[1], T[2])), segSeg(x, x, T[2], T[0])); if (border > 10 * delta) r.definite = true; r.dist = 0; } } }
        for (int k = 0; k < 3; ++k) r.dist = std::min(r.dist, closestPtTri(S[k], T[0], T[1], T[2]).d); }
    for (int i = 0; i < 3; ++i) for (int j = 0; j < 3; ++j) r.dist = std::min(r.dist, segSeg(a[i], a[(i + 1) % 3], b[j], b[(j + 1) % 3]));
    return r;
}

struct Result {      // everything reported, reduced to the S1 frame / ground frame
    bool ok = true, contact = false; int kind = 0;   // 1 circular, 2 elliptical, 3 brick, 4 mesh, 5 broken/other
    double depth = 0; V3 normalS1{0,0,0}, originS1{0,0,0}; double r1 = 0, r2 = 0, reff = 0; Vec2 k; Transform X_S1S2, X_S1C; int lowestVertex = -1; std::set<int> f1, f2; std::string typeName;
};
Result runTracker(const ContactTracker& tr, const Transform& X1, const ContactGeometry& g1, const Transform& X2, const ContactGeometry& g2, double cutoff) {
    Result R; UntrackedContact prior(ContactSurfaceIndex(0), ContactSurfaceIndex(1)); Contact cur; R.ok = tr.trackContact(prior, X1, g1, X2, g2, cutoff, cur);
    if (!R.ok || cur.isEmpty()) return R;
    R.contact = true; R.X_S1S2 = cur.getTransform();
    if (CircularPointContact::isInstance(cur)) { const CircularPointContact& c = CircularPointContact::getAs(cur); R.kind = 1; R.depth = c.getDepth(); R.normalS1 = toL(Vec3(c.getNormal())); R.originS1 = toL(c.getOrigin()); R.r1 = c.getRadius1(); R.r2 = c.getRadius2(); R.reff = c.getEffectiveRadius(); }
    else if (EllipticalPointContact::isInstance(cur)) { const EllipticalPointContact& c = EllipticalPointContact::getAs(cur); R.kind = 2; R.depth = c.getDepth(); R.X_S1C = c.getContactFrame(); R.normalS1 = toL(Vec3(R.X_S1C.R().z())); R.originS1 = toL(R.X_S1C.p()); R.k = c.getCurvatures(); }
    else if (BrickHalfSpaceContact::isInstance(cur)) { const BrickHalfSpaceContact& c = BrickHalfSpaceContact::getAs(cur); R.kind = 3; R.depth = c.getDepth(); R.lowestVertex = c.getLowestVertex(); }
    else if (TriangleMeshContact::isInstance(cur)) { const TriangleMeshContact& c = TriangleMeshContact::getAs(cur); R.kind = 4; R.f1 = c.getSurface1Faces(); R.f2 = c.getSurface2Faces(); }
    else R.kind = 5;
    return R;
}

bool near(pbt::Ctx& ctx, LD a, LD b, LD tol, const std::string& what) { if (std::fabs(a - b) <= tol) return true; ctx.fail(what + " = " + pbt::str((double)a) + ", expected " + pbt::str((double)b) + " (tolerance " + pbt::str((double)tol) + ")"); return false; }
bool nearV(pbt::Ctx& ctx, V3 a, V3 b, LD tol, const std::string& what) { if (norm(a - b) <= tol) return true; ctx.fail(what + " = " + sv(a) + ", expected " + sv(b) + " (tolerance " + pbt::str((double)tol) + ")"); return false; }
bool sameX(pbt::Ctx& ctx, const Transform& X, const XF& ref, LD tolp, const std::string& what) { XF x = toX(X); for (int k = 0; k < 3; ++k) if (norm(x.c[k] - ref.c[k]) > 1e-12L) { ctx.fail(what + ": rotation differs from ~X_GS1*X_GS2"); return false; } return nearV(ctx, x.p, ref.p, tolp, what + " translation"); }
XF relX(const XF& X1, const XF& X2) { XF r; for (int k = 0; k < 3; ++k) r.c[k] = rotT(X1, X2.c[k]); r.p = rotT(X1, X2.p - X1.p); return r; }

// principal curvatures (kmax,kmin) and kmax direction of the ellipsoid at surface point p (shape operator of the implicit surface)
void ellipsoidCurv(const Shape& s, V3 p, LD& kmax, LD& kmin, V3& dmax) {
    LD ia[3] = {1 / ((LD)s.rad[0] * s.rad[0]), 1 / ((LD)s.rad[1] * s.rad[1]), 1 / ((LD)s.rad[2] * s.rad[2])}; V3 g = {p.x * ia[0], p.y * ia[1], p.z * ia[2]}; LD gn = norm(g); V3 n = (1 / gn) * g;
    V3 t1 = cross(n, std::fabs(n.x) < 0.7 ? V3{1, 0, 0} : V3{0, 1, 0}); t1 = (1 / norm(t1)) * t1; V3 t2 = cross(n, t1);
    auto H = [&](V3 a, V3 b) { return (a.x * b.x * ia[0] + a.y * b.y * ia[1] + a.z * b.z * ia[2]) / gn; };
    LD a = H(t1, t1), b = H(t1, t2), c = H(t2, t2), m = (a + c) / 2, d = std::sqrt((a - c) * (a - c) / 4 + b * b); kmax = m + d; kmin = m - d;
    V3 e = std::fabs(b) > 1e-300L ? (kmax - c) * t1 + b * t2 : (a >= c ? t1 : t2); LD en = norm(e); dmax = en > 0 ? (1 / en) * e : t1;
}

// max over unit directions n (frame G) of  s(n) = n.(cB-cA) - hA(n) - hB(-n)   (>0: separated by that much; <0: -s = penetration along n)
LD separation(const Shape& A, const XF& XA, const Shape& B, const XF& XB, V3& best) {
    auto s = [&](V3 n) { return dot(n, XB.p - XA.p) - A.support(rotT(XA, n)) - B.support(rotT(XB, -1.0L * n)); };
    LD bs = -1e4000L; Rng rng(12345);
    std::vector<V3> starts; V3 cc = XB.p - XA.p; if (norm(cc) > 0) starts.push_back((1 / norm(cc)) * cc);
    for (int i = 0; i < 60; ++i) { V3 v{(LD)rng.sym(), (LD)rng.sym(), (LD)rng.sym()}; if (norm(v) > 1e-3) starts.push_back((1 / norm(v)) * v); }
    for (auto n : starts) { LD cur = s(n), step = 0.3;     // pattern search on the sphere
        while (step > 1e-10L) { V3 t1 = cross(n, std::fabs(n.x) < 0.7 ? V3{1, 0, 0} : V3{0, 1, 0}); t1 = (1 / norm(t1)) * t1; V3 t2 = cross(n, t1); bool imp = false;
            for (int k = 0; k < 4; ++k) { V3 m = n + step * (k == 0 ? t1 : k == 1 ? -1.0L * t1 : k == 2 ? t2 : -1.0L * t2); m = (1 / norm(m)) * m; LD v = s(m); if (v > cur) { cur = v; n = m; imp = true; } }
            if (!imp) step /= 2; }
        if (cur > bs) { bs = cur; best = n; } }
    return bs;
}

// Site predicate of known finding obb-intersectsbox-parallel-axes: some OBB-tree box of mesh 1 and some box of mesh 2 have a pair of
// (numerically) parallel axes in the given relative pose -- then OrientedBoundingBox::intersectsBox evaluates a cross-product axis
// that is pure rounding noise and can report "separated" for overlapping boxes.
void collectAxes(const ContactGeometry::TriangleMesh::OBBTreeNode& nd, std::vector<V3>& ax) { const Rotation& R = nd.getBounds().getTransform().R(); for (int k = 0; k < 3; ++k) { V3 a = toL(Vec3(R.col(k))); bool dup = false; for (auto& b : ax) if (norm(cross(a, b)) < 1e-9L) { dup = true; break; } if (!dup) ax.push_back(a); }
    if (!nd.isLeafNode()) { collectAxes(nd.getFirstChildNode(), ax); collectAxes(nd.getSecondChildNode(), ax); } }
struct XFfwd;
struct PairSetup { Pair pair; Shape s1, s2; const ContactTracker* tracker; std::shared_ptr<ContactTracker> own; };

void property(const pbt::Tape& t, pbt::Ctx& ctx) {
    pbt::Reader g(t[0]); PairSetup ps; ps.pair = (Pair)g.pick(NPAIR);
    static const int T1[] = {0, 1, 0, 0, 0, 1, 4, 1, 2}, T2[] = {1, 1, 2, 3, 4, 4, 4, 2, 2};
    const bool fineCase = t[0].size() > 31 && t[0][31] % 48u == 1u; if (fineCase) ps.pair = MESH_MESH;
    const bool implicitPair = ps.pair == SPHERE_ELLIPSOID || ps.pair == ELLIPSOID_ELLIPSOID;
    // 1 case in 48 (word 31 of segment 0; does not shift the meaning of the other words): deep mesh/mesh contact with a finely tessellated mesh
    bool fineIsS2 = true; double fineRadius = 1;
    if (fineCase) { pbt::Reader gf(t[0]); gf.skip(1); fineIsS2 = !gf.boolean(); Shape fm = makeFineMesh(gf, fineRadius), cm = makeCoarseMesh(gf, fineRadius); if (fineIsS2) { ps.s1 = cm; ps.s2 = fm; } else { ps.s1 = fm; ps.s2 = cm; } }
    else { ps.s1 = makeShape(T1[ps.pair], g, implicitPair ? 4 : 20); ps.s2 = makeShape(T2[ps.pair], g, implicitPair ? 4 : 20); }
    const Shape& S1 = ps.s1; const Shape& S2 = ps.s2;
    switch (ps.pair) {
        case HS_SPHERE: ps.own.reset(new ContactTracker::HalfSpaceSphere()); break; case SPHERE_SPHERE: ps.own.reset(new ContactTracker::SphereSphere()); break;
        case HS_ELLIPSOID: ps.own.reset(new ContactTracker::HalfSpaceEllipsoid()); break; case HS_BRICK: ps.own.reset(new ContactTracker::HalfSpaceBrick()); break;
        case HS_MESH: ps.own.reset(new ContactTracker::HalfSpaceTriangleMesh()); break; case SPHERE_MESH: ps.own.reset(new ContactTracker::SphereTriangleMesh()); break;
        case MESH_MESH: ps.own.reset(new ContactTracker::TriangleMeshTriangleMesh()); break;
        case SPHERE_ELLIPSOID: ps.own.reset(new ContactTracker::ConvexImplicitPair(ContactGeometry::Sphere::classTypeId(), ContactGeometry::Ellipsoid::classTypeId())); break;
        default: ps.own.reset(new ContactTracker::ConvexImplicitPair(ContactGeometry::Ellipsoid::classTypeId(), ContactGeometry::Ellipsoid::classTypeId())); break; }
    const ContactTracker& tr = *ps.own;
    const CollisionDetectionAlgorithm* cda = CollisionDetectionAlgorithm::getAlgorithm(S1.g().getTypeId(), S2.g().getTypeId());
    bool cdaSwapped = false; if (!cda) { cda = CollisionDetectionAlgorithm::getAlgorithm(S2.g().getTypeId(), S1.g().getTypeId()); cdaSwapped = cda != nullptr; }
    ctx.label(std::string("pair:") + pairName[ps.pair]); if (cda) ctx.label(std::string("cda:") + pairName[ps.pair] + (cdaSwapped ? "(registered in the other order)" : ""));
    const double size = std::min(S1.type == 0 ? 1e300 : S1.size(), S2.size());
    if (ctx.wantDesc) ctx.desc << "pair=" << pairName[ps.pair] << " S1=" << S1.desc << " S2=" << S2.desc << "\n";
    const bool meshPair = ps.pair == HS_MESH || ps.pair == SPHERE_MESH || ps.pair == MESH_MESH;
    bool anyNT = false;

    for (size_t ui = 1; ui < t.size(); ++ui) {
        if (fineCase && ui > 1) break;          // bounded cost: one configuration per fine case
        pbt::Reader r(t[ui]);
        // ---- configuration around touching
        Transform X1 = readX(r, 3 * std::max(1.0, std::min(size, 20.0))); double u[3]; r.unit3(u); double ang = r.angle(); Rotation R12(ang, UnitVec3(u[0], u[1], u[2]));
        double d3[3]; r.unit3(d3); bool far = r.chance(1, 10); bool neg = r.boolean(); double gexp = r.uniform(-9, -0.3); double gap = far ? 3 * size : (neg ? -1 : 1) * std::pow(10.0, gexp) * size; if (r.chance(1, 12)) gap = 0;
        double lat1 = r.real(-2, 2), lat2 = r.real(-2, 2); double cutoff = (!meshPair && !implicitPair && r.chance(1, 4)) ? std::pow(10.0, r.uniform(-3, 0)) * size : 0;
        Transform X_12; V3 dir{(LD)d3[0], (LD)d3[1], (LD)d3[2]};          // dir in S1 frame
        if (S1.type == 0) { LD h = S2.support(rotT(toX(Transform(R12, Vec3(0))), V3{1, 0, 0})); X_12 = Transform(R12, Vec3(-(double)h - gap, lat1 * size, lat2 * size)); }
        else { XF Rr = toX(Transform(R12, Vec3(0))); LD h1 = S1.type == 4 ? S1.support(dir) : S1.support(dir), h2 = S2.support(rotT(Rr, -1.0L * dir));
            if (fineCase) { // penetration = 5..85 % of the fine mesh's thickness along the approach direction (half of the cases >= 55 %), no lateral offset
                LD thick = fineIsS2 ? h2 + S2.support(rotT(Rr, dir)) : h1 + S1.support(-1.0L * dir); pbt::Reader rf(t[ui]); rf.skip(28); double fr = rf.boolean() ? rf.uniform(0.55, 0.85) : rf.uniform(0.05, 0.55); gap = -fr * (double)thick; lat1 = lat2 = 0; far = false; } X_12 = Transform(R12, toD((h1 + h2 + (LD)gap) * dir) + (S1.type == 4 || S2.type == 4 ? 0.15 * size * Vec3(lat1, lat2, 0) : Vec3(0))); }
        Transform X2 = X1 * X_12;
        const XF L1 = toX(X1), L2 = toX(X2), L12 = relX(L1, L2);
        const LD scale = norm(L1.p) + norm(L2.p) + (S1.type == 0 ? 0 : S1.size()) + S2.size(); const LD tol = 1e3 * EPS * scale;
        if (ctx.wantDesc) { ctx.desc.precision(17); ctx.desc << " config " << ui << ": X_GS1=" << sx(X1) << " X_GS2=" << sx(X2) << " nominal gap=" << gap << " cutoff=" << cutoff << "\n"; }
        Result R = runTracker(tr, X1, S1.g(), X2, S2.g(), cutoff);
        if (!R.ok) { if (ps.pair == SPHERE_SPHERE && norm(L2.p - L1.p) < 1e-10) { ctx.label("sphere-sphere:coincident-centres-refused"); continue; } ctx.fail(std::string(pairName[ps.pair]) + ": trackContact returned false (failure) for a regular configuration"); return; }
        if (ctx.wantDesc) ctx.desc << "   tracker: contact=" << R.contact << " kind=" << R.kind << " depth=" << R.depth << " normal_S1=" << sv(R.normalS1) << " origin_S1=" << sv(R.originS1) << " faces=" << R.f1.size() << "/" << R.f2.size() << "\n";
        if (R.contact && R.kind != 4 && !ctx.check(R.kind == (ps.pair == HS_SPHERE || ps.pair == SPHERE_SPHERE ? 1 : ps.pair == HS_BRICK ? 3 : 2), "unexpected Contact type reported")) return;
        if (R.contact && !sameX(ctx, R.X_S1S2, L12, tol, "Contact::getTransform (X_S1S2)")) return;
        const LD band = 1e-9L * size;
        bool obbSite = false, obbExcl = false, implicitExcl = false;
        LD depthRef = 0; bool haveRef = false; std::set<int> defF1, posF1, defF2, posF2;      // brute force sets for mesh pairs
        // ------------------------------------------------------------------ closed forms
        if (ps.pair == HS_SPHERE) { V3 c = L12.p; depthRef = c.x + S2.r; haveRef = true;
            if (R.contact) { if (!near(ctx, R.depth, depthRef, tol, "halfspace-sphere depth") || !nearV(ctx, R.normalS1, V3{-1, 0, 0}, 1e-14L, "halfspace-sphere normal (from the half space towards the sphere, in H)") || !nearV(ctx, R.originS1, V3{depthRef / 2, c.y, c.z}, tol, "halfspace-sphere patch origin (midway between the surfaces)")
                    || !near(ctx, R.reff, S2.r, 1e-13L * S2.r, "effective radius") || !near(ctx, R.r2, S2.r, 0, "radius2") || !ctx.check(R.r1 == Infinity, "radius1 of a half space must be Infinity")) return; } }
        else if (ps.pair == SPHERE_SPHERE) { V3 c = L12.p; LD d = norm(c); depthRef = S1.r + S2.r - d; haveRef = true;
            if (R.contact && R.kind == 1) { V3 n = (1 / d) * c; LD re = (LD)S1.r * S2.r / ((LD)S1.r + S2.r);
                if (!near(ctx, R.depth, depthRef, tol, "sphere-sphere depth") || !nearV(ctx, R.normalS1, n, 1e3 * EPS * scale / d, "sphere-sphere normal (centre 1 -> centre 2, in S1)") || !nearV(ctx, R.originS1, (S1.r - depthRef / 2) * n, tol, "sphere-sphere patch origin")
                    || !near(ctx, R.reff, re, 1e-13L * re, "effective radius r1 r2/(r1+r2)") || !near(ctx, R.r1, S1.r, 0, "radius1") || !near(ctx, R.r2, S2.r, 0, "radius2")) return; } }
        else if (ps.pair == HS_ELLIPSOID) { V3 nE = rotT(L12, V3{1, 0, 0}); V3 q = S2.supportPoint(nE); V3 qH = app(L12, q); depthRef = qH.x; haveRef = true;
            if (R.contact) { XF C = toX(R.X_S1C); LD kmax, kmin; V3 dmax; ellipsoidCurv(S2, q, kmax, kmin, dmax); V3 dH = rot(L12, dmax); LD asp = S2.size() / std::min(S2.rad[0], std::min(S2.rad[1], S2.rad[2])); LD tolE = tol * asp * asp;
                if (!near(ctx, R.depth, depthRef, tolE, "halfspace-ellipsoid depth") || !nearV(ctx, C.c[2], V3{-1, 0, 0}, 1e-12L, "contact frame z (normal away from the half space)") || !nearV(ctx, C.p, V3{depthRef / 2, qH.y, qH.z}, tolE, "contact frame origin (midway between the contact points)")) return;
                if (!near(ctx, R.k[0], kmax, 1e-9L * kmax * asp, "kmax") || !near(ctx, R.k[1], kmin, 1e-9L * kmax * asp, "kmin")) return;
                LD dev = 0; for (int i = 0; i < 3; ++i) for (int j = 0; j < 3; ++j) dev = std::max(dev, std::fabs(dot(C.c[i], C.c[j]) - (i == j))); if (!ctx.check(dev < 1e-12L && dot(cross(C.c[0], C.c[1]), C.c[2]) > 0, "contact frame is not a right-handed orthonormal frame")) return;
                { // Rayleigh quotients of the shape operator along the reported x and y axes must be kmax and kmin
                  LD ia[3] = {1 / ((LD)S2.rad[0] * S2.rad[0]), 1 / ((LD)S2.rad[1] * S2.rad[1]), 1 / ((LD)S2.rad[2] * S2.rad[2])}; V3 gE = {q.x * ia[0], q.y * ia[1], q.z * ia[2]}; LD gn = norm(gE);
                  for (int a = 0; a < 2; ++a) { V3 dE = rotT(L12, C.c[a]); LD kq = (dE.x * dE.x * ia[0] + dE.y * dE.y * ia[1] + dE.z * dE.z * ia[2]) / gn; LD want = a == 0 ? kmax : kmin;
                      if (!near(ctx, kq, want, 1e-8L * kmax * asp, std::string("normal curvature of the ellipsoid along the contact frame ") + (a ? "y" : "x") + " axis (must be " + (a ? "kmin" : "kmax") + ")")) return; } }
                (void)dH; } }
        else if (ps.pair == HS_BRICK) { LD hmin = 1e4000L; for (int v = 0; v < 8; ++v) { V3 p = app(L12, V3{(v & 4 ? 1 : -1) * (LD)S2.rad[0], (v & 2 ? 1 : -1) * (LD)S2.rad[1], (v & 1 ? 1 : -1) * (LD)S2.rad[2]}); hmin = std::min(hmin, -p.x); } depthRef = -hmin; haveRef = true;
            if (R.contact) { if (!near(ctx, R.depth, depthRef, tol, "halfspace-brick depth") || !ctx.check(R.lowestVertex >= 0 && R.lowestVertex < 8, "lowestVertex out of range")) return;
                V3 p = app(L12, toL(ContactGeometry::Brick::getAs(S2.g()).getGeoBox().getVertexPos(R.lowestVertex))); if (!near(ctx, -p.x, hmin, tol, "height of the reported lowest vertex vs the minimum over the 8 vertices")) return; } }
        // ------------------------------------------------------------------ mesh pairs (brute force)
        else if (ps.pair == HS_MESH) { const LD dl = 1e3 * EPS * scale; for (size_t f = 0; f < S2.A.size(); ++f) { LD mx = std::max(std::max(app(L12, S2.A[f]).x, app(L12, S2.B[f]).x), app(L12, S2.C[f]).x); if (mx > dl) defF2.insert((int)f); if (mx > -dl) posF2.insert((int)f); } }
        else if (ps.pair == SPHERE_MESH) { V3 c = appInv(L12, V3{0, 0, 0}); const LD dl = 1e3 * EPS * scale;
            for (size_t f = 0; f < S2.A.size(); ++f) { LD d = closestPtTri(c, S2.A[f], S2.B[f], S2.C[f]).d; LD e = std::max(std::max(norm(S2.B[f] - S2.A[f]), norm(S2.C[f] - S2.B[f])), norm(S2.A[f] - S2.C[f])), ar2 = norm(cross(S2.B[f] - S2.A[f], S2.C[f] - S2.A[f])), asp = e * e / ar2;
                bool def = d < S1.r - dl * (1 + asp), pos = d < S1.r + dl * (1 + asp);
                // known finding (same defect as C36 nearest-point-to-face-region6): the tracker measures the face distance with findNearestPointToFace
                if (eberlyRegion6Site(c, S2.A[f], S2.B[f], S2.C[f])) { if (ctx.known("sphere-mesh-point-triangle-region6")) { ctx.label("excluded:region6"); def = false; } else ctx.label("region6-site-checked"); }
                if (def) defF2.insert((int)f); if (pos) posF2.insert((int)f); } }
        else if (ps.pair == MESH_MESH) { const LD dl = 1e-9L * scale;
            { std::vector<V3> a1, a2; collectAxes(ContactGeometry::TriangleMesh::getAs(S1.g()).getOBBTreeNode(), a1); collectAxes(ContactGeometry::TriangleMesh::getAs(S2.g()).getOBBTreeNode(), a2);
              for (auto& b : a2) { V3 br = rot(L12, b); for (auto& a : a1) if (norm(cross(a, br)) < 1e-7L) obbSite = true; } }
            const size_t n1 = S1.A.size(), n2 = S2.A.size();
            std::vector<V3> V2(S2.VL.size()); for (size_t v = 0; v < V2.size(); ++v) V2[v] = app(L12, S2.VL[v]);     // mesh 2 in the frame of mesh 1
            std::vector<V3> A2(n2), B2(n2), C2(n2); for (size_t f = 0; f < n2; ++f) { A2[f] = V2[S2.FV[f][0]]; B2[f] = V2[S2.FV[f][1]]; C2[f] = V2[S2.FV[f][2]]; }
            auto spheres = [](const std::vector<V3>& A, const std::vector<V3>& B, const std::vector<V3>& C, std::vector<V3>& c, std::vector<LD>& r) { c.resize(A.size()); r.resize(A.size());
                for (size_t f = 0; f < A.size(); ++f) { c[f] = (1.0L / 3) * (A[f] + B[f] + C[f]); r[f] = std::max(std::max(norm(A[f] - c[f]), norm(B[f] - c[f])), norm(C[f] - c[f])); } };
            std::vector<V3> c1, c2; std::vector<LD> r1, r2; spheres(S1.A, S1.B, S1.C, c1, r1); spheres(A2, B2, C2, c2, r2);
            // (1) every pair of faces (bounding spheres only as an exact prefilter): definite crossings and possible contacts
            std::vector<char> x1(n1, 0), x2(n2, 0), p1(n1, 0), p2(n2, 0);
            for (size_t i = 0; i < n1; ++i) { V3 a[3] = {S1.A[i], S1.B[i], S1.C[i]};
                for (size_t j = 0; j < n2; ++j) { V3 d = c1[i] - c2[j]; LD rr = r1[i] + r2[j] + dl; if (dot(d, d) > rr * rr) continue; V3 b[3] = {A2[j], B2[j], C2[j]};
                    TT tt = triTri(a, b, dl); if (tt.definite) { x1[i] = x2[j] = 1; } if (tt.dist <= 10 * dl) { p1[i] = p2[j] = 1; } } }
            // (2) inside test per VERTEX (generalized winding number; no ray casting, no flood fill), cached: 0 outside, 1 inside, 2 within 100 dl of the other surface
            auto classify = [&](const std::vector<V3>& Q, const std::vector<V3>& A, const std::vector<V3>& B, const std::vector<V3>& C, const std::vector<V3>& cc, const std::vector<LD>& rc, std::vector<char>& cls) { cls.assign(Q.size(), 0);
                for (size_t v = 0; v < Q.size(); ++v) { bool nearS = false; for (size_t f = 0; f < A.size() && !nearS; ++f) { V3 d = Q[v] - cc[f]; LD rr = rc[f] + 100 * dl; if (dot(d, d) <= rr * rr && closestPtTri(Q[v], A[f], B[f], C[f]).d < 100 * dl) nearS = true; }
                    cls[v] = nearS ? 2 : (windingNumber(Q[v], A, B, C) > 0.5L ? 1 : 0); } };
            std::vector<char> cls1, cls2; classify(S1.VL, A2, B2, C2, c2, r2, cls1); classify(V2, S1.A, S1.B, S1.C, c1, r1, cls2);
            auto sets = [](const std::vector<std::array<int,3> >& FV, const std::vector<char>& cls, const std::vector<char>& x, const std::vector<char>& p, std::set<int>& def, std::set<int>& pos, int& buried) { buried = 0;
                for (size_t f = 0; f < FV.size(); ++f) { if (x[f]) { def.insert((int)f); pos.insert((int)f); continue; } int in = 0, nr = 0; for (int k = 0; k < 3; ++k) { char c = cls[FV[f][k]]; if (c == 1) in++; else if (c == 2) nr++; }
                    if (in == 3 && !p[f]) { def.insert((int)f); buried++; } if (in > 0 || nr > 0 || p[f]) pos.insert((int)f); } };
            int buried1 = 0, buried2 = 0; sets(S1.FV, cls1, x1, p1, defF1, posF1, buried1); sets(S2.FV, cls2, x2, p2, defF2, posF2, buried2);
            if (fineCase) { ctx.label("meshmesh:fine(>=2000 faces)"); int bf = fineIsS2 ? buried2 : buried1; ctx.label(bf >= 900 ? "meshmesh:buried>=900" : bf >= 300 ? "meshmesh:buried300-899" : "meshmesh:buried<300"); ctx.label(fineIsS2 ? "meshmesh:fine-is-surface2" : "meshmesh:fine-is-surface1");
                if (ctx.wantDesc) ctx.desc << "   fine case: reference definite faces " << defF1.size() << "/" << defF2.size() << " (buried " << buried1 << "/" << buried2 << "), possible " << posF1.size() << "/" << posF2.size() << "\n"; } }
        if (obbSite) { if (ctx.known("obb-intersectsbox-parallel-axes")) { obbExcl = true; ctx.label("excluded:obb-parallel-axes"); defF1.clear(); defF2.clear(); } else ctx.label("obb-parallel-axes-site-checked"); }
        // ------------------------------------------------------------------ implicit pairs
        LD sepD = 0; V3 sepN{0, 0, 0};
        if (implicitPair) { sepD = separation(S1, L1, S2, L2, sepN); depthRef = -sepD; haveRef = true;
            // known finding implicit-pair-deep-overlap-unconverged: site predicate (input) = exact penetration depth >= 0.1 size
            bool deepExcl = false; if (R.contact && depthRef >= 0.1L * size) { if (ctx.known("implicit-pair-deep-overlap-unconverged")) { deepExcl = true; ctx.label("excluded:implicit-deep-overlap"); } else ctx.label("implicit-deep-overlap-checked"); }
            if (R.contact && deepExcl) { XF C = toX(R.X_S1C); V3 nG = rot(L1, C.c[2]); if (!ctx.check(R.depth > 0, "implicit pair (deep overlap): depth <= 0")) return;
                if (!(dot(nG, L2.p - L1.p) > 0)) { if (ctx.known("implicit-pair-wrong-stationary-pair")) { ctx.label("excluded:implicit-wrong-stationary-pair"); implicitExcl = true; } else { ctx.fail("implicit pair (deep overlap): contact normal points away from surface 2 (far-side stationary pair), depth " + pbt::str(R.depth) + " vs exact " + pbt::str((double)depthRef)); return; } } }
            if (R.contact && !deepExcl) { XF C = toX(R.X_S1C); V3 z = C.c[2]; V3 P1 = C.p + ((LD)R.depth / 2) * z, P2 = C.p - ((LD)R.depth / 2) * z;   // S1 frame: surf1 point at +d/2 z, surf2 point at -d/2 z
                LD f1 = S1.implicitValue(P1), f2 = S2.implicitValue(appInv(L12, P2)); const LD tolI = 1e-7L;
                if (!ctx.check(R.depth > 0, "implicit pair: contact reported with depth <= 0") || !ctx.check(std::fabs(f1) <= tolI, "implicit pair: surface-1 contact point (OC + d/2 z) is off surface 1: implicit value " + pbt::str((double)f1))
                    || !ctx.check(std::fabs(f2) <= tolI, "implicit pair: surface-2 contact point (OC - d/2 z) is off surface 2: implicit value " + pbt::str((double)f2))) return;
                V3 n1 = S1.outwardNormal(P1), n2 = rot(L12, S2.outwardNormal(appInv(L12, P2)));
                // (deep overlaps: the Newton refinement's convergence flag is not reported by the tracker; observed normal error 1e-4 at depth 0.43 size; only coarse agreement (1e-2) is demanded beyond 0.1 size)
                const LD tolN = 1e-6L;
                if (!nearV(ctx, z, n1, tolN, "implicit pair: contact normal vs outward normal of surface 1 at its contact point") || !nearV(ctx, n2, -1.0L * n1, tolN, "implicit pair: outward normal of surface 2 at its contact point vs minus that of surface 1")) return;
                // depth = penetration along the reported normal (support functions)
                V3 nG = rot(L1, z); LD pen = -(dot(nG, L2.p - L1.p) - S1.support(rotT(L1, nG)) - S2.support(rotT(L2, -1.0L * nG))); if (!near(ctx, R.depth, pen, 1e-6L * size + 1e-9L * scale, "implicit pair depth vs extent of the overlap along the reported normal")) return;
                // The reported pair must be THE contact (minimal translation), not another stationary pair of the same equations
                // (e.g. the two far sides): normal from shape 1 towards shape 2, and for shallow overlaps depth = exact penetration depth.
                { LD toward = dot(nG, L2.p - L1.p); bool wrong = toward <= 0 || (depthRef < 0.1L * size && std::fabs((LD)R.depth - depthRef) > 1e-5L * size + 1e-9L * scale);
                  if (wrong) { if (ctx.known("implicit-pair-wrong-stationary-pair")) { ctx.label("excluded:implicit-wrong-stationary-pair"); implicitExcl = true; }
                      else { ctx.fail(std::string(pairName[ps.pair]) + ": the reported contact is a stationary point pair but not the contact: depth " + pbt::str(R.depth) + " (exact penetration depth " + pbt::str((double)depthRef) + "), normal.(c2-c1) = " + pbt::str((double)toward) + " (must be > 0: from surface 1 towards surface 2)"); return; } } }
                LD dev = 0; for (int i = 0; i < 3; ++i) for (int j = 0; j < 3; ++j) dev = std::max(dev, std::fabs(dot(C.c[i], C.c[j]) - (i == j))); if (!ctx.check(dev < 1e-10L, "implicit pair: contact frame not orthonormal") || !ctx.check(R.k[0] >= R.k[1] - 1e-12 * std::fabs(R.k[0]), "kmax < kmin")) return; } }
        // ------------------------------------------------------------------ existence, both directions
        if (haveRef) { LD thr = -(LD)cutoff; LD b = implicitPair ? 1e-6L * size : band + tol;
            if (depthRef > thr + b) { ctx.label(depthRef > 0 ? "overlapping" : "within-cutoff"); if (!ctx.check(R.contact && R.kind != 5, std::string(pairName[ps.pair]) + ": shapes overlap or are within the cutoff (exact depth " + pbt::str((double)depthRef) + ", cutoff " + pbt::str(cutoff) + ") but no contact is reported")) return; }
            else if (depthRef < thr - b) { ctx.label("separated"); if (!ctx.check(!R.contact, std::string(pairName[ps.pair]) + ": shapes are separated (exact depth " + pbt::str((double)depthRef) + ", cutoff " + pbt::str(cutoff) + ") but a contact with depth " + pbt::str(R.depth) + " is reported")) return; }
            else ctx.label("in-tolerance-band");
            if (std::fabs((double)depthRef) < 0.1 * size) anyNT = anyNT || std::fabs(ang) > 1e-3; }
        if (meshPair) {
            auto sub = [&](const std::set<int>& a, const std::set<int>& b, int& miss) { for (int x : a) if (!b.count(x)) { miss = x; return false; } return true; }; int m = -1;
            if (ps.pair != MESH_MESH && !ctx.check(R.f1.empty(), "faces reported for a surface that is not a mesh")) return;
            // known finding (C36): point/triangle region 6 affects sphere/mesh through findNearestPointToFace
            if (!sub(defF2, R.f2, m)) { { ctx.fail(std::string(pairName[ps.pair]) + ": face " + std::to_string(m) + " of surface 2 is definitely inside/intersecting surface 1 but is not reported (" + std::to_string(R.f2.size()) + " reported, " + std::to_string(defF2.size()) + " definite)"); return; } }
            // (mesh/mesh at the obb site: a missed intersecting pair opens the boundary ring and the buried-face flood fill leaks, so
            //  the reported sets can also be too large while that finding is listed)
            if (!obbExcl && !sub(R.f2, posF2, m)) { ctx.fail(std::string(pairName[ps.pair]) + ": reported face " + std::to_string(m) + " of surface 2 neither intersects nor lies inside surface 1"); return; }
            if (ps.pair == MESH_MESH) { if (!sub(defF1, R.f1, m)) { ctx.fail("mesh-mesh: face " + std::to_string(m) + " of surface 1 is definitely inside/intersecting surface 2 but is not reported (" + std::to_string(R.f1.size()) + " reported, " + std::to_string(defF1.size()) + " definite)"); return; }
                if (!obbExcl && !sub(R.f1, posF1, m)) { ctx.fail("mesh-mesh: reported face " + std::to_string(m) + " of surface 1 neither intersects nor lies inside surface 2"); return; } }
            bool some = !defF2.empty() || !defF1.empty(); ctx.label(some ? "mesh:faces-inside" : posF2.empty() && posF1.empty() ? "mesh:separated" : "mesh:marginal");
            if (!ctx.check(R.contact == (!R.f1.empty() || !R.f2.empty()) || !R.contact, "contact reported without faces")) return;
            if (some && posF2.size() < S2.A.size()) anyNT = true;
        }
        // ------------------------------------------------------------------ CollisionDetectionAlgorithm (old API): same geometry in the ground frame
        if (cda) { Array_<Contact> cs; if (!cdaSwapped) cda->processObjects(ContactSurfaceIndex(0), S1.g(), X1, ContactSurfaceIndex(1), S2.g(), X2, cs); else cda->processObjects(ContactSurfaceIndex(1), S2.g(), X2, ContactSurfaceIndex(0), S1.g(), X1, cs);
            if (!ctx.check(cs.size() <= 1, "CollisionDetectionAlgorithm reported " + std::to_string(cs.size()) + " contacts for a convex/single pair")) return;
            const LD sgn = cdaSwapped ? -1 : 1;
            if (haveRef) { LD b = implicitPair ? 1e-6L * size : band + tol;
                if (depthRef > b && !ctx.check(cs.size() == 1, std::string("CollisionDetectionAlgorithm ") + pairName[ps.pair] + ": overlap (depth " + pbt::str((double)depthRef) + ") but no contact")) return;
                if (depthRef < -b && !ctx.check(cs.size() == 0, std::string("CollisionDetectionAlgorithm ") + pairName[ps.pair] + ": separated (depth " + pbt::str((double)depthRef) + ") but a contact is reported")) return; }
            if (cs.size() == 1 && PointContact::isInstance(cs[0])) { const PointContact& pc = static_cast<const PointContact&>(cs[0]); V3 loc = toL(pc.getLocation()), nrm = sgn * toL(pc.getNormal()); LD dep = pc.getDepth();
                if (!ctx.check((int)pc.getSurface1() == (cdaSwapped ? 1 : 0) && (int)pc.getSurface2() == (cdaSwapped ? 0 : 1), "CollisionDetectionAlgorithm: surface indices")) return;
                if (R.contact && (R.kind == 1 || R.kind == 2) && !implicitExcl && (!implicitPair || (R.depth > 1e-6 * size && R.depth < 0.1 * size))) {   // deep overlaps of two ellipsoids have several stationary point pairs; MPR+Newton of the two implementations may legitimately settle on different ones   // differential with the tracker + closed form already verified above (implicit pairs: outside the touching band, where ConvexConvex's normal = normalized(p1-p2) is defined)
                    LD tolC = implicitPair ? 1e-6L * size : tol * (ps.pair == HS_ELLIPSOID ? 400 : 1);
                    if (!near(ctx, dep, R.depth, tolC, "CollisionDetectionAlgorithm depth vs ContactTracker depth") || !nearV(ctx, nrm, rot(L1, R.normalS1), implicitPair ? 1e-6L + 1e4 * EPS * scale / std::max((LD)1e-300, (LD)std::fabs(dep)) /* ConvexConvex normalizes p1-p2, whose length is the depth */ : 1e-11L + 1e3 * EPS * scale / std::max((LD)1e-300, norm(L2.p - L1.p)), "CollisionDetectionAlgorithm normal (ground) vs ContactTracker normal")
                        || !nearV(ctx, loc, app(L1, R.originS1), tolC, "CollisionDetectionAlgorithm location (ground) vs ContactTracker patch origin")) return;
                    if (R.kind == 1 && !near(ctx, pc.getRadiusOfCurvature1(), R.reff, 1e-12L * R.reff, "CollisionDetectionAlgorithm radius")) return; } }
            else if (cs.size() == 1 && TriangleMeshContact::isInstance(cs[0])) { const TriangleMeshContact& mc = TriangleMeshContact::getAs(cs[0]); const std::set<int>& g1 = cdaSwapped ? mc.getSurface2Faces() : mc.getSurface1Faces(); const std::set<int>& g2 = cdaSwapped ? mc.getSurface1Faces() : mc.getSurface2Faces(); int m = -1;
                auto sub = [&](const std::set<int>& a, const std::set<int>& b) { for (int x : a) if (!b.count(x)) { m = x; return false; } return true; };
                if (!obbExcl && !ctx.check(sub(defF2, g2) && sub(g2, posF2) && sub(defF1, g1) && sub(g1, posF1), std::string("CollisionDetectionAlgorithm ") + pairName[ps.pair] + ": face set differs from brute force at face " + std::to_string(m))) return; }
            else if (cs.size() == 0 && meshPair) { if (!ctx.check(defF1.empty() && defF2.empty(), std::string("CollisionDetectionAlgorithm ") + pairName[ps.pair] + ": faces definitely inside but no contact")) return; } }
        // ------------------------------------------------------------------ metamorphic: common rigid motion
        { pbt::Reader q(t[ui]); q.skip(16); Transform XM = readX(q, 5 * std::max(1.0, std::min(size, 20.0))); Transform Y1 = XM * X1, Y2 = XM * X2; Result M = runTracker(tr, Y1, S1.g(), Y2, S2.g(), cutoff); if (ctx.wantDesc) ctx.desc << "   after rigid motion " << sx(XM) << ": ok=" << M.ok << " contact=" << M.contact << " kind=" << M.kind << " depth=" << M.depth << " faces=" << M.f1.size() << "/" << M.f2.size() << " Y1=" << sx(Y1) << " Y2=" << sx(Y2) << "\n"; if (ctx.wantDesc && getenv("C35_DUMP")) { ctx.desc.precision(17); for (const Transform* X : {&Y1, &Y2}) { ctx.desc << "   M:"; for (int i = 0; i < 3; ++i) for (int j = 0; j < 3; ++j) ctx.desc << " " << X->R().asMat33()(i, j); ctx.desc << " p: " << X->p()[0] << " " << X->p()[1] << " " << X->p()[2] << "\n"; } }
            LD sc2 = scale + norm(toL(XM.p())); LD tolM = (implicitPair ? 1e-6L * size : 1e4 * EPS * sc2 * (ps.pair == HS_ELLIPSOID ? 400 : 1));
            bool marginal = haveRef && std::fabs(depthRef + (LD)cutoff) <= (implicitPair ? 1e-6L * size : band + 10 * tolM);
            if (!marginal && !meshPair) { if (!ctx.check(M.ok && M.contact == R.contact, std::string(pairName[ps.pair]) + ": moving both shapes by the same rigid motion " + sx(XM) + " changes contact/no contact")) return;
                if (R.contact && (R.kind == 1 || R.kind == 2 || R.kind == 3) && !implicitExcl && (!implicitPair || R.depth < 0.1 * size)) { if (!near(ctx, M.depth, R.depth, tolM, "depth after a common rigid motion") || !nearV(ctx, M.normalS1, R.normalS1, implicitPair ? 1e-6L : 1e-10L, "normal (S1 frame) after a common rigid motion") || !nearV(ctx, M.originS1, R.originS1, tolM, "patch origin (S1 frame) after a common rigid motion")) return;
                    if (R.kind == 3 && !ctx.check(M.lowestVertex == R.lowestVertex || true, "")) return; } }
            if (meshPair) { auto diffOk = [&](const std::set<int>& a, const std::set<int>& b, const std::set<int>& def, const std::set<int>& pos) { for (int x : a) if (!b.count(x) && (def.count(x) || !pos.count(x))) return false; for (int x : b) if (!a.count(x) && (def.count(x) || !pos.count(x))) return false; return true; };
                auto ls = [](const std::set<int>& x) { std::string o = "{"; for (int i : x) o += std::to_string(i) + " "; return o + "}"; };
                if (!obbExcl && !ctx.check(diffOk(R.f2, M.f2, defF2, posF2) && diffOk(R.f1, M.f1, defF1, posF1), std::string(pairName[ps.pair]) + ": face sets change under a common rigid motion " + sx(XM) + " beyond the marginal faces: faces1 " + ls(R.f1) + " -> " + ls(M.f1) + " (definite " + ls(defF1) + " possible " + ls(posF1) + "), faces2 " + ls(R.f2) + " -> " + ls(M.f2) + " (definite " + ls(defF2) + " possible " + ls(posF2) + ")")) return; }
            ctx.label("metamorphic:rigid-motion"); }
        // ------------------------------------------------------------------ metamorphic: swapped order (same-type pairs)
        if (ps.pair == SPHERE_SPHERE || ps.pair == MESH_MESH || ps.pair == ELLIPSOID_ELLIPSOID) { Result W = runTracker(tr, X2, S2.g(), X1, S1.g(), cutoff);
            bool marginal = haveRef && std::fabs(depthRef + (LD)cutoff) <= (implicitPair ? 1e-6L * size : band + 10 * tol);
            if (ps.pair != MESH_MESH && !marginal) { if (!ctx.check(W.ok && W.contact == R.contact, std::string(pairName[ps.pair]) + ": swapping the two shapes changes contact/no contact")) return;
                if (R.contact && (R.kind == 1 || R.kind == 2) && W.kind == R.kind && !implicitExcl && (!implicitPair || R.depth < 0.1 * size)) { LD tolW = implicitPair ? 1e-6L * size : tol; V3 nG = rot(L1, R.normalS1), nW = rot(L2, W.normalS1);
                    if (!near(ctx, W.depth, R.depth, tolW, "depth with the shapes swapped") || !nearV(ctx, nW, -1.0L * nG, implicitPair ? 1e-6L : 1e-10L, "normal (ground) with the shapes swapped must be reversed") || !nearV(ctx, app(L2, W.originS1), app(L1, R.originS1), tolW, "contact point (ground) with the shapes swapped")) return;
                    if (R.kind == 1 && (!near(ctx, W.r1, R.r2, 0, "radius1 after swap") || !near(ctx, W.reff, R.reff, 1e-13L * R.reff, "effective radius after swap"))) return; } }
            if (ps.pair == MESH_MESH && !obbExcl) { auto diffOk = [&](const std::set<int>& a, const std::set<int>& b, const std::set<int>& def, const std::set<int>& pos) { for (int x : a) if (!b.count(x) && (def.count(x) || !pos.count(x))) return false; for (int x : b) if (!a.count(x) && (def.count(x) || !pos.count(x))) return false; return true; };
                if (!obbExcl && !ctx.check(diffOk(R.f1, W.f2, defF1, posF1) && diffOk(R.f2, W.f1, defF2, posF2), "mesh-mesh: face sets are not swapped when the meshes are given in the other order")) return; }
            ctx.label("metamorphic:swap(tracker)"); }
        // ------------------------------------------------------------------ ContactTrackerSubsystem, both insertion orders (first configuration only)
        if (ui == 1 && cutoff == 0) {
            Result sub[2]; bool okSub = true; V3 nG[2], oG[2]; std::set<int> fa[2], fb[2]; int ncon[2] = {0, 0};
            // Every surface sits on its body through a generated placement X_BS (general rotation + translation; identity when the tape
            // word is 0 mod 8), the body pose compensating so that the surface's world pose is still X_GS. Meshes are additionally made
            // OFF-CENTRE: vertices shifted by 1..5 mesh radii in the mesh frame (bounding-sphere centre far from the frame origin), again
            // compensated in the pose; face numbering is unchanged, so the world-frame reference and the tracker result R stay valid.
            struct Placed { std::shared_ptr<ContactGeometry> geo; Transform X_BS, X_GB; };
            uint32_t pseed = t[ui].size() > 23 ? t[ui][23] : 0; Rng prng(pseed); const bool plainPlacement = pseed % 8u == 0;
            auto place = [&](const Shape& S, const Transform& XGS) { Placed P; P.geo = S.geo; Transform XGSp = XGS;
                if (!plainPlacement) { 
                    if (S.type == 4 && !fineCase) { Vec3 d(prng.sym(), prng.sym(), prng.sym()); if (d.norm() < 1e-3) d = Vec3(0, 0, 1); Vec3 o = (1 + 4 * prng.uni()) * S.L * (d / d.norm());
                        Array_<Vec3> V; for (auto& v : S.gm.V) V.push_back(v + o); Array_<int> I; for (auto& tr : S.gm.tris()) for (int k = 0; k < 3; ++k) I.push_back(tr[k]);
                        P.geo.reset(new ContactGeometry::TriangleMesh(V, I)); XGSp = XGS * Transform(Rotation(), -o); ctx.label("mesh:off-centre(bounding-sphere centre far from frame origin)"); }
                    Vec3 ax(prng.sym(), prng.sym(), prng.sym()); if (ax.norm() < 1e-3) ax = Vec3(0, 0, 1); double psc = S.type == 0 ? 1.0 : 2 * S.size();
                    P.X_BS = Transform(Rotation(3.1 * prng.sym(), UnitVec3(ax)), psc * Vec3(prng.sym(), prng.sym(), prng.sym())); ctx.label("surface:rotated-placement"); }
                const Transform X_SB = ~P.X_BS; P.X_GB = XGSp * X_SB; return P; };
            const Placed PA = place(S1, X1), PB = place(S2, X2);
            for (int order = 0; order < 2 && okSub; ++order) {
                MultibodySystem sys; SimbodyMatterSubsystem matter(sys); ContactTrackerSubsystem tracker(sys);
                Body::Rigid bA(MassProperties(1, Vec3(0), Inertia(1))), bB(MassProperties(1, Vec3(0), Inertia(1)));
                bA.addContactSurface(PA.X_BS, ContactSurface(*PA.geo, ContactMaterial(1e6, 0.1, 0.5, 0.5, 0.1))); bB.addContactSurface(PB.X_BS, ContactSurface(*PB.geo, ContactMaterial(1e6, 0.1, 0.5, 0.5, 0.1)));
                if (order == 0) { MobilizedBody::Weld a(matter.Ground(), PA.X_GB, bA, Transform()); MobilizedBody::Weld b(matter.Ground(), PB.X_GB, bB, Transform()); }
                else { MobilizedBody::Weld b(matter.Ground(), PB.X_GB, bB, Transform()); MobilizedBody::Weld a(matter.Ground(), PA.X_GB, bA, Transform()); }
                State st = sys.realizeTopology(); sys.realize(st, Stage::Position); const ContactSnapshot& snap = tracker.getActiveContacts(st); ncon[order] = snap.getNumContacts();
                if (!ctx.check(ncon[order] <= 1, "ContactTrackerSubsystem reports " + std::to_string(ncon[order]) + " contacts for one pair of surfaces")) return;
                if (ncon[order] == 1) { const Contact& c = snap.getContact(0); ContactSurfaceIndex i1 = c.getSurface1(), i2 = c.getSurface2();
                    bool s1isA = ContactGeometry(tracker.getContactSurface(i1).getShape()).getTypeId() == S1.g().getTypeId() && (S1.g().getTypeId() != S2.g().getTypeId() || ((order == 0) == ((int)i1 == 0)));
                    Transform XG1 = tracker.getMobilizedBody(i1).getBodyTransform(st) * tracker.getContactSurfaceTransform(i1); XF LG1 = toX(XG1);
                    if (CircularPointContact::isInstance(c)) { const CircularPointContact& cc = CircularPointContact::getAs(c); sub[order].depth = cc.getDepth(); nG[order] = (s1isA ? 1 : -1) * rot(LG1, toL(Vec3(cc.getNormal()))); oG[order] = app(LG1, toL(cc.getOrigin())); sub[order].kind = 1; }
                    else if (EllipticalPointContact::isInstance(c)) { const EllipticalPointContact& cc = EllipticalPointContact::getAs(c); sub[order].depth = cc.getDepth(); nG[order] = (s1isA ? 1 : -1) * rot(LG1, toL(Vec3(cc.getContactFrame().R().z()))); oG[order] = app(LG1, toL(cc.getContactFrame().p())); sub[order].kind = 2; }
                    else if (BrickHalfSpaceContact::isInstance(c)) { sub[order].depth = BrickHalfSpaceContact::getAs(c).getDepth(); sub[order].kind = 3; }
                    else if (TriangleMeshContact::isInstance(c)) { const TriangleMeshContact& mc = TriangleMeshContact::getAs(c); fa[order] = s1isA ? mc.getSurface1Faces() : mc.getSurface2Faces(); fb[order] = s1isA ? mc.getSurface2Faces() : mc.getSurface1Faces(); sub[order].kind = 4; } } }
            bool marginal = haveRef && std::fabs(depthRef) <= (implicitPair ? 1e-6L * size : band + 10 * tol);
            if (!marginal && !meshPair) { if (!ctx.check((ncon[0] == 1) == R.contact && (ncon[1] == 1) == R.contact, std::string("ContactTrackerSubsystem (") + pairName[ps.pair] + "): contact/no contact differs from the tracker or between the two insertion orders (" + std::to_string(ncon[0]) + "," + std::to_string(ncon[1]) + " vs tracker " + std::to_string(R.contact) + ")")) return;
                if (R.contact && (R.kind == 1 || R.kind == 2) && !implicitExcl && (!implicitPair || R.depth < 0.1 * size)) for (int o = 0; o < 2; ++o) { LD tolS = implicitPair ? 1e-6L * size : tol * (ps.pair == HS_ELLIPSOID ? 400 : 10);
                    if (!near(ctx, sub[o].depth, R.depth, tolS, std::string("ContactTrackerSubsystem depth (insertion order ") + (o ? "B,A" : "A,B") + ")") || !nearV(ctx, nG[o], rot(L1, R.normalS1), implicitPair ? 1e-6L : 1e-10L, std::string("ContactTrackerSubsystem normal from shape A to shape B in ground (insertion order ") + (o ? "B,A" : "A,B") + ")")
                        || !nearV(ctx, oG[o], app(L1, R.originS1), tolS, std::string("ContactTrackerSubsystem contact point in ground (insertion order ") + (o ? "B,A" : "A,B") + ")")) return; }
                if (R.contact && R.kind == 3) for (int o = 0; o < 2; ++o) if (!near(ctx, sub[o].depth, R.depth, tol * 10, "ContactTrackerSubsystem brick depth")) return; }
            if (meshPair && !obbExcl) { auto diffOk = [&](const std::set<int>& a, const std::set<int>& b, const std::set<int>& def, const std::set<int>& pos) { for (int x : a) if (!b.count(x) && (def.count(x) || !pos.count(x))) return false; for (int x : b) if (!a.count(x) && (def.count(x) || !pos.count(x))) return false; return true; };
                for (int o = 0; o < 2; ++o) if (!obbExcl && !ctx.check(diffOk(R.f1, fa[o], defF1, posF1) && diffOk(R.f2, fb[o], defF2, posF2), std::string("ContactTrackerSubsystem (") + pairName[ps.pair] + ", insertion order " + (o ? "B,A" : "A,B") + "): face sets differ from the tracker's")) return; }
            ctx.label("metamorphic:swap(subsystem)"); }
        if (gap < 0) ctx.label("gap<0"); else if (gap == 0) ctx.label("gap=0"); else ctx.label(far ? "far" : "gap>0"); if (cutoff > 0) ctx.label("cutoff>0");
    }
    ctx.nontrivial(anyNT);
}

pbt::Config config() {
    pbt::Config c; c.prop = "C35"; c.K = 32; c.minUnits = 1; c.maxShrinkSecs = 25;
    c.quick = {1500, 8000, 12, 25}; c.thorough = {10000, 80000, 16, 150};
    c.rule = "1 case in 48: deep mesh/mesh contact of a 2048-face nonuniformly scaled sphere mesh (5..85 % of its thickness) with a coarser mesh, both roles; otherwise: tape -> shape pair {halfspace/sphere, sphere/sphere, halfspace/ellipsoid, halfspace/brick, halfspace/mesh, sphere/mesh, mesh/mesh, sphere/ellipsoid, ellipsoid/ellipsoid} with sizes 0.05..20 (aspect <= 20, implicit pairs <= 4; meshes 4..128 faces with radial noise) and a list of configurations: ground pose of shape 1, relative rotation, approach direction, signed gap +-1e-9..0.5 sizes (log-uniform), 0 or far, optional cutoff. Non-trivial: |exact gap| < 10% of the smaller size with a non-identity relative rotation, or a mesh pair with some but not all faces inside.";
    c.assumptions = {"ContactTracker::trackContact is called with an UntrackedContact prior (caller precondition)", "mesh pairs require cutoff == 0 (asserted by the trackers)", "implicit pairs: aspect ratio <= 4, depth/normal tolerance 1e-6 (Newton refinement to SignificantReal)", "existence is not judged inside a band of 1e-9 sizes (closed forms) / 1e-6 sizes (implicit pairs) around touching"};
    c.directed.push_back({"obb-boxes-sharing-an-axis", "obb-intersectsbox-parallel-axes", [](pbt::Ctx& ctx) {
        // two cubes of side 2.00004 whose frames share the z axis up to rounding noise (R(1,2) = 2.8e-17), centres 1.73 apart: they overlap
        OrientedBoundingBox b1(Transform(Rotation(), Vec3(-1.00002)), Vec3(2.00004));
        Mat33 m(-0.98999249660044586, -0.14112000805986732, 0,  0.14112000805986727, -0.98999249660044564, 2.7755575615628914e-17,  0, 0, 1.0000000000000004);
        Rotation R; R.setRotationFromMat33TrustMe(m); Transform X(R, Vec3(1.6488837703888077, -0.51961524227066325, 0)); OrientedBoundingBox b2 = X * b1;
        Mat33 m0(-0.98999249660044586, -0.14112000805986732, 0,  0.14112000805986727, -0.98999249660044564, 0,  0, 0, 1); Rotation R0; R0.setRotationFromMat33TrustMe(m0); OrientedBoundingBox b3 = Transform(R0, X.p()) * b1;
        bool i2 = b1.intersectsBox(b2), i3 = b1.intersectsBox(b3);
        ctx.desc << "cube [-1,1]^3 vs the same cube rotated 3 rad about z and shifted by (1.649,-0.520,0): intersectsBox = " << i3 << " with an exact rotation, " << i2 << " with R(1,2)=2.8e-17 rounding noise\n";
        ctx.check(i2 && i3, "OrientedBoundingBox::intersectsBox reports two overlapping boxes as separated when two of their axes are parallel up to rounding noise (cross-product axis test without epsilon)");
    }});
    c.directed.push_back({"sphere-mesh-face-missed", "sphere-mesh-point-triangle-region6", [](pbt::Ctx& ctx) {
        Array_<Vec3> V; V.push_back(Vec3(0, 0, 0)); V.push_back(Vec3(1, 0, 0)); V.push_back(Vec3(2, 1, 0)); V.push_back(Vec3(1, 0.3, -1));
        int F[12] = {0,1,2, 0,3,1, 1,3,2, 2,3,0}; Array_<int> I(F, F + 12); ContactGeometry::TriangleMesh m(V, I); ContactGeometry::Sphere sp(2.9);
        // sphere centre 2.8226 from face 0 (nearest point (0.9175,0,0) on edge 0-1); radius 2.9 -> face 0 is inside the sphere
        Transform XS(Rotation(), Vec3(0.9175481636980658, -2.8225502161985574, 0)), XM; ContactTracker::SphereTriangleMesh tr; UntrackedContact prior(ContactSurfaceIndex(0), ContactSurfaceIndex(1)); Contact cur;
        tr.trackContact(prior, XS, sp, XM, m, 0, cur); std::set<int> faces; if (!cur.isEmpty()) faces = TriangleMeshContact::getAs(cur).getSurface2Faces();
        ctx.desc << "sphere r=2.9 centred 2.8226 from face 0 of a tetrahedron: reported faces:"; for (int f : faces) ctx.desc << " " << f; ctx.desc << "\n";
        ctx.check(faces.count(0) == 1, "sphere/mesh: face 0 is 2.8226 from the centre of a sphere of radius 2.9 but is not reported (findNearestPointToFace returns a point 2.968 away: region-6 sign test)");
    }});
    c.directed.push_back({"implicit-pair-far-side-pair", "implicit-pair-wrong-stationary-pair", [](pbt::Ctx& ctx) {
        // sphere r=0.1404 and an "ellipsoid" with three equal radii 0.1020 overlapping by 0.0326; the same configuration under 5000 common rigid motions
        ContactGeometry::Sphere s(0.14037455061472595); ContactGeometry::Ellipsoid e(Vec3(0.10204084129697288));
        Transform X1(Rotation(1.9981069618380305, UnitVec3(0, 0, -1)), Vec3(6, 4.7123889803846897, -8.038002971559763));
        Transform X2(Rotation(2.0786452686326062, UnitVec3(0.063953548283812375, 0.13368470904867927, -0.98895821055719035)), Vec3(6.0981441153624605, 4.89707593112177, -8.0216119598482525));
        ContactTracker::ConvexImplicitPair tr(ContactGeometry::Sphere::classTypeId(), ContactGeometry::Ellipsoid::classTypeId()); const double exact = 0.14037455061472595 + 0.10204084129697288 - (X2.p() - X1.p()).norm();
        int wrong = 0, first = -1; double wd = 0;
        for (int k = 0; k < 5000; ++k) { Transform XM(Rotation(0.001 * k, UnitVec3(1, 2, 3)), Vec3(0.1 * k, -0.05 * k, 1)); UntrackedContact pr(ContactSurfaceIndex(0), ContactSurfaceIndex(1)); Contact cu; tr.trackContact(pr, XM * X1, s, XM * X2, e, 0.0, cu);
            double d = cu.isEmpty() ? -1 : EllipticalPointContact::getAs(cu).getDepth(); if (std::fabs(d - exact) > 1e-6) { if (first < 0) { first = k; wd = d; } wrong++; } }
        ctx.desc << "sphere(0.1404)/ellipsoid(0.1020 x3), exact penetration depth " << exact << ": " << wrong << " of 5000 rigidly moved copies of the configuration give another depth (first: motion " << first << " -> depth " << wd << ")\n";
        ctx.check(wrong == 0, std::to_string(wrong) + " of 5000 rigidly moved copies of one sphere/ellipsoid configuration (penetration depth " + pbt::str(exact) + ") are reported with depth " + pbt::str(wd) + " = the far-side stationary pair, normal pointing away from the other surface");
    }});
    c.directed.push_back({"deep-ellipsoid-overlap-not-converged", "implicit-pair-deep-overlap-unconverged", [](pbt::Ctx& ctx) {
        ContactGeometry::Ellipsoid a(Vec3(5, 1.3164599265641455, 2.7811601908577153)), b(Vec3(3.1933651526591671, 0.91505334734694654, 1.2972352926065156));
        Transform X1(Rotation(2.2281580390630866, UnitVec3(-0.36268766503040978, -0.53142264744600654, -0.76553747616708268)), Vec3(28.360776052564717, 0.95800954579775022, -8.39879077061169));
        Transform X2(Rotation(2.163165260459313, UnitVec3(-0.17985801740555235, -0.53552120292755045, -0.82514734126092493)), Vec3(28.435551477540045, 3.6048927700340014, -7.4633081096367606));
        ContactTracker::ConvexImplicitPair tr(ContactGeometry::Ellipsoid::classTypeId(), ContactGeometry::Ellipsoid::classTypeId()); UntrackedContact prior(ContactSurfaceIndex(0), ContactSurfaceIndex(1)); Contact cur; tr.trackContact(prior, X1, a, X2, b, 0.0, cur);
        if (!ctx.check(!cur.isEmpty() && EllipticalPointContact::isInstance(cur), "no contact reported for deeply overlapping ellipsoids")) return;
        const EllipticalPointContact& c = EllipticalPointContact::getAs(cur); Vec3 z = Vec3(c.getContactFrame().R().z()), P1 = c.getContactFrame().p() + c.getDepth() / 2 * z, r = a.getRadii(); Vec3 g(P1[0] / (r[0] * r[0]), P1[1] / (r[1] * r[1]), P1[2] / (r[2] * r[2]));
        double dn = (z - g / g.norm()).norm(), f = P1[0] * P1[0] / (r[0] * r[0]) + P1[1] * P1[1] / (r[1] * r[1]) + P1[2] * P1[2] / (r[2] * r[2]) - 1;
        ctx.desc << "ellipsoids (5,1.32,2.78) and (3.19,0.92,1.30) overlapping by 1.45: reported contact normal differs from the surface-1 normal at the reported contact point by " << dn << ", the point's implicit value is " << f << "\n";
        ctx.check(dn < 1e-6 && std::fabs(f) < 1e-7, "ConvexImplicitPair returns an unconverged contact for a deep overlap: contact normal off the surface normal by " + pbt::str(dn) + ", contact point off the surface (implicit value " + pbt::str(f) + "); refineImplicitPair's convergence result is ignored");
    }});
    c.requiredLabels = {"pair:halfspace-sphere", "pair:sphere-sphere", "pair:halfspace-ellipsoid", "pair:halfspace-brick", "pair:halfspace-mesh", "pair:sphere-mesh", "pair:mesh-mesh", "meshmesh:fine(>=2000 faces)", "meshmesh:buried>=900", "surface:rotated-placement", "mesh:off-centre(bounding-sphere centre far from frame origin)", "pair:sphere-ellipsoid", "pair:ellipsoid-ellipsoid", "overlapping", "separated", "mesh:faces-inside", "metamorphic:swap(tracker)", "metamorphic:swap(subsystem)", "metamorphic:rigid-motion", "cutoff>0"};
    return c;
}
} // namespace

PBT_MAIN(config(), property)
