// C05 -- Built-in mobilizers realize their documented parameterisation (DESIGN.md 5, C05).
// Domain: mbgen trees of 1..3 bodies (so a mobilizer's parent moves too), all 18 built-in mobilizer types with every
// option (reversed, Euler/quaternion incl. unnormalised quaternions, SphericalCoords signs/offsets/axis, Screw pitch incl.
// 0 and negative, Ellipsoid radii incl. sphere, beam length), three inboard x two outboard frame kinds, q in the
// documented non-singular domains, random u; a second (q*,u*) per mobilizer for the fitting round trips.
// Oracle (R): getMobilizerTransform == refmob::X_FM(q) and getMobilizerVelocity == refmob::V_FM(q,u), both written from
// the public MobilizedBody_<Type>.h class comments only (gen/refmob.h); reversed == inverse motion of the forward formula
// at the same (q,u); getBodyTransform/getBodyVelocity == my own composition X_GP X_PF X_FM X_BM^-1 down the tree; the
// reference velocity == d/dt of the reference transform along the library's qdot (documented meaning of u).
// Ellipsoid (the public header promises only motion "along the surface of an ellipsoid"): rotation and angular velocity as
// Ball, Mo on the ellipsoid, reference position (0,0,rz), linear velocity tangent to the surface and == d/dt reported p.
// (Round trip) setQToFitTransform / setQToFitRotation / setQToFitTranslation with targets X* = X_FM(q*) reproduce them;
// setUToFitVelocity / AngularVelocity / LinearVelocity with V* = V_FM(q,u*) reproduce them.
#include "pbt.h"
#include "mbgen.h"
#include "refmob.h"
using namespace SimTK;

namespace {
const int K5 = mbgen::K + 16;            // words 52..64: alternative q (7) and u (6) words for the fit targets
const int QWORD0 = 36, NQUWORDS = 13;    // position of the q,u words inside an mbgen body unit (verified at run time)
const Real Eps = 2.220446049250313e-16;
std::string S(double a) { return pbt::str(a); }

// exploration aid (developer only): C05_EXPLORE=1 records the worst error per clause instead of failing
struct Explore { bool on = getenv("C05_EXPLORE") != nullptr; std::map<std::string, std::pair<double, long>> worst;
    ~Explore() { if (on) for (auto& kv : worst) fprintf(stderr, "EXPLORE %-70s worst=%.3e n=%ld\n", kv.first.c_str(), kv.second.first, kv.second.second); } };
Explore& explore() { static Explore e; return e; }

struct Judge {
    pbt::Ctx& ctx; std::string who;
    // returns false if the clause is violated (and records the failure)
    bool operator()(const std::string& clause, Real err, Real tol, const std::string& detail = "") {
        if (explore().on) { auto& w = explore().worst[clause + " | " + who]; if (!(err <= w.first)) w.first = err; w.second++; return true; }
        if (err <= tol) return true;
        ctx.fail(who + ": " + clause + ": error " + S(err) + " > tol " + S(tol) + (detail.empty() ? "" : " (" + detail + ")"));
        return false;
    }
};

Transform toTransform(const refmob::Xf& X) { return Transform(Rotation(X.R, true), X.p); }
std::string show(const refmob::Xf& X) { std::ostringstream o; o.precision(17); o << "R=" << X.R << " p=" << X.p; return o.str(); }
bool nonSphere(const mbgen::BodySpec& b) { return !(b.radii[0] == b.radii[1] && b.radii[1] == b.radii[2]); }

// Second decode of the same unit with the q,u words replaced by the spare words: same mobilizer, different (q*,u*).
mbgen::BodySpec altBody(const pbt::Seg& seg, int nExisting, bool euler, const mbgen::Options& opt) {
    pbt::Seg s2(seg.begin(), seg.begin() + std::min<size_t>(seg.size(), mbgen::K)); s2.resize(mbgen::K, 0u);
    for (int k = 0; k < NQUWORDS; ++k) s2[QWORD0 + k] = (size_t)(mbgen::K + k) < seg.size() ? seg[mbgen::K + k] : 0u;
    return mbgen::decodeBody(s2, nExisting, euler, false, opt);
}
bool sameMobilizer(const mbgen::BodySpec& a, const mbgen::BodySpec& b) {
    return a.type == b.type && a.reversed == b.reversed && a.parent == b.parent && a.pitch == b.pitch && a.radii == b.radii && a.beamLen == b.beamLen
        && a.az0 == b.az0 && a.ze0 == b.ze0 && a.negAz == b.negAz && a.negZe == b.negZe && a.negRad == b.negRad && a.radAxis == b.radAxis
        && a.X_PF.p() == b.X_PF.p() && a.X_BM.p() == b.X_BM.p() && a.mass == b.mass;
}

// ------------------------------------------------------------------------------------------------ one mobilizer
// Kinematic clauses for body i of the model in state s (realized to Velocity). Returns false after a failure.
bool checkKinematics(pbt::Ctx& ctx, const mbgen::ModelSpec& spec, const mbgen::Built& m, const State& s, int i,
                     std::vector<refmob::Xf>& X_GB, std::vector<SpatialVec>& V_GB, const Vector& qdotLib) {
    const mbgen::BodySpec& b = spec.bodies[i - 1]; const MobilizedBody& mb = m.mb[i];
    Judge J{ctx, std::string("body ") + std::to_string(i) + " " + mbgen::mobName(b.type) + (b.reversed ? "/rev" : "/fwd") + (mbgen::mobHasQuaternion(b.type) ? (spec.euler ? "/euler" : "/quat") : "")};
    const int nq = mb.getNumQ(s), nu = mb.getNumU(s);
    if (!ctx.check(nq == mbgen::mobNQ(b.type, spec.euler) && nu == mbgen::mobNU(b.type), J.who + ": unexpected number of q/u")) return false;
    double q[7] = {0}, u[6] = {0}; for (int k = 0; k < nq; ++k) q[k] = mb.getOneQ(s, k); for (int k = 0; k < nu; ++k) u[k] = mb.getOneU(s, k);
    const refmob::Xf Xlib = refmob::fromTransform(mb.getMobilizerTransform(s)); const SpatialVec Vlib = mb.getMobilizerVelocity(s);
    const Real us = std::sqrt([&] { Real a = 0; for (int k = 0; k < nu; ++k) a += u[k] * u[k]; return a; }());
    refmob::Xf Xref = refmob::X_FM(b, spec.euler, q); SpatialVec Vref = refmob::V_FM(b, spec.euler, q, u);
    const Real tolX = 200 * Eps * (1 + Xlib.p.norm()), tolV = 400 * Eps * (1 + us) * (1 + Xlib.p.norm());

    if (refmob::hasFormula(b.type)) {
        if (!J("getMobilizerTransform vs documented X_FM(q)", refmob::diff(Xlib, Xref), tolX, "library " + show(Xlib) + " documented " + show(Xref))) return false;
        if (!J("getMobilizerVelocity vs documented meaning of u", refmob::diff(Vlib, Vref), tolV, "library w=" + S(Vlib[0][0]) + "," + S(Vlib[0][1]) + "," + S(Vlib[0][2]) + " v=" + S(Vlib[1][0]) + "," + S(Vlib[1][1]) + "," + S(Vlib[1][2])
               + " documented w=" + S(Vref[0][0]) + "," + S(Vref[0][1]) + "," + S(Vref[0][2]) + " v=" + S(Vref[1][0]) + "," + S(Vref[1][1]) + "," + S(Vref[1][2]))) return false;
    } else {   // Ellipsoid: header-level predicate on the AS-DEFINED motion (moving frame w.r.t. the frame carrying the ellipsoid)
        refmob::Xf Xdef = b.reversed ? refmob::inverse(Xlib) : Xlib;
        SpatialVec Vdef = b.reversed ? refmob::reverseVelocity(Xlib, Vlib) : Vlib;      // inverse motion of the reported one
        refmob::Xf Rdoc = refmob::Xforward(b, spec.euler, q);
        if (!J("Ellipsoid rotation vs Ball formula", refmob::maxAbsDiff(Xdef.R, Rdoc.R), tolX)) return false;
        if (!J("Ellipsoid Mo not on the ellipsoid surface", std::abs(refmob::ellipsoidSurfaceResidual(b.radii, Xdef.p)), 400 * Eps)) return false;
        if (!J("Ellipsoid angular velocity vs u (w_FM in F)", (Vdef[0] - Vec3(u[0], u[1], u[2])).norm(), tolV)) return false;
        if (!J("Ellipsoid linear velocity not tangent to the surface", std::abs(refmob::ellipsoidNormalVelocity(b.radii, Xdef.p, Vdef[1])), 1e3 * Eps * (1 + us))) return false;
        Xref = Xlib; Vref = Vlib;    // used for the tree composition below
    }
    // documented velocity == time derivative of the documented transform along the library's qdot (what u means for q)
    {
        const int q0 = mb.getFirstQIndex(s); double qd[7] = {0}; for (int k = 0; k < nq; ++k) qd[k] = qdotLib[q0 + k];
        const Real h = 1e-3;
        if (refmob::hasFormula(b.type)) {
            auto Xt = [&](Real tt) { double qq[7]; for (int k = 0; k < 7; ++k) qq[k] = q[k] + tt * qd[k]; return refmob::X_FM(b, spec.euler, qq); };
            SpatialVec Vfd = refmob::rate5(Xt, h);
            if (!J("documented V_FM(q,u) vs d/dt documented X_FM along library qdot", refmob::diff(Vfd, Vref), 1e-7 * (1 + us) * (1 + us) * (1 + Xlib.p.norm()))) return false;
        } else {   // Ellipsoid: reported linear velocity == d/dt of the reported Mo location
            auto Xt = [&](Real tt) { State w = s; for (int k = 0; k < nq; ++k) mb.setOneQ(w, k, q[k] + tt * qd[k]); m.sys.realize(w, Stage::Position); return refmob::fromTransform(mb.getMobilizerTransform(w)); };
            SpatialVec Vfd = refmob::rate5(Xt, h);
            if (!J("Ellipsoid V_FM vs d/dt reported X_FM", refmob::diff(Vfd, Vlib), 1e-7 * (1 + us) * (1 + us) * (1 + Xlib.p.norm()))) return false;
        }
    }
    // tree composition (my own): X_GB = X_GP X_PF X_FM X_BM^-1 ; velocities by the transport theorem
    {
        const refmob::Xf& XGP = X_GB[b.parent]; const SpatialVec& VGP = V_GB[b.parent];
        refmob::Xf XPF = refmob::fromTransform(b.X_PF), XBM = refmob::fromTransform(b.X_BM);
        refmob::Xf XGF = refmob::compose(XGP, XPF), XGM = refmob::compose(XGF, Xref), XGB = refmob::compose(XGM, refmob::inverse(XBM));
        Vec3 wGF = VGP[0], vGFo = VGP[1] + VGP[0] % (XGF.p - XGP.p);
        Vec3 wGM = wGF + XGF.R * Vref[0], vGMo = vGFo + wGF % (XGM.p - XGF.p) + XGF.R * Vref[1];
        Vec3 vGBo = vGMo + wGM % (XGB.p - XGM.p);
        X_GB[i] = XGB; V_GB[i] = SpatialVec(wGM, vGBo);
        refmob::Xf XGBlib = refmob::fromTransform(mb.getBodyTransform(s)); SpatialVec VGBlib = mb.getBodyVelocity(s);
        Real sc = 1 + XGBlib.p.norm(), vs = 1 + V_GB[i][0].norm() + V_GB[i][1].norm();
        if (!J("getBodyTransform vs composition X_GP X_PF X_FM X_BM^-1", refmob::diff(XGBlib, XGB), 400 * Eps * sc * (i + 1))) return false;
        if (!J("getBodyVelocity vs composition of documented mobilizer velocities", refmob::diff(VGBlib, V_GB[i]), 1e3 * Eps * sc * vs * (i + 1))) return false;
    }
    return true;
}

// ------------------------------------------------------------------------------------------------ fitting round trips
// Known-finding sites (predicates on the INPUT: mobilizer type/options/target and the fit routine called).
//  screw-fit-zero-pitch                      Screw, pitch == 0, any fit that involves translation / linear velocity
//  bendstretch-fit-transform-negative-stretch BendStretch, pose fit, target stretch q1* < 0
//  sphericalcoords-fit-axis-and-signs        SphericalCoords: pose fit and velocity fit (translation / linear-velocity branch uses a row
//                                            of R_FM instead of the M axis), angular-velocity fit with a negated azimuth or zenith
//  ellipsoid-fit-transform-overrides-rotation Ellipsoid, pose fit
//  cantilever-fit-transform-overrides-rotation CantileverFreeBeam, pose fit
//  ellipsoid-fit-linvel-nonsphere            Ellipsoid, radii not all equal, linear-velocity fit branch
bool g_noExclude = false;     // set only inside the directed reproducers (which must run the excluded branch)
bool site(pbt::Ctx& ctx, bool predicate, const char* id, std::string& who) {
    if (!predicate || g_noExclude) return false;
    if (explore().on) { who += std::string(" [") + id + "]"; return false; }
    if (ctx.known(id)) { ctx.label(std::string("excluded:") + id); return true; }
    return false;
}
bool translationIndependent(int t) {   // translation coordinates that do not involve the rotational ones
    using namespace mbgen; return t == Slider || t == Cylinder || t == Planar || t == Bushing || t == Free || t == FreeLine || t == Translation || t == Screw;
}
bool checkFits(pbt::Ctx& ctx, const mbgen::ModelSpec& spec, const mbgen::Built& m, const State& s0, int i, const mbgen::BodySpec& bt /*targets q*,u**/, int pk, int vk) {
    const mbgen::BodySpec& b = spec.bodies[i - 1]; const MobilizedBody& mb = m.mb[i];
    if (b.type == mbgen::Weld) return true;
    const std::string who0 = std::string("body ") + std::to_string(i) + " " + mbgen::mobName(b.type) + (b.reversed ? "/rev" : "/fwd") + (mbgen::mobHasQuaternion(b.type) ? (spec.euler ? "/euler" : "/quat") : "");
    const int nq = mb.getNumQ(s0), nu = mb.getNumU(s0);
    const bool formula = refmob::hasFormula(b.type);
    const bool screw0 = b.type == mbgen::Screw && b.pitch == 0;
    // ---- targets: documented formula at (q*,u*) where there is one; for Ellipsoid the library's own pose at q* (pure round trip)
    auto libPoseAt = [&](const double* qq) { State w = s0; for (int k = 0; k < nq; ++k) mb.setOneQ(w, k, qq[k]); m.sys.realize(w, Stage::Position); return refmob::fromTransform(mb.getMobilizerTransform(w)); };
    const refmob::Xf Xstar = formula ? refmob::X_FM(b, spec.euler, bt.q) : libPoseAt(bt.q);
    const Real fitTol = 1e-10 * (1 + Xstar.p.norm());
    State s = s0;
    if (pk <= 1) {   // full pose
        ctx.label("fit:transform");
        Judge J{ctx, who0};
        bool skip = site(ctx, screw0, "screw-fit-zero-pitch", J.who)
                 || site(ctx, b.type == mbgen::BendStretch && bt.q[1] < 0, "bendstretch-fit-transform-negative-stretch", J.who)
                 || site(ctx, b.type == mbgen::SphericalCoords, "sphericalcoords-fit-axis-and-signs", J.who)
                 || site(ctx, b.type == mbgen::Ellipsoid, "ellipsoid-fit-transform-overrides-rotation", J.who)
                 || site(ctx, b.type == mbgen::CantileverFreeBeam, "cantilever-fit-transform-overrides-rotation", J.who);
        if (!skip) {
            mb.setQToFitTransform(s, toTransform(Xstar)); m.sys.realize(s, Stage::Position);
            refmob::Xf got = refmob::fromTransform(mb.getMobilizerTransform(s));
            if (!J("setQToFitTransform(representable X*) then getMobilizerTransform", refmob::diff(got, Xstar), fitTol, "target " + show(Xstar) + " got " + show(got))) return false;
            int bad = 0, f = mb.getFirstQIndex(s); for (int k = 0; k < s.getNQ(); ++k) if (!(k >= f && k < f + nq) && !(s.getQ()[k] == s0.getQ()[k])) ++bad;
            if (!J("setQToFitTransform changed coordinates of another mobilizer", bad, 0)) return false;
            if (explore().on) s = s0;
        }
    } else if (pk == 2) {          // rotation only (every mobilizer with rotational freedom)
        Judge J{ctx, who0};
        if (!(b.type == mbgen::Slider || b.type == mbgen::Translation)) {
            ctx.label("fit:rotation");
            mb.setQToFitRotation(s, Rotation(Xstar.R, true)); m.sys.realize(s, Stage::Position);
            refmob::Xf got = refmob::fromTransform(mb.getMobilizerTransform(s));
            if (!J("setQToFitRotation(representable R*) then rotation of getMobilizerTransform", refmob::maxAbsDiff(got.R, Xstar.R), fitTol)) return false;
        }
    } else {                       // translation only: mobilizers whose translational coordinates are independent of rotation; BendStretch forward
        Judge J{ctx, who0};
        bool applicable = translationIndependent(b.type) || (b.type == mbgen::BendStretch && !b.reversed);
        if (applicable && !site(ctx, screw0, "screw-fit-zero-pitch", J.who)) {
            ctx.label("fit:translation");
            mb.setQToFitTranslation(s, Xstar.p); m.sys.realize(s, Stage::Position);
            refmob::Xf got = refmob::fromTransform(mb.getMobilizerTransform(s));
            // Screw: the translation determines q only through p_z = pitch*q (all of it); others exact
            if (!J("setQToFitTranslation(representable p*) then translation of getMobilizerTransform", (got.p - Xstar.p).norm(), fitTol, "target p=" + S(Xstar.p[0]) + "," + S(Xstar.p[1]) + "," + S(Xstar.p[2]) + " got " + S(got.p[0]) + "," + S(got.p[1]) + "," + S(got.p[2]))) return false;
        }
    }
    // ---- velocity fits at the coordinates now in s
    double q[7] = {0}; for (int k = 0; k < nq; ++k) q[k] = mb.getOneQ(s, k);
    for (int k = 0; k < nq; ++k) if (!std::isfinite(q[k])) return true;    // only after an excluded known site
    const Real us = std::sqrt([&] { Real a = 0; for (int k = 0; k < nu; ++k) a += bt.u[k] * bt.u[k]; return a; }());
    SpatialVec Vstar;
    if (formula) Vstar = refmob::V_FM(b, spec.euler, q, bt.u);
    else { State w = s; for (int k = 0; k < nu; ++k) mb.setOneU(w, k, bt.u[k]); m.sys.realize(w, Stage::Velocity); Vstar = mb.getMobilizerVelocity(w); }
    m.sys.realize(s, Stage::Position);
    const Real pn = mb.getMobilizerTransform(s).p().norm();
    const Real vTol = 1e-10 * (1 + us) * (1 + pn);
    const Vector uBefore = s.getU();
    const bool ellNS = b.type == mbgen::Ellipsoid && nonSphere(b);
    State w = s;
    if (vk <= 1) {
        ctx.label("fit:velocity");
        Judge J{ctx, who0};
        bool skip = site(ctx, screw0, "screw-fit-zero-pitch", J.who) || site(ctx, ellNS, "ellipsoid-fit-linvel-nonsphere", J.who)
                 || site(ctx, b.type == mbgen::SphericalCoords, "sphericalcoords-fit-axis-and-signs", J.who);
        if (b.type == mbgen::Ellipsoid && !ellNS && explore().on) J.who += " [sphere]";
        if (!skip) {
            mb.setUToFitVelocity(w, Vstar); m.sys.realize(w, Stage::Velocity);
            SpatialVec got = mb.getMobilizerVelocity(w);
            if (!J("setUToFitVelocity(representable V*) then getMobilizerVelocity", refmob::diff(got, Vstar), vTol)) return false;
        }
    } else if (vk == 2) {          // angular velocity only: every mobilizer with rotational freedom
        Judge J{ctx, who0};
        if (!(b.type == mbgen::Slider || b.type == mbgen::Translation) && !site(ctx, b.type == mbgen::SphericalCoords && (b.negAz || b.negZe), "sphericalcoords-fit-axis-and-signs", J.who)) {
            ctx.label("fit:angular-velocity");
            mb.setUToFitAngularVelocity(w, Vstar[0]); m.sys.realize(w, Stage::Velocity);
            SpatialVec got = mb.getMobilizerVelocity(w);
            if (!J("setUToFitAngularVelocity(representable w*) then angular part of getMobilizerVelocity", (got[0] - Vstar[0]).norm(), vTol)) return false;
        }
    } else {                       // linear velocity only; forward direction only (the reversed wrapper documents "we have to assume angular velocity is zero")
        Judge J{ctx, who0};
        bool applicable = !b.reversed && (translationIndependent(b.type) || b.type == mbgen::BendStretch || b.type == mbgen::CantileverFreeBeam || b.type == mbgen::Ellipsoid);
        if (b.type == mbgen::BendStretch && std::abs(q[1]) < 1e-3) applicable = false;   // needs a significant stretch to turn rotation into velocity
        if (applicable && !site(ctx, screw0, "screw-fit-zero-pitch", J.who) && !site(ctx, ellNS, "ellipsoid-fit-linvel-nonsphere", J.who)) {
            if (b.type == mbgen::Ellipsoid && !ellNS && explore().on) J.who += " [sphere]";
            ctx.label("fit:linear-velocity");
            mb.setUToFitLinearVelocity(w, Vstar[1]); m.sys.realize(w, Stage::Velocity);
            SpatialVec got = mb.getMobilizerVelocity(w);
            if (!J("setUToFitLinearVelocity(representable v*) then linear part of getMobilizerVelocity", (got[1] - Vstar[1]).norm(), vTol)) return false;
        }
    }
    {   Judge J{ctx, who0};
        int bad = 0, f = mb.getFirstUIndex(w); for (int k = 0; k < w.getNU(); ++k) if (!(k >= f && k < f + nu) && !(w.getU()[k] == uBefore[k])) ++bad;
        for (int k = 0; k < w.getNQ(); ++k) if (!(w.getQ()[k] == s.getQ()[k])) ++bad;
        if (!J("setUToFit* changed q or speeds of another mobilizer", bad, 0)) return false; }
    return true;
}

void property(const pbt::Tape& t, pbt::Ctx& ctx) {
    pbt::Reader g(t[0]);
    mbgen::Options opt; opt.maxBodies = 3; opt.allowUnnormalizedQuat = true;
    const int fitPos = g.pick(4), fitVel = g.pick(4), nbWanted = 1 + g.pick(3);     // 1..3 bodies whatever the tape length (tapes are mostly longer)
    mbgen::ModelSpec spec = mbgen::decodeModel(t, 1, std::min((int)t.size() - 1, nbWanted), g, opt);
    if (ctx.wantDesc) spec.describe(ctx.desc);
    mbgen::labelModel(ctx, spec);
    const int nb = spec.nBodies();

    mbgen::Built m(spec); m.finish(spec); m.setState(spec);
    State& s = m.state;
    m.sys.realize(s, Stage::Velocity);
    const Vector qdotLib = s.getQDot();

    bool nt = false;
    for (int i = 1; i <= nb; ++i) {
        const mbgen::BodySpec& b = spec.bodies[i - 1]; int nq = mbgen::mobNQ(b.type, spec.euler); bool allNonZero = nq > 0;
        for (int k = 0; k < nq; ++k) if (b.q[k] == 0) allNonZero = false;
        bool plain = (b.type == mbgen::Pin || b.type == mbgen::Slider || b.type == mbgen::Ball) && !b.reversed && b.inKind == 0 && b.outKind == 0;
        if (allNonZero && !plain) nt = true;
        if (b.type == mbgen::Ellipsoid) ctx.label(nonSphere(b) ? "ellipsoid:nonsphere" : "ellipsoid:sphere");
        if (b.type == mbgen::Screw) ctx.label(b.pitch == 0 ? "screw:pitch0" : b.pitch < 0 ? "screw:pitch<0" : "screw:pitch>0");
        if (b.type == mbgen::SphericalCoords) ctx.label(std::string("sph:") + (b.sphGeneral ? "general" : "default") + (b.radAxis == 0 ? "/x" : "/z"));
    }
    ctx.nontrivial(nt);
    if (spec.unnormQuat) ctx.label("unnormalised-quaternions");

    std::vector<refmob::Xf> X_GB(nb + 1); std::vector<SpatialVec> V_GB(nb + 1, SpatialVec(Vec3(0), Vec3(0)));
    for (int i = 1; i <= nb; ++i) if (!checkKinematics(ctx, spec, m, s, i, X_GB, V_GB, qdotLib)) return;

    for (int i = 1; i <= nb; ++i) {
        const pbt::Seg& seg = t[i];
        mbgen::BodySpec bt = altBody(seg, i - 1, spec.euler, opt);
        if (!ctx.check(sameMobilizer(bt, spec.bodies[i - 1]), "harness error: alternative decode of a body unit changed the mobilizer")) return;
        if (ctx.wantDesc) { ctx.desc << " fit targets body " << i << ": q*="; for (int k = 0; k < mbgen::mobNQ(bt.type, spec.euler); ++k) ctx.desc << bt.q[k] << " "; ctx.desc << " u*="; for (int k = 0; k < mbgen::mobNU(bt.type); ++k) ctx.desc << bt.u[k] << " "; ctx.desc << " fit(pos,vel)=" << fitPos << "," << fitVel << "\n"; }
        if (!checkFits(ctx, spec, m, s, i, bt, fitPos, fitVel)) return;
    }
}

// ---- directed reproducers: one mobilizer on Ground, identity frames, start at q=0 (quaternion identity), fit to (q*,u*)
void directedFit(pbt::Ctx& ctx, mbgen::BodySpec b, bool euler, std::initializer_list<double> qStar, std::initializer_list<double> uStar, int pk, int vk) {
    mbgen::ModelSpec ms; ms.euler = euler; b.parent = 0;
    for (int k = 0; k < 7; ++k) b.q[k] = 0; if (mbgen::mobHasQuaternion(b.type) && !euler) b.q[0] = 1;
    if (b.type == mbgen::SphericalCoords) { b.q[1] = 1.0; b.q[2] = 0.5; }
    ms.bodies.push_back(b);
    mbgen::BodySpec bt = b; int k = 0; for (double v : qStar) bt.q[k++] = v; k = 0; for (double v : uStar) bt.u[k++] = v;
    mbgen::Built m(ms); m.finish(ms); m.setState(ms); m.sys.realize(m.state, Stage::Velocity);
    ms.describe(ctx.desc); ctx.desc << " fit targets: q*="; for (double v : qStar) ctx.desc << v << " "; ctx.desc << " u*="; for (double v : uStar) ctx.desc << v << " "; ctx.desc << " fit(pos,vel)=" << pk << "," << vk << "\n";
    g_noExclude = true; checkFits(ctx, ms, m, m.state, 1, bt, pk, vk); g_noExclude = false;
}
mbgen::BodySpec bodyOf(int type, bool reversed = false) { mbgen::BodySpec b; b.type = type; b.reversed = reversed; return b; }

pbt::Config config() {
    pbt::Config c; c.prop = "C05"; c.K = K5; c.minUnits = 1;
    c.quick = {2500, 8000, 30, 25}; c.thorough = {20000, 40000, 30, 240};
    c.rule = "rapidcheck tape -> mbgen tree of 1..3 bodies (18 mobilizer types, forward/reversed, frame kinds, quaternion incl. unnormalised or Euler mode, all type options, non-singular q, u in [-2,2]) + a second (q*,u*) per mobilizer for fit targets. Non-trivial: some mobilizer has every coordinate non-zero and is not a forward Pin/Slider/Ball with identity frames; distinct by tape hash.";
    c.assumptions = {"u = qdot for BendStretch, Planar, Screw and SphericalCoords (their class comments do not state the meaning of u; all other non-quaternion mobilizers document qdot=u)",
                     "Ellipsoid: the public header defines the translation only as 'along the surface of an ellipsoid' -> surface predicate, tangency and derivative consistency instead of a formula; reference position (0,0,rz) is taken from the design (source comment)",
                     "a state quaternion of any non-zero length stands for the rotation of the normalised quaternion",
                     "fit round trips: targets are X_FM(q*), V_FM(q,u*) of the same mobilizer (representable by construction); translation-only and linear-velocity-only fits are demanded only where translation does not involve rotational coordinates (plus forward BendStretch, CantileverFreeBeam and Ellipsoid linear velocity)"};
    c.requiredLabels = {"mob:Pin/rev", "mob:Slider/rev", "mob:Universal/fwd", "mob:Universal/rev", "mob:Cylinder/rev", "mob:BendStretch/fwd", "mob:BendStretch/rev", "mob:Planar/rev", "mob:Gimbal/rev",
                        "mob:Bushing/fwd", "mob:Bushing/rev", "mob:Ball/fwd/quat", "mob:Ball/rev/euler", "mob:Free/rev/quat", "mob:Free/fwd/euler", "mob:Translation/rev", "mob:Screw/rev", "mob:SphericalCoords/fwd",
                        "mob:SphericalCoords/rev", "mob:Ellipsoid/fwd/quat", "mob:Ellipsoid/rev/euler", "mob:CantileverFreeBeam/fwd", "mob:CantileverFreeBeam/rev", "mob:LineOrientation/rev/quat", "mob:LineOrientation/fwd/euler",
                        "mob:FreeLine/rev/quat", "mob:FreeLine/fwd/euler", "mob:Weld/fwd", "ellipsoid:nonsphere", "ellipsoid:sphere", "screw:pitch<0", "screw:pitch0", "sph:general/x", "sph:default/z", "unnormalised-quaternions",
                        "fit:transform", "fit:rotation", "fit:translation", "fit:velocity", "fit:angular-velocity", "fit:linear-velocity"};
    c.directed.push_back({"ellipsoid-linvel-nonsphere", "ellipsoid-fit-linvel-nonsphere", [](pbt::Ctx& ctx) {
        mbgen::BodySpec b = bodyOf(mbgen::Ellipsoid); b.radii = Vec3(0.5, 0.7, 0.9);
        directedFit(ctx, b, true, {0.4, 0.3, 0.2}, {0.5, -0.3, 0.2}, 2, 3); }});
    c.directed.push_back({"ellipsoid-linvel-sphere", "", [](pbt::Ctx& ctx) {
        mbgen::BodySpec b = bodyOf(mbgen::Ellipsoid); b.radii = Vec3(0.7, 0.7, 0.7);
        directedFit(ctx, b, true, {0.4, 0.3, 0.2}, {0.5, -0.3, 0.2}, 2, 3); }});
    c.directed.push_back({"screw-zero-pitch-transform", "screw-fit-zero-pitch", [](pbt::Ctx& ctx) {
        mbgen::BodySpec b = bodyOf(mbgen::Screw); b.pitch = 0;
        directedFit(ctx, b, false, {0.5}, {1.0}, 0, 0); }});
    c.directed.push_back({"bendstretch-negative-stretch-transform", "bendstretch-fit-transform-negative-stretch", [](pbt::Ctx& ctx) {
        directedFit(ctx, bodyOf(mbgen::BendStretch), false, {0.5, -0.3}, {1.0, 0.5}, 0, 0); }});
    c.directed.push_back({"sphericalcoords-transform", "sphericalcoords-fit-axis-and-signs", [](pbt::Ctx& ctx) {
        directedFit(ctx, bodyOf(mbgen::SphericalCoords), false, {0.5, 1.0, 0.7}, {0.3, 0.2, 0.1}, 0, 2); }});
    c.directed.push_back({"sphericalcoords-velocity", "sphericalcoords-fit-axis-and-signs", [](pbt::Ctx& ctx) {
        directedFit(ctx, bodyOf(mbgen::SphericalCoords), false, {0.5, 1.0, 0.7}, {0.3, 0.2, 0.1}, 2, 0); }});
    c.directed.push_back({"sphericalcoords-negated-angular-velocity", "sphericalcoords-fit-axis-and-signs", [](pbt::Ctx& ctx) {
        mbgen::BodySpec b = bodyOf(mbgen::SphericalCoords); b.sphGeneral = true; b.negAz = true; b.negZe = true;
        directedFit(ctx, b, false, {0.5, -1.0, 0.7}, {0.3, 0.2, 0.1}, 2, 2); }});
    c.directed.push_back({"ellipsoid-transform", "ellipsoid-fit-transform-overrides-rotation", [](pbt::Ctx& ctx) {
        mbgen::BodySpec b = bodyOf(mbgen::Ellipsoid); b.radii = Vec3(0.5, 0.7, 0.9);
        directedFit(ctx, b, true, {0.4, 0.3, 0.2}, {0, 0, 0}, 0, 2); }});
    c.directed.push_back({"cantilever-transform", "cantilever-fit-transform-overrides-rotation", [](pbt::Ctx& ctx) {
        mbgen::BodySpec b = bodyOf(mbgen::CantileverFreeBeam); b.beamLen = 0.8;
        directedFit(ctx, b, false, {0.4, 0.3, 0.2}, {0, 0, 0}, 0, 2); }});
    c.directed.push_back({"ellipsoid-reference-configuration", "", [](pbt::Ctx& ctx) {   // design: Mo at (0,0,rz) when the frames are aligned
        for (int rev = 0; rev < 2; ++rev) for (int eul = 0; eul < 2; ++eul) {
            mbgen::ModelSpec ms; ms.euler = eul; mbgen::BodySpec b = bodyOf(mbgen::Ellipsoid, rev); b.radii = Vec3(0.5, 0.7, 0.9); if (!eul) b.q[0] = 1; ms.bodies.push_back(b);
            mbgen::Built m(ms); m.finish(ms); m.setState(ms); m.sys.realize(m.state, Stage::Position);
            Transform X = m.mb[1].getMobilizerTransform(m.state); Vec3 want = rev ? Vec3(0, 0, -0.9) : Vec3(0, 0, 0.9);
            ctx.check((X.p() - want).norm() <= 1e-15 && refmob::maxAbsDiff(X.R().asMat33(), Mat33(1)) <= 1e-15, "Ellipsoid reference configuration is not aligned frames with Mo at (0,0,rz)");
        } }});
    return c;
}
} // namespace

PBT_MAIN(config(), property)
