// C31 -- Random generators are deterministic and in range (DESIGN.md section 5, C31).
// Modes (word 0 of segment 0):
//   uniform : Random::Uniform(min,max) with generated seed / range (wide, negative, huge, tiny, few-ulp wide) / length; units are
//             operations (getValue, fillArray, getIntValue, re-seed, setMin/setMax). Oracle: (R) every value equals
//             min + r*(max-min) with r the next 64-bit output of MY reference SFMT-19937 scaled by 2^-64 (to 4 eps);
//             (D) a second object with the same seed and the same object re-seeded reproduce the sequence bit for bit,
//             fillArray == successive getValue; (V) min <= v < max, getIntValue in [floor(min), max) and == floor(value);
//             (V, statistical) mean, variance, 16-bin occupancy with rigorous (Hoeffding / Chernoff) bounds at a fixed
//             false-alarm level alpha = 1e-16 per test.
//   gaussian: Random::Gaussian(mean, stddev): (R) polar Box-Muller over the reference stream (1e-12 relative), (D) determinism,
//             re-seeding discards the cached second deviate, fillArray == getValue; (V, statistical) exact normal z-test of the
//             mean, chi-square (Laurent-Massart) bounds of the variance, sign test and central-mass test (Hoeffding).
//   sfmt    : the exported SFMT routines (init_gen_rand, gen_rand32/64, fill_array32/64) against the reference for generated
//             seeds and lengths across block boundaries (624 words).
#include "pbt.h"
#include "SimTKcommon.h"
#include <cmath>
#include <cstring>
#include <limits>
// private header of the library (declares the exported SFMT entry points and to_res53); must come last: it redefines `inline`
#include "SimTKcommon/../../Random/src/SFMT.h"
using namespace SimTK;
// lazy variant of ctx.check(): the message expression is evaluated only on failure (the checks sit in per-value loops)
#define PBT_CK(ctx, cond, ...) ((cond) ? true : ((ctx).fail(__VA_ARGS__), false))

namespace {

// ------------------------------------------------------------------ reference SFMT-19937 (from the published recurrence)
struct RefSFMT {
    static const int N = 156, N32 = 624, POS1 = 122, SL1 = 18, SR1 = 11;
    uint32_t s[N32]; int idx = N32;
    typedef unsigned __int128 u128;
    static u128 load(const uint32_t* p) { return (u128)p[0] | (u128)p[1] << 32 | (u128)p[2] << 64 | (u128)p[3] << 96; }
    void init(uint32_t seed) {
        s[0] = seed;
        for (int i = 1; i < N32; ++i) s[i] = 1812433253u * (s[i - 1] ^ (s[i - 1] >> 30)) + (uint32_t)i;
        idx = N32;
        // period certification
        static const uint32_t parity[4] = {0x00000001u, 0x00000000u, 0x00000000u, 0x13c9e684u};
        uint32_t inner = 0; for (int i = 0; i < 4; ++i) inner ^= s[i] & parity[i];
        for (int i = 16; i > 0; i >>= 1) inner ^= inner >> i;
        if (inner & 1u) return;
        for (int i = 0; i < 4; ++i) { uint32_t work = 1; for (int j = 0; j < 32; ++j) { if (work & parity[i]) { s[i] ^= work; return; } work <<= 1; } }
    }
    static void recur(uint32_t* r, const uint32_t* a, const uint32_t* b, const uint32_t* c, const uint32_t* d) {
        static const uint32_t msk[4] = {0xdfffffefu, 0xddfecb7fu, 0xbffaffffu, 0xbffffff6u};
        u128 x = load(a) << 8, y = load(c) >> 8;           // SL2 = SR2 = 1 byte
        uint32_t out[4];
        for (int k = 0; k < 4; ++k) out[k] = a[k] ^ (uint32_t)(x >> (32 * k)) ^ ((b[k] >> SR1) & msk[k]) ^ (uint32_t)(y >> (32 * k)) ^ (d[k] << SL1);
        std::memcpy(r, out, 16);
    }
    void genAll() {
        uint32_t r1[4], r2[4]; std::memcpy(r1, s + 4 * (N - 2), 16); std::memcpy(r2, s + 4 * (N - 1), 16);
        for (int i = 0; i < N; ++i) {
            int j = i + POS1 < N ? i + POS1 : i + POS1 - N;
            recur(s + 4 * i, s + 4 * i, s + 4 * j, r1, r2);
            std::memcpy(r1, r2, 16); std::memcpy(r2, s + 4 * i, 16);
        }
    }
    uint32_t next32() { if (idx >= N32) { genAll(); idx = 0; } return s[idx++]; }
    uint64_t next64() { uint32_t lo = next32(), hi = next32(); return (uint64_t)lo | (uint64_t)hi << 32; }
    double nextUnit() { return (double)((long double)next64() * (1.0L / 18446744073709551616.0L)); }   // the documented "53 bit resolution" scaling
};

// development switch (mutation runs only): C31_NO_REF=1 disables the reference-stream comparisons so that the statistical clauses can be shown to bite on their own
const bool NO_REF = getenv("C31_NO_REF") != nullptr;
const double ALPHA_LN = 36.84;         // ln(1/alpha), alpha = 1e-16 per statistical test
// Hoeffding: |mean - mu| of N samples from an interval of width w exceeds w*sqrt(ln(2/alpha)/(2N)) with probability <= alpha
double hoeffding(double w, long n) { return w * std::sqrt((ALPHA_LN + 0.7) / (2.0 * n)); }
// Chernoff/KL bound for a binomial count k of n with success probability p: P(deviation at least this large) <= exp(-n KL)
bool binomOk(long k, long n, double p) {
    double q = (double)k / n; if (q == p) return true;
    double kl = (q > 0 ? q * std::log(q / p) : 0) + (q < 1 ? (1 - q) * std::log((1 - q) / (1 - p)) : 0);
    return n * kl <= ALPHA_LN + 0.7 + 3.5;     // two-sided, union over <= 32 bins
}
uint64_t bitsOf(double d) { uint64_t u; std::memcpy(&u, &d, 8); return u; }
std::string S(double d) { return pbt::str(d); }

int genSeed(pbt::Reader& r) {
    uint32_t k = r.w(); uint32_t v = r.w();
    switch (k % 8) { case 0: { static const int sp[] = {0, 1, -1, 2, 1234, INT_MAX, INT_MIN, 4357, 19937, -2}; return sp[(k >> 3) % 10]; } default: return (int)v; }
}
long genLength(pbt::Reader& r) {
    uint32_t k = r.w(); uint32_t v = r.w();
    switch (k % 16) { case 0: return 1; case 1: return 2; case 2: return 1 + v % 10; case 3: case 4: return 1 + v % 700; case 5: return 1023 + v % 4; case 6: case 7: return 1000 + v % 2000;
                      case 8: return 2047 + v % 3; case 15: return 50000 + v % 50001; case 14: return 10000 + v % 10000; default: return 200 + v % 4000; }
}

// ------------------------------------------------------------------ mode uniform
struct Range { double mn, mx; const char* cls; };
Range genRange(pbt::Reader& r) {
    uint32_t k = r.w(); double a = r.real(-1e3, 1e3), b = r.logreal(1e-6, 1e6); uint32_t u = r.w();
    Range g;
    switch (k % 12) {
        case 0: g = {0.0, 1.0, "unit"}; break;
        case 1: case 2: g = {a, a + b, "general"}; break;
        case 3: g = {-b, b, "symmetric"}; break;
        case 4: g = {-(double)(1 + u % 50), (double)(1 + (u >> 8) % 50), "integer-ends"}; break;
        case 5: g = {(double)(int)(u % 2001) - 1000, 0, "integer-ends"}; g.mx = g.mn + 1 + (u >> 12) % 100; break;
        case 6: g = {a * 1e-300, a * 1e-300 + b * 1e-300, "tiny"}; break;
        case 7: g = {-b * 1e290, b * 1e290, "huge"}; break;
        case 8: { double m = (u & 1) ? a : 1.0; if (m == 0) m = 1; int n = 1 + (u >> 1) % 4; double x = m; for (int i = 0; i < n; ++i) x = std::nextafter(x, INFINITY); g = {m, x, "few-ulp"}; break; }
        case 9: { double m = a == 0 ? 1 : a; g = {m, m + std::fabs(m) * std::ldexp(1.0, -(int)(20 + u % 30)), "narrow"}; break; }
        case 10: g = {a, a + (double)(1 + u % 6), "small-integer-width"}; break;
        default: g = {0.0, b, "zero-based"}; break;
    }
    if (!(g.mn < g.mx)) { g = {0.0, 1.0, "unit"}; }
    return g;
}

void modeUniform(const pbt::Tape& t, pbt::Ctx& ctx) {
    pbt::Reader g(t[0]); g.skip(1);
    int seed = genSeed(g); Range rg = genRange(g); long n = genLength(g);
    ctx.label(std::string("uniform:range:") + rg.cls);
    ctx.label(n >= 1024 ? "length:crosses-buffer" : n >= 312 ? "length:crosses-sfmt-block" : "length:short");
    ctx.nontrivial(std::string(rg.cls) != "unit" || n > 312);
    if (ctx.wantDesc) ctx.desc << "uniform seed=" << seed << " range=[" << S(rg.mn) << "," << S(rg.mx) << ") (" << rg.cls << ") n=" << n << " ops=" << t.size() - 1 << "\n";

    Random::Uniform A(rg.mn, rg.mx), B(rg.mn, rg.mx);
    if (!PBT_CK(ctx, A.getMin() == rg.mn && A.getMax() == rg.mx, "getMin/getMax do not return the constructor arguments")) return;
    A.setSeed(seed); B.setSeed(seed);
    RefSFMT ref; ref.init((uint32_t)seed);
    double mn = rg.mn, mx = rg.mx;
    const double eps = std::numeric_limits<double>::epsilon();
    long atMax = 0; std::string firstAtMax;
    std::vector<double> all; all.reserve(n);

    auto judge = [&](double v, double r, const char* how) -> bool {
        double want = mn + r * (mx - mn);
        double tol = 4 * eps * (std::fabs(mn) + std::fabs(mx) + std::fabs(mx - mn));
        if (!NO_REF && !PBT_CK(ctx, std::fabs(v - want) <= tol, std::string(how) + " #" + std::to_string(all.size()) + " = " + S(v) + " but min + r*(max-min) = " + S(want) + " for the reference SFMT stream (r = " + S(r) + ")")) return false;
        if (!PBT_CK(ctx, v >= mn, std::string(how) + " returned " + S(v) + " < min " + S(mn))) return false;
        if (v == mx) { ++atMax; if (firstAtMax.empty()) firstAtMax = std::string(how) + " #" + std::to_string(all.size()) + " returned max itself (" + S(mx) + ") for the range [" + S(mn) + "," + S(mx) + "), r = " + S(r); return true; }
        return PBT_CK(ctx, v < mx, std::string(how) + " returned " + S(v) + " > max " + S(mx));
    };

    // operations: each unit draws a chunk in some way; the remainder is drawn with getValue
    long drawn = 0; size_t u = 1;
    bool statsValid = true;             // false once the range was changed in mid-sequence
    while (drawn < n && !ctx.failed) {
        long chunk = n - drawn; int op = 0; uint32_t x = 0, y = 0;
        if (u < t.size()) { pbt::Reader r(t[u]); ++u; op = r.pick(8); x = r.w(); y = r.w(); chunk = std::min<long>(n - drawn, 1 + x % 600); }
        switch (op) {
            default:    // getValue, mirrored on B
                for (long i = 0; i < chunk && !ctx.failed; ++i) { double v = A.getValue(), w = B.getValue(); double r = ref.nextUnit();
                    if (!PBT_CK(ctx, bitsOf(v) == bitsOf(w), "two Uniform objects with the same seed disagree at value #" + std::to_string(all.size()) + ": " + S(v) + " vs " + S(w))) return;
                    if (!judge(v, r, "getValue")) return; all.push_back(v); }
                break;
            case 3: case 4: {   // fillArray on A == successive getValue on B
                std::vector<double> arr(chunk, -7.0); A.fillArray(arr.data(), (int)chunk); ctx.label("op:fillArray");
                for (long i = 0; i < chunk && !ctx.failed; ++i) { double w = B.getValue(); double r = ref.nextUnit();
                    if (!PBT_CK(ctx, bitsOf(arr[i]) == bitsOf(w), "fillArray element " + std::to_string(i) + " = " + S(arr[i]) + " differs from the getValue sequence (" + S(w) + ")")) return;
                    if (!judge(arr[i], r, "fillArray")) return; all.push_back(arr[i]); }
                break; }
            case 5: {           // integer mode
                ctx.label("op:getIntValue");
                bool intOk = std::fabs(mn) < 1e9 && std::fabs(mx) < 1e9;
                for (long i = 0; i < chunk && !ctx.failed; ++i) {
                    double w = B.getValue(); double r = ref.nextUnit();
                    if (!intOk) { double v = A.getValue(); if (!PBT_CK(ctx, bitsOf(v) == bitsOf(w), "sequence mismatch")) return; if (!judge(v, r, "getValue")) return; all.push_back(v); continue; }
                    int k = A.getIntValue();
                    if (!PBT_CK(ctx, (double)k == std::floor(w), "getIntValue #" + std::to_string(all.size()) + " = " + std::to_string(k) + " but floor(next value " + S(w) + ") = " + S(std::floor(w)))) return;
                    if (!judge(w, r, "getValue")) return;
                    if (w != mx && !PBT_CK(ctx, (double)k >= std::floor(mn) && (double)k < mx, "getIntValue returned " + std::to_string(k) + " outside [floor(min), max) = [" + S(std::floor(mn)) + "," + S(mx) + ")")) return;
                    all.push_back(w); }
                break; }
            case 6: {           // re-seed both in mid-sequence: the sequence restarts
                ctx.label("op:reseed"); int s2 = (y & 1) ? seed : (int)x; statsValid = false;      // repeated values are not independent samples
                A.setSeed(s2); B.setSeed(s2); ref.init((uint32_t)s2);
                for (long i = 0; i < chunk && !ctx.failed; ++i) { double v = A.getValue(), w = B.getValue(); double r = ref.nextUnit();
                    if (!PBT_CK(ctx, bitsOf(v) == bitsOf(w), "after re-seeding, two Uniform objects disagree")) return;
                    if (!judge(v, r, "getValue(after setSeed)")) return; all.push_back(v); }
                break; }
            case 7: {           // change the range in mid-sequence
                ctx.label("op:setMinMax"); statsValid = false;
                double w = mx - mn; if (y & 1) { mx = mn + w * (1 + (x % 3)); A.setMax(mx); B.setMax(mx); } else { mn = mx - w * (1 + (x % 3)); A.setMin(mn); B.setMin(mn); }
                if (!PBT_CK(ctx, A.getMin() == mn && A.getMax() == mx, "setMin/setMax not reflected by getMin/getMax")) return;
                for (long i = 0; i < chunk && !ctx.failed; ++i) { double v = A.getValue(), w2 = B.getValue(); double r = ref.nextUnit();
                    if (!PBT_CK(ctx, bitsOf(v) == bitsOf(w2), "sequence mismatch after setMin/setMax")) return;
                    if (!judge(v, r, "getValue(after setMin/setMax)")) return; all.push_back(v); }
                break; }
        }
        drawn += chunk;
    }
    if (ctx.failed) return;
    // upper bound is exclusive
    if (atMax > 0) {
        ctx.label("uniform:returned-max");
        if (ctx.known("uniform-range-upper-bound")) ctx.label("excluded:uniform-range-upper-bound");
        else { ctx.fail(firstAtMax + " (" + std::to_string(atMax) + " of " + std::to_string((long)all.size()) + " values)"); return; }
    }
    // re-seeding the same object reproduces the whole sequence (first 2000 values)
    {
        Random::Uniform C(rg.mn, rg.mx); C.setSeed(seed + 1); (void)C.getValue(); C.setSeed(seed);
        bool simple = statsValid && ctx.labels.end() == std::find(ctx.labels.begin(), ctx.labels.end(), std::string("op:reseed"));
        if (simple) for (size_t i = 0; i < all.size() && i < 2000; ++i) { double v = C.getValue(); if (!PBT_CK(ctx, bitsOf(v) == bitsOf(all[i]), "an object re-seeded with the same seed does not reproduce value #" + std::to_string(i))) return; }
    }
    // statistics (only for sequences drawn from one range with a width that the grid of doubles resolves well)
    double width = rg.mx - rg.mn; long N = (long)all.size();
    bool resolved = width >= 1e6 * eps * std::max(std::fabs(rg.mn), std::fabs(rg.mx));
    if (statsValid && N >= 1000 && resolved && std::isfinite(width)) {
        ctx.label("uniform:statistics");
        long double sum = 0; for (double v : all) sum += ((long double)v - rg.mn) / width;        // normalised to [0,1]
        double mean = (double)(sum / N);
        if (!PBT_CK(ctx, std::fabs(mean - 0.5) <= hoeffding(1.0, N), "mean of " + std::to_string(N) + " uniform values, normalised to [0,1], is " + S(mean) + " (|dev| bound " + S(hoeffding(1.0, N)) + ")")) return;
        long double s2 = 0; for (double v : all) { long double z = ((long double)v - rg.mn) / width - 0.5L; s2 += z * z; }
        double var = (double)(s2 / N);
        if (!PBT_CK(ctx, std::fabs(var - 1.0 / 12) <= hoeffding(0.25, N), "variance of " + std::to_string(N) + " normalised uniform values is " + S(var) + ", expected 1/12 (bound " + S(hoeffding(0.25, N)) + ")")) return;
        long bins[16] = {0}; for (double v : all) { int b = (int)std::floor(((long double)v - rg.mn) / width * 16); if (b < 0) b = 0; if (b > 15) b = 15; bins[b]++; }
        for (int b = 0; b < 16; ++b) if (!PBT_CK(ctx, binomOk(bins[b], N, 1.0 / 16), "bin " + std::to_string(b) + " of 16 holds " + std::to_string(bins[b]) + " of " + std::to_string(N) + " values")) return;
    }
}

// ------------------------------------------------------------------ mode gaussian
void modeGaussian(const pbt::Tape& t, pbt::Ctx& ctx) {
    pbt::Reader g(t[0]); g.skip(1);
    int seed = genSeed(g); long n = genLength(g);
    uint32_t k = g.w(); double mean = g.real(-1e3, 1e3), sd = g.logreal(1e-6, 1e6);
    if (k % 8 == 0) { mean = 0; sd = 1; } else if (k % 8 == 1) sd = 0; else if (k % 8 == 2) mean = mean * 1e100;
    ctx.label(sd == 0 ? "gaussian:zero-stddev" : (mean == 0 && sd == 1) ? "gaussian:standard" : "gaussian:general");
    ctx.label(n >= 1024 ? "length:crosses-buffer" : n >= 312 ? "length:crosses-sfmt-block" : "length:short");
    ctx.nontrivial(!(mean == 0 && sd == 1) || n > 312);
    if (ctx.wantDesc) ctx.desc << "gaussian seed=" << seed << " mean=" << S(mean) << " stddev=" << S(sd) << " n=" << n << " ops=" << t.size() - 1 << "\n";
    Random::Gaussian A(mean, sd), B(mean, sd);
    if (!PBT_CK(ctx, A.getMean() == mean && A.getStdDev() == sd, "getMean/getStdDev do not return the constructor arguments")) return;
    A.setSeed(seed); B.setSeed(seed);
    RefSFMT ref; ref.init((uint32_t)seed);
    bool haveNext = false; double nextG = 0;
    auto refGauss = [&]() -> double {      // polar Box-Muller exactly as documented in Random.cpp's header comment / Numerical Recipes
        if (haveNext) { haveNext = false; return nextG; }
        double x, y, r2; do { x = 2 * ref.nextUnit() - 1; y = 2 * ref.nextUnit() - 1; r2 = x * x + y * y; } while (r2 >= 1.0 || r2 == 0.0);
        double m = std::sqrt(-2 * std::log(r2) / r2); nextG = y * m; haveNext = true; return x * m;
    };
    std::vector<double> all; all.reserve(n); bool statsValid = true; double curMean = mean, curSd = sd;
    auto judge = [&](double v, const char* how) -> bool {
        double z = refGauss(); double want = curMean + curSd * z; double tol = 1e-12 * (std::fabs(curMean) + curSd * (1 + std::fabs(z)));
        if (!PBT_CK(ctx, std::isfinite(v), std::string(how) + " returned a non-finite value")) return false;
        return NO_REF || PBT_CK(ctx, std::fabs(v - want) <= tol, std::string(how) + " #" + std::to_string(all.size()) + " = " + S(v) + " but mean + stddev*z = " + S(want) + " for the polar Box-Muller deviate z = " + S(z) + " of the reference stream");
    };
    long drawn = 0; size_t u = 1;
    while (drawn < n && !ctx.failed) {
        long chunk = n - drawn; int op = 0; uint32_t x = 0, y = 0;
        if (u < t.size()) { pbt::Reader r(t[u]); ++u; op = r.pick(8); x = r.w(); y = r.w(); chunk = std::min<long>(n - drawn, 1 + x % 600); }
        if (op == 3 || op == 4) {
            std::vector<double> arr(chunk, -7.0); A.fillArray(arr.data(), (int)chunk); ctx.label("op:fillArray");
            for (long i = 0; i < chunk; ++i) { double w = B.getValue(); if (!PBT_CK(ctx, bitsOf(arr[i]) == bitsOf(w), "fillArray element " + std::to_string(i) + " differs from the getValue sequence")) return; if (!judge(arr[i], "fillArray")) return; all.push_back(arr[i]); }
        } else {
            if (op == 6) {      // re-seed (possibly with a cached second deviate pending): restart, cache discarded
                ctx.label(haveNext ? "op:reseed-with-cached-deviate" : "op:reseed"); int s2 = (y & 1) ? seed : (int)x;
                A.setSeed(s2); B.setSeed(s2); ref.init((uint32_t)s2); haveNext = false; statsValid = false;
            } else if (op == 7) { ctx.label("op:setMeanStdDev"); statsValid = false; if (y & 1) { curMean = curMean + 1 + (x % 5); A.setMean(curMean); B.setMean(curMean); } else { curSd = curSd * (1 + (x % 3)); A.setStdDev(curSd); B.setStdDev(curSd); }
                if (!PBT_CK(ctx, A.getMean() == curMean && A.getStdDev() == curSd, "setMean/setStdDev not reflected by the getters")) return; }
            for (long i = 0; i < chunk; ++i) { double v = A.getValue(), w = B.getValue();
                if (!PBT_CK(ctx, bitsOf(v) == bitsOf(w), "two Gaussian objects with the same seed disagree at value #" + std::to_string(all.size()))) return;
                if (!judge(v, "getValue")) return; all.push_back(v); }
        }
        drawn += chunk;
    }
    if (ctx.failed) return;
    long N = (long)all.size();
    if (statsValid && N >= 1000 && sd > 0 && std::fabs(mean) <= 1e6 * sd) {
        ctx.label("gaussian:statistics");
        long double sum = 0; for (double v : all) sum += ((long double)v - mean) / sd;
        double zbar = (double)(sum / N) * std::sqrt((double)N);           // exactly N(0,1) for an ideal generator
        if (!PBT_CK(ctx, std::fabs(zbar) <= 8.4, "mean of " + std::to_string(N) + " Gaussian values is " + S((double)(sum / N)) + " standard deviations off (z = " + S(zbar) + ", |z| <= 8.4 at alpha = 1e-16)")) return;
        long double ss = 0; for (double v : all) { long double z = ((long double)v - mean) / sd; ss += z * z; }          // ~ chi-square with N d.o.f.
        double x = ALPHA_LN + 0.7, up = N + 2 * std::sqrt(N * x) + 2 * x, lo = N - 2 * std::sqrt(N * x);              // Laurent-Massart
        if (!PBT_CK(ctx, (double)ss <= up && (double)ss >= lo, "sum of squares of " + std::to_string(N) + " standardised Gaussian values is " + S((double)ss) + ", outside [" + S(lo) + "," + S(up) + "]")) return;
        long pos = 0, central = 0; for (double v : all) { if (v > mean) ++pos; if (std::fabs(v - mean) <= sd) ++central; }
        if (!PBT_CK(ctx, binomOk(pos, N, 0.5), std::to_string(pos) + " of " + std::to_string(N) + " Gaussian values lie above the mean")) return;
        if (!PBT_CK(ctx, binomOk(central, N, 0.6826894921370859), std::to_string(central) + " of " + std::to_string(N) + " Gaussian values lie within one standard deviation (expected 68.27%)")) return;
    }
}

// ------------------------------------------------------------------ mode sfmt
void modeSfmt(const pbt::Tape& t, pbt::Ctx& ctx) {
    using namespace SimTK_SFMT;
    pbt::Reader g(t[0]); g.skip(1);
    uint32_t seed = (uint32_t)genSeed(g); if (g.boolean()) seed = g.w();
    if (ctx.wantDesc) ctx.desc << "sfmt seed=" << seed << " ops=" << t.size() - 1 << "\n";
    SFMTData* d = createSFMTData();
    struct Guard { SFMTData* d; ~Guard() { deleteSFMTData(d); } } guard{d};
    if (!PBT_CK(ctx, get_min_array_size32() == 624 && get_min_array_size64() == 312, "SFMT is not the 19937 variant")) return;
    init_gen_rand(seed, *d); RefSFMT ref; ref.init(seed);
    long produced = 0; bool crossed = false;
    int libIdx = 624;        // model of the library's position inside its 624-word state block (fill_array* requires 624, gen_rand64 an even position)
    auto adv = [&](int words) { for (int i = 0; i < words; ++i) { if (libIdx >= 624) libIdx = 0; ++libIdx; } };
    for (size_t u = 1; u < t.size() && !ctx.failed; ++u) {
        pbt::Reader r(t[u]); int op = r.pick(6); uint32_t x = r.w();
        bool atBlock = libIdx == 624;                       // documented precondition of fill_array*: a fresh block boundary
        if ((op == 3 || op == 4) && !atBlock) op = x & 1;   // not allowed here: draw single values instead
        if (op == 2 && (libIdx & 1)) op = 0;               // gen_rand64 needs an even position
        switch (op) {
            case 0: case 1: { int cnt = 1 + x % (op ? 1300 : 40); ctx.label("sfmt:gen_rand32");
                for (int i = 0; i < cnt; ++i) { uint32_t a = gen_rand32(*d), b = ref.next32(); if (!PBT_CK(ctx, a == b, "gen_rand32 #" + std::to_string(produced) + " = " + std::to_string(a) + ", reference SFMT-19937 gives " + std::to_string(b) + " (seed " + std::to_string(seed) + ")")) return; ++produced; adv(1); }
                break; }
            case 2: { int cnt = 1 + x % 700; ctx.label("sfmt:gen_rand64");
                for (int i = 0; i < cnt; ++i) { uint64_t a = gen_rand64(*d), b = ref.next64(); if (!PBT_CK(ctx, a == b, "gen_rand64 at word " + std::to_string(produced) + " = " + std::to_string(a) + ", reference gives " + std::to_string(b))) return; produced += 2; adv(2); }
                break; }
            case 3: { int size = 624 + 4 * (int)(x % 400); ctx.label("sfmt:fill_array32"); std::vector<uint32_t> arr(size + 4, 0xDEADBEEFu);   // 16-byte aligned start required by the SSE2 variant: vector data of >= 16 bytes is
                uint32_t* p = arr.data(); while (((uintptr_t)p) & 15) ++p;
                fill_array32(p, size, *d);
                for (int i = 0; i < size; ++i) { uint32_t b = ref.next32(); if (!PBT_CK(ctx, p[i] == b, "fill_array32 element " + std::to_string(i) + " of " + std::to_string(size) + " = " + std::to_string(p[i]) + ", reference gives " + std::to_string(b))) return; ++produced; }
                libIdx = 624; break; }
            case 4: { int size = 312 + 2 * (int)(x % 400); ctx.label("sfmt:fill_array64"); std::vector<uint64_t> arr(size + 2, 0xDEADBEEFull);
                uint64_t* p = arr.data(); while (((uintptr_t)p) & 15) ++p;
                fill_array64(p, size, *d);
                for (int i = 0; i < size; ++i) { uint64_t b = ref.next64(); if (!PBT_CK(ctx, p[i] == b, "fill_array64 element " + std::to_string(i) + " of " + std::to_string(size) + " = " + std::to_string(p[i]) + ", reference gives " + std::to_string(b))) return; produced += 2; }
                libIdx = 624; break; }
            default: { libIdx = 624; seed = (x & 1) ? seed : x; init_gen_rand(seed, *d); ref.init(seed); ctx.label("sfmt:re-init"); break; }
        }
        if (produced > 624) crossed = true;
    }
    ctx.label(crossed ? "length:crosses-sfmt-block" : "length:short");
    ctx.nontrivial(crossed);
}

void property(const pbt::Tape& t, pbt::Ctx& ctx) {
    pbt::Reader g(t[0]);
    static const int modeOf[] = {0, 1, 2, 0, 1, 0, 2, 0};
    int mode = modeOf[g.pick(8)];
    static const char* mn[] = {"uniform", "gaussian", "sfmt"};
    ctx.label(std::string("mode:") + mn[mode]);
    if (mode == 0) modeUniform(t, ctx); else if (mode == 1) modeGaussian(t, ctx); else modeSfmt(t, ctx);
}

pbt::Config config() {
    pbt::Config c; c.prop = "C31"; c.K = 8; c.minUnits = 0;
    c.quick = {3000, 20000, 24, 8}; c.thorough = {20000, 300000, 40, 60};
    c.rule = "rapidcheck tape -> mode {Uniform, Gaussian, raw SFMT}; seed (0, +-1, INT_MAX, INT_MIN, arbitrary), range class {unit, general, symmetric, integer ends, tiny 1e-300, huge 1e290, few-ulp wide, narrow 2^-20..2^-50 relative, zero based}, mean/stddev (incl. 0 and 1e100 means), sequence length 1..100000, units = operations (getValue, fillArray, getIntValue, re-seed, parameter change; gen_rand32/64, fill_array32/64, re-init). Non-trivial: range not [0,1) / parameters not (0,1), or the sequence crosses an SFMT block (624 words); distinct by tape hash.";
    c.assumptions = {"the reference SFMT-19937 (60 lines, from the published recurrence, validated against the five outputs for seed 1234 quoted in SFMTTest.cpp by a directed case) is correct", "statistical bounds assume an ideal i.i.d. uniform source; each test has false-alarm probability <= 1e-16 (Hoeffding / Chernoff / exact normal / Laurent-Massart), i.e. < 1e-9 per run of < 1e7 tests", "x86-64 long double has a 64-bit significand (2^-64 scaling of a 64-bit integer is exact before rounding to double)"};
    c.directed.push_back({"reference-sfmt-matches-published-outputs", "", [](pbt::Ctx& ctx) {
        RefSFMT r; r.init(1234); static const uint32_t expected[] = {3440181298u, 1564997079u, 1510669302u, 2930277156u, 1452439940u};
        for (int i = 0; i < 5; ++i) { uint32_t v = r.next32(); PBT_CK(ctx, v == expected[i], "reference SFMT output " + std::to_string(i) + " for seed 1234 is " + std::to_string(v) + ", published " + std::to_string(expected[i])); }
        ctx.desc << "reference SFMT-19937 reproduces the five published outputs for seed 1234\n";
    }});
    c.directed.push_back({"uniform-few-ulp-range-returns-max", "uniform-range-upper-bound", [](pbt::Ctx& ctx) {
        double mn = 1.0, mx = std::nextafter(std::nextafter(1.0, 2.0), 2.0); Random::Uniform r(mn, mx); r.setSeed(7); long bad = 0;
        for (int i = 0; i < 100000; ++i) { double v = r.getValue(); if (!(v >= mn && v < mx)) ++bad; }
        double top = SimTK_SFMT::to_res53(0xFFFFFFFFFFFFFFFFull);
        ctx.desc << "Uniform(1, 1+2ulp), seed 7: " << bad << " of 100000 values outside [min,max); to_res53(2^64-1) = " << pbt::str(top) << "\n";
        // (to_res53(2^64-1) == 1 is reported in the description only: it is reachable with probability 2^-54 per draw)
        PBT_CK(ctx, bad == 0, "Random::Uniform(1, 1+2ulp) returned max itself for " + std::to_string(bad) + " of 100000 values (documented range excludes max); to_res53(2^64-1) = " + pbt::str(top) + (top < 1.0 ? "" : " (so even Uniform(0,1) can return 1.0 unless the caller clamps)"));
    }});
    c.requiredLabels = {"mode:uniform", "mode:gaussian", "mode:sfmt", "uniform:range:few-ulp", "uniform:range:huge", "uniform:range:tiny", "uniform:range:integer-ends", "uniform:statistics", "gaussian:statistics", "op:getIntValue", "op:fillArray", "op:reseed",
                        "op:reseed-with-cached-deviate", "sfmt:fill_array32", "sfmt:fill_array64", "sfmt:gen_rand64", "length:crosses-buffer"};
    return c;
}
} // namespace

PBT_MAIN(config(), property)
