// VERIF-TREES: tsan
// C17 -- Force totals are independent of threading and scheduling (DESIGN.md section 5, C17).
//
// Domain: a small multibody tree (1..4 bodies on Pin / Slider / Free mobilizers, built here) with 2..20 force
// elements in a GeneralForceSubsystem: Force::Custom elements whose shouldBeParallelIfPossible() and
// dependsOnlyOnPositions() flags are generated (all four combinations), each adding a state-dependent wrench and a
// mobility force with an explicit read -- (schedule hook) -- write, plus built-in non-parallel elements (ConstantTorque,
// TwoPointLinearSpring: position-only; TwoPointLinearDamper, MobilityLinearDamper: velocity dependent); thread count
// 1..16 through setNumberOfThreads; a generated history of state changes (q, u, both, nothing, enable/disable of one
// element) each followed by realize(Acceleration), so that all three modes of realizeSubsystemDynamicsImpl occur (no
// caching; cache invalid -> CachedAndNonCached; cache still valid after a u-only change -> NonCached).
// Oracle: (R) after every realization the system's rigid-body and mobility force totals equal the sum of the element
// contributions computed by this harness from the generated formulas (Custom) / by Force::calcForceContribution
// (built-in), to 1e-12 of sum |contribution|; (D) totals and udot of the T-thread system equal those of the same
// model and history run with 1 thread, to the same tolerance; tsan tree: any ThreadSanitizer report aborts the shard.
#include "pbt.h"
#include "Simbody.h"
#include <atomic>
#include <memory>
#include <pthread.h>
#include <sched.h>
using namespace SimTK;

#if defined(__SANITIZE_THREAD__)
#  define C17_TSAN 1
#elif defined(__has_feature)
#  if __has_feature(thread_sanitizer)
#    define C17_TSAN 1
#  endif
#endif
#ifndef C17_TSAN
#  define C17_TSAN 0
#endif
#if C17_TSAN
extern "C" void __sanitizer_set_death_callback(void (*)(void));
#endif

namespace {
const auto RLX = std::memory_order_relaxed;

// ------------------------------------------------------------------ schedule tape (inside the Custom forces = user code)
struct Sched { uint32_t seed = 0; int density = 0; int widen = 0; };   // widen: 0 no hold, 1 hold until the parallel elements are done, 2 additionally watch the entry
Sched g_sched;
std::atomic<long> g_injected{0}; std::atomic<unsigned> g_sink{0};
std::atomic<int> g_parDone{0}; int g_parExpected = 0; bool g_held[2] = {false, false}; int g_watchBudget = 0;   // level-2 holds per history (they always run to their bound in a correct library)
std::atomic<int> g_nonParStarted{0}; bool g_nonParExpected = false;   // a non-parallel Custom element has read its entries / one will be evaluated in this realization       // parallel Custom forces evaluated in the current realization / expected on other workers
inline uint32_t mix(uint32_t a, uint32_t b, uint32_t c) {
    uint64_t h = 0x9E3779B97F4A7C15ull ^ a; h = (h ^ b) * 0xff51afd7ed558ccdULL; h ^= h >> 33;
    h = (h ^ c) * 0xc4ceb9fe1a85ec53ULL; h ^= h >> 29; return (uint32_t)(h ^ (h >> 32));
}
void perturb(int site, int key) {
    if (!g_sched.density) return;
    uint32_t h = mix(g_sched.seed, (uint32_t)site, (uint32_t)key);
    if ((int)(h & 63) >= g_sched.density) return;
    int mag = 1 + (h >> 8) % 8;
    switch ((h >> 6) % 3) {
        case 0: for (int k = 0; k < mag; ++k) sched_yield(); break;
        case 1: { unsigned s = 0; for (int k = 0; k < mag * 400; ++k) s += k; g_sink.store(s, RLX); } break;
        default: usleep(10 * mag); break;
    }
    g_injected.fetch_add(1, RLX);
}

// ------------------------------------------------------------------ case description
struct ElemSpec {
    int kind;          // 0 Custom, 1 ConstantTorque, 2 TwoPointLinearSpring, 3 TwoPointLinearDamper, 4 MobilityLinearDamper
    bool par, posOnly; // Custom flags (built-ins: never parallel; posOnly fixed by the type)
    int body, body2, mob; Vec3 m, f; Real mf, a, b;   // wrench (m,f) on body, mobility force mf on mobility mob; state dependence coefficients
    Vec3 s1, s2; Real k, x0;
    bool disabledByDefault;
};
struct OpSpec { int kind; int elem; Real dq, du; };   // 0 change q, 1 change u, 2 change both, 3 re-realize only, 4 toggle enable of elem, 5 invalidate Dynamics only
struct Case { int nb; std::vector<int> mobType, parent; std::vector<ElemSpec> el; std::vector<OpSpec> ops; int T; bool extraT; int T2; };

// Custom force: contribution = scale(state) * (m, f) on `body`, scale(state) * mf on mobility `mob`,
// scale = 1 + a*sin(q[0]) (+ b*u[0] unless position-only)
Real scaleOf(const ElemSpec& e, const State& s) { Real sc = 1 + e.a * std::sin(s.getQ()[0]); if (!e.posOnly) sc += e.b * s.getU()[0]; return sc; }

class CustomF : public Force::Custom::Implementation {
public:
    CustomF(const ElemSpec& e, int id) : e(e), id(id) {}
    bool shouldBeParallelIfPossible() const override { return e.par; }
    bool dependsOnlyOnPositions() const override { return e.posOnly; }
    void calcForce(const State& s, Vector_<SpatialVec>& bf, Vector_<Vec3>&, Vector& mobf) const override {
        const Real sc = scaleOf(e, s);
        // non-atomic read-modify-write with a window, the way any user force accumulates
        if (e.par && g_sched.widen && g_nonParExpected)   // rendezvous (bounded: 500 x 100 us): let the non-parallel element open its window first
            for (int k = 0; k < 500 && !g_nonParStarted.load(RLX); ++k) usleep(100);
        SpatialVec cur = bf[e.body]; Real curm = mobf[e.mob];
        if (!e.par) g_nonParStarted.store(1, RLX);
        perturb(1, id);
        if (!e.par && g_sched.widen && !g_held[e.posOnly]) {
            // first non-parallel element of each class (cached / not cached) in a realization: hold the read-write window open
            // until the parallel elements on the other workers are done (bounded: 200 x 100 us) and their workers had time to
            // call finish().  Non-parallel elements are evaluated one after the other by a single thread.
            g_held[e.posOnly] = true;
            for (int k = 0; k < 200 && g_parDone.load(RLX) < g_parExpected; ++k) usleep(100);
            usleep(150);
            // level 2: keep the window open (bounded: 20 x 100 us) until somebody else is seen to have updated the entry just read --
            // if the library lets another thread add into the array this element is accumulating into, the update below loses it
            if (g_sched.widen >= 2 && g_parExpected > 0 && g_watchBudget > 0) {
                --g_watchBudget;
                for (int k = 0; k < 40 && bf[e.body] == cur && mobf[e.mob] == curm; ++k) usleep(100);
            }
        }
        bf[e.body] = cur + sc * SpatialVec(e.m, e.f); mobf[e.mob] = curm + sc * e.mf;
        if (e.par) g_parDone.fetch_add(1, RLX);
    }
    Real calcPotentialEnergy(const State&) const override { return 0; }
private:
    ElemSpec e; int id;
};

struct Built {
    MultibodySystem sys; SimbodyMatterSubsystem matter; GeneralForceSubsystem forces;
    std::vector<MobilizedBody> bodies; std::vector<ForceIndex> fidx; State state;
    Built() : matter(sys), forces(sys) {}
};

void build(const Case& c, int nthreads, Built& B) {
    Body::Rigid body(MassProperties(1.5, Vec3(0.1, -0.05, 0.02), Inertia(1.2, 1.1, 0.9)));
    B.bodies.push_back(B.matter.Ground());
    for (int i = 0; i < c.nb; ++i) {
        MobilizedBody& p = B.bodies[c.parent[i]];
        Transform Xp(Rotation(0.3 * (i + 1), UnitVec3(1, 1, 0)), Vec3(0.4 + 0.1 * i, 0.2, -0.1)), Xc(Vec3(0, 0.3, 0));
        switch (c.mobType[i]) {
            case 0: B.bodies.push_back(MobilizedBody::Pin(p, Xp, body, Xc)); break;
            case 1: B.bodies.push_back(MobilizedBody::Slider(p, Xp, body, Xc)); break;
            default: B.bodies.push_back(MobilizedBody::Free(p, Xp, body, Xc)); break;
        }
    }
    for (size_t k = 0; k < c.el.size(); ++k) {
        const ElemSpec& e = c.el[k]; ForceIndex ix;
        switch (e.kind) {
            case 0: { Force::Custom f(B.forces, new CustomF(e, (int)k)); if (e.disabledByDefault) f.setDisabledByDefault(true); ix = f.getForceIndex(); } break;
            case 1: { Force::ConstantTorque f(B.forces, B.bodies[e.body], e.m); ix = f.getForceIndex(); } break;
            case 2: { Force::TwoPointLinearSpring f(B.forces, B.bodies[e.body], e.s1, B.bodies[e.body2], e.s2, e.k, e.x0); ix = f.getForceIndex(); } break;
            case 3: { Force::TwoPointLinearDamper f(B.forces, B.bodies[e.body], e.s1, B.bodies[e.body2], e.s2, e.k); ix = f.getForceIndex(); } break;
            default: { Force::MobilityLinearDamper f(B.forces, B.bodies[e.body], MobilizerUIndex(0), e.k); ix = f.getForceIndex(); } break;
        }
        B.fidx.push_back(ix);
    }
    B.forces.setNumberOfThreads((unsigned)nthreads);
    B.state = B.sys.realizeTopology();
    B.sys.realizeModel(B.state);
}

Case decode(const pbt::Tape& t) {
    Case c; pbt::Reader g(t[0]);
    c.nb = 1 + g.pick(4);
    int nuTotal = 0;
    for (int i = 0; i < c.nb; ++i) { uint32_t w = g.w(); c.mobType.push_back((int)(w % 3)); c.parent.push_back((int)((w >> 4) % (uint32_t)(i + 1))); nuTotal += c.mobType.back() == 2 ? 6 : 1; }
    g = pbt::Reader(t[0]); g.skip(5);
    { static const int tab[] = {2, 1, 3, 4, 2, 8, 5, 16, 2, 3, 4, 6, 12, 7, 2, 4}; uint32_t w = g.w(); c.T = tab[w % 16]; c.extraT = ((w >> 8) % 4) == 0; c.T2 = tab[(w >> 12) % 16]; }
    int flavour = g.pick(6);     // 0..3 generated mix, 4 no position-only element (mode All only), 5 no parallel element (non-parallel task)
    g_sched.seed = g.w(); g_sched.density = g.pick(3) == 0 ? 0 : 1 + g.pick(40); { static const int wt[] = {2, 0, 1, 2}; g_sched.widen = wt[g.pick(4)]; }
    int nops0 = 2 + g.pick(4);
    // units: first the force elements (2..20), history ops taken from the same units' tail words
    int nu = 0;
    for (size_t u = 1; u < t.size(); ++u) {
        pbt::Reader r(t[u]); ElemSpec e; uint32_t w = r.w();
        e.kind = (w % 8) < 5 ? 0 : 1 + (int)((w >> 3) % 4);
        uint32_t fl = r.w(); e.par = (fl & 1) != 0; e.posOnly = (fl & 2) != 0; e.disabledByDefault = ((fl >> 2) % 8) == 0;
        if (flavour == 4) { e.posOnly = false; if (e.kind == 1 || e.kind == 2) e.kind = 3 + (int)(fl >> 5) % 2; }
        if (flavour == 5) e.par = false;
        if (e.kind != 0) { e.par = false; e.posOnly = e.kind <= 2; e.disabledByDefault = false; }
        e.body = 1 + r.pick(c.nb); e.body2 = r.pick(c.nb + 1); if (e.body2 == e.body) e.body2 = 0;
        e.mob = (int)(r.w() % (uint32_t)nuTotal);
        e.m = Vec3(r.real(-3, 3), r.real(-3, 3), r.real(-3, 3)); e.f = Vec3(r.real(-3, 3), r.real(-3, 3), r.real(-3, 3));
        e.mf = r.real(-5, 5); e.a = r.real(-0.5, 0.5); e.b = r.real(-0.5, 0.5);
        e.s1 = Vec3(0.1, 0.2, -0.1); e.s2 = Vec3(-0.3, 0.1, 0.25); e.k = 1 + 4 * r.unit(); e.x0 = 0.3;
        c.el.push_back(e); if (++nu >= 20) break;
    }
    while (c.el.size() < 2) {   // minimum: one parallel velocity-dependent and one non-parallel position-only Custom element
        ElemSpec e; e.kind = 0; e.par = c.el.empty() && flavour != 5; e.posOnly = !c.el.empty() && flavour != 4; e.disabledByDefault = false; e.body = 1; e.body2 = 0; e.mob = 0;
        e.m = Vec3(1, 0, 0); e.f = Vec3(0, 2, 0); e.mf = c.el.empty() ? 1 : 3; e.a = 0.25; e.b = 0.5; e.s1 = Vec3(0.1, 0.2, -0.1); e.s2 = Vec3(-0.3, 0.1, 0.25); e.k = 2; e.x0 = 0.3; c.el.push_back(e);
    }
    int nops = nops0 + (int)t.size() / 3;
    for (int k = 0; k < nops && k < 12; ++k) {
        uint32_t h = mix(g_sched.seed ^ 0x5bd1e995u, 11, (uint32_t)k); OpSpec o;
        static const int tab[] = {1, 0, 1, 2, 1, 3, 4, 1, 0, 5, 1, 4};   // u-only changes (the NonCached mode) are the most frequent
        o.kind = tab[h % 12]; o.elem = (int)((h >> 8) % (uint32_t)c.el.size()); o.dq = ((h >> 12) % 1000) / 1000.0 - 0.5; o.du = ((h >> 22) % 1000) / 500.0 - 1.0;
        c.ops.push_back(o);
    }
    return c;
}

struct Snap { Vector_<SpatialVec> bf; Vector mobf; Vector udot; std::string mode; Real scaleB, scaleM; bool siteHit; };

// run the history on a system built with `nthreads`; fills snaps; returns "" or the reference-oracle violation
std::string runHistory(const Case& c, int nthreads, std::vector<Snap>& snaps, pbt::Ctx& ctx, bool labels, bool skipSite, bool& skipped) {
    g_watchBudget = 6;
    std::unique_ptr<Built> holder(new Built); Built& B2 = *holder; build(c, nthreads, B2); State& st = B2.state;
#if C17_TSAN
    // While the ParallelExecutor destructor race (C33 finding pexec-finished-race, listed for C17 as well because every
    // GeneralForceSubsystem owns an executor) is a known finding, destroying a system that ran with >= 2 threads would make
    // ThreadSanitizer abort the shard: such systems are leaked (bounded; beyond the bound the case is not run).
    struct Leak { std::unique_ptr<Built>& h; bool on; ~Leak() { if (on) h.release(); } } leak{holder, false};
    if (nthreads >= 2 && ctx.isKnownListed("pexec-finished-race")) {
        static long leakedThreads = 0;
        if (leakedThreads + nthreads > 600) { skipped = true; return "leak-bound"; }
        leakedThreads += nthreads; leak.on = true;
    }
#endif
    const int nu = st.getNU(), nq = st.getNQ();
    const std::vector<ElemSpec>& el = c.el;
    std::vector<bool> enabled(el.size()); bool anyPosOnly = false, anyPar = false;
    for (size_t k = 0; k < el.size(); ++k) { enabled[k] = !el[k].disabledByDefault; anyPosOnly = anyPosOnly || el[k].posOnly; anyPar = anyPar || el[k].par; }
    const bool caching = anyPosOnly; bool cacheValid = false;
    for (int i = 0; i < nq; ++i) st.updQ()[i] = 0.1 * (i + 1);
    for (int i = 0; i < nu; ++i) st.updU()[i] = 0.05 * (i + 1);
    for (size_t k = 0; k <= c.ops.size(); ++k) {
        bool posInvalid = (k == 0);
        if (k > 0) {
            const OpSpec& o = c.ops[k - 1];
            switch (o.kind) {
                case 0: st.updQ()[0] += o.dq; posInvalid = true; break;
                case 1: st.updU()[0] += o.du; break;
                case 2: st.updQ()[0] += o.dq; st.updU()[nu - 1] += o.du; posInvalid = true; break;
                case 3: break;   // nothing changes: realize() is a no-op, totals must still be there
                case 4: if (el[o.elem].kind == 0) { enabled[o.elem] = !enabled[o.elem]; B2.forces.setForceIsDisabled(st, B2.fidx[o.elem], !enabled[o.elem]); posInvalid = true; } break;
                default: st.invalidateAllCacheAtOrAbove(Stage::Dynamics); break;
            }
        }
        const bool recomputed = !(k > 0 && c.ops[k - 1].kind == 3);
        std::string mode = !recomputed ? "none(re-realize)" : !caching ? "All" : (posInvalid || !cacheValid) ? "CachedAndNonCached" : "NonCached";
        if (posInvalid) cacheValid = false;
        // site of the known finding calcforces-thread0-shared-write (predicate on the input): >= 2 threads, the parallel
        // task (some parallel element in the system), a cached mode, and an enabled non-parallel element evaluated in it
        bool nonParEvaluated = false, nonParCustom = false; int parEvaluated = 0, parOthers = 0, parIndex = 0;
        for (size_t j = 0; j < el.size(); ++j) if (enabled[j]) {
            bool evaluated = mode != "NonCached" || !el[j].posOnly;
            if (!el[j].par) { if (evaluated) { nonParEvaluated = true; if (el[j].kind == 0) nonParCustom = true; } }
            else { ++parIndex; if (evaluated && el[j].kind == 0) { ++parEvaluated; if (parIndex % std::max(1, nthreads) != 0) ++parOthers; } }
        }
        const bool site = nthreads >= 2 && anyPar && caching && nonParEvaluated && recomputed;
        if (site && skipSite) { skipped = true; return ""; }   // tsan tree while the finding is listed: the realization itself would abort the shard
        g_parDone.store(0, RLX); g_parExpected = parOthers; g_held[0] = g_held[1] = false; g_nonParStarted.store(0, RLX); g_nonParExpected = nonParCustom && nthreads >= 2;
        B2.sys.realize(st, Stage::Acceleration);
        if (recomputed && caching) cacheValid = true;
        Snap sn; sn.bf = B2.sys.getRigidBodyForces(st, Stage::Dynamics); sn.mobf = B2.sys.getMobilityForces(st, Stage::Dynamics); sn.udot = st.getUDot(); sn.mode = mode; sn.siteHit = site;
        // (R) reference: sum of the element contributions
        Vector_<SpatialVec> rb(B2.matter.getNumBodies(), SpatialVec(Vec3(0), Vec3(0))); Vector rm(nu, Real(0)); Real sb = 0, sm = 0;
        for (size_t j = 0; j < el.size(); ++j) if (enabled[j]) {
            const ElemSpec& e = el[j];
            if (e.kind == 0) { Real sc = scaleOf(e, st); rb[e.body] += sc * SpatialVec(e.m, e.f); rm[e.mob] += sc * e.mf; sb += std::abs(sc) * (e.m.norm() + e.f.norm()); sm += std::abs(sc * e.mf); }
            else {
                Vector_<SpatialVec> cb; Vector_<Vec3> cp; Vector cm; B2.forces.getForce(B2.fidx[j]).calcForceContribution(st, cb, cp, cm);
                for (int b = 0; b < cb.size(); ++b) { rb[b] += cb[b]; sb += cb[b][0].norm() + cb[b][1].norm(); } for (int m = 0; m < cm.size(); ++m) { rm[m] += cm[m]; sm += std::abs(cm[m]); }
            }
        }
        sn.scaleB = sb; sn.scaleM = sm; snaps.push_back(sn);
        if (labels) { ctx.label("mode:" + mode + (nthreads >= 2 && anyPar ? "/parallel-task" : nthreads >= 2 ? "/nonparallel-task" : "/1-thread")); }
        const Real tolB = 1e-12 * sb + 1e-13, tolM = 1e-12 * sm + 1e-13;
        for (int b = 0; b < rb.size(); ++b) {
            Real d = (sn.bf[b][0] - rb[b][0]).norm() + (sn.bf[b][1] - rb[b][1]).norm();
            if (!(d <= tolB)) {
                std::ostringstream o; o.precision(12); o << "realization #" << k << " (mode " << mode << ", " << nthreads << " threads): total spatial force on body " << b << " = " << sn.bf[b] << " but the enabled elements' contributions sum to " << rb[b] << " (difference " << d << ", tolerance " << tolB << ")";
                return o.str();
            }
        }
        for (int m = 0; m < nu; ++m) if (!(std::abs(sn.mobf[m] - rm[m]) <= tolM)) {
            std::ostringstream o; o.precision(12); o << "realization #" << k << " (mode " << mode << ", " << nthreads << " threads): total mobility force " << m << " = " << sn.mobf[m] << " but the enabled elements' contributions sum to " << rm[m] << " (tolerance " << tolM << ")";
            return o.str();
        }
    }
    return "";
}

void describe(const Case& c, pbt::Ctx& ctx) {
    ctx.desc << "bodies=" << c.nb << " mobilizers:"; for (int i = 0; i < c.nb; ++i) ctx.desc << " " << (c.mobType[i] == 0 ? "Pin" : c.mobType[i] == 1 ? "Slider" : "Free") << "(parent " << c.parent[i] << ")";
    ctx.desc << " threads=" << c.T; if (c.extraT) ctx.desc << "," << c.T2; ctx.desc << "\nelements:";
    static const char* kn[] = {"Custom", "ConstantTorque", "TwoPointLinearSpring", "TwoPointLinearDamper", "MobilityLinearDamper"};
    for (auto& e : c.el) { ctx.desc << " " << kn[e.kind]; if (e.kind == 0) ctx.desc << "[" << (e.par ? "par" : "nonpar") << "," << (e.posOnly ? "posOnly" : "vel") << (e.disabledByDefault ? ",disabled" : "") << ",body " << e.body << ",mf " << e.mf << "]"; }
    ctx.desc << "\nhistory:"; static const char* on[] = {"dq", "du", "dq+du", "re-realize", "toggle", "invalidate-dynamics"};
    for (auto& o : c.ops) { ctx.desc << " " << on[o.kind]; if (o.kind == 4) ctx.desc << "(" << o.elem << ")"; }
    ctx.desc << "\nschedule: density " << g_sched.density << "/64, widen=" << g_sched.widen << "\n";
}

void property(const pbt::Tape& t, pbt::Ctx& ctx) {
    g_injected.store(0, RLX);
    Case c = decode(t);
    if (ctx.wantDesc) describe(c, ctx);
    bool anyPar = false, anyNonPar = false, anyPos = false;
    for (auto& e : c.el) { anyPar = anyPar || e.par; anyNonPar = anyNonPar || !e.par; anyPos = anyPos || e.posOnly; }
    ctx.label(c.T <= 1 ? "threads:1" : c.T <= 4 ? "threads:2-4" : "threads:5-16");
    ctx.label(std::string("elements:") + (anyPar ? "par" : "") + (anyNonPar ? "+nonpar" : "") + (anyPos ? "+posOnly" : ""));
    bool known = ctx.isKnownListed("calcforces-thread0-shared-write");
    // baseline: 1 thread
    std::vector<Snap> ref; bool skipped = false;
    std::string m = runHistory(c, 1, ref, ctx, false, false, skipped);
    if (!m.empty()) { ctx.fail("[1 thread] " + m); return; }
    std::vector<int> Ts; Ts.push_back(c.T); if (c.extraT && c.T2 != c.T) Ts.push_back(c.T2);
    bool cachedModeSeen = false, excluded = false;
    for (int T : Ts) {
        std::vector<Snap> got; skipped = false;
        std::string mm = runHistory(c, T, got, ctx, true, known && C17_TSAN, skipped);
        if (skipped && mm == "leak-bound") { ctx.known("pexec-finished-race"); ctx.label("excluded:pexec-finished-race(tsan tree: leak bound reached, case not run)"); ctx.reject("known:pexec-finished-race"); return; }
        if (skipped) { ctx.known("calcforces-thread0-shared-write"); ctx.label("excluded:calcforces-thread0-shared-write(tsan tree: case not run)"); ctx.reject("known:calcforces-thread0-shared-write"); return; }
#if C17_TSAN
        if (T >= 2 && ctx.known("pexec-finished-race")) ctx.label("excluded:pexec-finished-race(system not destroyed)");
#endif
        bool siteAny = false; for (auto& sn : got) { siteAny = siteAny || sn.siteHit; if (sn.mode == "CachedAndNonCached" || sn.mode == "NonCached") cachedModeSeen = true; }
        if (!mm.empty()) {
            if (siteAny && ctx.known("calcforces-thread0-shared-write")) { excluded = true; ctx.label("excluded:calcforces-thread0-shared-write"); continue; }
            ctx.fail(mm); return;
        }
        // (D) differential against the 1-thread run
        bool taint = false;   // a lost update in the position-only cache arrays is reused by later realizations: everything after a site hit is excluded with it
        for (size_t k = 0; k < got.size() && k < ref.size(); ++k) {
            taint = taint || got[k].siteHit;
            if (taint && known) { if (!excluded) { ctx.known("calcforces-thread0-shared-write"); excluded = true; ctx.label("excluded:calcforces-thread0-shared-write"); } continue; }
            const Real tolB = 1e-12 * ref[k].scaleB + 1e-13, tolM = 1e-12 * ref[k].scaleM + 1e-13;
            for (int b = 0; b < ref[k].bf.size(); ++b) { Real d = (got[k].bf[b][0] - ref[k].bf[b][0]).norm() + (got[k].bf[b][1] - ref[k].bf[b][1]).norm();
                if (!(d <= tolB)) { std::ostringstream o; o.precision(12); o << "realization #" << k << " (mode " << got[k].mode << "): body " << b << " force total with " << T << " threads " << got[k].bf[b] << " differs from the 1-thread total " << ref[k].bf[b]; ctx.fail(o.str()); return; } }
            for (int i = 0; i < ref[k].mobf.size(); ++i) if (!(std::abs(got[k].mobf[i] - ref[k].mobf[i]) <= tolM)) { std::ostringstream o; o.precision(12); o << "realization #" << k << " (mode " << got[k].mode << "): mobility force " << i << " with " << T << " threads " << got[k].mobf[i] << " differs from the 1-thread total " << ref[k].mobf[i]; ctx.fail(o.str()); return; }
            Real un = 0, ud = 0; for (int i = 0; i < ref[k].udot.size(); ++i) { un = std::max(un, std::abs(ref[k].udot[i])); ud = std::max(ud, std::abs(got[k].udot[i] - ref[k].udot[i])); }
            if (!(ud <= 1e-9 * (un + ref[k].scaleB + ref[k].scaleM + 1))) { std::ostringstream o; o.precision(12); o << "realization #" << k << " (mode " << got[k].mode << "): udot with " << T << " threads differs from the 1-thread udot by " << ud; ctx.fail(o.str()); return; }
        }
    }
    if (g_injected.load(RLX) > 0 || g_sched.widen) ctx.label("injected-delay");
    ctx.label("hold-level:" + std::to_string(g_sched.widen));
    ctx.nontrivial(c.T >= 2 && anyPar && anyNonPar && cachedModeSeen);
}

#if C17_TSAN
void onTsanDeath() {
    const char m[] = "\nC17: ThreadSanitizer (or a fatal error) stopped the process while this tape was running:\n"; ssize_t r = write(2, m, sizeof m - 1); (void)r;
    r = write(2, pbt::detail::curBuf(), pbt::detail::curLen()); (void)r;
}
#endif

// directed reproducer of calcforces-thread0-shared-write (probe N of the design): 12 Custom elements, 4 threads
void directedThread0(pbt::Ctx& ctx) {
    Case c; c.nb = 2; c.mobType = {0, 0}; c.parent = {0, 1}; c.T = 4; c.extraT = false; c.T2 = 4;
    for (int k = 0; k < 12; ++k) { ElemSpec e; e.kind = 0; e.par = (k % 3 != 0); e.posOnly = (k % 2 == 0); e.disabledByDefault = false; e.body = 1; e.body2 = 0; e.mob = 0; e.m = Vec3(k + 1, 0, 0); e.f = Vec3(0, k + 1, 0); e.mf = k + 1; e.a = 0; e.b = 0;
        e.s1 = e.s2 = Vec3(0); e.k = 1; e.x0 = 0; c.el.push_back(e); }
    for (int k = 0; k < 6; ++k) { OpSpec o; o.kind = k % 2; o.elem = 0; o.dq = 0.1; o.du = 0.1; c.ops.push_back(o); }
    g_sched = Sched(); g_sched.widen = 2;
    ctx.desc << "2 Pin bodies, 12 Custom elements (8 parallel, 6 position-only, constant contributions 1..12), 4 threads, history dq,du,dq,du,dq,du; expected mobility total 78\n";
    int bad = 0, tot = 0; std::string first;
    for (int rep = 0; rep < 5; ++rep) { std::vector<Snap> got; bool sk = false; std::string m = runHistory(c, 4, got, ctx, false, false, sk); ++tot; if (!m.empty()) { ++bad; if (first.empty()) first = m; } }
    ctx.desc << bad << " of " << tot << " runs of the history returned wrong totals\n";
    if (bad) ctx.fail(first);
}

pbt::Config config() {
    {   // small worker stacks keep thread creation cheap (glibc caches at most 40 MB of stacks; see C33.cpp); Simbody's force code is shallow
        pthread_attr_t a; pthread_attr_init(&a); pthread_attr_setstacksize(&a, (C17_TSAN ? 2048 : 1024) * 1024); pthread_setattr_default_np(&a); pthread_attr_destroy(&a); }
#if C17_TSAN
    __sanitizer_set_death_callback(onTsanDeath);
#endif
    pbt::Config c; c.prop = "C17"; c.K = 20; c.minUnits = 0; c.caseTimeoutSecs = 60;
#if C17_TSAN
    c.quick = {60, 600, 20, 25}; c.thorough = {400, 8000, 20, 240};
#else
    c.quick = {300, 5000, 20, 20}; c.thorough = {1500, 80000, 20, 240};
#endif
    c.maxShrinkExecs = 800; c.maxShrinkSecs = 30;
    c.rule = "rapidcheck tape -> multibody tree of 1..4 Pin/Slider/Free bodies, 2..20 force elements (Custom with generated parallel/position-only/disabled flags and state-dependent contributions written through a read-delay-write window; built-in ConstantTorque, TwoPointLinearSpring, TwoPointLinearDamper, MobilityLinearDamper), thread count 1..16 (plus a second count in 1/4 of the cases), history of 2..12 state changes (q, u, both, none, enable/disable, invalidate Dynamics) each followed by realize(Acceleration); schedule tape = delay density + bounded hold of non-parallel elements. Non-trivial: >= 2 threads, at least one parallel and one non-parallel element, and a cached mode (CachedAndNonCached or NonCached) exercised; distinct by tape hash.";
    c.assumptions = {"Custom force contributions are re-computed by the harness from the generated formulas; built-in contributions come from Force::calcForceContribution (single-element route)", "tolerance 1e-12 x sum|contributions| + 1e-13 for totals (summation order only); udot 1e-9 relative", "interleavings are sampled (perturbed), not enumerated; ThreadSanitizer judges the schedules that occurred (tsan tree)"};
#if !C17_TSAN
    c.directed.push_back({"probeN-thread0-shared-write", "calcforces-thread0-shared-write", directedThread0});
#endif
    c.requiredLabels = {"mode:All/parallel-task", "mode:CachedAndNonCached/parallel-task", "mode:NonCached/parallel-task", "mode:NonCached/nonparallel-task", "threads:5-16", "injected-delay"};
    return c;
}
} // namespace

PBT_MAIN(config(), property)
