// C12 -- Force elements' power matches their potential energy (DESIGN.md section 5, C12).
// Domain: ONE force element on an mbgen tree at a random state:
//   contact family (gen/contactgen.h): HuntCrossleyForce, ElasticFoundationForce, CompliantContactSubsystem (Hertz
//     circular / elliptical, elastic foundation, brick/half-space), ExponentialSpringForce normal part (mu = 0);
//     SmoothSphereHalfSpaceForce is generated but only labelled (its header documents the energy as approximate);
//   non-contact family (gen/forcegen.h, read-only): Gravity, UniformGravity, TwoPointLinearSpring/Damper,
//     GlobalDamper, MobilityLinearSpring/Damper/LinearStop (qdot == u mobilizers only), LinearBushing; and the
//     elements documented as energy-free (ConstantForce/Torque, TwoPointConstantForce, MobilityConstantForce,
//     Mobility/DiscreteForce(s)): only "reports PE = 0";
//   CableSpring over a straight / via-point CablePath.
// Oracle: P = sum_b F_b.V_b + f.u from the element's force contribution and the REPORTED body velocities;
// dPE/dt = 5-point central difference of the element's reported potential energy along q(t) = q + t qdot with a
// Richardson error estimate (two step sizes, adaptive h) -- non-smooth points (contact onset, stop engagement)
// show up as a large estimate and are labelled, not judged.  Conservative elements: P = -dPE/dt along the motion
// AND along every unit direction u = e_i (generalized force = -gradient, component-wise).  Dissipative elements:
// D = P + dPE/dt <= tol, and |D| <= tol when every damping / friction parameter is zero.
#include "pbt.h"
#include "mbgen.h"
#include "contactgen.h"
#include "forcegen.h"
#include <functional>
using namespace SimTK;

namespace {
const Real EPS = 2.220446049250313e-16;
std::string S(double a) { return pbt::str(a); }

struct Access {
    const MultibodySystem* sys; const SimbodyMatterSubsystem* matter;
    std::function<void(const State&, Vector_<SpatialVec>&, Vector&)> forces;
    std::function<Real(const State&)> pe;
    std::function<Real(const State&)> relRot;   // optional: |relative angular velocity| of the two contacting bodies (site predicate)
    std::string siteId;
    std::string tag;                            // optional extra label prefix for a sub-class that must be shown to be judged (e.g. "eff:mesh-mesh")
    std::function<Real(const State&)> maxStep;  // optional: largest |t| keeping q + t*qdot away from the element's non-smooth points (state: direction's speeds, Velocity stage)
    bool peAtPositionStage = false;   // element documented to report its energy from a state realized to Stage::Position only
};
struct FD { Real d = 0, err = Infinity, h = 0; };

// dPE/dt along q(t) = q + t*qdotDir (u of the state kept), self-validated
FD dPEalong(const Access& a, const State& s, const Vector& qdotDir, Real scale, Real tmax, Real posNoise) {
    Real speed = 0; for (int i = 0; i < qdotDir.size(); ++i) speed = std::max(speed, std::fabs(qdotDir[i]));
    FD best; if (speed == 0) { best.d = 0; best.err = 0; return best; }
    const Vector q0 = s.getQ();
    auto peAt = [&](Real t) { State w = s; w.updQ() = q0 + t * qdotDir; a.sys->realize(w, Stage::Dynamics); return a.pe(w); };
    const Real steps[] = {1e-4, 1e-5, 1e-6, 1e-7};
    if (!(tmax > 1e-11)) return best;        // on (or within round-off of) a non-smooth point: not differentiable, err stays infinite
    Real lastH = 0;
    for (Real h0 : steps) {
        Real h = std::min(h0 / std::max(Real(1), speed), tmax / 2);     // the stencil reaches +-2h
        if (h == lastH) break; lastH = h;
        Real p1 = peAt(h), m1 = peAt(-h), p2 = peAt(2 * h), m2 = peAt(-2 * h), ph = peAt(h / 2), mh = peAt(-h / 2);
        Real dA = (8 * (p1 - m1) - (p2 - m2)) / (12 * h), dB = (8 * (ph - mh) - (p1 - m1)) / (6 * h);
        Real mag = std::max(std::max(std::fabs(p2), std::fabs(m2)), std::max(std::fabs(p1), std::fabs(m1)));
        Real err = std::fabs(dA - dB) + (40 * EPS * mag + posNoise) / h;   // posNoise: |force| * eps * L -- the energy inherits the round-off of the positions
        if (!(err >= 0)) err = Infinity;     // NaN
        static const bool dbg = getenv("C12_DEBUG_FD") != nullptr;
        if (dbg) fprintf(stderr, "  h=%.3g dA=%.12g dB=%.12g err=%.3g pe: %.12g %.12g %.12g | %.12g %.12g %.12g\n", h, dA, dB, err, m2, m1, mh, ph, p1, p2);
        if (err < best.err) { best.d = dB; best.err = err; best.h = h; }
        if (best.err <= 1e-8 * (scale + std::fabs(best.d))) break;
    }
    return best;
}

struct Power { Real P = 0, scale = 0, relRot = 0, floor = 0, tmax = Infinity; Vector qdot; };
// power of the (frozen) force set (bf, mf) for generalized speeds udir at the configuration of s
Power powerAlong(const Access& a, const State& s, const Vector_<SpatialVec>& bf, const Vector& mf, const Vector& udir) {
    Power p; State w = s; w.updU() = udir; a.sys->realize(w, Stage::Velocity); p.qdot = w.getQDot();
    for (MobilizedBodyIndex b(0); b < a.matter->getNumBodies(); ++b) { const SpatialVec& V = a.matter->getMobilizedBody(b).getBodyVelocity(w);
        p.P += ~bf[b][0] * V[0] + ~bf[b][1] * V[1]; p.scale += bf[b][0].norm() * V[0].norm() + bf[b][1].norm() * V[1].norm(); }
    for (int i = 0; i < mf.size(); ++i) { p.P += mf[i] * udir[i]; p.scale += std::fabs(mf[i] * udir[i]); }
    {   // round-off floor: velocities that cancel inside the element (e.g. a damper between points at rest relative to each
        // other) are only known to eps * (largest velocity in the system)
        Real vmax = 0, fsum = 0; for (int i = 0; i < udir.size(); ++i) vmax = std::max(vmax, std::fabs(udir[i]));
        for (MobilizedBodyIndex b(0); b < a.matter->getNumBodies(); ++b) { const MobilizedBody& mb = a.matter->getMobilizedBody(b); const SpatialVec& V = mb.getBodyVelocity(w);
            vmax = std::max(vmax, V[1].norm() + V[0].norm() * (1 + mb.getBodyOriginLocation(w).norm())); fsum += bf[b][0].norm() + bf[b][1].norm(); }
        for (int i = 0; i < mf.size(); ++i) fsum += std::fabs(mf[i]);
        p.floor = 1000 * EPS * fsum * vmax + 1e-14 * (1 + vmax) * (1 + vmax); }   // absolute part: forces that cancel on one body (same body twice) leave eps^2-level power
    if (a.relRot) p.relRot = a.relRot(w);
    if (a.maxStep) p.tmax = a.maxStep(w);
    return p;
}

enum Class { Conservative, Dissipative, PeZeroOnly, NotJudged };

// the common judgement
void judge(pbt::Ctx& ctx, const std::string& name, const Access& a, State& s, Class cls, bool dampingIsZero) {
    a.sys->realize(s, Stage::Dynamics);
    Vector_<SpatialVec> bf; Vector mf; a.forces(s, bf, mf);
    const Real pe0 = a.pe(s);
    if (!(pe0 == pe0)) { ctx.fail(name + ": potential energy is NaN"); return; }
    if (cls == PeZeroOnly) { ctx.label(name + "/class:energy-free(PE=0 only)"); if (pe0 != 0) ctx.fail(name + ": documented as contributing no potential energy but reports " + S(pe0)); return; }
    if (cls == NotJudged) { ctx.label(name + "/class:not-judged(documented approximate energy)"); return; }
    if (a.peAtPositionStage) {   // differential between the two library routes: energy from a Position-stage state == energy after the forces were realized
        State w = s; w.updQ() = s.getQ(); a.sys->realize(w, Stage::Position);    // updQ() backs the state up to Time stage
        Real peP; try { peP = a.pe(w); } catch (const std::exception& e) { ctx.fail(name + ": potential energy not available from a state realized to Stage::Position: " + std::string(e.what()).substr(0, 200)); return; }
        if (std::fabs(peP - pe0) > 1e-12 * (std::fabs(peP) + std::fabs(pe0)) + 1e-300) { ctx.fail(name + ": potential energy from a Position-stage state " + S(peP) + " != potential energy after realizing the forces " + S(pe0)); return; }
    }
    ctx.label(name + ((cls == Conservative || dampingIsZero) ? "/class:conservative" : "/class:dissipative"));
    const Vector u = s.getU();
    Real posNoise = 0;
    {   Real L = 3, fsum = 0; for (MobilizedBodyIndex b(0); b < a.matter->getNumBodies(); ++b) { L = std::max(L, 3 + a.matter->getMobilizedBody(b).getBodyOriginLocation(s).norm()); fsum += bf[b][0].norm() + bf[b][1].norm(); }
        for (int i = 0; i < mf.size(); ++i) fsum += std::fabs(mf[i]);
        posNoise = 10 * EPS * L * fsum; }
    Power p = powerAlong(a, s, bf, mf, u);
    FD fd = dPEalong(a, s, p.qdot, p.scale, p.tmax, posNoise);
    const Real scale = p.scale + std::fabs(fd.d);
    bool active = scale > 0 || pe0 != 0; ctx.label(name + (active ? "/active" : "/inactive"));
    bool unum = false; for (int i = 0; i < u.size(); ++i) if (u[i] != 0) unum = true;
    if (fd.err > 1e-4 * scale + 1e-300 && scale > 0) { ctx.label(name + "/fd-unreliable(non-smooth point)"); }
    else if (!a.siteId.empty() && p.relRot > 1e-12 && ctx.known(a.siteId)) { ctx.label("excluded:" + a.siteId); }
    else {
        const Real D = p.P + fd.d, tol = 1e-6 * scale + 10 * fd.err + p.floor + 1e-300;
        static const bool calib = getenv("C12_CALIB") != nullptr;
        if (calib && (cls == Conservative || dampingIsZero) && scale > 0) { Real r = std::fabs(D) / scale; char b[64]; snprintf(b, sizeof b, "/calib:1e%+03d", r > 0 ? (int)std::floor(std::log10(r)) : -99); ctx.label(name + b); return; }
        if (cls == Conservative || dampingIsZero) {
            if (std::fabs(D) > tol) { ctx.fail(name + ": power " + S(p.P) + " != -dPE/dt = " + S(-fd.d) + " along the motion (difference " + S(D) + ", tolerance " + S(tol) + ", FD step " + S(fd.h) + ", PE " + S(pe0) + ")"); return; }
        } else if (D > tol) { ctx.fail(name + ": dissipation term P + dPE/dt = " + S(D) + " is positive (P=" + S(p.P) + ", dPE/dt=" + S(fd.d) + ", tolerance " + S(tol) + ")"); return; }
        if (cls == Dissipative && !dampingIsZero && D < -tol) ctx.label(name + "/dissipating");
        if (!a.tag.empty() && scale > 0) ctx.label(a.tag + ((cls == Conservative || dampingIsZero) ? "/power=-dPE/dt checked" : "/dissipation-sign checked"));
        ctx.nontrivial(unum && active && scale > 0);
    }
    // generalized force = -gradient of PE, component by component (forces of a conservative element do not depend on u)
    if (cls == Conservative || dampingIsZero) {
        const int nu = u.size(); int checked = 0, unreliable = 0;
        for (int i = 0; i < nu && i < 24 && !ctx.failed; ++i) {
            Vector e(nu); e = 0; e[i] = 1;
            Power pi = powerAlong(a, s, bf, mf, e); FD fi = dPEalong(a, s, pi.qdot, pi.scale, pi.tmax, posNoise);
            Real sc = pi.scale + std::fabs(fi.d); if (sc == 0) continue;
            if (fi.err > 1e-4 * sc) { ++unreliable; continue; }
            if (!a.siteId.empty() && pi.relRot > 1e-12 && ctx.known(a.siteId)) { ctx.label("excluded:" + a.siteId); continue; }
            Real tol = 1e-6 * sc + 10 * fi.err + pi.floor + 1e-300; ++checked;
            static const bool calib = getenv("C12_CALIB") != nullptr;
            if (calib) { Real r = std::fabs(pi.P + fi.d) / sc; char b[64]; snprintf(b, sizeof b, "/gcalib:1e%+03d", r > 0 ? (int)std::floor(std::log10(r)) : -99); ctx.label(name + b); continue; }
            if (std::fabs(pi.P + fi.d) > tol) ctx.fail(name + ": generalized force component " + std::to_string(i) + " = " + S(pi.P) + " != -dPE/dq.N^-1 = " + S(-fi.d) + " (tolerance " + S(tol) + ", PE " + S(pe0) + ")");
        }
        if (checked) ctx.label(name + "/gradient-checked"); if (checked && !a.tag.empty()) ctx.label(a.tag + "/gradient-checked"); if (unreliable) ctx.label(name + "/some-gradient-directions-fd-unreliable");
    }
}

void contactCase(const pbt::Tape& t, pbt::Ctx& ctx) {
    static const unsigned mask = getenv("C12_KINDS") ? (unsigned)atoi(getenv("C12_KINDS")) : (1u << cgen::NumKinds) - 1;
    cgen::Scenario sc = cgen::decode(t, mask);
    if (sc.kind == cgen::ExpSpring) { sc.mus = sc.muk = 0; sc.setAuto = false; }     // normal part only (statement of C12)
    {   // a conservative sub-class must be reachable: 1/3 of the scenarios get loss-free materials
        pbt::Reader g(t[0]); g.skip(49); int w = g.pick(3);
        if (w == 1) { for (cgen::Material* m : {&sc.s1.mat, &sc.s2.mat, &sc.s3.mat}) { m->c = 0; m->us = m->ud = m->uv = 0; } sc.cz = 0; }
        else if (w == 2) { for (cgen::Material* m : {&sc.s1.mat, &sc.s2.mat, &sc.s3.mat}) { m->us = m->ud = m->uv = 0; } }      // damping only
    }
    if (ctx.wantDesc) sc.describe(ctx.desc);
    const std::string name = cgen::kindName(sc.kind); ctx.label("element:" + name);
    std::unique_ptr<cgen::Scene> sn = cgen::build(sc); cgen::Scene* S0 = sn.get();
    Access a; a.sys = &sn->m->sys; a.matter = &sn->m->matter;
    a.forces = [S0](const State& s, Vector_<SpatialVec>& bf, Vector& mf) { S0->elementForces(s, bf, mf); };
    a.pe = [S0](const State& s) { return S0->elementPE(s); };
    { const cgen::Scenario* scp = &sc; a.maxStep = [scp, S0](const State& w) { return cgen::maxSmoothStep(*scp, *S0, w); }; }
    auto lossFree = [](const cgen::Material& m) { return m.c == 0; };
    auto fric = [](const cgen::Material& x, const cgen::Material& y) { return (x.us > 0 && y.us > 0) || (x.ud > 0 && y.ud > 0) || (x.uv > 0 && y.uv > 0); };
    bool zeroDamping; Class cls = Dissipative;
    switch (sc.kind) {
        case cgen::HC: zeroDamping = lossFree(sc.s1.mat) && lossFree(sc.s2.mat) && !fric(sc.s1.mat, sc.s2.mat) && (sc.D < 0 || (lossFree(sc.s3.mat) && !fric(sc.s1.mat, sc.s3.mat))); break;
        case cgen::EFF: { auto z = [](const cgen::Material& m) { return m.c == 0 && m.us == 0 && m.ud == 0 && m.uv == 0; };     // only parametrised meshes carry springs
            zeroDamping = (!sc.paramBase || z(sc.s1.mat)) && (!sc.paramProbe || z(sc.s2.mat));
            if (sc.meshMesh) { a.tag = sc.paramBase && sc.paramProbe ? "eff:mesh-mesh" : "eff:mesh-mesh(one mesh parametrised)"; ctx.label(a.tag); } break; }
        case cgen::HertzCirc: case cgen::HertzEll: case cgen::CcsEF: case cgen::CcsBrick: zeroDamping = lossFree(sc.s1.mat) && lossFree(sc.s2.mat) && !fric(sc.s1.mat, sc.s2.mat); break;
        case cgen::ExpSpring: zeroDamping = sc.cz == 0; break;
        default: zeroDamping = false; cls = NotJudged; break;     // SmoothSphereHalfSpaceForce
    }
    State& s = sn->state();
    // known finding hertz-elliptical-energy-ignores-curvature-change: the Hertz elliptical generator reports
    // PE = 2/5 fH x with fH = e(kmax/kmin) 4/3 E* sqrt(R) x^1.5, where the relative curvatures (R, e) of a non-spherical
    // ellipsoid change when it rotates relative to the half-space, but the force is a pure normal force at the contact
    // point: the moment -dPE/d(orientation) is missing, so P != -dPE/dt (either sign) whenever the bodies rotate
    // relative to each other. Site: HertzElliptical, ellipsoid radii not all equal, direction with relative rotation.
    if (sc.kind == cgen::HertzEll && !(sc.s2.dims[0] == sc.s2.dims[1] && sc.s2.dims[1] == sc.s2.dims[2])) {
        a.siteId = "hertz-elliptical-energy-ignores-curvature-change"; const int A = sc.A, B = sc.B;
        a.relRot = [S0, A, B](const State& w) { return (S0->body(B).getBodyAngularVelocity(w) - S0->body(A).getBodyAngularVelocity(w)).norm(); };
    }
    if (sc.kind == cgen::ExpSpring) {   // the clamp at the maximum normal force is a documented yield model: energy not conserved there
        sn->m->sys.realize(s, Stage::Dynamics);
        if (sn->exp->getNormalForce(s).norm() >= sc.maxFz * (1 - 1e-12)) { ctx.label(name + "/clamped-at-max(not judged)"); return; }
    }
    judge(ctx, name, a, s, cls, zeroDamping);
}

void forcegenCase(const pbt::Tape& t, pbt::Ctx& ctx) {
    pbt::Reader g(t[0]); g.skip(32);
    mbgen::Options opt; opt.maxBodies = 6;
    mbgen::ModelSpec spec = mbgen::decodeModel(t, 3, (int)t.size() - 3, g, opt);
    forcegen::Options fo; fo.allowDisabledByDefault = false;
    forcegen::ForceSpec fs = forcegen::decodeForce(t[1], spec, fo);
    {   // conservative sub-classes must be reachable: a third of the bushings / stops get zero damping
        pbt::Reader g2(t[0]); g2.skip(49); if (g2.pick(3) == 1) { fs.bc = Vec6(0); if (fs.kind == forcegen::MobilityLinearStop) fs.d = 0; } }
    if (ctx.wantDesc) { fs.describe(ctx.desc); spec.describe(ctx.desc); }
    const std::string name = forcegen::kindName(fs.kind); ctx.label("element:" + name); mbgen::labelModel(ctx, spec);
    mbgen::Built m(spec); forcegen::Element e = forcegen::addToModel(m, spec, fs);
    m.finish(spec); m.setState(spec); State& s = m.state; m.sys.realize(s, Stage::Velocity);
    if (forcegen::isTwoPoint(fs.kind)) { Vec3 p1 = m.mb[fs.b1].findStationLocationInGround(s, fs.s1), p2 = m.mb[fs.b2].findStationLocationInGround(s, fs.s2); if ((p1 - p2).norm() < 1e-3) { ctx.reject("coincident-points"); return; } }
    if (fs.kind == forcegen::LinearBushing) {   // documented singularity of the bushing coordinates (middle angle near 90 degrees)
        Transform X_GF = m.mb[fs.b1].getBodyTransform(s) * fs.X1, X_GM = m.mb[fs.b2].getBodyTransform(s) * fs.X2; Mat33 R = (~X_GF.R()).asMat33() * X_GM.R().asMat33();
        if (std::fabs(R(0, 2)) > 0.985) { ctx.reject("bushing-near-singular"); return; }
        // the bushing's first and third angles live in (-pi, pi]: at the wrap the energy 1/2 k q^2 has a symmetric kink that a central
        // difference cannot see (both Richardson estimates give 0); non-smooth point, excluded by classification
        Vec3 ang = forcegen::bodyXYZ(R); const Real Pi_ = 3.141592653589793;
        if (std::fabs(ang[0]) > Pi_ - 0.02 || std::fabs(ang[2]) > Pi_ - 0.02) { ctx.reject("bushing-angle-wrap"); return; }
    }
    Access a; a.sys = &m.sys; a.matter = &m.matter; Force f = e.force;
    a.forces = [f](const State& st, Vector_<SpatialVec>& bf, Vector& mf) { Vector_<Vec3> pf; f.calcForceContribution(st, bf, pf, mf); };
    a.pe = [f](const State& st) { return f.calcPotentialEnergyContribution(st); };
    a.peAtPositionStage = true;
    Class cls; bool zeroDamping = false;
    switch (fs.kind) {
        case forcegen::Gravity: case forcegen::UniformGravity: case forcegen::TwoPointLinearSpring: case forcegen::MobilityLinearSpring: cls = Conservative; break;
        case forcegen::TwoPointLinearDamper: case forcegen::GlobalDamper: case forcegen::MobilityLinearDamper: cls = Dissipative; zeroDamping = fs.c == 0; break;
        case forcegen::MobilityLinearStop: cls = Dissipative; zeroDamping = fs.d == 0; break;
        case forcegen::LinearBushing: cls = Dissipative; zeroDamping = fs.bc.norm() == 0; break;
        default: cls = PeZeroOnly; break;
    }
    if (fs.kind == forcegen::MobilityLinearStop) {   // engagement of a stop is a non-smooth point of its energy
        const MobilizedBody mbS = m.mb[fs.mob]; const int cq = fs.coord; const Real lo = fs.qlo, hi = fs.qhi;
        a.maxStep = [mbS, cq, lo, hi](const State& w) { Real q = mbS.getOneQ(w, cq), qd = std::fabs(mbS.getOneQDot(w, cq)), mg = std::min(std::fabs(q - lo), std::fabs(q - hi)); return qd > 0 ? 0.1 * mg / qd : Infinity; };
    }
    if (fs.kind == forcegen::MobilityLinearStop) { Real q = m.mb[fs.mob].getOneQ(s, fs.coord); ctx.label(q > fs.qhi ? "MobilityLinearStop/upper-engaged" : q < fs.qlo ? "MobilityLinearStop/lower-engaged" : "MobilityLinearStop/inside"); }
    judge(ctx, name, a, s, cls, zeroDamping);
}

void cableCase(const pbt::Tape& t, pbt::Ctx& ctx) {
    pbt::Reader g(t[0]); g.skip(32);
    mbgen::Options opt; opt.maxBodies = 5;
    mbgen::ModelSpec spec = mbgen::decodeModel(t, 3, (int)t.size() - 3, g, opt);
    pbt::Reader r(t[2]); const int nb = spec.nBodies();
    uint32_t wa = r.w(), wb = r.w(), wv = r.w();
    int b1 = int(wa % uint32_t(nb + 1)), b2 = int(wb % uint32_t(nb + 1)); if (wa == 0 && wb == 0) { b1 = 0; b2 = nb; }
    if (b1 == b2 && (wb >> 8) % 8u != 0) b2 = (b1 + 1 + int((wb >> 11) % uint32_t(nb))) % (nb + 1);
    Vec3 s1 = mbgen::readVec3(r, -0.8, 0.8), s2 = mbgen::readVec3(r, -0.8, 0.8), s3 = mbgen::readVec3(r, -0.8, 0.8);
    if (b1 == b2 && (s1 - s2).norm() < 0.1) s2 = s1 + Vec3(0.3, 0.2, -0.1);
    bool via = (wv & 1u) != 0; int b3 = int((wv >> 1) % uint32_t(nb + 1));
    Real k = r.logreal(0.1, 100), x0 = r.real(0, 2), c = r.chance(3, 4) ? 1.0 : 0.0; c *= r.uniform(0, 2);
    if (ctx.wantDesc) { ctx.desc.precision(17); ctx.desc << "CableSpring b1=" << b1 << " s1=" << s1 << " b2=" << b2 << " s2=" << s2 << " via=" << via << " b3=" << b3 << " s3=" << s3 << " k=" << k << " x0=" << x0 << " c=" << c << "\n"; spec.describe(ctx.desc); }
    const std::string name = "CableSpring"; ctx.label("element:" + name); mbgen::labelModel(ctx, spec);
    mbgen::Built m(spec);
    CableTrackerSubsystem cables(m.sys); CablePath path(cables, m.mb[b1], s1, m.mb[b2], s2);
    if (via) CableObstacle::ViaPoint vp(path, m.mb[b3], s3);
    CableSpring spring(m.forces, path, k, x0, c);
    m.finish(spec); m.setState(spec); State& s = m.state; m.sys.realize(s, Stage::Position);
    {   Vec3 p1 = m.mb[b1].findStationLocationInGround(s, s1), p2 = m.mb[b2].findStationLocationInGround(s, s2), p3 = m.mb[b3].findStationLocationInGround(s, s3);
        if ((!via && (p1 - p2).norm() < 1e-2) || (via && ((p1 - p3).norm() < 1e-2 || (p2 - p3).norm() < 1e-2))) { ctx.reject("zero-length-cable-segment"); return; } }
    try { path.solveForInitialCablePath(s); } catch (const std::exception&) { ctx.reject("cable-initialisation-failed"); return; }
    Access a; a.sys = &m.sys; a.matter = &m.matter; Force f = spring;
    a.forces = [f](const State& st, Vector_<SpatialVec>& bf, Vector& mf) { Vector_<Vec3> pf; f.calcForceContribution(st, bf, pf, mf); };
    a.pe = [f](const State& st) { return f.calcPotentialEnergyContribution(st); };
    {   const MultibodySystem* sysp = &m.sys; const SimbodyMatterSubsystem* mp = &m.matter; const Real slack = x0;
        a.maxStep = [path, sysp, mp, slack](const State& w) { Real L = path.getCableLength(w), vmax = 0;
            for (MobilizedBodyIndex b(1); b < mp->getNumBodies(); ++b) { const SpatialVec& V = mp->getMobilizedBody(b).getBodyVelocity(w); vmax = std::max(vmax, V[1].norm() + 2 * V[0].norm()); }
            return vmax > 0 ? 0.1 * std::fabs(L - slack) / (4 * vmax) : Infinity; }; }
    m.sys.realize(s, Stage::Dynamics); ctx.label(spring.getTension(s) > 0 ? "CableSpring/taut" : "CableSpring/slack"); ctx.label(via ? "CableSpring/via-point" : "CableSpring/straight");
    judge(ctx, name, a, s, Dissipative, c == 0);
}

void property(const pbt::Tape& t, pbt::Ctx& ctx) {
    static const int famOnly = getenv("C12_FAMILY") ? atoi(getenv("C12_FAMILY")) : -1;
    pbt::Reader sel(t[0]); sel.skip(50); int w = sel.pick(8);
    int fam = w < 3 ? 0 : w < 7 ? 1 : 2;    // 3/8 contact, 1/2 non-contact, 1/8 cable
    if (famOnly >= 0) fam = famOnly;
    ctx.label(fam == 0 ? "family:contact" : fam == 1 ? "family:non-contact" : "family:cable");
    if (fam == 0) contactCase(t, ctx); else if (fam == 1) forcegenCase(t, ctx); else cableCase(t, ctx);
}

pbt::Config config() {
    pbt::Config c; c.prop = "C12"; c.K = mbgen::K; c.minUnits = 3;
    c.quick = {1500, 8000, 30, 12}; c.thorough = {10000, 100000, 30, 60};
    c.rule = "rapidcheck tape -> one force element on an mbgen tree: contact family (cgen scenarios around touching; 1/3 loss-free, 1/3 damping only, 1/3 damping + friction), non-contact family (forcegen, every built-in kind), CableSpring. Power from the element's force contribution and reported body velocities vs. 5-point/Richardson finite differences of its reported potential energy along the motion and along every unit speed direction. Non-trivial: u != 0 and the element active (non-zero power scale or energy) at a point where the finite difference is reliable; distinct by tape hash.";
    c.assumptions = {"reported body velocities and qdot are correct (C03/C04)", "elements documented as energy-free are only required to report PE = 0", "SmoothSphereHalfSpaceForce: the header documents its potential energy as an approximation whose derivative is not the force; not judged",
                     "ExponentialSpringForce: normal part only (mu_s = mu_k = 0); the documented clamp at the maximum normal force is not judged", "MobilityLinearSpring / MobilityLinearStop only on mobilizers with qdot == u (documented)"};
    c.requiredLabels = {"HuntCrossleyForce/class:conservative", "ElasticFoundationForce/class:conservative", "CCS-HertzCircular/class:conservative", "CCS-ElasticFoundation/class:conservative", "CCS-BrickHalfSpace/class:conservative",
                        "ExponentialSpringForce/class:conservative", "HuntCrossleyForce/dissipating", "Gravity/class:conservative", "UniformGravity/class:conservative", "TwoPointLinearSpring/class:conservative",
                        "MobilityLinearSpring/class:conservative", "LinearBushing/dissipating", "MobilityLinearStop/upper-engaged", "MobilityLinearStop/lower-engaged", "CableSpring/taut", "TwoPointLinearDamper/dissipating",
                        "eff:mesh-mesh", "eff:mesh-mesh/power=-dPE/dt checked", "eff:mesh-mesh/gradient-checked", "eff:mesh-mesh/dissipation-sign checked"};
    c.directed.push_back({"ellipsoid-tilting-on-half-space", "hertz-elliptical-energy-ignores-curvature-change", [](pbt::Ctx& ctx) {
        // loss-free ellipsoid (radii 0.3, 0.6, 1.0) pressed 0.05 into a ground half-space, tilting about an in-plane axis through its centre
        MultibodySystem sys; SimbodyMatterSubsystem matter(sys); GeneralForceSubsystem forces(sys); ContactTrackerSubsystem tracker(sys); CompliantContactSubsystem ccs(sys, tracker);
        ContactMaterial mat(1e6, 0, 0, 0, 0);
        matter.Ground().updBody().addContactSurface(Transform(), ContactSurface(ContactGeometry::HalfSpace(), mat));
        Body::Rigid body(MassProperties(1, Vec3(0), Inertia(1))); body.addContactSurface(Transform(), ContactSurface(ContactGeometry::Ellipsoid(Vec3(0.3, 0.6, 1.0)), mat));
        MobilizedBody::Free b(matter.Ground(), Transform(), body, Transform());
        State s = sys.realizeTopology(); sys.realizeModel(s);
        Rotation R(0.4, UnitVec3(0, 0.6, 0.8)); Vec3 d = ~R * Vec3(1, 0, 0); Real h = Vec3(0.3 * d[0], 0.6 * d[1], 1.0 * d[2]).norm();
        b.setQToFitTransform(s, Transform(R, Vec3(0.05 - h, 0, 0))); b.setUToFitAngularVelocity(s, Vec3(0, 1, 0)); b.setUToFitLinearVelocity(s, Vec3(0));
        sys.realize(s, Stage::Dynamics);
        const Vector_<SpatialVec>& bf = sys.getRigidBodyForces(s, Stage::Dynamics); SpatialVec V = b.getBodyVelocity(s);
        Real P = ~bf[b.getMobilizedBodyIndex()][0] * V[0] + ~bf[b.getMobilizedBodyIndex()][1] * V[1];
        Vector q0 = s.getQ(), qd = s.getQDot(); auto peAt = [&](Real t) { State w = s; w.updQ() = q0 + t * qd; sys.realize(w, Stage::Dynamics); return sys.calcPotentialEnergy(w); };
        Real hh = 1e-5, dPE = (8 * (peAt(hh) - peAt(-hh)) - (peAt(2 * hh) - peAt(-2 * hh))) / (12 * hh);
        ctx.desc << "ellipsoid (0.3,0.6,1.0) depth 0.05 tilting at 1 rad/s: P=" << P << " dPE/dt=" << dPE << " PE=" << sys.calcPotentialEnergy(s) << "\n";
        ctx.check(std::fabs(P + dPE) <= 1e-6 * (std::fabs(P) + std::fabs(dPE)), "loss-free Hertz elliptical contact: power " + S(P) + " != -dPE/dt = " + S(-dPE));
    }});
    return c;
}
} // namespace

PBT_MAIN(config(), property)
