// C02 -- Forward and inverse dynamics of trees are exact inverses (DESIGN.md 5, C02).
// Domain: mbgen trees + random applied mobility forces f, spatial body forces F_b on every body incl. Ground,
// random knownUdot; zero and non-zero u.
// Oracle: (D) udot = calcAccelerationIgnoringConstraints(f,F) => calcResidualForceIgnoringConstraints(f,F,udot)=0;
// r = residual(f,F,knownUdot) => forward dynamics with f+r returns knownUdot; realize(Acceleration) with the
// same (f,F) applied through Force::DiscreteForces gives the same udot and body accelerations; residual is
// affine in F with slope -J' (multiplyBySystemJacobianTranspose); zero-length arguments mean zero.
// (R) residual == Kane residual from kinematics: sum_b J_b'(SI_b A_b + gyro_b - F_b) - f with A_b by
// 5-point time differences of REPORTED body velocities (refdyn.h) -- catches errors made consistently in both
// library directions. A_GB returned by the operator == the same finite differences.
#include "pbt.h"
#include "mbgen.h"
#include "refdyn.h"
using namespace SimTK;

namespace {
struct Rng { uint64_t s; double next() { s += 0x9E3779B97F4A7C15ull; uint64_t z = s; z = (z ^ (z >> 30)) * 0xBF58476D1CE4E5B9ull; z = (z ^ (z >> 27)) * 0x94D049BB133111EBull; z ^= z >> 31; return (z >> 11) / 9007199254740992.0 * 2 - 1; } };
std::string S(double a) { return pbt::str(a); }

void property(const pbt::Tape& t, pbt::Ctx& ctx) {
    pbt::Reader g(t[0]);
    mbgen::Options opt; opt.maxBodies = 7; opt.allowUnnormalizedQuat = false;
    mbgen::ModelSpec spec = mbgen::decodeModel(t, 1, (int)t.size() - 1, g, opt);
    Rng rng{(uint64_t)g.w() * 0x100000001ull + 777};
    const double fMag = g.logreal(0.01, 100), FMag = g.logreal(0.01, 100), aMag = g.logreal(0.1, 10);
    const bool zeroF = g.chance(1, 8), zeroMob = g.chance(1, 8);
    // massless inner bodies (1 case in 4; drawn last, word 0 = off): a body that has a child may lose its mass (connector
    // frames, massless Welds). Models whose mass matrix becomes (nearly) singular are rejected by the conditioning gate below.
    bool anyMassless = false;
    if (g.pick(4) == 3) {
        const int n = (int)spec.bodies.size(); std::vector<int> nkids(n + 1, 0);
        for (int i = 0; i < n; ++i) nkids[spec.bodies[i].parent]++;
        for (int i = 0; i < n; ++i) { bool want = g.pick(3) != 0; if (nkids[i + 1] >= 1 && want) { spec.bodies[i].mass = 0; anyMassless = true; if (spec.bodies[i].type == mbgen::Weld) ctx.label("massless-weld-with-children"); } }
    }
    if (anyMassless) ctx.label("massless-inner-body");
    if (ctx.wantDesc) { spec.describe(ctx.desc); ctx.desc << "fMag=" << fMag << " FMag=" << FMag << " udotMag=" << aMag << " zeroF=" << zeroF << " zeroMobForces=" << zeroMob << (anyMassless ? " (massless inner bodies)" : "") << "\n"; }
    mbgen::labelModel(ctx, spec);

    mbgen::Built m(spec);
    Force::DiscreteForces disc(m.forces, m.matter);
    m.finish(spec); m.setState(spec);
    State& s = m.state; const SimbodyMatterSubsystem& matter = m.matter;
    const int nu = s.getNU(), NB = matter.getNumBodies();
    if (nu == 0) { ctx.reject("nu=0"); return; }
    m.sys.realize(s, Stage::Dynamics);      // forward-dynamics operator documents Dynamics stage (articulated inertias)

    Vector f(nu), known(nu); Vector_<SpatialVec> F(NB);
    for (int i = 0; i < nu; ++i) { f[i] = zeroMob ? 0 : fMag * rng.next(); known[i] = aMag * rng.next(); }
    for (int b = 0; b < NB; ++b) F[b] = zeroF ? SpatialVec(Vec3(0), Vec3(0)) : FMag * SpatialVec(Vec3(rng.next(), rng.next(), rng.next()), Vec3(rng.next(), rng.next(), rng.next()));

    // ---- reference pieces
    auto J = refdyn::referenceJacobian(m.sys, matter, s);
    auto si = refdyn::bodyInertias(matter, s);
    auto V = refdyn::bodyVelocities(matter, s);
    Matrix Mref = refdyn::referenceM(J, si);
    std::vector<Real> ev; refdyn::symEig(Mref, ev);
    if (!(ev.front() > 0) || !(ev.back() / ev.front() < 1e8)) { ctx.reject("ill-conditioned-reference"); return; }
    const Real kappa = ev.back() / ev.front(), lmin = ev.front(), lmax = ev.back(), eps = 2.220446049250313e-16;

    bool rotOut = false, anyRev = false; for (auto& b : spec.bodies) { if (b.reversed) anyRev = true; if (b.outKind == 1 && mbgen::mobNU(b.type) > 0 && b.type != mbgen::Slider && b.type != mbgen::Translation) rotOut = true; }
    bool uNonzero = !spec.zeroU && refdyn::maxAbs(s.getU()) > 0;
    ctx.nontrivial(uNonzero && (rotOut || anyRev) && !zeroF && NB >= 3);
    ctx.label(uNonzero ? "u!=0" : "u==0"); if (zeroF) ctx.label("F==0"); if (zeroMob) ctx.label("f==0");

    // scale of generalized forces: per-row sum of absolute contributions
    auto forceScale = [&](const std::vector<SpatialVec>& A) {
        Real sc = 0;
        for (int i = 0; i < nu; ++i) {
            Real a = std::abs(f[i]);
            for (int b = 1; b < NB; ++b) { SpatialVec ma = refdyn::mul(si[b], A[b]);   // no cancellation between terms, nor inside one:
                // the gyroscopic terms w x (I w), w x (w x mc) vanish for spherical inertia / parallel vectors, leaving rounding
                // noise judged against a scale of rounding noise -- use the magnitudes of their factors instead
                const Vec3& w = V[b][0]; const Real gy0 = w.norm() * (si[b].I * w).norm(), gy1 = w.norm() * w.norm() * si[b].mc.norm();
                a += J[i][b][0].norm() * (ma[0].norm() + gy0 + F[b][0].norm()) + J[i][b][1].norm() * (ma[1].norm() + gy1 + F[b][1].norm()); }
            sc = std::max(sc, a);
        }
        return sc + 1e-300;
    };

    // known finding line-mobilizer-reversed-quaternion-qdot (see C03): for a REVERSED LineOrientation/FreeLine in
    // quaternion mode the library's qdot = N(q)u is not the time derivative of the pose it reports, so every
    // reference that advances q(t) with the library's qdot is invalid for such models. Site predicate: the
    // model contains a reversed Line mobilizer and quaternions are in use. Only the differential (D) clauses that
    // need no time differencing are judged for them.
    bool lineRevQuat = false; for (auto& b : spec.bodies) if (b.reversed && !spec.euler && (b.type == mbgen::LineOrientation || b.type == mbgen::FreeLine)) lineRevQuat = true;
    const bool skipFD = lineRevQuat && ctx.known("line-mobilizer-reversed-quaternion-qdot");
    if (skipFD) ctx.label("excluded:line-rev-quat:FD-branches");
    // ---- (R) inverse dynamics vs Kane residual for knownUdot
    std::vector<SpatialVec> Aref = refdyn::referenceAccelerations(m.sys, matter, s, known);
    Vector rref = refdyn::referenceResidual(J, si, V, Aref, F, f);
    Vector r; matter.calcResidualForceIgnoringConstraints(s, f, F, known, r);
    if (!ctx.check(r.size() == nu, "residual has wrong size")) return;
    const Real scK = forceScale(Aref);
    if (!skipFD) for (int i = 0; i < nu; ++i) if (!(std::abs(r[i] - rref[i]) <= 1e-7 * scK)) { ctx.fail("inverse dynamics residual[" + std::to_string(i) + "]=" + S(r[i]) + " differs from Kane-from-kinematics reference " + S(rref[i]) + " (scale " + S(scK) + ")"); return; }
    if (!skipFD) {   // calcBodyAccelerationFromUDot == time derivative of reported velocities
        Vector_<SpatialVec> A; matter.calcBodyAccelerationFromUDot(s, known, A);
        if (!ctx.check(A.size() == NB, "calcBodyAccelerationFromUDot wrong size")) return;
        for (int b = 0; b < NB; ++b) { Real sc = 1 + Aref[b][0].norm() + Aref[b][1].norm(); Real d = (A[b][0] - Aref[b][0]).norm() + (A[b][1] - Aref[b][1]).norm();
            if (!(d <= 1e-7 * sc * (1 + refdyn::maxAbs(s.getU()) * refdyn::maxAbs(s.getU())))) { ctx.fail("calcBodyAccelerationFromUDot body " + std::to_string(b) + " differs from d/dt of reported velocity by " + S(d)); return; } }
    }
    const Real tolId = 1e4 * eps * nu * kappa * scK + 1e-300;     // algebraic identities between library routes

    // ---- (D) forward dynamics of f + r reproduces knownUdot
    {
        Vector fr = f + r, ud; Vector_<SpatialVec> A;
        matter.calcAccelerationIgnoringConstraints(s, fr, F, ud, A);
        if (!ctx.check(ud.size() == nu && A.size() == NB, "calcAccelerationIgnoringConstraints wrong sizes")) return;
        Real tolU = 1e4 * eps * nu * kappa * (refdyn::maxAbs(known) + scK / lmax) + 1e-7 * 0;  // udot error ~ kappa*eps*|udot|
        tolU = std::max(tolU, 1e4 * eps * nu * scK / lmin);
        for (int i = 0; i < nu; ++i) if (!(std::abs(ud[i] - known[i]) <= tolU)) { ctx.fail("forward dynamics of (f + residual) gives udot[" + std::to_string(i) + "]=" + S(ud[i]) + " instead of the known udot " + S(known[i]) + " (tol " + S(tolU) + ")"); return; }
    }
    // ---- (D) forward dynamics then inverse dynamics: zero residual
    Vector udot; Vector_<SpatialVec> Afd;
    matter.calcAccelerationIgnoringConstraints(s, f, F, udot, Afd);
    {
        Vector r0; matter.calcResidualForceIgnoringConstraints(s, f, F, udot, r0);
        std::vector<SpatialVec> Av(NB); for (int b = 0; b < NB; ++b) Av[b] = Afd[b];
        Real sc0 = forceScale(Av), tol0 = 1e4 * eps * nu * kappa * sc0;
        for (int i = 0; i < nu; ++i) if (!(std::abs(r0[i]) <= tol0)) { ctx.fail("residual of forward-dynamics accelerations is " + S(r0[i]) + " at mobility " + std::to_string(i) + " (tol " + S(tol0) + ")"); return; }
        // M_ref*udot + bias - f - J'F = 0 with bias from the Kane reference at udot=0 (independent check of udot)
        Vector zero(nu); zero = 0; std::vector<SpatialVec> A0 = refdyn::referenceAccelerations(m.sys, matter, s, zero);
        Vector bias = refdyn::referenceResidual(J, si, V, A0, F, f);     // = bias - f - J'F
        Vector eom = Mref * udot + bias;
        // M*udot and the bias can each be large and cancel (free body with an offset outboard frame: the Coriolis term of the
        // bias is balanced by udot while the net body acceleration, and with it sc0, is ~0): the finite-difference error of the
        // reference scales with the uncancelled terms
        Real scTerms = 0; for (int i = 0; i < nu; ++i) { Real a = std::abs(bias[i]); for (int j = 0; j < nu; ++j) a += std::abs(Mref(i, j) * udot[j]); scTerms = std::max(scTerms, a); }
        if (!skipFD) for (int i = 0; i < nu; ++i) if (!(std::abs(eom[i]) <= 1e-7 * std::max(sc0, scTerms) + tol0)) { ctx.fail("M_ref*udot + bias_ref - f - J'F = " + S(eom[i]) + " at mobility " + std::to_string(i) + " (scale " + S(sc0) + ")"); return; }
        // returned A_GB consistent with calcBodyAccelerationFromUDot(udot)
        Vector_<SpatialVec> A2; matter.calcBodyAccelerationFromUDot(s, udot, A2);
        for (int b = 0; b < NB; ++b) { Real d = (A2[b][0] - Afd[b][0]).norm() + (A2[b][1] - Afd[b][1]).norm(), sc = 1 + Afd[b][0].norm() + Afd[b][1].norm(); if (!(d <= 1e6 * eps * sc * kappa)) { ctx.fail("A_GB from forward dynamics differs from calcBodyAccelerationFromUDot(udot) at body " + std::to_string(b) + " by " + S(d)); return; } }
    }
    // ---- (D) realize(Acceleration) with the same forces applied through DiscreteForces
    {
        State s2 = s;
        disc.setAllMobilityForces(s2, f); disc.setAllBodyForces(s2, F);
        m.sys.realize(s2, Stage::Acceleration);
        const Vector& ud2 = s2.getUDot();
        Real tolU = 1e4 * eps * nu * kappa * (refdyn::maxAbs(udot) + 1e-300) + 1e4 * eps * nu * scK / lmin;
        for (int i = 0; i < nu; ++i) if (!(std::abs(ud2[i] - udot[i]) <= tolU)) { ctx.fail("realize(Acceleration) udot[" + std::to_string(i) + "]=" + S(ud2[i]) + " differs from the forward-dynamics operator " + S(udot[i])); return; }
        for (int b = 0; b < NB; ++b) { const SpatialVec& A = matter.getMobilizedBody(MobilizedBodyIndex(b)).getBodyAcceleration(s2); Real d = (A[0] - Afd[b][0]).norm() + (A[1] - Afd[b][1]).norm(), sc = 1 + Afd[b][0].norm() + Afd[b][1].norm();
            if (!(d <= 1e6 * eps * sc * kappa)) { ctx.fail("realized body acceleration differs from operator A_GB at body " + std::to_string(b) + " by " + S(d)); return; } }
    }
    // ---- (D) forces enter as J'F; zero-length arguments are zeros
    {
        Vector JtF; matter.multiplyBySystemJacobianTranspose(s, F, JtF);
        Vector_<SpatialVec> F0(NB); F0 = SpatialVec(Vec3(0), Vec3(0));
        Vector rNoF; matter.calcResidualForceIgnoringConstraints(s, f, F0, known, rNoF);
        for (int i = 0; i < nu; ++i) if (!(std::abs((rNoF[i] - r[i]) - JtF[i]) <= tolId)) { ctx.fail("residual(F=0) - residual(F) = " + S(rNoF[i] - r[i]) + " != (J'F)[" + std::to_string(i) + "] = " + S(JtF[i])); return; }
        // reference J'F
        for (int i = 0; i < nu; ++i) { Real a = 0; for (int b = 1; b < NB; ++b) a += refdyn::dot(J[i][b], F[b]); if (!(std::abs(a - JtF[i]) <= tolId)) { ctx.fail("multiplyBySystemJacobianTranspose[" + std::to_string(i) + "]=" + S(JtF[i]) + " != reference J'F " + S(a)); return; } }
        Vector e0, rEmpty; Vector_<SpatialVec> FE;
        matter.calcResidualForceIgnoringConstraints(s, e0, FE, known, rEmpty);
        Vector fz(nu); fz = 0; Vector rz; matter.calcResidualForceIgnoringConstraints(s, fz, F0, known, rz);
        for (int i = 0; i < nu; ++i) if (!(std::abs(rEmpty[i] - rz[i]) <= tolId)) { ctx.fail("zero-length force arguments do not behave as zeros in inverse dynamics"); return; }
        Vector rU0; matter.calcResidualForceIgnoringConstraints(s, f, F, e0, rU0);
        Vector uz(nu); uz = 0; Vector rU1; matter.calcResidualForceIgnoringConstraints(s, f, F, uz, rU1);
        for (int i = 0; i < nu; ++i) if (!(std::abs(rU0[i] - rU1[i]) <= tolId)) { ctx.fail("zero-length knownUdot does not behave as zero in inverse dynamics"); return; }
    }
}

pbt::Config config() {
    pbt::Config c; c.prop = "C02"; c.K = mbgen::K; c.minUnits = 1;
    c.quick = {1000, 4000, 14, 25}; c.thorough = {12000, 40000, 14, 240};
    c.rule = "rapidcheck tape -> mbgen tree (1..7 bodies, 18 mobilizer types, forward/reversed, frame specialisations, quaternion/Euler, non-singular q, u in [-2,2] or all zero) + log-uniform magnitudes for mobility forces, body wrenches on every body incl. Ground and a known udot (tape-seeded). Non-trivial: u != 0, a reversed mobilizer or a rotational mobilizer with a general outboard frame, non-zero body forces and >= 2 bodies; distinct by tape hash.";
    c.assumptions = {"Kane reference uses the library's REPORTED body velocities differentiated in time with 5-point stencils (h=1e-3) along q(t)=q+t*qdot+t^2/2*qdotdot, u(t)=u+t*udot; qdot/qdotdot consistency is C03's subject",
                     "tolerances: 1e-7 x force scale for finite-difference comparisons (probe A: 2.6e-11 observed), 1e4*eps*nu*kappa x scale for algebraic identities; kappa(M_ref) >= 1e8 rejected"};
    c.requiredLabels = {"mob:Ball/rev/quat", "mob:Free/fwd/euler", "mob:Ellipsoid/fwd/quat", "mob:Gimbal/rev", "mob:Screw/fwd", "u==0", "F==0", "massless-inner-body", "massless-weld-with-children"};
    return c;
}
} // namespace

PBT_MAIN(config(), property)
