// C20 -- Error-controlled integrators deliver the requested accuracy (DESIGN.md section 5, C20).
// Domain: analytic ODE systems of gen/anasys.h (linear z' = A z with decaying / oscillatory / mildly stiff
// eigenvalues, dimension 1..8, optional orthogonal mixing; harmonic oscillators; librating pendulum with the
// elliptic-function solution), all 9 integrators (+ CPodes/Adams), accuracies 1e-2..1e-9, RMS / infinity norm,
// random report grids with interpolation allowed.
// Oracle (reference = closed-form solution):
//   (A) accuracy ladder acc, acc/100: every non-interpolated returned state has scaled global error
//       <= C_int (1 + rho T) acc^(e_int)  (e_int = p/(p+1), the law local error control implies; constants frozen
//       from the calibration in notes/C20.md with >= 10x margin);
//   (B) monotonicity: worst error at acc/100 <= max(10 x worst error at acc, floor);
//   (C) interpolated report states: error <= 10 max(e0, e1) + 2 x (interpolation-theory remainder for the step
//       [t0,t1] around it, from the 4th (Hermite) / 2nd (ExplicitEuler, linear) derivative of the exact solution);
//   (A),(B) are also applied with interpolation disallowed on an irregular report grid driven by plain stepTo (no
//       return-every-step: CPodes then runs in its stop-time mode) and to the state at a final time (setFinalTime) on short intervals;
//   (D) fixed-step runs (step-halving triple h, h/2, h/4 in the asymptotic range): observed order
//       >= getMethodMinOrder() - 0.4.
#include "pbt.h"
#include "anasys.h"
#include "SimTKmath.h"
#include <memory>
using namespace SimTK;
typedef Integrator::SuccessfulStepStatus St;

namespace {
const double Inf = std::numeric_limits<double>::infinity();
const double OrderSlack = 0.5;   // calibrated, notes/C20.md

struct Lcg { uint64_t s; explicit Lcg(uint32_t seed) : s(seed * 0x9E3779B97F4A7C15ull + 0x7654321ull) {}
    double u() { s += 0x9E3779B97F4A7C15ull; uint64_t z = s; z = (z ^ (z >> 30)) * 0xBF58476D1CE4E5B9ull; z = (z ^ (z >> 27)) * 0x94D049BB133111EBull; z ^= z >> 31; return (z >> 11) / 9007199254740992.0; } };

const char* integName(int w) { static const char* n[] = {"RungeKuttaMerson", "RungeKutta3", "RungeKutta2", "RungeKuttaFeldberg", "Verlet", "ExplicitEuler", "SemiExplicitEuler", "SemiExplicitEuler2", "CPodesBDF", "CPodesAdams"}; return n[w]; }
std::unique_ptr<Integrator> makeInteg(int w, const System& sys, double seeStep) {
    switch (w) {
        case 0: return std::unique_ptr<Integrator>(new RungeKuttaMersonIntegrator(sys));
        case 1: return std::unique_ptr<Integrator>(new RungeKutta3Integrator(sys));
        case 2: return std::unique_ptr<Integrator>(new RungeKutta2Integrator(sys));
        case 3: return std::unique_ptr<Integrator>(new RungeKuttaFeldbergIntegrator(sys));
        case 4: return std::unique_ptr<Integrator>(new VerletIntegrator(sys));
        case 5: return std::unique_ptr<Integrator>(new ExplicitEulerIntegrator(sys));
        case 6: return std::unique_ptr<Integrator>(new SemiExplicitEulerIntegrator(sys, seeStep));
        case 7: return std::unique_ptr<Integrator>(new SemiExplicitEuler2Integrator(sys));
        case 8: return std::unique_ptr<Integrator>(new CPodesIntegrator(sys, CPodes::BDF));
        default: return std::unique_ptr<Integrator>(new CPodesIntegrator(sys, CPodes::Adams));
    }
}
// error-control law: global error ~ (1 + rho T) acc^expo ; frozen constants (notes/C20.md calibration table)
struct Law { double expo, C; };
Law lawOf(int integ) {
    switch (integ) {        //  exponent   C (>= 10 x the worst ratio seen in calibration, notes/C20.md)
        case 0: return {0.8, 4};        // RungeKuttaMerson   p=4      worst 0.372
        case 1: return {1.0, 9};        // RungeKutta3        (error per unit step: err/acc flat)  worst 0.883 (final-time mode)
        case 2: return {1.0, 10};       // RungeKutta2        (same)   worst 0.956
        case 3: return {0.8, 21};       // RungeKuttaFeldberg (propagates the 4th order solution)  worst 2.08 (final-time mode, acc 1e-2)
        case 4: return {2.0 / 3, 6};    // Verlet             p=2      worst 0.518
        case 5: return {0.5, 25};       // ExplicitEuler      p=1      worst 2.16
        case 7: return {0.5, 6};        // SemiExplicitEuler2 p=1      worst 0.577
        case 8: return {0.8, 35};       // CPodes BDF (variable order <= 5)   worst 3.12
        default: return {0.8, 7};       // CPodes Adams                        worst 0.631
    }
}

struct RunResult { bool ok = false; std::string fail, reject; double worstStep = 0, worstInterp = 0; int nStates = 0, nInterp = 0, steps = 0; double worstInterpRatio = 0; };

double scaledErr(const std::vector<double>& y, const std::vector<double>& ye, double S) { double e = 0; for (size_t i = 0; i < y.size(); ++i) e = std::max(e, std::abs(y[i] - ye[i]) / S); return e; }

// max_i |d^k y_i/dt^k| (k = 2 or 4) of the exact solution on [t0,t1], by central stencils on the closed form
double derivBound(const anasys::Solution& sol, double t0, double t1, int k, double rho) {
    const double d = std::min(0.25 / std::max(rho, 1.0), 0.05); double m = 0;
    for (int s = 0; s <= 2; ++s) {
        double t = t0 + 0.5 * s * (t1 - t0);
        std::vector<double> a = sol.eval(t - 2 * d), b = sol.eval(t - d), c = sol.eval(t), e = sol.eval(t + d), f = sol.eval(t + 2 * d);
        for (size_t i = 0; i < c.size(); ++i) {
            double v = k == 4 ? (a[i] - 4 * b[i] + 6 * c[i] - 4 * e[i] + f[i]) / (d * d * d * d) : (b[i] - 2 * c[i] + e[i]) / (d * d);
            m = std::max(m, std::abs(v));
        }
    }
    return m;
}

// One integration over [t0, t0+T] with return-every-step, reports at the grid; judges clause (C) on the fly.
RunResult runOnce(int integ, const anasys::Spec& spec, double acc, bool infNorm, const std::vector<double>& grid, double T, bool judgeInterp, bool allowInterp, bool everyStep = true) {
    RunResult r; anasys::AnaSystem sys(spec); anasys::Solution sol(spec); State s0 = sys.initialState();
    std::unique_ptr<Integrator> ig = makeInteg(integ, sys, 0.01);
    ig->setAccuracy(acc); if (infNorm) ig->setUseInfinityNorm(true); ig->setReturnEveryInternalStep(everyStep); ig->setAllowInterpolation(allowInterp);
    const double rho = spec.maxRate(), S = std::max(1.0, sol.scale(spec.t0 + T));
    try {
        ig->initialize(s0);
        size_t gi = 0; double tStep0 = spec.t0, eStep0 = 0; int guard = 0;
        while (true) {
            if (++guard > 3000000) { r.reject = "too-many-steps"; return r; }
            if (gi >= grid.size()) break;
            double report = grid[gi];
            St st = ig->stepTo(report);
            const State& s = ig->getState(); double t = s.getTime();
            double e = scaledErr(anasys::AnaSystem::yOf(s), sol.eval(t), S);
            if (!std::isfinite(e)) { r.fail = "non-finite state returned at t=" + pbt::str(t); return r; }
            r.nStates++;
            if (ig->isStateInterpolated()) {
                r.nInterp++; r.worstInterp = std::max(r.worstInterp, e);
                const State& a = ig->getAdvancedState(); double t1 = a.getTime(), e1 = scaledErr(anasys::AnaSystem::yOf(a), sol.eval(t1), S), h = t1 - tStep0;
                double rem;
                if (integ == 5) rem = h * h / 8 * derivBound(sol, tStep0, t1, 2, rho) / S;
                else if (integ >= 8) rem = 0;
                else rem = h * h * h * h / 384 * derivBound(sol, tStep0, t1, 4, rho) / S;
                // end-point derivative errors enter the Hermite form with weight <= 4h/27 each: f-error <= rho_eff * e
                double bound = 10 * std::max(eStep0, e1) * (1 + 0.3 * rho * h) + 4 * rem + 1e-13;
                if (integ >= 8) bound = 10 * std::max(eStep0, e1) + 100 * acc * 1.0 + 1e-13;   // CPODES' own interpolant (calibrated term, notes)
                r.worstInterpRatio = std::max(r.worstInterpRatio, e / bound);
                if (judgeInterp && e > bound) { std::ostringstream m; m.precision(6); m << "interpolated state at t=" << pbt::str(t) << " inside step [" << pbt::str(tStep0) << "," << pbt::str(t1) << "] has error " << e << " > bound " << bound << " (end-point errors " << eStep0 << ", " << e1 << "; interpolation remainder " << rem << ")"; r.fail = m.str(); return r; }
            } else {
                r.worstStep = std::max(r.worstStep, e); tStep0 = t; eStep0 = e;
            }
            if (st == Integrator::ReachedReportTime && t >= report) ++gi;
        }
        r.steps = ig->getNumStepsTaken(); r.ok = true;
    } catch (const std::exception& e) { r.reject = std::string("integrator-exception: ") + std::string(e.what()).substr(0, 120); }
    return r;
}

// One integration straight to a final time t0+Tend (setFinalTime; plain stepTo, no return-every-step); error of the state at the end
bool runFinal(int integ, const anasys::Spec& spec, double acc, bool infNorm, double Tend, double& err, std::string& fail, std::string& reject) {
    anasys::AnaSystem sys(spec); anasys::Solution sol(spec); State s0 = sys.initialState();
    std::unique_ptr<Integrator> ig = makeInteg(integ, sys, 0.01);
    ig->setAccuracy(acc); if (infNorm) ig->setUseInfinityNorm(true); ig->setFinalTime(spec.t0 + Tend);
    const double S = std::max(1.0, sol.scale(spec.t0 + Tend));
    try {
        ig->initialize(s0); int guard = 0;
        while (ig->getTime() < spec.t0 + Tend) { if (++guard > 100000) { fail = "no progress towards the final time"; return false; } ig->stepTo(spec.t0 + Tend); }
        if (ig->getTime() != spec.t0 + Tend) { fail = "stopped at t=" + pbt::str(ig->getTime()) + " instead of the final time " + pbt::str(spec.t0 + Tend); return false; }
        err = scaledErr(anasys::AnaSystem::yOf(ig->getState()), sol.eval(ig->getTime()), S);
        if (!std::isfinite(err)) { fail = "non-finite state at the final time"; return false; }
    } catch (const std::exception& e) { reject = std::string("integrator-exception: ") + std::string(e.what()).substr(0, 120); return false; }
    return true;
}

// fixed-step run to t0+T exactly (N steps of size h); returns scaled error at the end
bool runFixed(int integ, const anasys::Spec& spec, double h, int N, std::vector<double>& err, std::string& why) {
    anasys::AnaSystem sys(spec); anasys::Solution sol(spec); State s0 = sys.initialState();
    std::unique_ptr<Integrator> ig = makeInteg(integ, sys, h);
    if (integ != 6) ig->setFixedStepSize(h);
    ig->setAllowInterpolation(false);
    const double T = N * h, S = std::max(1.0, sol.scale(spec.t0 + T));
    try {
        ig->initialize(s0); int guard = 0;
        while (ig->getTime() < spec.t0 + T) { if (++guard > 100000) { why = "no progress"; return false; } ig->stepTo(spec.t0 + T); }
        if (ig->getNumStepsTaken() != N) { why = "took " + std::to_string(ig->getNumStepsTaken()) + " steps instead of " + std::to_string(N); return false; }
        std::vector<double> y = anasys::AnaSystem::yOf(ig->getState()), ye = sol.eval(ig->getTime()); err.resize(y.size());
        for (size_t i = 0; i < y.size(); ++i) err[i] = (y[i] - ye[i]) / S;
    } catch (const std::exception& e) { why = std::string("exception: ") + std::string(e.what()).substr(0, 120); return false; }
    return true;
}

struct Case { int integ; bool infNorm; int mode; double accExp, T; anasys::Spec spec; std::vector<double> grid; bool hasOsc; int dim; double hFixed; };

Case decode(const pbt::Tape& t) {
    Case c; pbt::Reader g(t[0]);
    c.integ = g.pick(10); { static const char* force = getenv("C20_INTEG"); if (force) c.integ = atoi(force); }
    c.infNorm = g.chance(1, 3);
    // 0: accuracy ladder (return-every-step, interpolated reports judged), 1: fixed-step order, 2: ladder with interpolation OFF and
    // near-coincident reports, 3: ladder with interpolation OFF on an irregular report grid, plain stepTo (CPodes: a stop time at every
    // report), 4: setFinalTime on short intervals, plain stepTo straight to the end (several end times)
    { int m = g.pick(10); c.mode = (m == 1 || m == 7) ? 1 : m == 2 ? 2 : (m == 3 || m == 8) ? 3 : (m == 4 || m == 9) ? 4 : 0; }
    { static const char* fm = getenv("C20_MODE"); if (fm) c.mode = atoi(fm); }   // calibration aid only
    if (c.integ == 6) c.mode = 1;                          // SemiExplicitEuler has no error control
    if (c.integ >= 8 && c.mode == 1) c.mode = 3;           // CPodes is variable order: no fixed-step order clause
    { uint32_t w = g.w(); c.accExp = 2 + (w % 5001) / 1000.0; }           // acc = 10^-accExp in [1e-7, 1e-2]; ladder adds /100
    if (c.integ == 5 || c.integ == 7) c.accExp = 2 + (c.accExp - 2) * 0.6;   // first-order methods: [1e-5, 1e-2] (cost)
    c.T = 0.5 + 2.5 * g.unit(); if (c.T < 0.5) c.T = 0.5;
    uint32_t gridSeed = g.w(); uint32_t icSeed = g.w(); Lcg L(icSeed);
    // units -> components
    anasys::Spec& s = c.spec; int nOsc = 0, nPend = 0; c.hasOsc = false;
    for (size_t k = 1; k < t.size(); ++k) {
        pbt::Reader r(t[k]); int kind = r.pick(6);
        if (kind == 0 && s.nz() + 2 <= 8) { anasys::Block b; b.pair = true; b.a = -r.real(0, 2); b.a = -std::abs(b.a); b.w = r.logreal(0.5, 12); s.blocks.push_back(b); c.hasOsc = true; }
        else if (kind == 1 && s.nz() + 1 <= 8) { anasys::Block b; b.pair = false; b.a = -r.logreal(0.1, 10); b.w = 0; s.blocks.push_back(b); }
        else if (kind == 2 && nOsc < 2) { anasys::Osc o; o.omega = r.logreal(0.5, 12); s.oscs.push_back(o); s.q0.push_back(r.real(-1.5, 1.5)); s.u0.push_back(r.real(-2, 2)); if (s.q0.back() == 0 && s.u0.back() == 0) s.q0.back() = 1; ++nOsc; c.hasOsc = true; }
        else if (kind == 3 && nPend < 1) { anasys::Pend p; p.omega0 = r.logreal(0.5, 6); p.amp = 0.1 + 2.4 * r.unit(); p.phase = 6.0 * r.unit(); s.pends.push_back(p); ++nPend; c.hasOsc = true; }
        else if (kind == 4 && s.nz() + 1 <= 8) { anasys::Block b; b.pair = false; b.a = -r.logreal(10, 200 / c.T); b.w = 0; s.blocks.push_back(b); }   // mildly stiff: |lambda| T <= 200
        else if (kind == 5 && s.nz() >= 2) { anasys::Givens gv; gv.i = r.pick(s.nz()); gv.j = (gv.i + 1 + r.pick(s.nz() - 1)) % s.nz(); gv.th = r.angle(); s.mix.push_back(gv); }
    }
    if (s.ny() == 0) { anasys::Osc o; o.omega = 2; s.oscs.push_back(o); s.q0.push_back(1); s.u0.push_back(0); c.hasOsc = true; }
    for (int i = 0; i < s.nz(); ++i) s.z0.push_back(icSeed == 0 ? 1.0 : -2 + 4 * L.u());
    c.dim = s.ny();
    Lcg G(gridSeed); int nrep = 2 + (int)(G.u() * 7);
    for (int i = 0; i < nrep; ++i) c.grid.push_back(s.t0 + c.T * G.u());
    if (c.mode == 2) { size_t n0 = c.grid.size(); for (size_t i = 0; i < n0; ++i) if (G.u() < 0.6) { double d = std::pow(10.0, -12 + 6 * G.u()); if (c.grid[i] + d < s.t0 + c.T) c.grid.push_back(c.grid[i] + d); } }
    c.grid.push_back(s.t0 + c.T); std::sort(c.grid.begin(), c.grid.end());
    c.hFixed = 0.15 / std::max(1.0, s.maxRate()) * (0.5 + g.unit());
    return c;
}

void property(const pbt::Tape& t, pbt::Ctx& ctx) {
    static const bool calib = getenv("C20_CALIB") != nullptr;
    Case c = decode(t); const anasys::Spec& spec = c.spec; const double rho = spec.maxRate();
    if (ctx.wantDesc) ctx.desc << "integrator=" << integName(c.integ) << " mode=" << (c.mode == 1 ? "fixed-step-order" : c.mode == 2 ? "accuracy-ladder/no-interpolation/near-coincident-reports" : c.mode == 3 ? "accuracy-ladder/no-interpolation/plain-stepTo-grid" : c.mode == 4 ? "final-time/short-intervals" : "accuracy-ladder") << " acc=1e-" << c.accExp << " infNorm=" << c.infNorm << " T=" << c.T << " reports=" << c.grid.size() << "\nsystem: " << spec.describe() << "\n";
    ctx.label(std::string("integ:") + integName(c.integ));
    if (!spec.pends.empty()) ctx.label("sys:pendulum"); if (!spec.oscs.empty()) ctx.label("sys:oscillator"); if (!spec.mix.empty()) ctx.label("sys:mixed");
    { bool stiff = false, osc = false; for (auto& b : spec.blocks) { if (!b.pair && b.a <= -10) stiff = true; if (b.pair) osc = true; } if (stiff) ctx.label("sys:stiff-block"); if (osc) ctx.label("sys:oscillatory-block"); }
    ctx.label(std::string("dim:") + (c.dim <= 1 ? "1" : c.dim <= 4 ? "2-4" : "5+"));

    if (c.mode == 1) {
        // ---------------------------------------------------------------- (D) order of fixed-step runs
        ctx.label("mode:fixed-step-order");
        std::unique_ptr<Integrator> probe; anasys::AnaSystem psys(spec); probe = makeInteg(c.integ, psys, 0.01);
        const int p = probe->getMethodMinOrder();
        int N = std::max(4, (int)std::ceil(c.T / c.hFixed)); if (N > 4000) N = 4000; const double h = c.hFixed;
        std::vector<double> d[4]; double e[4]; std::string why;
        for (int k = 0; k < 4; ++k) {
            if (!runFixed(c.integ, spec, h / (1 << k), N << k, d[k], why)) {
                if (why.rfind("took", 0) == 0 || why == "no progress") { ctx.fail(std::string(integName(c.integ)) + " fixed step " + pbt::str(h / (1 << k)) + ": " + why); return; }
                ctx.reject("fixed-run-exception"); if (ctx.wantDesc) ctx.desc << why << "\n"; return; }
            e[k] = 0; for (double v : d[k]) e[k] = std::max(e[k], std::abs(v));
        }
        // the component that dominates the error at the finest step; its SIGNED error must keep its sign over the three finest
        // levels (a sign change means two error terms of different order still compete: not the asymptotic range)
        size_t im = 0; for (size_t i = 0; i < d[3].size(); ++i) if (std::abs(d[3][i]) > std::abs(d[3][im])) im = i;
        const double a1 = d[1][im], a2 = d[2][im], a3 = d[3][im];
        const bool sameSign = (a1 > 0 && a2 > 0 && a3 > 0) || (a1 < 0 && a2 < 0 && a3 < 0);
        double o2 = sameSign ? std::log2(a1 / a2) : 0, o3 = sameSign ? std::log2(a2 / a3) : 0;
        if (ctx.wantDesc) ctx.desc << "h=" << h << " N=" << N << " max errors " << e[0] << " " << e[1] << " " << e[2] << " " << e[3] << "; dominant component " << im << " signed errors at h/2,h/4,h/8: " << a1 << " " << a2 << " " << a3 << " observed orders " << o2 << " " << o3 << " documented min order " << p << "\n";
        bool asym = sameSign && std::abs(a3) > 1e-10 && e[0] < 0.02 && std::abs(o2 - o3) < 0.15;
        if (calib) fprintf(stderr, "CALD %s %d %.3f %.3f %.3f %g %d\n", integName(c.integ), p, 0.0, o2, o3, e[0], (int)asym);
        if (!asym) { ctx.label("order:not-asymptotic"); return; }
        ctx.label("order:judged"); ctx.nontrivial(c.dim >= 2 && c.hasOsc);
        int pj = p;
        // known finding rkf-order-documented-5-actual-4: RungeKuttaFeldbergIntegrator propagates the 4th-order solution of the
        // RKF4(5) pair but documents itself (header, getMethodMinOrder/MaxOrder) as fifth order; while listed the convergence
        // clause is judged against order 4 (so a further loss of order is still caught)
        if (c.integ == 3 && p == 5 && ctx.known("rkf-order-documented-5-actual-4")) { pj = 4; ctx.label("excluded:rkf-order-documented-5-actual-4"); }
        if (!calib) ctx.check(o3 >= pj - OrderSlack, std::string(integName(c.integ)) + ": observed order " + pbt::str(o3) + " from step halving (errors " + pbt::str(e[1]) + ", " + pbt::str(e[2]) + ", " + pbt::str(e[3]) + " at h/2, h/4, h/8, h=" + pbt::str(h) + ") is below the documented order " + std::to_string(p) + (pj != p ? " (judged against 4)" : ""));
        return;
    }
    const double acc0 = std::pow(10.0, -c.accExp), acc1 = acc0 / 100; const Law law = lawOf(c.integ);
    if (c.mode == 4) {
        // ---------------------------------------------------------------- (A)(B) at a final time, short intervals
        ctx.label("mode:final-time-short"); if (c.integ >= 8) ctx.label("cpodes:final-time");
        std::vector<double> ends; for (double tg : c.grid) { double Te = tg - spec.t0; if (Te >= 0.05 && (ends.empty() || Te > ends.back())) ends.push_back(Te); }
        if (ends.size() > 6) ends.erase(ends.begin(), ends.end() - 6);
        double worst0 = 0, worst1 = 0;
        for (double Te : ends) {
            double e0 = 0, e1 = 0; std::string fail, rej;
            for (int k = 0; k < 2; ++k) {
                if (!runFinal(c.integ, spec, k ? acc1 : acc0, c.infNorm, Te, k ? e1 : e0, fail, rej)) {
                    if (!rej.empty()) { ctx.reject(rej.substr(0, 20)); if (ctx.wantDesc) ctx.desc << rej << "\n"; return; }
                    ctx.fail(std::string(integName(c.integ)) + " final time " + pbt::str(Te) + " acc=" + pbt::str(k ? acc1 : acc0) + ": " + fail); return; }
            }
            const double g = 1 + rho * Te, b0 = law.C * g * std::pow(acc0, law.expo), b1 = law.C * g * std::pow(acc1, law.expo);
            worst0 = std::max(worst0, e0 / b0 * law.C); worst1 = std::max(worst1, e1 / b1 * law.C);
            if (ctx.wantDesc) ctx.desc << "final time t0+" << Te << ": error " << e0 << " at acc " << acc0 << " (bound " << b0 << "), " << e1 << " at acc " << acc1 << " (bound " << b1 << ")\n";
            if (calib) continue;
            if (!ctx.check(e0 <= b0, std::string(integName(c.integ)) + ": error " + pbt::str(e0) + " at the final time t0+" + pbt::str(Te) + " at accuracy " + pbt::str(acc0) + " exceeds C(1+rho T)acc^e = " + pbt::str(b0))) return;
            if (!ctx.check(e1 <= b1, std::string(integName(c.integ)) + ": error " + pbt::str(e1) + " at the final time t0+" + pbt::str(Te) + " at accuracy " + pbt::str(acc1) + " exceeds C(1+rho T)acc^e = " + pbt::str(b1))) return;
            if (!ctx.check(e1 <= std::max(10 * e0, std::max(1e-10 * g, 0.1 * b1)), std::string(integName(c.integ)) + ": final time t0+" + pbt::str(Te) + ": tightening the accuracy from " + pbt::str(acc0) + " to " + pbt::str(acc1) + " made the error worse: " + pbt::str(e0) + " -> " + pbt::str(e1))) return;
        }
        if (calib) fprintf(stderr, "CAL4 %s %.3f %g %g %d\n", integName(c.integ), c.accExp, worst0, worst1, (int)ends.size());
        ctx.nontrivial(c.dim >= 2 && c.hasOsc && acc1 <= 1e-5);
        return;
    }
    // -------------------------------------------------------------------- (A)(B)(C) accuracy ladder
    ctx.label(c.mode == 2 ? "mode:ladder-nointerp-tiny-gaps" : c.mode == 3 ? "mode:ladder-nointerp-grid" : "mode:accuracy-ladder");
    if (c.mode == 3 && c.integ >= 8) ctx.label("cpodes:no-interp");
    RunResult r0 = runOnce(c.integ, spec, acc0, c.infNorm, c.grid, c.T, !calib, c.mode != 2 && c.mode != 3, c.mode != 3);
    if (!r0.reject.empty()) { ctx.reject(r0.reject.substr(0, 20)); if (ctx.wantDesc) ctx.desc << r0.reject << "\n"; return; }
    if (!r0.fail.empty()) { ctx.fail(std::string(integName(c.integ)) + " acc=" + pbt::str(acc0) + ": " + r0.fail); return; }
    RunResult r1 = runOnce(c.integ, spec, acc1, c.infNorm, c.grid, c.T, !calib, c.mode != 2 && c.mode != 3, c.mode != 3);
    if (!r1.reject.empty()) { ctx.reject(r1.reject.substr(0, 20)); if (ctx.wantDesc) ctx.desc << r1.reject << "\n"; return; }
    if (!r1.fail.empty()) { ctx.fail(std::string(integName(c.integ)) + " acc=" + pbt::str(acc1) + ": " + r1.fail); return; }
    const double g = 1 + rho * c.T;
    const double b0 = law.C * g * std::pow(acc0, law.expo), b1 = law.C * g * std::pow(acc1, law.expo);
    if (ctx.wantDesc) ctx.desc << "acc=" << acc0 << ": worst step error " << r0.worstStep << " (bound " << b0 << "), worst interpolated " << r0.worstInterp << " (" << r0.nInterp << " of " << r0.nStates << " states), steps " << r0.steps
                               << "\nacc=" << acc1 << ": worst step error " << r1.worstStep << " (bound " << b1 << "), worst interpolated " << r1.worstInterp << " (" << r1.nInterp << " of " << r1.nStates << " states), steps " << r1.steps << "\n";
    if (calib) fprintf(stderr, c.mode == 3 ? "CAL3 %s %.3f %g %g %g %g %g %g %d\n" : c.mode == 2 ? "CALN %s %.3f %g %g %g %g %g %g %d\n" : "CALA %s %.3f %g %g %g %g %g %g %d\n", integName(c.integ), c.accExp, g, r0.worstStep, r1.worstStep, r0.worstInterpRatio, r1.worstInterpRatio, rho, (int)c.infNorm);
    if (r0.nInterp + r1.nInterp > 0) ctx.label("interpolated-states-judged");
    ctx.nontrivial(c.dim >= 2 && c.hasOsc && acc1 <= 1e-5);
    if (calib) return;
    // known finding cpodes-adams-tiny-step-accuracy-loss: CPodes/Adams with interpolation disallowed is forced to take a step
    // of the size of the gap between two nearly coincident report times; the following rescaling of its Nordsieck history
    // destroys the accuracy (errors 1e2..1e5 x the request). Site: CPodes Adams in the no-interpolation / tiny-gap mode.
    if (c.integ == 9 && c.mode == 2 && ctx.known("cpodes-adams-tiny-step-accuracy-loss")) { ctx.label("excluded:cpodes-adams-tiny-step-accuracy-loss"); return; }
    if (!ctx.check(r0.worstStep <= b0, std::string(integName(c.integ)) + ": global error " + pbt::str(r0.worstStep) + " at accuracy " + pbt::str(acc0) + " exceeds C(1+rho T)acc^e = " + pbt::str(b0))) return;
    if (!ctx.check(r1.worstStep <= b1, std::string(integName(c.integ)) + ": global error " + pbt::str(r1.worstStep) + " at accuracy " + pbt::str(acc1) + " exceeds C(1+rho T)acc^e = " + pbt::str(b1))) return;
    const double floorE = std::max(1e-10 * g, 0.1 * b1);   // an error far inside its own bound is not "substantially worse"
    ctx.check(r1.worstStep <= std::max(10 * r0.worstStep, floorE), std::string(integName(c.integ)) + ": tightening the accuracy from " + pbt::str(acc0) + " to " + pbt::str(acc1) + " made the global error worse: " + pbt::str(r0.worstStep) + " -> " + pbt::str(r1.worstStep));
}

pbt::Config config() {
    pbt::Config c; c.prop = "C20"; c.K = 8; c.minUnits = 1; c.caseTimeoutSecs = 120;
    c.quick = {150, 1500, 12, 9}; c.thorough = {1000, 12000, 12, 100};
    c.rule = "rapidcheck tape -> integrator (RK Merson, RK3, RK2, RK Feldberg, Verlet, ExplicitEuler, SemiExplicitEuler, SemiExplicitEuler2, CPodes BDF, CPodes Adams) x norm (RMS/inf) x accuracy 1e-2..1e-7 (first-order methods 1e-2..1e-5), each also at accuracy/100 x horizon T in [0.5,3] x analytic system built from the tape units: oscillatory 2x2 blocks (a in [-2,0], w in [0.5,12]), real decaying blocks (0.1..10), mildly stiff real blocks (10..200/T), Givens mixing, <= 2 harmonic oscillators, <= 1 librating pendulum (amplitude 0.1..2.5 rad), dimension 1..12 x random report grid of 3..9 times (interpolated reports judged). Modes: accuracy ladder with return-every-step (2 runs), ladder with interpolation off and report pairs 1e-12..1e-6 apart (2 runs), ladder with interpolation off on the irregular report grid with plain stepTo (2 runs; for CPodes every report is a stop time), setFinalTime on short intervals 0.05..3 with plain stepTo straight to the end (up to 6 end times x 2 accuracies), fixed-step convergence (4 runs h, h/2, h/4, h/8). Non-trivial: dimension >= 2 with an oscillatory component, and (ladder) tighter accuracy <= 1e-5 or (fixed step) asymptotic range reached.";
    c.assumptions = {"closed-form solutions of gen/anasys.h (block exponentials, harmonic oscillator, Jacobi elliptic functions; pendulum form self-checked against long double RK4 in a directed case)",
                     "error norm: max_i |y_i - yexact_i| / max(1, amplitude scale): the integrators control error relative to max(|y_i|, 1)",
                     "global error law C_int (1 + rho T) acc^e_int with frozen constants (calibration table in notes/C20.md, >= 10x margin); a degradation smaller than that margin is invisible",
                     "interpolated states judged with the interpolation-theory remainder (h^4/384 max|d4y/dt4| for cubic Hermite, h^2/8 max|d2y/dt2| for the linear interpolation of ExplicitEuler) evaluated on the exact solution"};
    c.requiredLabels = {"integ:RungeKuttaMerson", "integ:RungeKutta3", "integ:RungeKutta2", "integ:RungeKuttaFeldberg", "integ:Verlet", "integ:ExplicitEuler", "integ:SemiExplicitEuler", "integ:SemiExplicitEuler2", "integ:CPodesBDF", "integ:CPodesAdams",
                        "mode:accuracy-ladder", "mode:ladder-nointerp-tiny-gaps", "mode:ladder-nointerp-grid", "mode:final-time-short", "cpodes:no-interp", "cpodes:final-time", "mode:fixed-step-order", "order:judged", "interpolated-states-judged", "sys:pendulum", "sys:oscillator", "sys:stiff-block", "sys:oscillatory-block", "sys:mixed"};
    c.directed.push_back({"oracle-selfcheck-pendulum-closed-form", "", [](pbt::Ctx& ctx) {
        double worst = 0; for (double amp : {0.3, 1.0, 2.0, 2.5}) for (double w0 : {0.7, 3.0}) { anasys::Pend p{w0, amp, 1.3}; worst = std::max(worst, anasys::selfCheckPendulum(p, 3.0, 60000)); }
        ctx.desc << "pendulum closed form vs long double RK4 (60000 steps over T=3): max deviation " << worst << "\n";
        ctx.check(worst < 1e-9, "the harness's own pendulum reference disagrees with RK4 by " + pbt::str(worst));
    }});
    c.directed.push_back({"rkf-order-documented-5-actual-4", "rkf-order-documented-5-actual-4", [](pbt::Ctx& ctx) {
        anasys::Spec s; s.oscs.push_back({2.0}); s.q0.push_back(1.0); s.u0.push_back(0.5); std::vector<double> d[3]; std::string why;
        for (int k = 0; k < 3; ++k) if (!runFixed(3, s, 0.1 / (1 << k), 20 << k, d[k], why)) { ctx.fail("fixed-step run failed: " + why); return; }
        anasys::AnaSystem sys(s); RungeKuttaFeldbergIntegrator ig(sys); int p = ig.getMethodMinOrder();
        double o = std::log2(std::abs(d[1][0]) / std::abs(d[2][0]));
        ctx.desc << "RungeKuttaFeldberg fixed steps 0.1, 0.05, 0.025 on q''=-4q over T=2: errors in q " << d[0][0] << " " << d[1][0] << " " << d[2][0] << " observed order " << o << ", getMethodMinOrder() = " << p << "\n";
        ctx.check(o >= p - OrderSlack, "observed order of convergence " + pbt::str(o) + " but getMethodMinOrder() says " + std::to_string(p));
    }});
    c.directed.push_back({"cpodes-adams-tiny-step-accuracy-loss", "cpodes-adams-tiny-step-accuracy-loss", [](pbt::Ctx& ctx) {
        double err[2];
        for (int k = 0; k < 2; ++k) {
            anasys::Spec s; s.oscs.push_back({6.0}); s.q0.push_back(1.0); s.u0.push_back(0.0); s.oscs.push_back({1.2}); s.q0.push_back(1.0); s.u0.push_back(-0.5);
            anasys::AnaSystem sys(s); anasys::Solution sol(s); State s0 = sys.initialState();
            CPodesIntegrator ig(sys, CPodes::Adams); ig.setAccuracy(1e-7); ig.setAllowInterpolation(false); ig.initialize(s0);
            ig.stepTo(0.0); for (int i = 1; i <= 12; ++i) ig.stepTo(0.25 * i); if (k == 1) ig.stepTo(3.0 + 2e-11); ig.stepTo(3.15);
            err[k] = scaledErr(anasys::AnaSystem::yOf(ig.getState()), sol.eval(ig.getTime()), 6.0);
        }
        ctx.desc << "CPodes Adams, accuracy 1e-7, interpolation off, two oscillators: scaled error at t=3.15 without / with an extra report at 3+2e-11: " << err[0] << " / " << err[1] << "\n";
        ctx.check(err[1] <= std::max(100 * err[0], 1e-5), "a report 2e-11 after another one raised the global error at t=3.15 from " + pbt::str(err[0]) + " to " + pbt::str(err[1]) + " (requested accuracy 1e-7)");
    }});
    return c;
}
} // namespace

PBT_MAIN(config(), property)
