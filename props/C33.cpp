// VERIF-TREES: tsan
// C33 -- Parallel executors run every task exactly once, safely (DESIGN.md section 5, C33).
//
// Domain: ParallelExecutor (threads 1..32, task counts 0..10000, repeated execute on one
// executor, clone, immediate destruction), Parallel2DExecutor (grid 0..128, processors 1..32,
// three range types, own or supplied executor, repeated execute), ParallelWorkQueue (queue size
// 1..64, threads 1..16, one producer adding 0..2000 tasks with flushes at generated points,
// destruction after a flush, or without flush in a constructed state: all workers busy + backlog queued /
// some workers busy + queue drained).  A generated *schedule tape* injects yields, bounded
// spins and short sleeps inside the Task callbacks (user code) and -- main tree only -- at the
// libc condition-variable calls made by the library (interposed pthread_cond_wait/signal/
// broadcast/join: no change to the library).
//
// Oracle (schedule independent; all harness instrumentation uses relaxed atomics so that it adds
// no happens-before edge that could hide a library race from ThreadSanitizer):
//   exactly-once counts per index / (i,j) / queue task, per worker initialize < execute* < finish,
//   finish() calls never overlap (flag + plain read-modify-write of a shared total), execute()
//   returns after every finish (count + total), 2-D: no two invocations sharing an index are in
//   flight together (in-use table) + COMPLETE enumeration of grid 0..128 x processors 1..32 x 3
//   range types with the pass of every invocation observed (directed case, main tree), queue:
//   executed-then-deleted exactly once, flush() and the destructor wait for completion, capacity
//   bound; proven deadlock (every thread of the process blocked in cond_wait/join, no wake-up for
//   10 s) is a violation, a mere watchdog expiry is inconclusive.  tsan tree: any ThreadSanitizer
//   report aborts the shard (exit 66) which the driver turns into a violation.
#include "pbt.h"
#include "SimTKcommon.h"
#include <atomic>
#include <thread>
#include <memory>
#include <cstdarg>
#include <dirent.h>
#include <dlfcn.h>
#include <pthread.h>
#include <sched.h>
#include <spawn.h>
#include <sys/wait.h>
#include <sys/syscall.h>
using namespace SimTK;

#if defined(__SANITIZE_THREAD__)
#  define C33_TSAN 1
#elif defined(__has_feature)
#  if __has_feature(thread_sanitizer)
#    define C33_TSAN 1
#  endif
#endif
#ifndef C33_TSAN
#  define C33_TSAN 0
#endif
#if C33_TSAN
extern "C" void __sanitizer_set_death_callback(void (*)(void));
#endif
extern char** environ;

namespace {
const auto RLX = std::memory_order_relaxed;
const int MAXSLOT = 96;

// ------------------------------------------------------------------ schedule tape
struct Rule { int site, mod, res, action, mag; };
struct Sched { uint32_t seed = 0; int density = 0; int stride = 1; std::vector<Rule> rules; };   // stride: thins per-invocation injections for large task counts
Sched g_sched;                              // written by the main thread before the library is entered
std::atomic<long> g_injected{0}, g_sleepBudget{0};
std::atomic<unsigned> g_sink{0};

inline uint32_t mix(uint32_t a, uint32_t b, uint32_t c) {
    uint64_t h = 0x9E3779B97F4A7C15ull ^ a; h = (h ^ b) * 0xff51afd7ed558ccdULL; h ^= h >> 33;
    h = (h ^ c) * 0xc4ceb9fe1a85ec53ULL; h ^= h >> 29; return (uint32_t)(h ^ (h >> 32));
}
void doAction(int action, int mag) {
    switch (action) {
        case 1: for (int k = 0; k < mag; ++k) sched_yield(); break;
        case 2: { unsigned s = 0; for (int k = 0; k < mag * 400; ++k) s += k; g_sink.store(s, RLX); } break;
        case 3: if (g_sleepBudget.fetch_sub(1, RLX) > 0) usleep(20 * mag); else sched_yield(); break;
        default: return;
    }
    g_injected.fetch_add(1, RLX);
}
// sites: 0 initialize, 1 execute (entry), 2 execute (between read and write), 3 finish (entry), 4 finish (between
// read and write), 5 before cond_wait, 6 after cond_wait, 7 before signal/broadcast, 8 main thread between operations
void perturb(int site, int key) {
    const Sched& s = g_sched; const int stride = (site == 1 || site == 2) ? s.stride : 1;
    for (const Rule& r : s.rules) if (r.site == site && key % (r.mod * stride) == r.res) doAction(r.action, r.mag);
    if (s.density) { uint32_t h = mix(s.seed, (uint32_t)site, (uint32_t)key); if ((int)(h & 63) < s.density && (h >> 12) % (uint32_t)stride == 0) doAction(1 + (h >> 6) % 2, 1 + (h >> 8) % 8); }
}

// ------------------------------------------------------------------ worker-side error channel and thread slots
std::atomic<int> g_errFlag{0}; char g_errMsg[400];
void werr(const char* fmt, ...) {
    if (g_errFlag.exchange(1, RLX) != 0) return;
    va_list ap; va_start(ap, fmt); vsnprintf(g_errMsg, sizeof g_errMsg, fmt, ap); va_end(ap);
    g_errFlag.store(2, RLX);
}
int g_caseId = 0; std::atomic<int> g_nslots{0};
thread_local int tl_case = -1, tl_slot = 0, tl_hookKey = 0; thread_local bool tl_isMain = false;
int slot() {
    if (tl_case != g_caseId) { tl_case = g_caseId; tl_slot = g_nslots.fetch_add(1, RLX); tl_hookKey = 0;
        if (tl_slot >= MAXSLOT) { werr("more than %d distinct threads ran callbacks in one case", MAXSLOT); tl_slot = MAXSLOT - 1; } }
    return tl_slot;
}

// ------------------------------------------------------------------ libc interposition (main tree only)
std::atomic<bool> g_active{false}, g_inLib{false};
std::atomic<long> g_parked{0}, g_events{0}, g_epoch{0};
const char* g_op = "";                       // what the main thread is doing (for messages)
uint64_t g_curHash = 0;
#if !C33_TSAN
// Threads that exist before the first case (the BLAS pool of the library's dependencies) also sleep in pthread_cond_wait;
// they never take part in the executors' protocol and are left out of the parked-thread accounting (by thread id).
pid_t g_baseTid[128]; int g_nBaseTid = 0; thread_local int tl_counted = 0;   // 0 unknown, 1 counted (main or created later), 2 baseline
inline bool counted() {
    if (tl_counted == 0) { tl_counted = 1; if (!tl_isMain) { pid_t me = (pid_t)syscall(SYS_gettid); for (int i = 0; i < g_nBaseTid; ++i) if (g_baseTid[i] == me) tl_counted = 2; } }
    return tl_counted == 1;
}
typedef int (*cw_t)(pthread_cond_t*, pthread_mutex_t*); typedef int (*cs_t)(pthread_cond_t*); typedef int (*pj_t)(pthread_t, void**);
cw_t real_cw; cs_t real_cs, real_cb; pj_t real_pj;
void resolveReal() {
    real_cw = (cw_t)dlvsym(RTLD_NEXT, "pthread_cond_wait", "GLIBC_2.3.2"); if (!real_cw) real_cw = (cw_t)dlsym(RTLD_NEXT, "pthread_cond_wait");
    real_cs = (cs_t)dlvsym(RTLD_NEXT, "pthread_cond_signal", "GLIBC_2.3.2"); if (!real_cs) real_cs = (cs_t)dlsym(RTLD_NEXT, "pthread_cond_signal");
    real_cb = (cs_t)dlvsym(RTLD_NEXT, "pthread_cond_broadcast", "GLIBC_2.3.2"); if (!real_cb) real_cb = (cs_t)dlsym(RTLD_NEXT, "pthread_cond_broadcast");
    real_pj = (pj_t)dlsym(RTLD_NEXT, "pthread_join");
}
#endif
} // namespace

#if !C33_TSAN
extern "C" int pthread_cond_wait(pthread_cond_t* c, pthread_mutex_t* m) {
    if (!real_cw) resolveReal();
    if (!g_active.load(RLX) || !counted()) return real_cw(c, m);
    perturb(5, tl_hookKey++);
    g_events.fetch_add(1, RLX); g_parked.fetch_add(1, RLX);
    int r = real_cw(c, m);
    g_parked.fetch_sub(1, RLX); g_events.fetch_add(1, RLX);
    perturb(6, tl_hookKey++);
    return r;
}
extern "C" int pthread_cond_signal(pthread_cond_t* c) {
    if (!real_cs) resolveReal();
    if (!g_active.load(RLX)) return real_cs(c);
    perturb(7, tl_hookKey++); g_events.fetch_add(1, RLX);
    return real_cs(c);
}
extern "C" int pthread_cond_broadcast(pthread_cond_t* c) {
    if (!real_cb) resolveReal();
    if (!g_active.load(RLX)) return real_cb(c);
    perturb(7, tl_hookKey++); g_events.fetch_add(1, RLX);
    if (tl_isMain) g_epoch.fetch_add(1, RLX);     // one broadcast of the calling thread per ParallelExecutor::execute = one pass
    return real_cb(c);
}
extern "C" int pthread_join(pthread_t th, void** ret) {
    if (!real_pj) resolveReal();
    if (!g_active.load(RLX)) return real_pj(th, ret);
    g_events.fetch_add(1, RLX); g_parked.fetch_add(1, RLX);
    int r = real_pj(th, ret);
    g_parked.fetch_sub(1, RLX); g_events.fetch_add(1, RLX);
    return r;
}
#endif

namespace {
#if !C33_TSAN
int g_baseTasks = 1;   // threads existing before the first case (main + e.g. the BLAS pool), never involved in the executors' protocol
int countTasks(bool record = false) {
    int n = 0; if (record) g_nBaseTid = 0;
    if (DIR* d = opendir("/proc/self/task")) { while (dirent* e = readdir(d)) if (e->d_name[0] != '.') { ++n; if (record && g_nBaseTid < 128) g_baseTid[g_nBaseTid++] = (pid_t)atol(e->d_name); } closedir(d); }
    return n;
}
// Deadlock monitor: a violation is reported only when EVERY thread of the process other than this monitor is inside
// pthread_cond_wait / pthread_join (so nobody is left who could ever signal) while the main thread is inside a library
// call, and no thread entered or left a wait and nothing was signalled for 10 s (margin for wake-ups in flight).
void monitorBody() {
    long lastEv = -1; int stableMs = 0;
    for (;;) {
        usleep(50000);
        if (!g_active.load(RLX) || !g_inLib.load(RLX)) { stableMs = 0; lastEv = -1; continue; }
        long ev = g_events.load(RLX);
        if (ev != lastEv) { lastEv = ev; stableMs = 0; continue; }
        stableMs += 50;
        if (stableMs >= 10000 && stableMs % 500 == 0) {
            long parked = g_parked.load(RLX); int n = countTasks();
            if (const char* dbg = getenv("C33_DEBUG")) { FILE* f = fopen(dbg, "a"); if (f) { fprintf(f, "monitor: stable %d ms, parked=%ld tasks=%d base=%d events=%ld now=%ld\n", stableMs, parked, n, g_baseTasks, ev, g_events.load(RLX)); fclose(f); } }
            if (parked >= 1 && parked == n - g_baseTasks && g_events.load(RLX) == ev) {   // n - baseline(incl. main) - monitor + main
                std::string dir = pbt::verifDir() + "/replays/C33"; mkdir((pbt::verifDir() + "/replays").c_str(), 0755); mkdir(dir.c_str(), 0755);
                char p[600]; snprintf(p, sizeof p, "%s/fail-deadlock-%016llx.tape", dir.c_str(), (unsigned long long)g_curHash);
                pbt::detail::dumpTo(p);
                printf("FAIL property=C33 tape=%s msg=deadlock: all %ld threads of the process (calling thread + workers) are blocked in pthread_cond_wait/pthread_join during %s and nothing was signalled for %d ms -- lost wake-up, nobody left to notify\n", p, parked, g_op, stableMs);
                fflush(stdout); _exit(1);
            }
        }
    }
}
#endif

struct LibCall {   // scope guard around a call into the library made by the main thread
    LibCall(const char* op) { g_op = op; g_inLib.store(true, RLX); }
    ~LibCall() { g_inLib.store(false, RLX); }
};

// ------------------------------------------------------------------ tasks
struct Per { int inits = 0, fins = 0; long execs = 0, localSum = 0; };

struct PexTask : ParallelExecutor::Task {
    int count; bool expectWorker; int straggler = -1; bool slowFinish = false;   // deterministic widening of the two critical windows
    std::vector<std::atomic<unsigned char> > hits; Per per[MAXSLOT];
    std::atomic<int> inFinish{0}, finDone{0}, nInit{0}, execDone{0}; long total = 0;   // total: plain, protected only by the documented finish() synchronisation
    PexTask(int n, bool w) : count(n), expectWorker(w), hits(n) { for (auto& h : hits) h.store(0, RLX); }
    void initialize() override {
        Per& p = per[slot()];
        if (p.inits++) werr("initialize() called twice on one worker thread for one execute()");
        if (p.execs || p.fins) werr("initialize() called after execute()/finish() on the same worker");
        if (ParallelExecutor::isWorkerThread() != expectWorker) werr("isWorkerThread()=%d inside initialize(), expected %d", (int)!expectWorker, (int)expectWorker);
        nInit.fetch_add(1, RLX); perturb(0, tl_slot);
    }
    void execute(int i) override {
        Per& p = per[slot()];
        if (p.inits != 1) werr("execute(%d) on a thread whose initialize() has not run", i);
        if (p.fins) werr("execute(%d) after finish() on the same worker", i);
        if (i < 0 || i >= count) { werr("execute(%d) outside 0..%d", i, count - 1); return; }
        perturb(1, i); if (i == straggler) usleep(300);
        if (hits[i].fetch_add(1, RLX) != 0) werr("index %d of %d executed more than once", i, count);
        p.localSum += i + 1; p.execs++; execDone.fetch_add(1, RLX);
    }
    void finish() override {
        Per& p = per[slot()];
        if (p.inits != 1) werr("finish() on a thread whose initialize() has not run");
        if (p.fins++) werr("finish() called twice on one worker thread for one execute()");
        if (inFinish.exchange(1, RLX) != 0) werr("two finish() calls overlap (documented: all calls to finish are synchronized)");
        perturb(3, tl_slot);
        if (slowFinish) {   // hold finish() open until the other workers are done executing (bounded: 40 x 50 us), i.e. about to call finish() themselves
            for (int k = 0; k < 40 && execDone.load(RLX) < count; ++k) usleep(50);
            usleep(40);
        }
        long cur = total; perturb(4, tl_slot); total = cur + p.localSum;
        inFinish.store(0, RLX); finDone.fetch_add(1, RLX);
    }
};

struct Task2D : Parallel2DExecutor::Task {
    int n; bool expectWorker, enumMode, passCheck; int stragI = -1, stragJ = -1; bool slowFinish = false; std::vector<std::atomic<unsigned char> > cnt; std::vector<std::atomic<int> > inuse; std::vector<std::atomic<uint64_t> > owner;
    std::vector<long> acc;   // plain data indexed by i and j: the documented use case (TSan checks the promised happens-before edge)
    Per per[MAXSLOT]; std::atomic<int> inFinish{0}, finDone{0}, nInit{0}; std::atomic<long> conflicts{0}, passConflicts{0}, execDone{0}; long total = 0, expectTotal = -1, epoch0 = g_epoch.load(RLX);
    Task2D(int n, bool w, bool e) : n(n), expectWorker(w), enumMode(e), passCheck(!C33_TSAN), cnt((size_t)n * n), inuse(n), owner(n), acc(n, 0) {
        for (auto& c : cnt) c.store(0, RLX); for (auto& c : inuse) c.store(0, RLX); for (auto& c : owner) c.store(0, RLX); }
    void initialize() override {
        Per& p = per[slot()];
        if (p.inits++) werr("2D initialize() called twice on one worker thread for one execute()");
        if (p.execs || p.fins) werr("2D initialize() called after execute()/finish() on the same worker");
        nInit.fetch_add(1, RLX); if (!enumMode) perturb(0, tl_slot);
    }
    void execute(int i, int j) override {
        Per& p = per[slot()];
        if (p.inits != 1) werr("2D execute(%d,%d) on a thread whose initialize() has not run", i, j);
        if (p.fins) werr("2D execute(%d,%d) after finish() on the same worker", i, j);
        if (i < 0 || j < 0 || i >= n || j >= n) { werr("2D execute(%d,%d) outside the grid 0..%d", i, j, n - 1); return; }
        if (passCheck) {   // pass of this invocation = number of broadcasts made so far by the thread that called execute()
            uint64_t me = ((uint64_t)(g_epoch.load(RLX) + 1) << 8) | (uint64_t)tl_slot;
            uint64_t a = owner[i].exchange(me, RLX), b = i != j ? owner[j].exchange(me, RLX) : me;
            if (((a >> 8) == (me >> 8) && a != me) || ((b >> 8) == (me >> 8) && b != me)) {
                if (passConflicts.fetch_add(1, RLX) == 0) werr("2D partition: invocation (%d,%d) on worker %d and an invocation on worker %d sharing an index are in the same pass %ld (no happens-before edge between them)", i, j, tl_slot, (int)(((a >> 8) == (me >> 8) && a != me ? a : b) & 255), (long)(me >> 8) - 1 - epoch0);
            }
        }
        if (!enumMode) {
            bool c1 = inuse[i].fetch_add(1, RLX) != 0, c2 = i != j && inuse[j].fetch_add(1, RLX) != 0;
            if (c1 || c2) { if (conflicts.fetch_add(1, RLX) == 0) werr("2D execute(%d,%d): another invocation sharing index %d is running at the same time", i, j, c1 ? i : j); }
            long ai = acc[i]; long aj = acc[j];
            perturb(1, i * 131 + j); if (i == stragI && j == stragJ) usleep(300);
            acc[i] = ai + 1; if (i != j) acc[j] = aj + 1;
            inuse[i].fetch_sub(1, RLX); if (i != j) inuse[j].fetch_sub(1, RLX);
        }
        if (cnt[(size_t)i * n + j].fetch_add(1, RLX) != 0) werr("2D pair (%d,%d) executed more than once", i, j);
        p.execs++; p.localSum += 1; execDone.fetch_add(1, RLX);
    }
    void finish() override {
        Per& p = per[slot()];
        if (p.inits != 1) werr("2D finish() on a thread whose initialize() has not run");
        if (p.fins++) werr("2D finish() called twice on one worker thread for one execute()");
        if (inFinish.exchange(1, RLX) != 0) werr("two 2D finish() calls overlap (documented: all calls to finish are synchronized)");
        if (!enumMode) perturb(3, tl_slot);
        if (slowFinish) { for (int k = 0; k < 40 && execDone.load(RLX) < expectTotal; ++k) usleep(50); usleep(40); }
        long cur = total; if (!enumMode) perturb(4, tl_slot); total = cur + p.localSum;
        inFinish.store(0, RLX); finDone.fetch_add(1, RLX);
    }
};

inline bool inRange(int rt, int i, int j) { return rt == 0 ? true : rt == 1 ? j < i : j <= i; }
const char* rtName(int rt) { return rt == 0 ? "FullMatrix" : rt == 1 ? "HalfMatrix" : "HalfPlusDiagonal"; }
Parallel2DExecutor::RangeType rtOf(int rt) { return rt == 0 ? Parallel2DExecutor::FullMatrix : rt == 1 ? Parallel2DExecutor::HalfMatrix : Parallel2DExecutor::HalfPlusDiagonal; }

// judge one finished 2-D execute(); returns "" or the violation
std::string judge2D(Task2D& t, int grid, int rt, int maxThreads) {
    long want = 0;
    for (int i = 0; i < grid; ++i) for (int j = 0; j < grid; ++j) {
        int w = inRange(rt, i, j) ? 1 : 0, got = t.cnt[(size_t)i * grid + j].load(RLX); want += w;
        if (got != w) return "pair (" + std::to_string(i) + "," + std::to_string(j) + ") executed " + std::to_string(got) + " times, expected " + std::to_string(w);
    }
    int ni = t.nInit.load(RLX), nf = t.finDone.load(RLX), part = 0;
    if (ni != nf) return "execute() returned after " + std::to_string(nf) + " finish() calls for " + std::to_string(ni) + " initialize() calls";
    for (int s = 0; s < MAXSLOT; ++s) { const Per& p = t.per[s]; if (!p.inits && !p.fins && !p.execs) continue; ++part;
        if (p.inits != 1 || p.fins != 1) return "worker " + std::to_string(s) + ": initialize() x" + std::to_string(p.inits) + ", finish() x" + std::to_string(p.fins) + " (each must be called exactly once per worker)"; }
    if (part > std::max(1, maxThreads)) return std::to_string(part) + " threads ran callbacks, more than the " + std::to_string(maxThreads) + " allowed";
    if (ni < 1) return "initialize()/finish() never called";
    if (t.total != want) return "sum of per-worker results recorded in finish() = " + std::to_string(t.total) + ", expected " + std::to_string(want) + " (finish() lost an update or ran after execute() returned)";
    if (!t.enumMode) for (int k = 0; k < grid; ++k) {
        long w = 0; for (int m = 0; m < grid; ++m) { if (inRange(rt, k, m)) ++w; if (m != k && inRange(rt, m, k)) ++w; }
        if (t.acc[k] != w) return "data indexed by " + std::to_string(k) + " updated " + std::to_string(t.acc[k]) + " times, expected " + std::to_string(w) + " (lost update: concurrent invocations shared the index)";
    }
    return "";
}

struct QShared {
    int n, cap; std::vector<std::atomic<unsigned char> > started, done, deleted; std::vector<long> payload; std::atomic<int> nStarted{0};
    std::atomic<int> destroying{0}, gatedStarted{0};   // shutdown-with-backlog scenario: gate tasks keep every worker busy until the producer is about to destroy the queue
    QShared(int n) : n(n), cap(0), started(n), done(n), deleted(n), payload(n, 0) { for (int i = 0; i < n; ++i) { started[i].store(0, RLX); done[i].store(0, RLX); deleted[i].store(0, RLX); } }
};
struct QTask : ParallelWorkQueue::Task {
    QShared& s; int id; bool slow, gated;
    QTask(QShared& s, int id, bool slow, bool gated = false) : s(s), id(id), slow(slow), gated(gated) {}
    ~QTask() override {
        if (s.done[id].load(RLX) != 1) werr("queue task %d deleted without having been executed", id);
        if (s.deleted[id].fetch_add(1, RLX) != 0) werr("queue task %d deleted twice", id);
    }
    void execute() override {
        s.nStarted.fetch_add(1, RLX);
        if (s.started[id].fetch_add(1, RLX) != 0) werr("queue task %d executed more than once", id);
        perturb(1, id); long v = s.payload[id]; perturb(2, id); if (slow) usleep(200);
        if (gated) {   // occupy this worker until the producer announces the destruction (bounded: 500 x 100 us), then long enough for the destructor to have started
            s.gatedStarted.fetch_add(1, RLX);
            for (int k = 0; k < 500 && !s.destroying.load(RLX); ++k) usleep(100);
            usleep(500);
        }
        s.payload[id] = v + 7L * id + 1;
        s.done[id].fetch_add(1, RLX);
    }
};

// ------------------------------------------------------------------ decoding helpers
int decThreads(pbt::Reader& r, int hi) {
    static const int tab[] = {2, 1, 3, 4, 2, 3, 2, 4, 5, 3, 2, 4, 6, 8, 2, 3, 4, 2, 7, 3, 8, 12, 16, 9, 5, 15, 32, 17, 6, 31};
    uint32_t w = r.w(); int v = (w % 32) < 30 ? tab[w % 32] : 1 + (int)((w >> 8) % 32);
    return std::max(1, std::min(hi, v));
}
int decCount(pbt::Reader& r, int T) {
    int c = r.pick(12); int x = (int)(r.w() >> 4);
    switch (c) { case 0: return T + 1; case 1: return 0; case 2: return std::max(0, T - 1); case 3: return T; case 4: return 1; case 5: return 2 * T + 1; case 6: return 3 * T;
        case 7: return 10 * T; case 8: case 9: return x % 300; case 10: return x % 2000; default: return x % 10001; }
}
int decGrid(pbt::Reader& r) {
    static const int tab[] = {5, 0, 1, 2, 3, 4, 7, 8, 9, 16, 17, 31, 32, 33, 63, 64, 65, 127, 128, 12};
    uint32_t w = r.w(); return (w & 1) ? tab[(w >> 1) % 20] : (int)((w >> 1) % 129);
}
const char* tclass(int T) { return T <= 1 ? "threads:1" : T <= 4 ? "threads:2-4" : T <= 16 ? "threads:5-16" : "threads:17-32"; }

void beginCase(const pbt::Tape& t) {
    ++g_caseId; g_nslots.store(0, RLX); g_errFlag.store(0, RLX); g_errMsg[0] = 0; g_injected.store(0, RLX); g_sleepBudget.store(150, RLX);
    g_curHash = pbt::hashTape(t); tl_isMain = true;
    pbt::Reader g(t[0]); g.skip(8);
    g_sched.seed = g.w(); g_sched.density = g.pick(4) == 0 ? 0 : 1 + g.pick(24); g_sched.rules.clear(); g_sched.stride = 1;
    for (size_t u = 1; u < t.size() && g_sched.rules.size() < 24; ++u) {
        pbt::Reader r(t[u]); Rule ru; ru.site = r.pick(9); ru.mod = 1 + r.pick(8); ru.res = r.pick(ru.mod); ru.action = r.pick(4); ru.mag = 1 + r.pick(16);
        if (ru.action) g_sched.rules.push_back(ru);
    }
    static const bool noInject = getenv("C33_NOINJECT") != nullptr; if (noInject) { g_sched.density = 0; g_sched.rules.clear(); }   // development aid
}
bool finishCase(pbt::Ctx& ctx) {
    g_active.store(false, RLX);
    if (g_errFlag.load(RLX) != 0) { ctx.fail(std::string("observed inside a task callback: ") + g_errMsg); return false; }
    return true;
}

#if C33_TSAN
// While the destructor race `pexec-finished-race` is a listed known finding the tsan tree cannot destroy a
// ParallelExecutor without ThreadSanitizer aborting the shard: executors are then taken from a process-wide pool and
// never destroyed (the site is excluded by construction; the directed reproducer still exercises it in a child).
ParallelExecutor& pooledExecutor(int T) { static std::map<int, ParallelExecutor*> pool; auto& p = pool[T]; if (!p) p = new ParallelExecutor(T); return *p; }
#endif

// ------------------------------------------------------------------ the three scenarios
void runPEX(const pbt::Tape& t, pbt::Ctx& ctx) {
    pbt::Reader g(t[0]); g.skip(1);
    int T = decThreads(g, 32); int variant = g.pick(8);     // 0..4 plain, 5 clone, 6 default constructor, 7 handle reuse after empty execute
    std::vector<int> counts; counts.push_back(decCount(g, T));
    for (size_t u = 1; u < t.size() && counts.size() < 5; ++u) { pbt::Reader r(t[u]); r.skip(6); if (r.boolean()) counts.push_back(decCount(r, T)); }
    bool pooled = false;
#if C33_TSAN
    if (ctx.known("pexec-finished-race")) { pooled = true; ctx.label("excluded:pexec-finished-race(destruction)"); if (variant >= 5) variant = 0; }
#endif
    if (variant == 6) T = ParallelExecutor::getNumProcessors() > 0 ? ParallelExecutor::getNumProcessors() : 1;
    if (ctx.wantDesc) { ctx.desc << "ParallelExecutor threads=" << T << (variant == 5 ? " (clone)" : variant == 6 ? " (default ctor)" : "") << " executes:"; for (int c : counts) ctx.desc << " " << c;
        ctx.desc << " ; schedule density=" << g_sched.density << "/64 rules=" << g_sched.rules.size() << "\n"; }
    ctx.label("kind:ParallelExecutor"); ctx.label(tclass(T)); if (counts.size() > 1) ctx.label("pex:repeated-execute"); if (variant == 5) ctx.label("pex:clone"); if (variant == 6) ctx.label("pex:default-ctor");
    g_active.store(true, RLX);
    ParallelExecutor* base = nullptr; ParallelExecutor* ex = nullptr;
#if C33_TSAN
    if (pooled) ex = &pooledExecutor(T);
#endif
    if (!ex) {
        base = variant == 6 ? new ParallelExecutor() : new ParallelExecutor(T);
        ex = variant == 5 ? base->clone() : base;
    }
    if (!ctx.check(ex->getMaxThreads() == T, "getMaxThreads()=" + std::to_string(ex->getMaxThreads()) + " expected " + std::to_string(T))) { }
    bool big = false;
    std::vector<std::unique_ptr<PexTask> > keep;   // tasks outlive the executor: a library that returns early from execute() must not turn into a use-after-free in the harness
    for (size_t k = 0; k < counts.size() && !ctx.failed; ++k) {
        int n = counts[k]; if (n > T) big = true;
        keep.emplace_back(new PexTask(n, T >= 2)); PexTask& task = *keep.back(); g_sched.stride = std::max(1, n / 96);
        { uint32_t h = mix(g_sched.seed, 77, (uint32_t)k); if (n > 0) task.straggler = (int)((h >> 2) % (uint32_t)n); task.slowFinish = T >= 2 && ((h >> 20) & 7) != 0; }
        perturb(8, (int)k);
        { LibCall lc("ParallelExecutor::execute"); ex->execute(task, n); }
        if (g_errFlag.load(RLX)) break;
        std::string where = "execute #" + std::to_string(k) + " (" + std::to_string(n) + " tasks, " + std::to_string(T) + " threads): ";
        for (int i = 0; i < n; ++i) if (task.hits[i].load(RLX) != 1) { ctx.fail(where + "index " + std::to_string(i) + " executed " + std::to_string((int)task.hits[i].load(RLX)) + " times"); break; }
        int ni = task.nInit.load(RLX), nf = task.finDone.load(RLX), part = 0;
        ctx.check(ni == nf, where + "execute() returned after " + std::to_string(nf) + " finish() calls for " + std::to_string(ni) + " initialize() calls");
        for (int s = 0; s < MAXSLOT; ++s) { const Per& p = task.per[s]; if (!p.inits && !p.fins && !p.execs) continue; ++part;
            ctx.check(p.inits == 1 && p.fins == 1, where + "worker " + std::to_string(s) + ": initialize() x" + std::to_string(p.inits) + ", finish() x" + std::to_string(p.fins)); }
        ctx.check(part <= std::max(1, T), where + std::to_string(part) + " threads ran callbacks, more than allowed");
        ctx.check(ni >= 1, where + "initialize()/finish() never called");
        ctx.check(task.total == (long)n * (n + 1) / 2, where + "sum recorded by finish() = " + std::to_string(task.total) + ", expected " + std::to_string((long)n * (n + 1) / 2) + " (finish() lost an update or ran after execute() returned)");
        ctx.check(!ParallelExecutor::isWorkerThread(), where + "isWorkerThread() is true on the calling thread");
    }
    perturb(8, 99);
    if (!pooled) { LibCall lc("~ParallelExecutor"); if (ex != base) delete ex; delete base; }
    if (!finishCase(ctx)) return;
    if (g_injected.load(RLX) > 0) ctx.label("injected-delay");
    ctx.nontrivial(T >= 2 && big && g_injected.load(RLX) > 0);
}

void runP2D(const pbt::Tape& t, pbt::Ctx& ctx) {
    pbt::Reader g(t[0]); g.skip(1);
    int procs = decThreads(g, 32); int variant = g.pick(4);   // 0,1,2 own executor; 3 supplied executor
    int grid = decGrid(g); int Tsup = decThreads(g, 32);
    std::vector<int> rts; rts.push_back(g.pick(3));
    for (size_t u = 1; u < t.size() && rts.size() < 3; ++u) { pbt::Reader r(t[u]); r.skip(6); if (r.boolean()) rts.push_back(r.pick(3)); }
    bool supplied = variant == 3, pooled = false;
#if C33_TSAN
    if (ctx.known("pexec-finished-race")) { pooled = true; supplied = true; ctx.label("excluded:pexec-finished-race(destruction)"); }
#endif
    if (ctx.wantDesc) { ctx.desc << "Parallel2DExecutor grid=" << grid << (supplied ? " supplied executor with threads=" : " processors=") << (supplied ? Tsup : procs) << " ranges:"; for (int r : rts) ctx.desc << " " << rtName(r);
        ctx.desc << " ; schedule density=" << g_sched.density << "/64 rules=" << g_sched.rules.size() << "\n"; }
    int T = supplied ? Tsup : procs;
    ctx.label("kind:Parallel2DExecutor"); ctx.label(tclass(T)); ctx.label(supplied ? "2d:supplied-executor" : "2d:own-executor");
    ctx.label(grid == 0 ? "grid:0" : grid < 2 * T ? "grid:<2T" : grid <= 32 ? "grid:<=32" : "grid:33-128");
    g_active.store(true, RLX);
    ParallelExecutor* sup = nullptr;
    if (supplied) {
#if C33_TSAN
        if (pooled) sup = &pooledExecutor(Tsup);
#endif
        if (!sup) sup = new ParallelExecutor(Tsup);
    }
    {
        Parallel2DExecutor* p2 = supplied ? new Parallel2DExecutor(grid, *sup) : new Parallel2DExecutor(grid, procs);
        if (supplied) ctx.check(&p2->getExecutor() == sup, "getExecutor() does not return the supplied executor");
        std::vector<std::unique_ptr<Task2D> > keep;
        for (size_t k = 0; k < rts.size() && !ctx.failed; ++k) {
            ctx.label(std::string("range:") + rtName(rts[k]));
            keep.emplace_back(new Task2D(grid, false, false)); Task2D& task = *keep.back(); g_sched.stride = std::max(1, grid * grid / 96);
            { uint32_t h = mix(g_sched.seed, 78, (uint32_t)k); if (grid > 0) { task.stragI = (int)((h >> 2) % (uint32_t)grid); task.stragJ = (int)((h >> 10) % (uint32_t)grid); if (!inRange(rts[k], task.stragI, task.stragJ)) std::swap(task.stragI, task.stragJ); }
              task.slowFinish = T >= 2 && ((h >> 20) & 7) != 0; task.expectTotal = rts[k] == 0 ? (long)grid * grid : rts[k] == 1 ? (long)grid * (grid - 1) / 2 : (long)grid * (grid + 1) / 2; }
            perturb(8, (int)k);
            { LibCall lc("Parallel2DExecutor::execute"); p2->execute(task, rtOf(rts[k])); }
            if (g_errFlag.load(RLX)) break;
            std::string m = judge2D(task, grid, rts[k], std::max(T, 1));
            if (!m.empty()) ctx.fail("grid " + std::to_string(grid) + ", " + (supplied ? "supplied executor threads " : "processors ") + std::to_string(T) + ", " + rtName(rts[k]) + ": " + m);
        }
        perturb(8, 99);
        { LibCall lc("~Parallel2DExecutor"); delete p2; if (!pooled) delete sup; }
    }
    if (!finishCase(ctx)) return;
    if (g_injected.load(RLX) > 0) ctx.label("injected-delay");
    ctx.nontrivial(T >= 2 && grid > 2 * T && g_injected.load(RLX) > 0);
}

void runPWQ(const pbt::Tape& t, pbt::Ctx& ctx) {
    pbt::Reader g(t[0]); g.skip(1);
    int T = decThreads(g, 16);
    // end of the queue's life: 0 = flush then destroy; otherwise destroy WITHOUT flush in a constructed, schedule-independent state:
    // G gate tasks (each occupies one worker until the destruction is announced) followed by a backlog of B ordinary tasks.
    // 3 = every worker busy and B >= 1 still queued (backlog > idle workers = 0), 2 = generated G in 0..T and B in 0..queueSize (with G < T
    // the idle workers drain the backlog before the destruction: busy workers, empty queue)
    static const int emTab[] = {3, 0, 2, 3}; int endMode = emTab[g.pick(4)]; const uint32_t emw = g.w();
    static const int qtab[] = {4, 1, 2, 3, 8, 16, 64, 5}; uint32_t qw = g.w(); int qsize = (qw & 1) ? qtab[(qw >> 1) % 8] : 1 + (int)((qw >> 1) % 64);
    struct Op { int add; bool flush; }; std::vector<Op> ops; int total = 0;
    { uint32_t w = g.w(); Op o; o.add = (w % 8 == 7) ? (int)((w >> 3) % 400) : (int)((w >> 3) % (3 * T + 3)); o.flush = false; ops.push_back(o); total += o.add; }
    for (size_t u = 1; u < t.size() && ops.size() < 40; ++u) { pbt::Reader r(t[u]); r.skip(6); uint32_t w = r.w(); Op o; o.add = (w % 8 == 7) ? (int)((w >> 3) % 400) : (int)((w >> 3) % (2 * qsize + 2));
        if (total + o.add > 2000) o.add = 2000 - total; o.flush = r.chance(1, 3); ops.push_back(o); total += o.add; }
    // backlog <= queueSize: the producer never has to wait for a gated worker
    const int gates = endMode == 3 ? T : endMode == 2 ? (int)(emw % (uint32_t)(T + 1)) : 0;
    const int backlog = endMode == 3 ? 1 + (int)((emw >> 8) % (uint32_t)std::min(qsize, 12)) : endMode == 2 ? (int)((emw >> 8) % (uint32_t)(std::min(qsize, 12) + 1)) : 0;
    const int userTotal = total; total += gates + backlog;
#if C33_TSAN
    if (ctx.known("pwq-unlocked-loop-cond")) { ctx.label("excluded:pwq-unlocked-loop-cond(tsan tree)"); ctx.reject("known:pwq-unlocked-loop-cond"); return; }
#endif
    if (ctx.wantDesc) { ctx.desc << "ParallelWorkQueue queueSize=" << qsize << " threads=" << T << " ops:"; for (auto& o : ops) ctx.desc << " add" << o.add << (o.flush ? ",flush" : "");
        ctx.desc << (endMode == 0 ? " ; flush, destroy" : " ; " + std::to_string(gates) + " gate tasks (busy workers) + backlog of " + std::to_string(backlog) + " queued tasks, destroy without flush") << " ; schedule density=" << g_sched.density << "/64 rules=" << g_sched.rules.size() << "\n"; }
    ctx.label("kind:ParallelWorkQueue"); ctx.label(tclass(T)); ctx.label(endMode == 0 ? "pwq:flush-then-destroy" : gates == T && backlog > 0 ? "pwq:destroy-with-backlog>idle-workers" : "pwq:destroy-without-flush-queue-drained");
    if (total > qsize) ctx.label("pwq:more-tasks-than-queue");
    QShared sh(total); int added = 0; bool midFlush = false; g_sched.stride = std::max(1, total / 96);
    g_active.store(true, RLX);
    {
        ParallelWorkQueue* q = new ParallelWorkQueue(qsize, T);
        auto checkDone = [&](const char* when) {
            for (int i = 0; i < added && !ctx.failed; ++i) {
                if (sh.done[i].load(RLX) != 1) ctx.fail(std::string(when) + ": task " + std::to_string(i) + " of " + std::to_string(added) + " added has been executed " + std::to_string((int)sh.done[i].load(RLX)) + " times");
                else if (sh.payload[i] != 7L * i + 1) ctx.fail(std::string(when) + ": result of task " + std::to_string(i) + " is " + std::to_string(sh.payload[i]) + ", expected " + std::to_string(7L * i + 1));
            }
        };
        for (size_t k = 0; k < ops.size() && !ctx.failed; ++k) {
            for (int a = 0; a < ops[k].add && !ctx.failed; ++a) {
                // slow tasks: the last one before a flush (work is still running when flush() is called), and 1 in 16
                bool slow = (a + 1 == ops[k].add && ops[k].flush) || (mix(g_sched.seed, 79, (uint32_t)added) % 16 == 0);
                QTask* task = new QTask(sh, added, slow);
                perturb(8, added);
                { LibCall lc("ParallelWorkQueue::addTask"); q->addTask(task); }
                ++added;
                int waiting = added - sh.nStarted.load(RLX);
                ctx.check(waiting <= qsize + T, "after addTask #" + std::to_string(added) + ": " + std::to_string(waiting) + " tasks added but not started, queueSize " + std::to_string(qsize) + " + " + std::to_string(T) + " threads allow at most " + std::to_string(qsize + T));
            }
            if (ops[k].flush) { midFlush = true; { LibCall lc("ParallelWorkQueue::flush"); q->flush(); } checkDone("after flush() returned"); }
        }
        if (endMode == 0 && !ctx.failed) { { LibCall lc("ParallelWorkQueue::flush"); q->flush(); } checkDone("after the final flush() returned"); }
        if (endMode != 0 && !ctx.failed) {
            // `gates` gate tasks (each blocks one worker until `destroying` is set) followed by the backlog; then wait (bounded:
            // 3000 x 100 us) until the gate tasks are running (the queue is FIFO, so all earlier tasks have been taken by then) and
            // the earlier tasks are done, announce, destroy.  Exactly `gates` workers are then busy, T - gates idle, and `backlog`
            // tasks queued when the destructor runs; the documented contract is that all of them are still executed and deleted.
            for (int a = 0; a < gates + backlog && !ctx.failed; ++a) {
                QTask* task = new QTask(sh, added, false, a < gates);
                { LibCall lc("ParallelWorkQueue::addTask"); q->addTask(task); }
                ++added;
            }
            // with an idle worker left (gates < T) the backlog is taken at once; wait for it so that the state at destruction is
            // "gates workers busy, queue empty" whatever the schedule
            auto othersDone = [&]() { for (int i = 0; i < added; ++i) if (!(i >= userTotal && i < userTotal + gates) && sh.done[i].load(RLX) != 1) return false; return true; };
            for (int k = 0; k < 3000 && (sh.gatedStarted.load(RLX) < gates || (gates < T && !othersDone())); ++k) usleep(100);
            sh.destroying.store(1, RLX);
        }
        perturb(8, 9999);
        { LibCall lc("~ParallelWorkQueue"); delete q; }
        if (!ctx.failed) checkDone("after the queue was destroyed");
        for (int i = 0; i < added && !ctx.failed; ++i)
            ctx.check(sh.deleted[i].load(RLX) == 1 && sh.started[i].load(RLX) == 1, "after the queue was destroyed: task " + std::to_string(i) + " executed " + std::to_string((int)sh.started[i].load(RLX)) + " times, deleted " + std::to_string((int)sh.deleted[i].load(RLX)) + " times");
    }
    if (midFlush) ctx.label("pwq:flush-between-adds");
    if (!finishCase(ctx)) return;
    if (g_injected.load(RLX) > 0) ctx.label("injected-delay");
    ctx.nontrivial(T >= 2 && userTotal + backlog > T && (g_injected.load(RLX) > 0 || backlog > 0));
}

void property(const pbt::Tape& t, pbt::Ctx& ctx) {
    beginCase(t);
    pbt::Reader g(t[0]); int kind = g.pick(3);
    static const char* only = getenv("C33_ONLY"); if (only) kind = atoi(only);      // development aid: force one scenario
    try { if (kind == 0) runPEX(t, ctx); else if (kind == 1) runP2D(t, ctx); else runPWQ(t, ctx); }
    catch (...) { g_active.store(false, RLX); throw; }
    g_active.store(false, RLX);
}

// ------------------------------------------------------------------ directed: complete enumeration of the 2-D partition
#if !C33_TSAN
std::string currentTier() {   // the engine does not tell directed cases the tier: read it from the command line
    std::ifstream in("/proc/self/cmdline", std::ios::binary); std::string all((std::istreambuf_iterator<char>(in)), std::istreambuf_iterator<char>()), tok, prev;
    for (char ch : all) { if (ch == 0) { if (prev == "--tier") return tok; prev = tok; tok.clear(); } else tok += ch; }
    return "quick";
}
void enumerate2D(pbt::Ctx& ctx, bool complete) {
    tl_isMain = true; g_sched = Sched(); g_errFlag.store(0, RLX);
    alarm(3600);   // the enumeration is one long directed case: give it its own watchdog budget (inconclusive on expiry)
    // self-test of the pass observation: one ParallelExecutor::execute == exactly one broadcast by the calling thread
    {
        ++g_caseId; g_nslots.store(0, RLX); g_active.store(true, RLX);
        ParallelExecutor ex(3); long e0 = g_epoch.load(RLX);
        for (int k = 0; k < 4; ++k) { PexTask tk(7, true); LibCall lc("ParallelExecutor::execute (self-test)"); ex.execute(tk, 7); }
        long e1 = g_epoch.load(RLX);
        if (g_errFlag.load(RLX)) { g_active.store(false, RLX); ctx.fail(std::string("ParallelExecutor(3), 4 x execute of 7 tasks: ") + g_errMsg); return; }
        if (e1 - e0 != 4) { g_active.store(false, RLX); ctx.fail("harness self-test: pass observation through pthread_cond_broadcast saw " + std::to_string(e1 - e0) + " broadcasts for 4 execute() calls (interposition inactive?)"); return; }
    }
    long configs = 0, invocations = 0, passes = 0, parallelConfigs = 0;
    static const int qg[] = {0, 1, 2, 3, 4, 5, 6, 7, 8, 9, 10, 11, 12, 15, 16, 17, 23, 31, 32, 33, 47, 63, 64, 65, 97, 127, 128},
                     qp[] = {1, 2, 3, 4, 5, 7, 8, 9, 16, 17, 32};
    std::vector<int> grids, procsList;
    if (complete) { for (int g = 0; g <= 128; ++g) grids.push_back(g); for (int p = 1; p <= 32; ++p) procsList.push_back(p); }
    else { grids.assign(qg, qg + sizeof qg / sizeof *qg); procsList.assign(qp, qp + sizeof qp / sizeof *qp); }
    for (int grid : grids) for (int procs : procsList) {
        if (ctx.failed) break;
        ++g_caseId; g_nslots.store(0, RLX);
        Parallel2DExecutor ex(grid, procs);
        for (int rt = 0; rt < 3 && !ctx.failed; ++rt) {
            Task2D task(grid, false, true); long e0 = g_epoch.load(RLX);
            { LibCall lc("Parallel2DExecutor::execute (enumeration)"); ex.execute(task, rtOf(rt)); }
            long e1 = g_epoch.load(RLX); passes += e1 - e0; ++configs; if (e1 > e0) ++parallelConfigs;
            std::string m = g_errFlag.load(RLX) ? std::string(g_errMsg) : judge2D(task, grid, rt, procs);
            if (!m.empty()) { ctx.fail("grid " + std::to_string(grid) + ", processors " + std::to_string(procs) + ", " + rtName(rt) + ": " + m); break; }
            for (int s = 0; s < MAXSLOT; ++s) invocations += task.per[s].execs;
        }
    }
    g_active.store(false, RLX);
    ctx.desc << (complete ? "exhaustive: grid 0..128 x processors 1..32 x 3 range types = " : "quick sub-lattice (the thorough tier enumerates the complete lattice): 27 grid sizes x 11 processor counts x 3 range types = ") << configs << " configurations (" << parallelConfigs << " multi-threaded), " << passes << " passes, " << invocations
             << " invocations; every invocation's pass observed; no two invocations of one pass on different workers share an index; every pair of the range executed exactly once\n";
    ctx.label(complete ? "exhaustive:2d-partition" : "sublattice:2d-partition");
}
#endif

// ------------------------------------------------------------------ directed (tsan tree): race reproducers run in a child process
#if C33_TSAN
void childMain(const char* what) {
    struct CT : ParallelExecutor::Task { std::atomic<int> n{0}; void execute(int) override { n.fetch_add(1, RLX); } };
    struct QT : ParallelWorkQueue::Task { std::atomic<int>& n; QT(std::atomic<int>& n) : n(n) {} void execute() override { usleep(100); n.fetch_add(1, RLX); } };   // long enough that the destructor sets `finished` while workers are still executing: their next unlocked loop-condition read follows that write with no lock in between
    if (!strcmp(what, "pexec")) { for (int r = 0; r < 80; ++r) { ParallelExecutor ex(4); CT t; ex.execute(t, 16); ex.execute(t, 3); } }
    else if (!strcmp(what, "pwq")) { std::atomic<int> n{0}; for (int r = 0; r < 40; ++r) { ParallelWorkQueue q(4, 3); for (int k = 0; k < 8; ++k) q.addTask(new QT(n)); /* destroyed while the workers are still executing */ } }
}
#endif
// The two race findings are only observable under ThreadSanitizer.  The engine runs directed cases in shard 0 of the main
// tree only, so the main-tree harness runs the reproducer through its tsan twin (same path with /main/ -> /tsan/); the tsan
// build runs itself.  The child exits 66 on the first ThreadSanitizer report.
std::string tsanTwin() {
    char buf[4096]; ssize_t n = readlink("/proc/self/exe", buf, sizeof buf - 1); if (n <= 0) return ""; buf[n] = 0; std::string p = buf;
#if !C33_TSAN
    size_t k = p.rfind("/main/"); if (k == std::string::npos) return ""; p.replace(k, 6, "/tsan/");
#endif
    return access(p.c_str(), X_OK) == 0 ? p : "";
}
void runChild(pbt::Ctx& ctx, const char* what, const char* describe) {
    alarm(600);   // the child runs under ThreadSanitizer: own watchdog budget (expiry = inconclusive)
    std::string twin = tsanTwin();
    if (twin.empty()) { ctx.desc << describe << ": ThreadSanitizer build of this harness not found next to the main build; reproducer skipped\n"; return; }
    char log[128]; snprintf(log, sizeof log, "/tmp/verif-C33-%d-child-%s.log", (int)getpid(), what);
    std::vector<std::string> envs; bool haveT = false;
    for (char** e = environ; *e; ++e) { std::string s = *e; if (s.rfind("C33_CHILD=", 0) == 0) continue; if (s.rfind("TSAN_OPTIONS=", 0) == 0) { haveT = true; if (s.find("halt_on_error") == std::string::npos) s += ":halt_on_error=1:exitcode=66"; } envs.push_back(s); }
    if (!haveT) envs.push_back("TSAN_OPTIONS=halt_on_error=1:exitcode=66");
    envs.push_back(std::string("C33_CHILD=") + what);
    std::vector<char*> envp; for (auto& s : envs) envp.push_back(&s[0]); envp.push_back(nullptr);
    char a0[] = "C33-child"; char* argv[] = {a0, nullptr};
    posix_spawn_file_actions_t fa; posix_spawn_file_actions_init(&fa);
    posix_spawn_file_actions_addopen(&fa, 2, log, O_WRONLY | O_CREAT | O_TRUNC, 0644); posix_spawn_file_actions_adddup2(&fa, 2, 1);
    pid_t pid; int rc = posix_spawn(&pid, twin.c_str(), &fa, nullptr, argv, envp.data()); posix_spawn_file_actions_destroy(&fa);
    if (rc != 0) { ctx.desc << "could not spawn the child process (" << strerror(rc) << ")\n"; return; }
    int st = 0; while (waitpid(pid, &st, 0) < 0 && errno == EINTR) {}
    std::string head; { std::ifstream in(log); std::string l; int n = 0; bool on = false; while (std::getline(in, l) && n < 14) { if (l.find("ThreadSanitizer") != std::string::npos) on = true; if (on && !l.empty()) { head += l.substr(0, 160) + " | "; ++n; } } }
    unlink(log);
    ctx.desc << describe << ": child exit status " << (WIFEXITED(st) ? WEXITSTATUS(st) : -WTERMSIG(st)) << "\n";
    if (WIFEXITED(st) && WEXITSTATUS(st) == 0) return;
    ctx.fail(std::string(describe) + ": ThreadSanitizer report / abnormal exit (status " + std::to_string(WIFEXITED(st) ? WEXITSTATUS(st) : -WTERMSIG(st)) + "): " + head.substr(0, 1200));
}
#if C33_TSAN
void onTsanDeath() {
    const char m[] = "\nC33: ThreadSanitizer (or a fatal error) stopped the process while this tape was running:\n"; ssize_t r = write(2, m, sizeof m - 1); (void)r;
    r = write(2, pbt::detail::curBuf(), pbt::detail::curLen()); (void)r;
}
#endif

pbt::Config config() {
#if C33_TSAN
    if (const char* c = getenv("C33_CHILD")) { childMain(c); exit(0); }
    __sanitizer_set_death_callback(onTsanDeath);
#else
    resolveReal(); tl_isMain = true;
    static bool started = false; if (!started) { started = true; g_baseTasks = countTasks(true); std::thread(monitorBody).detach(); }
#endif
    {   // Worker stacks: glibc caches at most 40 MB of thread stacks, so with the default 8 MB stacks every executor with more than
        // 5 threads pays mmap/mprotect/munmap per thread (measured here: 2-10 ms per thread, 0.3 ms with 512 KB stacks).
        // The callbacks that run on the workers are this file's, and shallow.
        pthread_attr_t a; pthread_attr_init(&a); pthread_attr_setstacksize(&a, (C33_TSAN ? 1024 : 512) * 1024); pthread_setattr_default_np(&a); pthread_attr_destroy(&a); }
    pbt::Config c; c.prop = "C33"; c.K = 12; c.minUnits = 0; c.caseTimeoutSecs = 60;
#if C33_TSAN
    c.quick = {40, 400, 24, 20}; c.thorough = {300, 6000, 30, 240};
#else
    c.quick = {300, 4000, 24, 20}; c.thorough = {1000, 60000, 30, 240};
#endif
    c.maxShrinkExecs = 600; c.maxShrinkSecs = 25;
    c.rule = "rapidcheck tape -> one of {ParallelExecutor: threads 1..32 (incl. clone/default ctor), 1..5 execute() calls of 0..10000 tasks on one executor, destruction; "
             "Parallel2DExecutor: grid 0..128, processors 1..32, own or supplied executor, 1..3 execute() calls over the three range types; "
             "ParallelWorkQueue: queue size 1..64, threads 1..16, one producer adding 0..2000 tasks in batches with generated flush points, final flush then destruction, or destruction without flush in a constructed state (1/2: every worker held busy by a gate task and a backlog of 1..12 tasks still queued; 1/4: generated number of busy workers, queue drained)}; "
             "schedule tape = hash-driven yield/spin density + per-unit rules (site, index class, yield/spin/sleep, magnitude) applied inside initialize/execute/finish and (main tree) at the library's "
             "pthread_cond_wait/signal/broadcast calls. Non-trivial: >= 2 threads, more tasks than threads (grid > 2 x threads), and at least one injected delay; distinct by tape hash. "
             "Directed (main tree): COMPLETE enumeration of the 2-D partition, grid 0..128 x processors 1..32 x 3 range types (exhaustive: true for that sub-space).";
    c.assumptions = {"within one ParallelExecutor::execute the workers are not synchronised with each other (same pass + different worker = may run concurrently); a pass is delimited by the one pthread_cond_broadcast the calling thread makes per execute() (self-tested)",
                     "a state in which every thread of the process is blocked in pthread_cond_wait/pthread_join for 10 s with no wake-up issued is a deadlock; any other expiry of the 60 s watchdog is inconclusive",
                     "interleavings are sampled (perturbed), not enumerated; ThreadSanitizer judges the schedules that occurred (tsan tree)"};
#if !C33_TSAN
    if (currentTier() == "thorough" || getenv("C33_ENUM_COMPLETE")) c.directed.push_back({"enum2d-partition-complete", "", [](pbt::Ctx& ctx) { enumerate2D(ctx, true); }});
    else if (!getenv("C33_ENUM_SKIP")) c.directed.push_back({"enum2d-partition-sublattice", "", [](pbt::Ctx& ctx) { enumerate2D(ctx, false); }});
#endif
    c.directed.push_back({"tsan-pexec-destructor-vs-worker-loop", "pexec-finished-race", [](pbt::Ctx& ctx) { runChild(ctx, "pexec", "80 x {ParallelExecutor(4); execute 16 and 3 tasks; destroy} under ThreadSanitizer"); }});
    c.directed.push_back({"tsan-pwq-worker-loop-condition", "pwq-unlocked-loop-cond", [](pbt::Ctx& ctx) { runChild(ctx, "pwq", "40 x {ParallelWorkQueue(4,3); add 8 tasks of 100 us; destroy with work pending} under ThreadSanitizer"); }});
    c.requiredLabels = {"kind:ParallelExecutor", "kind:Parallel2DExecutor", "kind:ParallelWorkQueue", "threads:17-32", "pex:repeated-execute", "2d:supplied-executor", "range:HalfMatrix", "range:HalfPlusDiagonal", "range:FullMatrix",
                        "pwq:destroy-without-flush-queue-drained", "pwq:destroy-with-backlog>idle-workers", "pwq:flush-between-adds", "injected-delay"};
    return c;
}
} // namespace

PBT_MAIN(config(), property)
