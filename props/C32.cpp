// C32 -- Values survive text and serialization round trips (DESIGN.md section 5, C32).
// Modes (word 0 of segment 0):
//   scalar   : String(x) -> tryConvertTo/convertTo<T>, writeUnformatted -> readUnformatted, for double/float (every
//              exponent, subnormals, +-0, NaN, +-Inf), complex, all integer widths, bool; the written text must also be
//              accepted, with the same value, by the reference recogniser (gen/c32_oracle.h)
//   accept   : generated literals and near-literals (junk suffix/prefix, embedded blank, lone sign, "1e", "0x10",
//              "trueish", out-of-range, surrounding white space): tryConvertTo<T> accepts IFF the reference recogniser
//              does, with the same value; convertTo throws IFF tryConvertTo fails
//   container: Vec/Row/Mat/Vector_/RowVector_/Matrix_/Array_ of double/float/int/bool/complex: writeUnformatted output is the
//              documented token list (checked with my own tokenizer + recogniser), readUnformatted restores the value
//              bit for bit, a short list is refused, a following token is left in the stream
//   xml      : generated XML trees (elements, attributes, text with <>&"' and white space, comments, serialized values)
//              built through the API -> writeToString -> readFromString -> same tree; second write is a textual fixed point
//   raw      : bytes from the tape through the byte-level oracles shared with the libFuzzer targets fuzz/C32_*.cpp
//              (this is also how a fuzz failure is replayed: the fuzz target saves its input as a raw-mode tape)
#include "c32_oracle.h"
#include "c32_xml.h"
using namespace SimTK;
using c32::show; using c32::sameBits;

namespace {

const int K = c32::kK;

// ------------------------------------------------------------------ value generators
double genDouble(pbt::Reader& r, std::string& cls) {
    int k = r.pick(10); uint32_t a = r.w(), b = r.w();
    auto fromBits = [](uint64_t u) { double d; std::memcpy(&d, &u, 8); return d; };
    if (k == 8) { cls = "nonfinite"; int j = a % 4; return j == 0 ? std::numeric_limits<double>::infinity() : j == 1 ? -std::numeric_limits<double>::infinity() : fromBits(0x7FF0000000000000ull | (uint64_t(b & 1) << 63) | (uint64_t(a & 0xFFFFF) << 32) | b | 1); }
    switch (k) {
        case 0: { static const double sp[] = {0.0, -0.0, 1.0, -1.0, 0.1, 1.0 / 3, 5e-324, -5e-324, 2.2250738585072014e-308, 2.2250738585072009e-308, 1.7976931348623157e308, -1.7976931348623157e308,
                    1e22, 1e23, 9007199254740993.0, 0.3, 123456789012345678.0, 1e-7, 6.02214076e23, 4.9406564584124654e-324};
                  cls = "special"; int i = a % 23; if (i == 20) { cls = "nonfinite"; return std::numeric_limits<double>::quiet_NaN(); } if (i == 21) { cls = "nonfinite"; return std::numeric_limits<double>::infinity(); } if (i == 22) { cls = "nonfinite"; return -std::numeric_limits<double>::infinity(); }
                  if (sp[i] != 0 && std::fabs(sp[i]) < 2.2250738585072014e-308) cls = "subnormal"; return sp[i]; }
        case 2: cls = "integer"; return (double)(int32_t)a;
        case 3: { uint64_t e = a % 2048; uint64_t u = (uint64_t(b & 1) << 63) | (e << 52) | ((uint64_t(a >> 11) << 32 | b) & 0xFFFFFFFFFFFFFull); double d = fromBits(u); cls = e == 2047 ? "nonfinite" : e == 0 ? (d == 0 ? "special" : "subnormal") : "any-exponent"; return d; }
        case 4: cls = "decimal"; return (double)(int32_t)(a % 2000001u - 1000000) / std::pow(10.0, (double)(b % 9));
        case 5: { int e = (int)(a % 2098) - 1074; double p = std::ldexp(1.0, e); int s = b % 3; double d = s == 0 ? p : s == 1 ? std::nextafter(p, INFINITY) : std::nextafter(p, 0.0); if (b & 4) d = -d; cls = std::fabs(d) < 2.2250738585072014e-308 ? "subnormal" : "power2-neighbour"; if (d == 0) cls = "special"; return d; }
        case 6: { uint64_t u = (uint64_t(b & 0xFFFFF) << 32 | a) | (uint64_t(b >> 31) << 63); double d = fromBits(u); cls = d == 0 ? "special" : "subnormal"; return d; }
        default: { double d = fromBits(uint64_t(a) << 32 | b); cls = std::isfinite(d) ? (d != 0 && std::fabs(d) < 2.2250738585072014e-308 ? "subnormal" : "raw-bits") : "nonfinite"; return d; }
    }
}
float genFloat(pbt::Reader& r, std::string& cls) {
    int k = r.pick(6); uint32_t a = r.w(), b = r.w();
    auto fromBits = [](uint32_t u) { float f; std::memcpy(&f, &u, 4); return f; };
    float f;
    switch (k) {
        case 0: { static const float sp[] = {0.f, -0.f, 1.f, -1.f, 0.1f, 1.f / 3, 1.4e-45f, 1.17549435e-38f, 3.40282347e38f, -3.40282347e38f, 16777217.f, 1e10f};
                  int i = a % 15; if (i == 12) f = std::numeric_limits<float>::quiet_NaN(); else if (i == 13) f = std::numeric_limits<float>::infinity(); else if (i == 14) f = -std::numeric_limits<float>::infinity(); else f = sp[i]; break; }
        case 1: f = (float)(int32_t)a; break;
        case 2: { uint32_t e = a % 256; f = fromBits(((b & 1u) << 31) | (e << 23) | ((a >> 8) & 0x7FFFFFu)); break; }
        case 3: f = (float)((double)(int32_t)(a % 200001u - 100000) / std::pow(10.0, (double)(b % 6))); break;
        case 4: f = fromBits((a & 0x7FFFFFu) | (b << 31)); break;   // subnormal
        default: f = fromBits(a); break;
    }
    cls = !std::isfinite(f) ? "nonfinite" : (f != 0 && std::fabs(f) < 1.17549435e-38f) ? "subnormal" : "finite";
    return f;
}
template <class T> T genInt(pbt::Reader& r) {
    int k = r.pick(6); uint32_t a = r.w(), b = r.w();
    typedef std::numeric_limits<T> L;
    switch (k) {
        case 0: { static const int sp[] = {0, 1, -1, 2, 10, -10, 100, 255, 256}; int v = sp[a % 9]; if (!L::is_signed && v < 0) v = -v; return (T)v; }
        case 1: return L::max();
        case 2: return L::min();
        case 3: return (T)(L::max() - (T)(a % 5));
        case 4: return (T)(L::min() + (T)(a % 5));
        default: return (T)((uint64_t(a) << 32) | b);
    }
}
std::string genWs(pbt::Reader& r) {
    static const char* w[] = {"", "", " ", "  ", "\t", "\n", " \r\n", "\f\v ", " \t \n"};
    return w[r.pick(9)];
}

// ------------------------------------------------------------------ mode scalar
template <class F> void scalarFloat(pbt::Reader& r, pbt::Ctx& ctx, const char* tn) {
    std::string cls; F x; { if (sizeof(F) == 8) x = (F)genDouble(r, cls); else x = (F)genFloat(r, cls); }
    std::string lead = genWs(r), trail = genWs(r);
    ctx.label(std::string("scalar:") + tn + ":" + cls);
    if (cls == "nonfinite" || cls == "subnormal") ctx.nontrivial();
    String s(x);
    if (ctx.wantDesc) ctx.desc << "  " << tn << " " << pbt::str(x) << " -> " << show(s) << " (padded " << show(lead) << "," << show(trail) << ")\n";
    // the written text is a literal of the documented grammar denoting the same value
    c32::RefFloat<F> ref = c32::refFloat<F>(s);
    if (!PBT_CK(ctx, ref.v == c32::Accept && sameBits(ref.val, x), std::string("String(") + tn + " " + pbt::str(x) + ") = " + show(s) + " is not a literal denoting the same value (reference reads " + pbt::str(ref.val) + ")")) return;
    F back = (F)4321.5; bool ok = s.tryConvertTo<F>(back);
    if (!PBT_CK(ctx, ok && sameBits(back, x), std::string("String(") + tn + ") round trip: " + pbt::str(x) + " -> " + show(s) + " -> " + (ok ? pbt::str(back) : std::string("refused")))) return;
    F back2 = (F)4321.5; bool ok2 = String(lead + std::string(s) + trail).tryConvertTo<F>(back2);
    if (!PBT_CK(ctx, ok2 && sameBits(back2, x), std::string("surrounding white space changed the conversion of ") + show(lead + std::string(s) + trail))) return;
    try { F v = s.convertTo<F>(); if (!PBT_CK(ctx, sameBits(v, x), "convertTo<T>() value differs from tryConvertTo")) return; F w; convertStringTo(s, w); if (!PBT_CK(ctx, sameBits(w, x), "convertStringTo value differs")) return; }
    catch (const std::exception& e) { ctx.fail(std::string("convertTo threw on ") + show(s) + ": " + e.what()); return; }
    std::ostringstream o; writeUnformatted(o, x);
    if (!PBT_CK(ctx, o.str() == std::string(s), "writeUnformatted(" + std::string(tn) + ") = " + show(o.str()) + " differs from String(x) = " + show(s))) return;
    std::istringstream in(lead + o.str() + trail); F rb = (F)4321.5; bool ok3 = readUnformatted(in, rb);
    if (!PBT_CK(ctx, ok3 && sameBits(rb, x) && !in.fail(), std::string("writeUnformatted/readUnformatted round trip of ") + pbt::str(x) + " failed (" + show(o.str()) + ")")) return;
    std::ostringstream of; writeFormatted(of, x); std::istringstream inf(of.str()); F rf = 0; bool ok4 = readFormatted(inf, rf);
    PBT_CK(ctx, ok4 && sameBits(rf, x), std::string("writeFormatted/readFormatted round trip of ") + pbt::str(x) + " failed");
}
template <class F> void scalarComplex(pbt::Reader& r, pbt::Ctx& ctx, const char* tn) {
    std::string c1, c2; F re, im;
    if (sizeof(F) == 8) { re = (F)genDouble(r, c1); im = (F)genDouble(r, c2); } else { re = (F)genFloat(r, c1); im = (F)genFloat(r, c2); }
    std::complex<F> x(re, im); bool nonfinite = !std::isfinite(re) || !std::isfinite(im);
    ctx.label(std::string("scalar:complex<") + tn + ">:" + (nonfinite ? "nonfinite" : "finite"));
    if (nonfinite) ctx.nontrivial();
    // unformatted: "re im"
    std::ostringstream o; writeUnformatted(o, x);
    std::string want = std::string(String(re)) + " " + std::string(String(im));
    if (ctx.wantDesc) ctx.desc << "  complex<" << tn << "> (" << pbt::str(re) << "," << pbt::str(im) << ") -> " << show(o.str()) << " / " << show(String(x)) << "\n";
    if (!PBT_CK(ctx, o.str() == want, "writeUnformatted(complex) = " + show(o.str()) + ", documented form " + show(want))) return;
    std::istringstream in(o.str()); std::complex<F> rb(7, 7); bool ok = readUnformatted(in, rb);
    if (!PBT_CK(ctx, ok && sameBits(rb.real(), re) && sameBits(rb.imag(), im), "writeUnformatted/readUnformatted round trip of complex " + show(o.str()) + " failed")) return;
    // String(complex) = "(re,im)"
    String s(x); std::string wantS = "(" + std::string(String(re)) + "," + std::string(String(im)) + ")";
    if (!PBT_CK(ctx, std::string(s) == wantS, "String(complex) = " + show(s) + ", documented form " + show(wantS))) return;
    if (nonfinite && ctx.known("complex-string-nonfinite")) { ctx.label("excluded:complex-string-nonfinite"); return; }
    std::complex<F> back(7, 7); bool ok2 = s.tryConvertTo(back);
    PBT_CK(ctx, ok2 && sameBits(back.real(), re) && sameBits(back.imag(), im), "String(complex) round trip: " + show(s) + " -> " + (ok2 ? "(" + pbt::str(back.real()) + "," + pbt::str(back.imag()) + ")" : std::string("refused")));
}
template <class T> void scalarInt(pbt::Reader& r, pbt::Ctx& ctx, const char* tn) {
    T x = genInt<T>(r); std::string lead = genWs(r), trail = genWs(r);
    ctx.label("scalar:int");
    String s(x);
    if (ctx.wantDesc) ctx.desc << "  " << tn << " " << pbt::str(+x) << " -> " << show(s) << "\n";
    c32::RefInt<T> ref = c32::refInt<T>(s);
    if (!PBT_CK(ctx, ref.v == c32::Accept && ref.val == x, std::string("String(") + tn + " " + pbt::str(+x) + ") = " + show(s) + " is not a literal denoting the same value")) return;
    T back = 77; bool ok = String(lead + std::string(s) + trail).tryConvertTo<T>(back);
    if (!PBT_CK(ctx, ok && back == x, std::string("String(") + tn + ") round trip: " + pbt::str(+x) + " -> " + show(s) + " -> " + (ok ? pbt::str(+back) : std::string("refused")))) return;
    std::ostringstream o; writeUnformatted(o, x); std::istringstream in(lead + o.str() + trail); T rb = 77; bool ok2 = readUnformatted(in, rb);
    PBT_CK(ctx, o.str() == std::string(s) && ok2 && rb == x, std::string("writeUnformatted/readUnformatted round trip of ") + tn + " " + pbt::str(+x) + " failed");
}
void scalarBool(pbt::Reader& r, pbt::Ctx& ctx) {
    bool x = r.boolean(); std::string lead = genWs(r), trail = genWs(r);
    ctx.label("scalar:bool");
    String s(x);
    if (!PBT_CK(ctx, std::string(s) == (x ? "true" : "false"), "String(bool) is not \"true\"/\"false\"")) return;
    bool back = !x; bool ok = String(lead + std::string(s) + trail).tryConvertTo<bool>(back);
    if (!PBT_CK(ctx, ok && back == x, "String(bool) round trip failed")) return;
    std::ostringstream o; writeUnformatted(o, x); std::istringstream in(lead + o.str() + trail); bool rb = !x; bool ok2 = readUnformatted(in, rb);
    PBT_CK(ctx, o.str() == std::string(s) && ok2 && rb == x, "writeUnformatted/readUnformatted round trip of bool failed");
}
void modeScalar(const pbt::Tape& t, pbt::Ctx& ctx) {
    for (size_t u = 1; u < t.size() && !ctx.failed; ++u) {
        pbt::Reader r(t[u]);
        switch (r.pick(14)) {
            case 0: case 1: scalarFloat<double>(r, ctx, "double"); break;
            case 2: case 3: scalarFloat<float>(r, ctx, "float"); break;
            case 4: scalarComplex<double>(r, ctx, "double"); break;
            case 5: scalarComplex<float>(r, ctx, "float"); break;
            case 6: scalarInt<int>(r, ctx, "int"); break;
            case 7: scalarInt<unsigned>(r, ctx, "unsigned"); break;
            case 8: scalarInt<long long>(r, ctx, "long long"); break;
            case 9: scalarInt<unsigned long long>(r, ctx, "unsigned long long"); break;
            case 10: scalarInt<long>(r, ctx, "long"); break;
            case 11: scalarInt<unsigned long>(r, ctx, "unsigned long"); break;
            case 12: if (r.boolean()) scalarInt<short>(r, ctx, "short"); else scalarInt<unsigned short>(r, ctx, "unsigned short"); break;
            default: scalarBool(r, ctx); break;
        }
    }
}

// ------------------------------------------------------------------ mode accept: literal / near-literal strings
std::string genDigits(pbt::Reader& r, int n) { std::string s; uint32_t w = 0; for (int i = 0; i < n; ++i) { if (i % 8 == 0) w = r.w(); s += char('0' + (w % 10)); w /= 10; } return s; }
std::string randCase(std::string s, uint32_t bits) { for (size_t i = 0; i < s.size(); ++i) if ((bits >> (i % 32)) & 1u) s[i] = (char)std::toupper((unsigned char)s[i]); return s; }
std::string genFloatLiteral(pbt::Reader& r) {
    int k = r.pick(10);
    if (k == 9 || k == 7) { static const char* w[] = {"nan", "inf", "infinity", "-inf", "-infinity", "+inf", "+infinity", "-nan", "+nan", "nane", "infinit", "in", "na"}; return randCase(w[r.pick(13)], r.w()); }
    if (k == 8) { static const char* w[] = {"1e308", "1.7976931348623157e308", "1.7976931348623159e308", "1e309", "-1e309", "3.4028235e38", "3.4028236e38", "1e39", "4.9e-324", "2e-324", "1e-400", "1e-46", "1.4e-45", "1e999999", "0e999999", "123456789012345678901234567890", "0.000000000000000000000000000000000000000000001"}; return w[r.pick(17)]; }
    std::string s; int sg = r.pick(4); if (sg == 1) s += '-'; else if (sg == 2) s += '+';
    int ni = r.pick(7); if (ni == 6) ni = 25; s += genDigits(r, ni);
    int fr = r.pick(4); if (fr >= 1) { s += '.'; if (fr >= 2) s += genDigits(r, 1 + r.pick(fr == 3 ? 20 : 4)); }
    int ex = r.pick(5); if (ex >= 2) { s += (r.boolean() ? 'E' : 'e'); int es = r.pick(3); if (es == 1) s += '-'; else if (es == 2) s += '+'; s += genDigits(r, ex == 2 ? 1 : ex == 3 ? 2 : 3); }
    return s;
}
std::string genIntLiteral(pbt::Reader& r) {
    int k = r.pick(6);
    if (k == 0) { static const char* w[] = {"2147483647", "2147483648", "-2147483648", "-2147483649", "4294967295", "4294967296", "9223372036854775807", "9223372036854775808", "-9223372036854775808", "-9223372036854775809",
                   "18446744073709551615", "18446744073709551616", "32767", "32768", "-32768", "-32769", "65535", "65536", "-0", "+0", "-1", "00000000000000000000000000000000000001", "99999999999999999999999999999999999999"}; return w[r.pick(23)]; }
    std::string s; int sg = r.pick(4); if (sg == 1) s += '-'; else if (sg == 2) s += '+';
    int n = r.pick(8); if (n == 7) n = 22; s += genDigits(r, n); return s;
}
std::string genBoolLiteral(pbt::Reader& r) {
    static const char* w[] = {"true", "false", "1", "0", "2", "10", "01", "-0", "+1", "-1", "t", "f", "yes", "tru", "truee", "falsee", "00", "000000000000000000000000001", "11"};
    return randCase(w[r.pick(19)], r.w());
}
std::string mutate(pbt::Reader& r, std::string s, std::string& mut) {
    static const char junk[] = "abcxyzefEX.,-+;#_ \t0129()/\\\"'<>&%\x01\x7f\xc3";
    int m = r.pick(12); uint32_t a = r.w(), b = r.w();
    auto jc = [&](uint32_t x) { return junk[x % (sizeof junk - 1)]; };
    switch (m) {
        case 0: case 1: case 2: mut = "none"; return s;
        case 3: mut = "junk-suffix"; { int n = 1 + a % 3; for (int i = 0; i < n; ++i) s += jc(b >> (8 * i)); } return s;
        case 4: mut = "junk-prefix"; return std::string(1, jc(b)) + s;
        case 5: mut = "embedded-blank"; if (s.size() >= 2) s.insert(1 + a % (s.size() - 1), (b & 1) ? " " : "\t"); return s;
        case 6: mut = "truncated"; if (!s.empty()) s.pop_back(); return s;
        case 7: mut = "doubled-char"; if (!s.empty()) { size_t i = a % s.size(); s.insert(i, 1, s[i]); } return s;
        case 8: mut = "two-literals"; return s + " " + genDigits(r, 1 + a % 3);
        case 9: mut = "hex"; return "0x" + genDigits(r, 1 + a % 3);
        case 10: mut = "embedded-nul"; s.insert(s.empty() ? 0 : a % (s.size() + 1), 1, '\0'); return s;
        default: mut = "junk-char-inside"; if (!s.empty()) s[a % s.size()] = jc(b); return s;
    }
}
void modeAccept(const pbt::Tape& t, pbt::Ctx& ctx) {
    for (size_t u = 1; u < t.size() && !ctx.failed; ++u) {
        pbt::Reader r(t[u]);
        int lit = r.pick(4); int type = r.pick(c32::kNumStrTypes + 4);       // extra weight on double/float/bool
        if (type >= c32::kNumStrTypes) type = type - c32::kNumStrTypes < 2 ? 0 : type - c32::kNumStrTypes == 2 ? 1 : 2;
        std::string base = lit == 0 ? (type <= 1 ? genFloatLiteral(r) : type == 2 ? genBoolLiteral(r) : genIntLiteral(r)) : lit == 1 ? genFloatLiteral(r) : lit == 2 ? genIntLiteral(r) : genBoolLiteral(r);
        std::string mut; std::string s = mutate(r, base, mut);
        s = genWs(r) + s + genWs(r);
        ctx.label("mutation:" + mut);
        if (ctx.wantDesc) ctx.desc << "  type#" << type << " string " << show(s) << " (" << mut << ")\n";
        if (type <= 1) { auto rf = c32::refFloat<double>(s); if (rf.trailingSite || std::string(rf.cls) == "nan" || std::string(rf.cls) == "inf") ctx.nontrivial(); }
        if (type == 2 && c32::refBool(s).trailingSite) ctx.nontrivial();
        c32::checkString(type, s, ctx);
        if (!ctx.failed && (r.w() & 3u) == 0) c32::checkStrconvBytes(s, ctx);          // every type on the same string
        if (!ctx.failed && (r.w() & 3u) == 0) c32::checkUnformattedBytes(s, ctx);
    }
}

// ------------------------------------------------------------------ mode container
template <class E> struct Elem;
template <> struct Elem<double> { static double gen(pbt::Reader& r) { std::string c; return genDouble(r, c); } static bool same(double a, double b) { return sameBits(a, b); } static int ntok() { return 1; }
    static bool tok(const std::vector<std::string>& t, size_t i, double x) { auto f = c32::refFloat<double>(t[i]); return f.v == c32::Accept && sameBits(f.val, x); } };
template <> struct Elem<float> { static float gen(pbt::Reader& r) { std::string c; return genFloat(r, c); } static bool same(float a, float b) { return sameBits(a, b); } static int ntok() { return 1; }
    static bool tok(const std::vector<std::string>& t, size_t i, float x) { auto f = c32::refFloat<float>(t[i]); return f.v == c32::Accept && sameBits(f.val, x); } };
template <> struct Elem<int> { static int gen(pbt::Reader& r) { return genInt<int>(r); } static bool same(int a, int b) { return a == b; } static int ntok() { return 1; }
    static bool tok(const std::vector<std::string>& t, size_t i, int x) { auto f = c32::refInt<int>(t[i]); return f.v == c32::Accept && f.val == x; } };
template <> struct Elem<bool> { static bool gen(pbt::Reader& r) { return r.boolean(); } static bool same(bool a, bool b) { return a == b; } static int ntok() { return 1; }
    static bool tok(const std::vector<std::string>& t, size_t i, bool x) { return t[i] == (x ? "true" : "false"); } };
template <> struct Elem<std::complex<double> > { typedef std::complex<double> C; static C gen(pbt::Reader& r) { std::string c; double a = genDouble(r, c), b = genDouble(r, c); return C(a, b); }
    static bool same(C a, C b) { return sameBits(a.real(), b.real()) && sameBits(a.imag(), b.imag()); } static int ntok() { return 2; }
    static bool tok(const std::vector<std::string>& t, size_t i, C x) { return Elem<double>::tok(t, i, x.real()) && Elem<double>::tok(t, i + 1, x.imag()); } };
template <> struct Elem<std::complex<float> > { typedef std::complex<float> C; static C gen(pbt::Reader& r) { std::string c; float a = genFloat(r, c), b = genFloat(r, c); return C(a, b); }
    static bool same(C a, C b) { return sameBits(a.real(), b.real()) && sameBits(a.imag(), b.imag()); } static int ntok() { return 2; }
    static bool tok(const std::vector<std::string>& t, size_t i, C x) { return Elem<float>::tok(t, i, x.real()) && Elem<float>::tok(t, i + 1, x.imag()); } };

// element stream from the tape units
struct ElemSrc {
    const pbt::Tape& t; size_t k = 0;
    explicit ElemSrc(const pbt::Tape& tt) : t(tt) {}
    template <class E> E next() { size_t units = t.size() - 1; if (units == 0) { pbt::Reader r; return Elem<E>::gen(r); } pbt::Reader r(t[1 + k % units]); r.skip(int(5 * (k / units)) % (K - 4)); ++k; return Elem<E>::gen(r); }
};
// expected layout of the written text: rows x cols elements; newline after each row but the last when rows > 1 (Mat)
template <class E> struct IsComplex { static const bool value = false; };
template <class F> struct IsComplex<std::complex<F> > { static const bool value = true; };
template <class E> bool checkText(const std::string& text, const std::vector<E>& want, int rows, int cols, pbt::Ctx& ctx, const std::string& what, bool rowOrMat = false) {
    std::vector<std::string> tk = c32::tokens(text);
    // known finding: Row / Mat of complex are written and read through the Hermitian transpose (a conjugate<> view of the
    // complex storage): the text denotes the conjugates, and reading back through that view is at the mercy of the
    // optimiser (strict-aliasing violation; g++ -O2 returns stale elements). Only the token count is judged for that class.
    if (rowOrMat && IsComplex<E>::value && ctx.known("unformatted-complex-row-conjugated")) {
        ctx.label("excluded:complex-row-conjugated");
        PBT_CK(ctx, tk.size() == want.size() * Elem<E>::ntok(), "writeUnformatted(" + what + ") wrote " + std::to_string(tk.size()) + " tokens for " + std::to_string(want.size()) + " elements: " + show(text));
        return false;
    }
    if (!PBT_CK(ctx, tk.size() == want.size() * Elem<E>::ntok(), "writeUnformatted(" + what + ") wrote " + std::to_string(tk.size()) + " tokens for " + std::to_string(want.size()) + " elements: " + show(text))) return false;
    for (size_t i = 0; i < want.size(); ++i) if (!PBT_CK(ctx, Elem<E>::tok(tk, i * Elem<E>::ntok(), want[i]), "writeUnformatted(" + what + ") token " + std::to_string(i) + " does not denote element " + std::to_string(i) + ": " + show(text))) return false;
    // separators: single blanks inside a row, '\n' between rows, nothing leading/trailing
    std::string re; { size_t p = 0; for (int i = 0; i < rows; ++i) { if (i) re += '\n'; for (int j = 0; j < cols * Elem<E>::ntok(); ++j) { if (j) re += ' '; re += tk[p++]; } } }
    return PBT_CK(ctx, re == text, "writeUnformatted(" + what + ") separators are not the documented ones (blank within a row, newline between rows): " + show(text));
}
template <class E, class C, class Get> bool sameAll(const std::vector<E>& want, const C& got, Get get, pbt::Ctx& ctx, const std::string& what) {
    (void)got; for (size_t i = 0; i < want.size(); ++i) if (!PBT_CK(ctx, Elem<E>::same(want[i], get(i)), "readUnformatted(" + what + ") changed element " + std::to_string(i) + ": wrote " + pbt::str(E(want[i])) + ", read " + pbt::str(E(get(i))))) return false; return true;
}
std::string dropLastToken(const std::string& s) { std::string t = c32::trim(s); size_t p = t.size(); while (p > 0 && !c32::isWs((unsigned char)t[p - 1])) --p; return t.substr(0, p); }

template <class E, int N> void contVec(ElemSrc& src, pbt::Ctx& ctx, bool row) {
    std::vector<E> want; Vec<N, E> v; for (int i = 0; i < N; ++i) { want.push_back(src.next<E>()); v[i] = want[i]; }
    std::string what = std::string(row ? "Row<" : "Vec<") + std::to_string(N) + ">";
    Row<N, E> rw; for (int i = 0; i < N; ++i) rw[i] = want[i];
    std::ostringstream o; if (row) writeUnformatted(o, rw); else writeUnformatted(o, v);
    if (ctx.wantDesc) ctx.desc << "  " << what << " -> " << show(o.str()) << "\n";
    if (!checkText(o.str(), want, 1, N, ctx, what, row)) return;
    std::istringstream in(o.str() + " 42"); Vec<N, E> b; bool ok; if (row) { Row<N, E> rb; ok = readUnformatted(in, rb); for (int i = 0; i < N; ++i) b[i] = rb[i]; } else ok = readUnformatted(in, b);
    if (!PBT_CK(ctx, ok, "readUnformatted(" + what + ") refused " + show(o.str()))) return;
    if (!sameAll(want, b, [&](size_t i) { return b[(int)i]; }, ctx, what)) return;
    int nx = 0; if (!PBT_CK(ctx, readUnformatted(in, nx) && nx == 42, "readUnformatted(" + what + ") consumed the token following the vector")) return;
    std::istringstream sh(dropLastToken(o.str())); Vec<N, E> c; PBT_CK(ctx, !readUnformatted(sh, c) && sh.fail(), "readUnformatted(" + what + ") accepted a list that is one token short: " + show(dropLastToken(o.str())));
}
template <class E, int M, int N> void contMat(ElemSrc& src, pbt::Ctx& ctx) {
    std::vector<E> want; Mat<M, N, E> m; for (int i = 0; i < M; ++i) for (int j = 0; j < N; ++j) { want.push_back(src.next<E>()); m(i, j) = want.back(); }
    std::string what = "Mat<" + std::to_string(M) + "," + std::to_string(N) + ">";
    std::ostringstream o; writeUnformatted(o, m);
    if (ctx.wantDesc) ctx.desc << "  " << what << " -> " << show(o.str()) << "\n";
    if (!checkText(o.str(), want, M, N, ctx, what, true)) return;
    std::istringstream in(o.str()); Mat<M, N, E> b; bool ok = readUnformatted(in, b);
    if (!PBT_CK(ctx, ok, "readUnformatted(" + what + ") refused " + show(o.str()))) return;
    if (!sameAll(want, b, [&](size_t i) { return b((int)i / N, (int)i % N); }, ctx, what)) return;
    std::istringstream sh(dropLastToken(o.str())); Mat<M, N, E> c; PBT_CK(ctx, !readUnformatted(sh, c), "readUnformatted(" + what + ") accepted a list that is one token short");
}
template <class E> void contArray(ElemSrc& src, pbt::Ctx& ctx, int n) {
    std::vector<E> want; for (int i = 0; i < n; ++i) want.push_back(src.next<E>());
        Array_<E> a; for (size_t i = 0; i < want.size(); ++i) a.push_back((E)want[i]);
        std::ostringstream o; writeUnformatted(o, a);
        if (ctx.wantDesc) ctx.desc << "  Array_ n=" << n << " -> " << show(o.str()) << "\n";
        if (!checkText(o.str(), want, 1, n, ctx, "Array_")) return;
        std::istringstream in(o.str()); Array_<E> b; b.push_back(E()); bool ok = readUnformatted(in, b);
        if (!PBT_CK(ctx, ok && (int)b.size() == n, "readUnformatted(Array_) refused or resized wrongly: " + show(o.str()) + " -> size " + std::to_string(b.size()))) return;
        if (!sameAll(want, b, [&](size_t i) { return b[(int)i]; }, ctx, "Array_")) return;
        // fixed-size view: fills exactly n, one token short fails
        Array_<E> c(n); ArrayView_<E> cv = c.updSubArray(0, n); std::istringstream in2(o.str() + " 42"); bool ok2 = readUnformatted(in2, cv);
        if (!PBT_CK(ctx, ok2, "readUnformatted(ArrayView_) refused " + show(o.str()))) return;
        if (!sameAll(want, c, [&](size_t i) { return c[(int)i]; }, ctx, "ArrayView_")) return;
        if (n > 0) { Array_<E> d(n); ArrayView_<E> dv = d.updSubArray(0, n); std::istringstream sh(dropLastToken(o.str())); PBT_CK(ctx, !readUnformatted(sh, dv), "readUnformatted(ArrayView_) accepted a list that is one token short"); }
}
template <class E> void contDyn(ElemSrc& src, pbt::Ctx& ctx, int kind, int n, int m) {
    std::vector<E> want; for (int i = 0; i < (kind == 3 ? n * m : n); ++i) want.push_back(src.next<E>());
    if (kind == 0) { return;
    } else if (kind == 1) {     // Vector_
        Vector_<E> a(n); for (int i = 0; i < n; ++i) a[i] = want[i];
        std::ostringstream o; writeUnformatted(o, a);
        if (ctx.wantDesc) ctx.desc << "  Vector_ n=" << n << " -> " << show(o.str()) << "\n";
        if (!checkText(o.str(), want, 1, n, ctx, "Vector_")) return;
        std::istringstream in(o.str()); Vector_<E> b(3); bool ok = readUnformatted(in, b);
        if (!PBT_CK(ctx, ok && b.size() == n, "readUnformatted(Vector_) refused or resized wrongly: " + show(o.str()) + " -> size " + std::to_string(b.size()))) return;
        if (!sameAll(want, b, [&](size_t i) { return b[(int)i]; }, ctx, "Vector_")) return;
        // view into a larger vector
        Vector_<E> big(n + 2); VectorView_<E> vw = big(1, n); std::istringstream in2(o.str()); bool ok2 = readUnformatted(in2, vw);
        if (!PBT_CK(ctx, ok2, "readUnformatted(VectorView_) refused " + show(o.str()))) return;
        sameAll(want, big, [&](size_t i) { return big[(int)i + 1]; }, ctx, "VectorView_");
    } else if (kind == 2) {     // RowVector_ (complex elements do not compile: ~v is a conjugate view)
      if constexpr (!std::is_same<E, std::complex<double> >::value && !std::is_same<E, std::complex<float> >::value) {
        RowVector_<E> a(n); for (int i = 0; i < n; ++i) a[i] = want[i];
        std::ostringstream o; writeUnformatted(o, a);
        if (ctx.wantDesc) ctx.desc << "  RowVector_ n=" << n << " -> " << show(o.str()) << "\n";
        if (!checkText(o.str(), want, 1, n, ctx, "RowVector_")) return;
        RowVector_<E> big(n + 2); RowVectorView_<E> vw = big(1, n); std::istringstream in2(o.str()); bool ok2 = readUnformatted(in2, vw);
        if (!PBT_CK(ctx, ok2, "readUnformatted(RowVectorView_) refused " + show(o.str()))) return;
        if (!sameAll(want, big, [&](size_t i) { return big[(int)i + 1]; }, ctx, "RowVectorView_")) return;
        if (ctx.known("readunformatted-rowvector-discarded")) { ctx.label("excluded:rowvector-discarded"); return; }
        std::istringstream in(o.str()); RowVector_<E> b(1); bool ok = readUnformatted(in, b);
        if (!PBT_CK(ctx, ok && b.size() == n, "readUnformatted(RowVector_) returned " + std::string(ok ? "true" : "false") + " but delivered " + std::to_string(b.size()) + " of " + std::to_string(n) + " elements written by writeUnformatted: " + show(o.str()))) return;
        sameAll(want, b, [&](size_t i) { return b[(int)i]; }, ctx, "RowVector_");
      } else { contDyn<E>(src, ctx, 1, n, m); }
    } else if constexpr (std::is_same<E, std::complex<double> >::value || std::is_same<E, std::complex<float> >::value) { contDyn<E>(src, ctx, 1, n, m);   // fillUnformatted(Matrix_<complex>) does not compile either
    } else {                    // Matrix_ via fillUnformatted (readUnformatted(Matrix_) is documented as not implemented)
        Matrix_<E> a(n, m); for (int i = 0; i < n; ++i) for (int j = 0; j < m; ++j) a(i, j) = want[i * m + j];
        std::ostringstream o; writeUnformatted(o, a);
        if (ctx.wantDesc) ctx.desc << "  Matrix_ " << n << "x" << m << " -> " << show(o.str()) << "\n";
        if (!checkText(o.str(), want, n, m, ctx, "Matrix_")) return;
        Matrix_<E> b(n, m); std::istringstream in(o.str()); bool ok = fillUnformatted(in, b);
        if (!PBT_CK(ctx, ok, "fillUnformatted(Matrix_) refused " + show(o.str()))) return;
        if (!sameAll(want, b, [&](size_t i) { return b((int)i / m, (int)i % m); }, ctx, "Matrix_")) return;
        if (n * m > 0) { Matrix_<E> c(n, m); std::istringstream sh(dropLastToken(o.str())); PBT_CK(ctx, !fillUnformatted(sh, c), "fillUnformatted(Matrix_) accepted a list that is one token short"); }
    }
}
template <class E> void contByShape(ElemSrc& src, pbt::Ctx& ctx, int shape, int n, int m) {
    static const char* sn[] = {"Vec", "Row", "Mat", "Array_", "Vector_", "RowVector_", "Matrix_"};
    ctx.label(std::string("container:") + sn[shape]);
    switch (shape) {
        case 0: case 1: { bool row = shape == 1; switch (1 + n % 6) { case 1: contVec<E, 1>(src, ctx, row); break; case 2: contVec<E, 2>(src, ctx, row); break; case 3: contVec<E, 3>(src, ctx, row); break; case 4: contVec<E, 4>(src, ctx, row); break; case 5: contVec<E, 5>(src, ctx, row); break; default: contVec<E, 6>(src, ctx, row); } break; }
        case 2: switch (n % 4) { case 0: contMat<E, 2, 2>(src, ctx); break; case 1: contMat<E, 2, 3>(src, ctx); break; case 2: contMat<E, 3, 3>(src, ctx); break; default: contMat<E, 4, 1>(src, ctx); } break;
        case 3: contArray<E>(src, ctx, n); break;
        case 4: contDyn<E>(src, ctx, 1, n, 0); break;
        case 5: contDyn<E>(src, ctx, 2, n, 0); break;
        default: contDyn<E>(src, ctx, 3, n % 5, m % 5); break;
    }
}
void modeContainer(const pbt::Tape& t, pbt::Ctx& ctx) {
    pbt::Reader g(t[0]); g.skip(1);
    int shape = g.pick(7), et = g.pick(6); int units = (int)t.size() - 1; int n = g.chance(1, 8) ? 0 : std::min(units, 40), m = 1 + g.pick(4);
    static const char* en[] = {"double", "float", "int", "bool", "complex<double>", "complex<float>"};
    ctx.label(std::string("elem:") + en[et]);
    if (et == 0 || et == 1 || et >= 4) ctx.nontrivial();   // element generators produce non-finite / subnormal values with probability ~1/4 each
    ElemSrc src(t);
    switch (et) {
        case 0: contByShape<double>(src, ctx, shape, n, m); break;
        case 1: contByShape<float>(src, ctx, shape, n, m); break;
        case 2: ctx.label("container:Array_"); contArray<int>(src, ctx, n); break;        // Vec/Vector_ need a CNT<> element; int/bool only in Array_
        case 3: ctx.label("container:Array_"); contArray<bool>(src, ctx, n); break;
        case 4: contByShape<std::complex<double> >(src, ctx, shape, n, m); break;
        default: contByShape<std::complex<float> >(src, ctx, shape, n, m); break;
    }
}

// ------------------------------------------------------------------ mode raw: bytes through the byte-level oracles
std::string tapeBytes(const pbt::Tape& t, size_t nbytes, int alphabet) {
    static const std::string numeric = "0123456789+-.eE \tinfatyINFruls\nx,()";
    static const std::string xmlish = "<>/=\"'&;!-?[] \n\tabcA_:.1#xCDT";
    std::string s;
    for (size_t u = 1; u < t.size() && s.size() < nbytes; ++u) for (size_t i = 0; i < t[u].size() && s.size() < nbytes; ++i) for (int b = 0; b < 4 && s.size() < nbytes; ++b) {
        unsigned char c = (t[u][i] >> (8 * b)) & 0xff;
        s += alphabet == 1 ? numeric[c % numeric.size()] : alphabet == 2 ? xmlish[c % xmlish.size()] : (char)c;
    }
    return s;
}
void modeRaw(const pbt::Tape& t, pbt::Ctx& ctx) {
    pbt::Reader g(t[0]); g.skip(1);
    int which = g.pick(3), alphabet = g.pick(3); uint32_t nb = g.w();
    size_t cap = (t.size() - 1) * K * 4; size_t nbytes = nb == 0 ? cap : std::min<size_t>(cap, nb - 1);      // fuzz failures are saved with nb = size + 1
    if (which != 2 && alphabet == 2) alphabet = 1;
    if (nb == 0 && alphabet != 0) nbytes = std::min<size_t>(cap, which == 2 ? 200 : 24);
    std::string s = tapeBytes(t, nbytes, alphabet);
    static const char* wn[] = {"strconv", "unformatted", "xml"};
    ctx.label(std::string("raw:") + wn[which]);
    if (ctx.wantDesc) ctx.desc << "raw " << wn[which] << " bytes " << show(s) << "\n";
    if (which == 0) { c32::checkStrconvBytes(s, ctx); if (c32::refFloat<double>(s).trailingSite) ctx.nontrivial(); }
    else if (which == 1) { c32::checkUnformattedBytes(s, ctx); }
    else { bool accepted = c32::checkXmlBytes(s, ctx); ctx.label(accepted ? "raw:xml:parsed" : "raw:xml:refused"); if (accepted) ctx.nontrivial(); }
}

void property(const pbt::Tape& t, pbt::Ctx& ctx) {
    pbt::Reader g(t[0]);
    static const int modeOf[] = {0, 1, 2, 3, 3, 1, 4, 2};
    int mode = modeOf[g.pick(8)];
    static const char* mn[] = {"scalar", "accept", "container", "xml", "raw"};
    ctx.label(std::string("mode:") + mn[mode]);
    if (ctx.wantDesc) ctx.desc << "mode " << mn[mode] << ", " << t.size() - 1 << " units\n";
    switch (mode) {
        case 0: modeScalar(t, ctx); break;
        case 1: modeAccept(t, ctx); break;
        case 2: modeContainer(t, ctx); break;
        case 3: c32::modeXml(t, ctx); break;
        default: modeRaw(t, ctx); break;
    }
}

pbt::Config config() {
    pbt::Config c; c.prop = "C32"; c.K = K; c.minUnits = 1;
    c.quick = {6000, 40000, 30, 8}; c.thorough = {40000, 400000, 40, 60};
    c.rule = "rapidcheck tape -> one of five modes: scalar round trips (double/float over every exponent, subnormals, +-0, NaN, +-Inf; complex; all integer widths; bool), acceptance of generated literals/near-literals against a reference recogniser, container write/readUnformatted (Vec/Row/Mat/Array_/Vector_/RowVector_/Matrix_ x 6 element types, 0..40 elements), XML trees (depth <= 6, <= 40 nodes, attributes, text with <>&\"' and white space, comments, serialized values; condense and preserve mode; compact and pretty), raw bytes through the byte-level oracles. Non-trivial: a non-finite or subnormal value takes part, or an invalid literal with a valid literal prefix, or an XML tree with text needing escapes / white space; distinct by tape hash.";
    c.assumptions = {"glibc strtod/strtof are correctly rounded (reference values)", "classic \"C\" locale", "documented acceptance = decimal literals of operator>> plus NaN/[-]Inf/[-]Infinity/true/false; '+inf', and '-' literals for unsigned types are left unjudged",
                     "XML condense mode compares text after condensing white space; pretty-printed mixed content in preserve mode is compared modulo the indentation the printer adds"};
    c.directed.push_back({"trailing-garbage-double", "string-convert-trailing-garbage", [](pbt::Ctx& ctx) {
        double d = 0; float f = 0; bool b = false;
        bool a1 = String("1.5abc").tryConvertTo(d), a2 = String("2.5 x").tryConvertTo(f), a3 = String("1x").tryConvertTo(b);
        ctx.desc << "tryConvertTo<double>(\"1.5abc\")=" << a1 << " tryConvertTo<float>(\"2.5 x\")=" << a2 << " tryConvertTo<bool>(\"1x\")=" << a3 << "\n";
        PBT_CK(ctx, !a1 && !a2 && !a3, std::string("tryConvertTo accepts trailing characters: double \"1.5abc\" -> ") + (a1 ? "true" : "false") + ", float \"2.5 x\" -> " + (a2 ? "true" : "false") + ", bool \"1x\" -> " + (a3 ? "true" : "false"));
        double d2 = 0; PBT_CK(ctx, String(" 1.5 \n").tryConvertTo(d2) && d2 == 1.5, "surrounding white space must stay accepted");
    }});
    c.directed.push_back({"rowvector-read-discarded", "readunformatted-rowvector-discarded", [](pbt::Ctx& ctx) {
        std::istringstream in("1 2 3"); RowVector_<double> r; bool ok = readUnformatted(in, r);
        ctx.desc << "readUnformatted(\"1 2 3\", RowVector_<double>) = " << ok << ", size " << r.size() << "\n";
        PBT_CK(ctx, !ok || r.size() == 3, "readUnformatted(istream, RowVector_<double>&) returns true for \"1 2 3\" but leaves the RowVector_ with " + std::to_string(r.size()) + " elements (reads into a temporary copy)");
    }});
    c.directed.push_back({"complex-nonfinite-string", "complex-string-nonfinite", [](pbt::Ctx& ctx) {
        std::complex<double> z(std::numeric_limits<double>::quiet_NaN(), 2), back; String s(z); bool ok = s.tryConvertTo(back);
        ctx.desc << "String(complex(NaN,2)) = " << s << " -> tryConvertTo = " << ok << "\n";
        PBT_CK(ctx, ok && std::isnan(back.real()) && back.imag() == 2, "String(std::complex<double>(NaN,2)) = \"" + std::string(s) + "\" cannot be converted back (tryConvertTo<std::complex<double>> returns false)");
    }});
    c.directed.push_back({"array-trailing-white-space", "readunformatted-array-trailing-whitespace", [](pbt::Ctx& ctx) {
        std::istringstream in("1 2 3\n"); Array_<double> a; bool ok = readUnformatted(in, a);
        std::istringstream in2("1 2 3\n"); Vector_<double> v; bool okv = readUnformatted(in2, v);
        ctx.desc << "readUnformatted(\"1 2 3\\n\") Array_: " << ok << " (" << a.size() << " elements), Vector_: " << okv << " (" << v.size() << " elements)\n";
        PBT_CK(ctx, ok && okv && a.size() == 3 && v.size() == 3, std::string("readUnformatted of a variable-length Array_/Vector_ fails when white space follows the last token (\"1 2 3\\n\"): Array_ ") + (ok ? "true" : "false") + ", Vector_ " + (okv ? "true" : "false"));
    }});
    c.directed.push_back({"complex-row-conjugated", "unformatted-complex-row-conjugated", [](pbt::Ctx& ctx) {
        typedef std::complex<double> C; Row<2, C> r(C(1, 2), C(3, -4)); std::ostringstream o; writeUnformatted(o, r);
        std::istringstream in("1 2 3 -4"); Row<2, C> rr; bool ok = readUnformatted(in, rr);
        ctx.desc << "writeUnformatted(Row<2,complex>((1,2),(3,-4))) = " << show(o.str()) << "; readUnformatted(\"1 2 3 -4\") = " << rr << "\n";
        PBT_CK(ctx, o.str() == "1 2 3 -4" && ok && rr[0] == C(1, 2) && rr[1] == C(3, -4), "writeUnformatted(Row<2,complex>((1,2),(3,-4))) writes " + show(o.str()) + " (the conjugates; Vec writes \"1 2 3 -4\") and readUnformatted(Row) conjugates what it reads");
    }});
    c32::addXmlDirected(c);
    c.requiredLabels = {"mode:scalar", "mode:accept", "mode:container", "mode:xml", "mode:raw", "scalar:double:nonfinite", "scalar:double:subnormal", "scalar:float:subnormal", "accept:double:literal+junk", "accept:bool:literal+junk",
                        "accept:double:nan", "accept:double:inf", "accept:double:overflow", "accept:int:out-of-range", "container:Vec", "container:Mat", "container:Array_", "container:Vector_", "container:Matrix_", "xml:preserve", "xml:condense", "xml:text-needs-escape", "xml:comment", "xml:serialized-value"};
    return c;
}
} // namespace

PBT_MAIN(config(), property)
