// C24 -- Matrix factorizations solve what they claim (DESIGN.md section 5, C24).
// Domain: matrices built from their intended spectrum (A = U diag(sigma) V^H with
// Householder-product unitary factors; full rank / exactly rank deficient /
// numerically small singular values well separated from rcond on either side;
// clustered, graded, flat), small-integer "raw" matrices with structural
// singularities (zero / duplicate rows and columns), SPD/HPD matrices for LLT,
// symmetric / quasi-triangular-Schur matrices for Eigen; sizes 0..40,
// square/tall/wide; element types double, float, complex<double>, complex<float>
// handed over plain, as negator<>, conjugate<> and negator<conjugate<>> matrices;
// vector and matrix right-hand sides; refactor / copy / repeated-solve call orders.
// Oracle: everything is judged against the construction (x* = V S^+ U^H b, sigma,
// rank, lambda) or against residuals evaluated in long double with gen/dense.h.
#include "pbt.h"
#include "dense.h"
#include "SimTKmath.h"
#include <complex>
using namespace SimTK;
using dense::LD; using dense::CL;
typedef dense::Mat<CL> DM;

namespace {

// OpenBLAS starts a thread pool when it is loaded; threaded BLAS is neither needed nor wanted here (determinism, core
// budget). The variable must be set before the library is loaded, so re-exec once with it set.
struct SingleThreadedBlas { SingleThreadedBlas() {
    if (getenv("OPENBLAS_NUM_THREADS")) return;
    setenv("OPENBLAS_NUM_THREADS", "1", 1); setenv("OMP_NUM_THREADS", "1", 0);
    std::ifstream in("/proc/self/cmdline", std::ios::binary); std::string all((std::istreambuf_iterator<char>(in)), std::istreambuf_iterator<char>());
    std::vector<std::string> args; for (size_t i = 0; i < all.size();) { std::string a(all.c_str() + i); i += a.size() + 1; args.push_back(a); }
    if (args.empty()) return;
    std::vector<char*> av; for (auto& a : args) av.push_back(const_cast<char*>(a.c_str())); av.push_back(nullptr);
    execv("/proc/self/exe", av.data());   // returns only on failure: carry on threaded
} } singleThreadedBlas;

// ------------------------------------------------------------------ element types
// calibration aid: C24_TOLSCALE=<f> multiplies every rounding-error tolerance by f (notes/C24.md records the sweep)
static const long double tolScale = getenv("C24_TOLSCALE") ? (long double)atof(getenv("C24_TOLSCALE")) : 1.0L;
template <class T> struct TT;
template <> struct TT<double> { typedef double R; static const bool cplx = false; static double from(CL z) { return (double)z.real(); } static CL to(double x) { return CL(x, 0); } static LD eps() { return 2.220446049250313e-16L * tolScale; } };
template <> struct TT<float> { typedef float R; static const bool cplx = false; static float from(CL z) { return (float)z.real(); } static CL to(float x) { return CL(x, 0); } static LD eps() { return 1.1920929e-07L * tolScale; } };
template <> struct TT<std::complex<double> > { typedef double R; static const bool cplx = true; static std::complex<double> from(CL z) { return std::complex<double>((double)z.real(), (double)z.imag()); } static CL to(std::complex<double> x) { return CL(x.real(), x.imag()); } static LD eps() { return 2.220446049250313e-16L * tolScale; } };
template <> struct TT<std::complex<float> > { typedef float R; static const bool cplx = true; static std::complex<float> from(CL z) { return std::complex<float>((float)z.real(), (float)z.imag()); } static CL to(std::complex<float> x) { return CL(x.real(), x.imag()); } static LD eps() { return 1.1920929e-07L * tolScale; } };

template <class T> Matrix_<T> toL(const DM& A) { Matrix_<T> M(A.m, A.n); for (int i = 0; i < A.m; ++i) for (int j = 0; j < A.n; ++j) M(i, j) = TT<T>::from(A(i, j)); return M; }
template <class T> DM toD(const Matrix_<T>& M) { DM A(M.nrow(), M.ncol()); for (int i = 0; i < A.m; ++i) for (int j = 0; j < A.n; ++j) A(i, j) = TT<T>::to(M(i, j)); return A; }
template <class T> DM toD(const Vector_<T>& v) { DM A(v.size(), 1); for (int i = 0; i < A.m; ++i) A(i, 0) = TT<T>::to(v[i]); return A; }
LD colNorm(const DM& A, int j) { LD s = 0; for (int i = 0; i < A.m; ++i) s += std::norm(A(i, j)); return std::sqrt(s); }

enum Fac { LU = 0, LLT = 1, QTZ = 2, SVD = 3, EIG = 4 };
const char* facName[] = {"LU", "LLT", "QTZ", "SVD", "Eigen"};
const char* typeName[] = {"double", "float", "complex<double>", "complex<float>"};
const char* adaptName[] = {"plain", "negator", "conjugate", "negator<conjugate>"};

struct Case {
    int fac, type, adaptor, m, n, k;       // k = min(m,n)
    int mode;                              // 0 spectrum-built, 1 raw small integers
    int rankClass;                         // 0 full, 1 exact deficiency, 2 small sigma below threshold, 3 small sigma above threshold
    int profile;
    bool useDefaultRcond; LD rcond;        // threshold actually in force (relative to sigma_1)
    std::vector<LD> sigma;                 // thin spectrum, descending (exact for mode 0, Jacobi for mode 1)
    int rank;                              // expected numerical rank; -1 = not decidable (raw matrix with sigma near the threshold)
    LD sigmaNext;                          // largest singular value that is to be treated as zero (relative to sigma_1), 0 if none
    DM U, V, A;                            // thin factors (m x k, n x k) and the exact matrix (before rounding to T)
    int nrhs; bool vecRhs, consistent; DM B;
    bool refactor, copyObj, solveTwice, queryFirst;   // call-order variants
    int scaleExp;
    // eigen
    int eigMode;                           // 0 symmetric/Hermitian from spectrum, 1 Schur-built general, 2 raw integers
    std::vector<CL> lambda;                // constructed eigenvalues (eigMode 0/1)
    bool normal;
    bool structuralSingular;               // raw LU: zero/duplicate row or column inserted
};

template <class S> DM widen(const dense::Mat<S>& Q) { DM R(Q.m, Q.n); for (size_t i = 0; i < Q.a.size(); ++i) R.a[i] = CL(Q.a[i]); return R; }
DM unitary(int n, int count, dense::Rng& r, bool cplx) { return cplx ? dense::randomUnitary<CL>(n, count, r) : widen(dense::randomUnitary<LD>(n, count, r)); }
DM randomDM(int m, int n, dense::Rng& r, bool cplx) { DM B(m, n); for (auto& x : B.a) x = cplx ? CL(r.sym(), r.sym()) : CL(r.sym(), 0); return B; }

Case decode(const pbt::Tape& t) {
    Case c; pbt::Reader g(t[0]);
    const int units = (int)t.size() - 1;
    c.fac = g.pick(5); c.type = g.pick(4); const bool cplx = c.type >= 2, isF = (c.type == 1 || c.type == 3);
    c.adaptor = g.pick(4); if (!cplx) c.adaptor &= 1;
    const int maxDim = std::min(40, 2 + 2 * units);
    int m = 1 + g.pick(maxDim), n = 1 + g.pick(maxDim);
    int shape = g.pick(4);                 // 0,1 square; 2 as drawn; 3 as drawn
    if (shape <= 1) n = m;
    bool zeroDim = g.chance(1, 64);
    c.mode = g.chance(1, 5) ? 1 : 0;
    c.rankClass = g.pick(4); c.profile = g.pick(5);
    c.useDefaultRcond = !g.boolean();
    double rcExp = isF ? g.uniform(2, 4) : g.uniform(2, 10);
    double condExp = g.real(0, isF ? 3 : 8); if (condExp < 0) condExp = -condExp;
    c.scaleExp = g.chance(1, 2) ? g.range(isF ? -3 : -8, isF ? 3 : 8) : 0;
    c.nrhs = 1 + g.pick(3); c.vecRhs = !g.boolean(); if (c.vecRhs) c.nrhs = 1;
    c.consistent = g.boolean();
    c.refactor = g.chance(1, 4); c.copyObj = g.chance(1, 4); c.solveTwice = g.chance(1, 4); c.queryFirst = g.boolean();
    int reflU = g.pick(4), reflV = g.pick(4);          // 0 none (identity), 1 one, 2 few, 3 n reflectors
    int rankWord = (int)(g.w() % 1000u); int bScale = g.chance(1, 4) ? g.range(-3, 3) : 0;
    c.eigMode = g.pick(3); int nonNormal = g.pick(3);
    uint64_t seed = 0x243f6a8885a308d3ull; for (auto& s : t) for (auto w : s) seed = (seed ^ w) * 0x100000001b3ull + 0x9e37;
    dense::Rng rng(seed);
    c.structuralSingular = false; c.normal = false; c.sigmaNext = 0; c.rank = -1;

    if (c.fac == LU || c.fac == LLT || c.fac == EIG) { n = m; }
    if (zeroDim && c.fac != EIG) { if (g.boolean()) m = 0; else n = 0; }
    if (c.mode == 1 || (c.fac == EIG && c.eigMode == 2)) { m = std::min(m, 8); n = std::min(n, 8); }
    c.m = m; c.n = n; c.k = std::min(m, n);
    const int k = c.k;
    auto refl = [&](int sel, int dim) { return sel == 0 ? 0 : sel == 1 ? 1 : sel == 2 ? std::min(dim, 3) : dim; };
    LD scale = std::pow((LD)10, (LD)c.scaleExp);

    // threshold in force
    const LD sig78 = isF ? std::pow((LD)1.1920929e-07L, (LD)0.875L) : std::pow((LD)2.220446049250313e-16L, (LD)0.875L);
    const LD defThr = std::max(m, n) * sig78;
    // float + default rcond is only 15x above rounding noise: use the default only for double, or for float when nothing is small
    // deficient float matrices are judged against the default threshold too (half of them), but only when the singular
    // values of the float-ROUNDED matrix stay >= 5x clear of it (checked below, after construction); class 3 keeps an explicit rcond
    bool floatDefaultGate = false;
    if (isF && c.rankClass != 0) { if (c.useDefaultRcond && (c.rankClass == 1 || c.rankClass == 2) && (c.fac == QTZ || c.fac == SVD) && c.mode == 0 && ((seed >> 17) & 1)) floatDefaultGate = true; else c.useDefaultRcond = false; }
    c.rcond = c.useDefaultRcond ? defThr : std::pow((LD)10, (LD)-rcExp);
    const int rawTrickClass = c.rankClass;   // raw mode: 0 = no structural singularity
    if (c.fac != QTZ && c.fac != SVD) { c.rankClass = 0; }
    if (m == 0 || n == 0) { c.A = DM(m, n); c.U = DM(m, 0); c.V = DM(n, 0); c.B = DM(m, c.nrhs); c.rank = 0; return c; }

    if (c.fac == EIG) {
        DM Q = unitary(n, refl(std::max(reflU, 1), n), rng, cplx);
        if (c.eigMode == 0) {           // Hermitian, real spectrum in [-1,1] with repeated values possible
            c.normal = true; DM D(n, n);
            for (int i = 0; i < n; ++i) { pbt::Reader u = i < units ? pbt::Reader(t[1 + i]) : pbt::Reader(); LD v = i < units ? (LD)u.real(-1, 1) : rng.sym(); if (c.profile == 3 && (i & 1)) v = c.lambda[i - 1].real(); c.lambda.push_back(CL(v, 0)); D(i, i) = CL(v, 0); }
            c.A = dense::mul(dense::mul(Q, D), dense::adj(Q));
        } else if (c.eigMode == 1) {    // Schur form: (quasi-)triangular T with prescribed diagonal
            DM T(n, n); LD off = nonNormal == 0 ? 0 : nonNormal == 1 ? (LD)0.1 : (LD)1; c.normal = false;
            for (int i = 0; i < n; ++i) for (int j = i + 1; j < n; ++j) T(i, j) = (cplx ? CL(rng.sym(), rng.sym()) : CL(rng.sym(), 0)) * off;
            for (int i = 0; i < n; ++i) {
                pbt::Reader u = i < units ? pbt::Reader(t[1 + i]) : pbt::Reader(); LD a = i < units ? (LD)u.real(-1, 1) : rng.sym(), b = i < units ? (LD)u.real(-1, 1) : rng.sym();
                bool pair = i < units ? u.boolean() : (rng.below(2) == 1);
                if (cplx) { T(i, i) = CL(a, b); c.lambda.push_back(CL(a, b)); }
                else if (pair && i + 1 < n && b != 0) { LD r = 1 + std::fabs(rng.sym()) * 3;   // [[a, b r],[-b/r, a]] : eigenvalues a +- i|b|
                    T(i, i) = a; T(i + 1, i + 1) = a; T(i, i + 1) = b * r; T(i + 1, i) = -b / r; c.lambda.push_back(CL(a, std::fabs(b))); c.lambda.push_back(CL(a, -std::fabs(b))); ++i; }
                else { T(i, i) = a; c.lambda.push_back(CL(a, 0)); }
            }
            c.A = dense::mul(dense::mul(Q, T), dense::adj(Q));
        } else {                        // raw small integers
            c.A = DM(n, n); for (auto& x : c.A.a) x = cplx ? CL(rng.below(7) - 3, rng.below(7) - 3) : CL(rng.below(7) - 3, 0);
        }
        if (!cplx) for (auto& x : c.A.a) x = CL(x.real(), 0);
        c.A = dense::scaled(c.A, CL(scale)); for (auto& l : c.lambda) l *= scale;
        return c;
    }

    if (c.fac == LLT) {   // Hermitian positive definite: Q diag(lambda) Q^H, lambda in [1/kappa, 1]
        DM Q = unitary(n, refl(reflU, n), rng, cplx), D(n, n);
        LD kap = std::pow((LD)10, (LD)std::min(condExp, isF ? 2.0 : 6.0));
        for (int i = 0; i < n; ++i) { LD v = n == 1 ? 1 : std::pow(kap, -(LD)i / (n - 1)); if (c.profile == 2) v = std::pow(kap, -(LD)std::fabs(rng.sym())); c.sigma.push_back(v); D(i, i) = v; }
        std::sort(c.sigma.begin(), c.sigma.end(), [](LD a, LD b) { return a > b; });
        c.A = dense::mul(dense::mul(Q, D), dense::adj(Q)); c.rank = n;
        c.A = dense::scaled(c.A, CL(scale)); for (auto& s : c.sigma) s *= scale;
        c.B = randomDM(n, c.nrhs, rng, cplx); c.B = dense::scaled(c.B, CL(std::pow((LD)10, (LD)bScale)));
        if (!cplx) for (auto& x : c.A.a) x = CL(x.real(), 0);
        return c;
    }

    if (c.mode == 1) {    // raw small-integer matrix, optional structural singularity
        c.A = DM(m, n); for (auto& x : c.A.a) x = cplx ? CL(rng.below(7) - 3, rng.below(7) - 3) : CL(rng.below(7) - 3, 0);
        int trick = rawTrickClass == 0 ? 0 : 1 + (rankWord % 4);
        if (trick && k >= 1) {
            int i0 = rankWord % m, i1 = (rankWord / 7) % m, j0 = rankWord % n, j1 = (rankWord / 7) % n;
            if (trick == 1) for (int j = 0; j < n; ++j) c.A(i0, j) = 0;
            if (trick == 2) for (int i = 0; i < m; ++i) c.A(i, j0) = 0;
            if (trick == 3 && i0 != i1) for (int j = 0; j < n; ++j) c.A(i1, j) = c.A(i0, j);
            if (trick == 4 && j0 != j1) for (int i = 0; i < m; ++i) c.A(i, j1) = c.A(i, j0);
            // an exact zero pivot is guaranteed only for a zero row/column; duplicate rows/columns give a pivot that is merely ~0
            // (OpenBLAS multiplies by the reciprocal pivot, so x*(1/x) need not be 1): those stay 'undecided' for LU
            c.structuralSingular = (trick <= 2);
        }
        dense::jacobiSVD(c.A, c.U, c.sigma, c.V);
        c.A = dense::scaled(c.A, CL(scale)); for (auto& s : c.sigma) s *= scale;
    } else {              // spectrum-built
        std::vector<LD> sg(k, 1);
        LD kap = std::pow((LD)10, (LD)condExp);
        for (int i = 0; i < k; ++i) {
            pbt::Reader u = i < units ? pbt::Reader(t[1 + i]) : pbt::Reader();
            LD f = i < units ? (LD)u.unit() : (rng.sym() + 1) / 2;
            switch (c.profile) {
                case 0: sg[i] = 1; break;
                case 1: sg[i] = k == 1 ? 1 : std::pow(kap, -(LD)i / (k - 1)); break;
                case 2: sg[i] = std::pow(kap, -f); break;
                case 3: sg[i] = std::pow(kap, -(LD)(i / 2) / std::max(1, (k - 1) / 2 + 1)) * ((i & 1) ? 1 - (LD)1e-6L * f : 1); break;   // nearly equal pairs
                default: sg[i] = i < (k + 2) / 3 ? 1 : 1 / kap; break;
            }
        }
        std::sort(sg.begin(), sg.end(), [](LD a, LD b) { return a > b; });
        if (k > 0) { LD s0 = sg[0]; for (auto& s : sg) s /= s0; }
        int r = k;
        const LD thr = c.rcond, keepMin = std::min((LD)1, 1000 * thr);
        if (c.fac == QTZ || c.fac == SVD) {
            for (auto& s : sg) s = std::max(s, keepMin);                       // kept values stay >= 1000 x threshold
            if (c.rankClass == 1) { r = rankWord % k; for (int i = r; i < k; ++i) sg[i] = 0; }                       // exact deficiency (r may be 0: zero matrix)
            if (c.rankClass == 2 && k >= 2) { r = 1 + rankWord % (k - 1); LD small = thr * std::pow((LD)10, -(LD)(3 + rankWord % 4)); for (int i = r; i < k; ++i) sg[i] = small * (1 - (LD)0.5 * (i - r) / k); c.sigmaNext = small; }
            if (c.rankClass == 3 && k >= 2) { sg[k - 1] = keepMin; }          // nearly singular but still counted
        } else {   // LU: keep it comfortably non-singular (singular inputs come from raw mode)
            LD lim = isF ? (LD)1e-3L : (LD)1e-8L; for (auto& s : sg) s = std::max(s, lim);
        }
        c.sigma = sg; c.rank = r;
        DM Uf = unitary(m, refl(reflU, m), rng, cplx), Vf = unitary(n, refl(reflV, n), rng, cplx);
        c.U = DM(m, k); c.V = DM(n, k);
        for (int i = 0; i < m; ++i) for (int j = 0; j < k; ++j) c.U(i, j) = Uf(i, j);
        for (int i = 0; i < n; ++i) for (int j = 0; j < k; ++j) c.V(i, j) = Vf(i, j);
        DM US = c.U; for (int i = 0; i < m; ++i) for (int j = 0; j < k; ++j) US(i, j) *= sg[j];
        c.A = dense::mul(US, dense::adj(c.V));
        c.A = dense::scaled(c.A, CL(scale)); for (auto& s : c.sigma) s *= scale;
    }
    if (!cplx) for (auto& x : c.A.a) x = CL(x.real(), 0);
    if (floatDefaultGate && c.rank >= 0 && c.rank < k) {   // what the library actually receives: A rounded to float
        DM Ar = c.A; for (auto& x : Ar.a) x = CL((LD)(float)x.real(), cplx ? (LD)(float)x.imag() : 0);
        DM Ur, Vr; std::vector<LD> sr; dense::jacobiSVD(Ar, Ur, sr, Vr); std::sort(sr.begin(), sr.end(), [](LD a, LD b) { return a > b; });
        bool clear = !sr.empty() && sr[0] > 0;
        for (int i = 0; clear && i < (int)sr.size(); ++i) { if (i < c.rank ? !(sr[i] >= 5 * c.rcond * sr[0]) : !(sr[i] <= c.rcond * sr[0] / 5)) clear = false; }
        if (c.rank == 0) clear = true;      // the zero matrix rounds to itself
        if (!clear) c.rank = -1;
    }
    if (c.mode == 1) {   // expected rank of a raw matrix: count against the threshold, only if well separated
        int r = 0; bool clear = true; LD s1 = c.sigma.empty() ? 0 : c.sigma[0];
        const LD thr = c.fac == LU ? (LD)1e-9L : c.rcond;     // LU: "regular" means sigma_min > 1e-6 sigma_1 (else undecided)
        for (auto s : c.sigma) { if (s1 > 0 && s > thr * s1 * 1000) ++r; else if (s1 > 0 && s > thr * s1 / 1000) clear = false; else c.sigmaNext = std::max(c.sigmaNext, s1 > 0 ? s / s1 : 0); }
        c.rank = clear ? r : -1; if (c.fac == LU) { c.rank = r; c.sigmaNext = 0; }
    }
    // right-hand sides
    DM X0 = randomDM(n, c.nrhs, rng, cplx);
    c.B = c.consistent ? dense::mul(c.A, X0) : randomDM(m, c.nrhs, rng, cplx);
    if (c.consistent && dense::normMax(c.B) == 0) c.B = randomDM(m, c.nrhs, rng, cplx);
    LD bs = std::pow((LD)10, (LD)bScale); if (!c.consistent) bs *= std::max(scale, (LD)1e-30L); c.B = dense::scaled(c.B, CL(bs));
    return c;
}

// the matrix handed to the library, through the requested element adaptor, so that its VALUE is A
template <class T, class F> void withInput(const Case& c, const Matrix_<T>& A, F&& use) {
    typedef typename TT<T>::R R;
    if (c.adaptor == 0) { use(A); return; }
    if (c.adaptor == 1) { Matrix_<T> neg(A.nrow(), A.ncol()); for (int i = 0; i < A.nrow(); ++i) for (int j = 0; j < A.ncol(); ++j) neg(i, j) = -A(i, j); use(neg.negate()); return; }
    if constexpr (TT<T>::cplx) {
        Matrix_<T> AH(A.ncol(), A.nrow());
        for (int i = 0; i < A.nrow(); ++i) for (int j = 0; j < A.ncol(); ++j) AH(j, i) = T(R(c.adaptor == 3 ? -1 : 1)) * std::conj(A(i, j));
        Matrix_<conjugate<R> > mc(~AH);      // element type conjugate<R>, value A (or -A)
        if (c.adaptor == 2) use(mc); else use(mc.negate());
    } else use(A);
}

std::string num(LD x) { return pbt::str((double)x); }

// ------------------------------------------------------------------ per-factorization oracles
struct Ref {   // reference quantities shared by the solvers
    DM Aq;      // exact value of the rounded input
    DM Xstar;   // minimum-norm least-squares solution from the construction (truncated at the expected rank)
    DM Bq;      // exact value of the rounded right-hand side
    std::vector<LD> tol; LD kappa, delta;
};

template <class T> Ref makeRef(const Case& c, const Matrix_<T>& A, const Matrix_<T>& B, LD Cdelta) {
    Ref r; r.Aq = toD(A); r.Bq = toD(B);
    const int rk = std::max(0, c.rank);
    r.Xstar = DM(c.n, c.nrhs);
    for (int j = 0; j < c.nrhs; ++j) for (int i = 0; i < rk; ++i) { CL d = 0; for (int p = 0; p < c.m; ++p) d += std::conj(c.U(p, i)) * r.Bq(p, j); d /= c.sigma[i]; for (int q = 0; q < c.n; ++q) r.Xstar(q, j) += c.V(q, i) * d; }
    LD s1 = c.sigma.empty() ? 0 : c.sigma[0];
    r.kappa = rk > 0 ? s1 / c.sigma[rk - 1] : 1;
    r.delta = Cdelta * std::max(c.m, c.n) * TT<T>::eps() + 4 * c.sigmaNext;
    DM Res = dense::sub(r.Bq, dense::mul(r.Aq, r.Xstar));
    for (int j = 0; j < c.nrhs; ++j) {
        LD xn = colNorm(r.Xstar, j), rn = colNorm(Res, j), bn = colNorm(r.Bq, j);
        LD tl = r.delta * (r.kappa * xn + (s1 > 0 ? r.kappa * r.kappa * rn / s1 : 0) + (rk > 0 ? bn / c.sigma[rk - 1] : 0));
        r.tol.push_back(tl);
    }
    return r;
}

bool compareSolution(const Case& c, pbt::Ctx& ctx, const Ref& r, const DM& X, const std::string& what) {
    if (X.m != c.n || X.n != c.nrhs) { ctx.fail(what + ": solution has shape " + std::to_string(X.m) + "x" + std::to_string(X.n) + ", expected " + std::to_string(c.n) + "x" + std::to_string(c.nrhs)); return false; }
    if (!dense::allFinite(X)) { ctx.fail(what + ": solution contains non-finite values"); return false; }
    DM D = dense::sub(X, r.Xstar);
    for (int j = 0; j < c.nrhs; ++j) {
        LD e = colNorm(D, j);
        if (e > r.tol[j]) { ctx.fail(what + ": column " + std::to_string(j) + " differs from the minimum-norm least-squares solution of the construction by " + num(e) + " > tol " + num(r.tol[j]) + " (|x*|=" + num(colNorm(r.Xstar, j)) + ", kappa=" + num(r.kappa) + ", delta=" + num(r.delta) + ")"); return false; }
    }
    return true;
}
// backward-error style residual check for square non-singular solves
bool checkResidual(const Case& c, pbt::Ctx& ctx, const Ref& r, const DM& X, LD Cres, LD eps, const std::string& what) {
    if (X.m != c.n || X.n != c.nrhs) { ctx.fail(what + ": solution has wrong shape"); return false; }
    if (!dense::allFinite(X)) { ctx.fail(what + ": solution contains non-finite values"); return false; }
    DM Res = dense::sub(dense::mul(r.Aq, X), r.Bq); LD an = dense::normF(r.Aq);
    for (int j = 0; j < c.nrhs; ++j) {
        LD rn = colNorm(Res, j), bound = Cres * c.n * eps * (an * colNorm(X, j) + colNorm(r.Bq, j));
        if (rn > bound) { ctx.fail(what + ": residual |A x - b| = " + num(rn) + " > " + num(bound) + " in column " + std::to_string(j)); return false; }
    }
    return true;
}

template <class T> Matrix_<T> rhsMatrix(const Case& c) { return toL<T>(c.B); }

template <class T, class FACT> bool solveBoth(const Case& c, FACT& f, const Matrix_<T>& B, DM& X) {
    if (c.vecRhs) { Vector_<T> b(B.nrow()), x; for (int i = 0; i < B.nrow(); ++i) b[i] = B(i, 0); f.solve(b, x); X = toD(x); if (c.solveTwice) { Vector_<T> x2; f.solve(b, x2); X = toD(x2); } }
    else { Matrix_<T> x; f.solve(B, x); X = toD(x); if (c.solveTwice) { Matrix_<T> x2; f.solve(B, x2); X = toD(x2); } }
    return true;
}

// decoy factorization used before factor(A) in the "refactor" call order
template <class T> Matrix_<T> decoy(const Case& c) { int d = (c.m % 3) + 1; Matrix_<T> D(d, d); D = 0; for (int i = 0; i < d; ++i) D(i, i) = T(2 + i); return D; }

// ---- LU
template <class T> void runLU(const Case& c, pbt::Ctx& ctx) {
    const LD eps = TT<T>::eps(); const int n = c.n;
    Matrix_<T> A = toL<T>(c.A), B = rhsMatrix<T>(c);
    FactorLU lu;
    withInput(c, A, [&](const auto& in) { if (c.refactor) { lu = FactorLU(decoy<T>(c)); lu.factor(in); } else lu = FactorLU(in); });
    FactorLU held; if (c.copyObj) { held = lu; lu = FactorLU(); }
    FactorLU& f = c.copyObj ? held : lu;
    Ref r = makeRef(c, A, B, 100);
    bool exactSingular = c.mode == 1 && c.structuralSingular;
    bool surelyRegular = (c.mode == 0) || (c.mode == 1 && c.rank == n);
    if (exactSingular) {
        ctx.label("LU:structurally-singular");
        ctx.check(f.isSingular(), "FactorLU::isSingular() is false for a matrix with a zero row or column");
        int idx = f.getSingularIndex(); ctx.check(idx >= 1 && idx <= n, "FactorLU::getSingularIndex() = " + std::to_string(idx) + " outside 1.." + std::to_string(n) + " for a singular matrix");
        return;
    }
    if (!surelyRegular) { ctx.label("LU:raw-singular-undecided"); return; }
    ctx.label("LU:regular");
    ctx.check(!f.isSingular(), "FactorLU::isSingular() is true for a matrix constructed non-singular (sigma_min/sigma_max=" + num(c.sigma.back() / c.sigma[0]) + ")");
    ctx.check(f.getSingularIndex() == 0, "FactorLU::getSingularIndex() != 0 for a non-singular matrix");
    DM X; solveBoth<T>(c, f, B, X);
    if (!checkResidual(c, ctx, r, X, 100, eps, "FactorLU::solve")) return;
    if (!compareSolution(c, ctx, r, X, "FactorLU::solve")) return;
    // inverse: A * inv = I
    { Matrix_<T> inv; f.inverse(inv); DM I = toD(inv);
      if (!ctx.check(I.m == n && I.n == n, "FactorLU::inverse has wrong shape")) return;
      DM P = dense::sub(dense::mul(r.Aq, I), dense::eye<CL>(n)); LD e = dense::normF(P), bound = 100 * n * eps * r.kappa * std::sqrt((LD)n);
      if (!ctx.check(e <= bound, "FactorLU::inverse: |A*inv - I|_F = " + num(e) + " > " + num(bound))) return; }
    // getL * getU = P A  (P not exposed: rows of L*U must be a permutation of the rows of A)
    if (ctx.known("lu-getl-getu-garbled")) { ctx.label("excluded:lu-getl-getu-garbled"); }
    else {
        Matrix_<T> L, U; f.getL(L); f.getU(U); DM Ld = toD(L), Ud = toD(U);
        if (!ctx.check(Ld.m == n && Ld.n == n && Ud.m == n && Ud.n == n, "FactorLU::getL/getU wrong shape")) return;
        for (int i = 0; i < n; ++i) for (int j = 0; j < n; ++j) {
            if (j > i && !ctx.check(Ld(i, j) == CL(0), "FactorLU::getL is not lower triangular: L(" + std::to_string(i) + "," + std::to_string(j) + ")=" + num(std::abs(Ld(i, j))))) return;
            if (j < i && !ctx.check(Ud(i, j) == CL(0), "FactorLU::getU is not upper triangular: U(" + std::to_string(i) + "," + std::to_string(j) + ")=" + num(std::abs(Ud(i, j))))) return;
        }
        DM P = dense::mul(Ld, Ud); std::vector<char> used(n, 0); LD an = dense::normF(r.Aq);
        for (int i = 0; i < n; ++i) { int best = -1; LD bd = 0;
            for (int q = 0; q < n; ++q) if (!used[q]) { LD d = 0; for (int j = 0; j < n; ++j) d += std::norm(P(i, j) - r.Aq(q, j)); d = std::sqrt(d); if (best < 0 || d < bd) { best = q; bd = d; } }
            if (!ctx.check(best >= 0 && bd <= 100 * n * eps * an, "FactorLU::getL*getU: row " + std::to_string(i) + " of L*U matches no (unused) row of A; nearest distance " + num(bd) + " (|A|_F=" + num(an) + ")")) return;
            used[best] = 1; }
    }
}

// ---- LLT
template <class T> void runLLT(const Case& c, pbt::Ctx& ctx) {
    const LD eps = TT<T>::eps(); const int n = c.n;
    Matrix_<T> A = toL<T>(c.A), B = rhsMatrix<T>(c);
    for (int i = 0; i < n; ++i) { A(i, i) = TT<T>::from(CL(TT<T>::to(A(i, i)).real(), 0)); for (int j = i + 1; j < n; ++j) A(i, j) = TT<T>::from(std::conj(TT<T>::to(A(j, i)))); }   // exactly Hermitian
    FactorLLT llt;
    withInput(c, A, [&](const auto& in) { if (c.refactor) { llt = FactorLLT(decoy<T>(c)); llt.factor(in); } else llt = FactorLLT(in); });
    FactorLLT held; if (c.copyObj) { held = llt; llt = FactorLLT(); }
    FactorLLT& f = c.copyObj ? held : llt;
    DM Aq = toD(A), Bq = toD(B); LD an = dense::normF(Aq); LD kappa = c.sigma[0] / c.sigma.back();
    DM X; solveBoth<T>(c, f, B, X);
    Ref r; r.Aq = Aq; r.Bq = Bq;
    if (!checkResidual(c, ctx, r, X, 100, eps, "FactorLLT::solve")) return;
    { Matrix_<T> L; f.getL(L); DM Ld = toD(L);
      if (!ctx.check(Ld.m == n && Ld.n == n, "FactorLLT::getL wrong shape")) return;
      for (int i = 0; i < n; ++i) { for (int j = i + 1; j < n; ++j) if (!ctx.check(Ld(i, j) == CL(0), "FactorLLT::getL is not lower triangular")) return;
          if (!ctx.check(Ld(i, i).real() > 0 && std::fabs(Ld(i, i).imag()) <= eps * std::abs(Ld(i, i)), "FactorLLT::getL diagonal not real positive")) return; }
      LD e = dense::normF(dense::sub(dense::mul(Ld, dense::adj(Ld)), Aq));
      if (!ctx.check(e <= 100 * n * eps * an, "FactorLLT::getL: |L L^H - A|_F = " + num(e) + " > " + num(100 * n * eps * an))) return; }
    { Matrix_<T> inv; f.inverse(inv); DM I = toD(inv);
      if (!ctx.check(I.m == n && I.n == n, "FactorLLT::inverse wrong shape")) return;
      LD e = dense::normF(dense::sub(dense::mul(Aq, I), dense::eye<CL>(n))), bound = 100 * n * eps * kappa * std::sqrt((LD)n);
      if (!ctx.check(e <= bound, "FactorLLT::inverse: |A*inv - I|_F = " + num(e) + " > " + num(bound))) return; }
}

// ---- QTZ
template <class T> void runQTZ(const Case& c, pbt::Ctx& ctx) {
    typedef typename TT<T>::R R;
    Matrix_<T> A = toL<T>(c.A), B = rhsMatrix<T>(c);
    FactorQTZ q;
    withInput(c, A, [&](const auto& in) {
        if (c.refactor) { q = FactorQTZ(decoy<T>(c)); if (c.useDefaultRcond) q.factor(in); else q.factor(in, (R)c.rcond); }
        else if (c.useDefaultRcond) q = FactorQTZ(in); else q = FactorQTZ(in, (R)c.rcond); });
    FactorQTZ held; if (c.copyObj) { held = q; q = FactorQTZ(); }
    FactorQTZ& f = c.copyObj ? held : q;
    Ref r = makeRef(c, A, B, 200);
    if (c.rank < 0) { ctx.label("QTZ:rank-undecidable(near-threshold)"); return; }
    int rk = f.getRank();
    if (!ctx.check(rk == c.rank, "FactorQTZ::getRank() = " + std::to_string(rk) + ", constructed rank " + std::to_string(c.rank) + " (rcond " + num(c.rcond) + ")")) return;
    // reciprocal condition estimate at this rank: within 1e3 of sigma_r/sigma_1
    if (c.rank >= 1) {
        double rc = f.getRCondEstimate(); LD truth = c.sigma[c.rank - 1] / c.sigma[0];
        if (c.rank == 1 && rc == 0 && ctx.known("qtz-rcond-rank1-zero")) ctx.label("excluded:qtz-rcond-rank1-zero");
        else if (!ctx.check(rc > 0 && rc <= 1.0000001 && (LD)rc <= truth * 1000 && (LD)rc >= truth / 1000, "FactorQTZ::getRCondEstimate() = " + pbt::str(rc) + " but sigma_r/sigma_1 = " + num(truth) + " (rank " + std::to_string(c.rank) + ")")) return;
    }
    if (TT<T>::cplx && c.rank > 0 && ctx.known("qtz-complex-solve-illegal-arg")) { ctx.label("excluded:qtz-complex-solve-illegal-arg"); return; }
    if (c.rank == 0 && ctx.known("qtz-rank0-solve-uninitialized")) { ctx.label("excluded:qtz-rank0-solve-uninitialized"); return; }
    DM X; solveBoth<T>(c, f, B, X);
    if (!compareSolution(c, ctx, r, X, "FactorQTZ::solve")) return;
    if (c.m == c.n) {   // inverse() is defined for square matrices only: pseudo-inverse at the expected rank
        Matrix_<T> inv; f.inverse(inv); DM I = toD(inv);
        if (!ctx.check(I.m == c.n && I.n == c.n && dense::allFinite(I), "FactorQTZ::inverse wrong shape or non-finite")) return;
        DM P = dense::pinvFromSVD(c.U, c.sigma, c.V, c.rank); LD e = dense::normF(dense::sub(I, P));
        LD bound = c.rank > 0 ? 3 * r.delta * std::sqrt((LD)c.n) * c.sigma[0] / (c.sigma[c.rank - 1] * c.sigma[c.rank - 1]) : 0;
        if (!ctx.check(e <= bound, "FactorQTZ::inverse differs from the pseudo-inverse of the construction by " + num(e) + " > " + num(bound))) return;
    }
}

// ---- SVD
template <class T> void runSVD(const Case& c, pbt::Ctx& ctx) {
    typedef typename TT<T>::R R; const LD eps = TT<T>::eps(); const int m = c.m, n = c.n, k = c.k;
    Matrix_<T> A = toL<T>(c.A), B = rhsMatrix<T>(c);
    FactorSVD s;
    withInput(c, A, [&](const auto& in) {
        if (c.refactor) { s = FactorSVD(decoy<T>(c)); if (c.useDefaultRcond) s.factor(in); else s.factor(in, (R)c.rcond); }
        else if (c.useDefaultRcond) s = FactorSVD(in); else s = FactorSVD(in, (R)c.rcond); });
    FactorSVD held; if (c.copyObj) { held = s; s = FactorSVD(); }
    FactorSVD& f = c.copyObj ? held : s;
    if (m == 0 || n == 0) {   // size 0: no crash, empty results
        ctx.label("SVD:size0");
        Vector_<R> sv; f.getSingularValues(sv); ctx.check(sv.size() == 0, "FactorSVD::getSingularValues of an empty matrix is not empty");
        return;
    }
    Ref r = makeRef(c, A, B, 200);
    const LD s1 = c.sigma[0], an = dense::normF(r.Aq);
    auto rankClause = [&](const char* when) {
        if (c.rank < 0) return true;
        int rk = f.getRank();
        if (rk == c.rank) return true;
        if (rk == 0 && c.rank > 0 && ctx.known("svd-rank-shadowed")) { ctx.label("excluded:svd-rank-shadowed"); return true; }
        ctx.fail(std::string("FactorSVD::getRank() ") + when + " = " + std::to_string(rk) + ", constructed rank " + std::to_string(c.rank) + " (rcond " + num(c.rcond) + ")"); return false;
    };
    if (c.queryFirst && !rankClause("before any solve")) return;
    // singular values (values-only path)
    { Vector_<R> sv; f.getSingularValues(sv);
      if (!ctx.check(sv.size() == k, "FactorSVD::getSingularValues returned " + std::to_string(sv.size()) + " values, expected " + std::to_string(k))) return;
      for (int i = 0; i < k; ++i) {
          if (!ctx.check(std::isfinite((double)sv[i]) && sv[i] >= 0, "singular value " + std::to_string(i) + " negative or non-finite")) return;
          if (i && !ctx.check(sv[i] <= sv[i - 1], "singular values not in descending order at index " + std::to_string(i))) return;
          LD d = std::fabs((LD)sv[i] - c.sigma[i]), bound = 100 * std::max(m, n) * eps * s1;
          if (!ctx.check(d <= bound, "singular value " + std::to_string(i) + " = " + num(sv[i]) + " but constructed " + num(c.sigma[i]) + " (diff " + num(d) + " > " + num(bound) + ")")) return;
      } }
    // vectors: A = U S R with R = rightVectors (rows are the right singular vectors, as CableSpan.cpp uses it)
    { Vector_<R> sv; Matrix_<T> Lv, Rv; f.getSingularValuesAndVectors(sv, Lv, Rv); DM Ud = toD(Lv), Rd = toD(Rv);
      if (!ctx.check(sv.size() == k && Ud.m == m && Ud.n == m && Rd.m == n && Rd.n == n, "FactorSVD::getSingularValuesAndVectors: wrong shapes")) return;
      LD eu = dense::normF(dense::sub(dense::mul(dense::adj(Ud), Ud), dense::eye<CL>(m))), ev = dense::normF(dense::sub(dense::mul(Rd, dense::adj(Rd)), dense::eye<CL>(n)));
      if (!ctx.check(eu <= 100 * m * eps * std::sqrt((LD)m), "left singular vectors not orthonormal: |U^H U - I|_F = " + num(eu))) return;
      if (!ctx.check(ev <= 100 * n * eps * std::sqrt((LD)n), "right singular vectors not orthonormal: |V V^H - I|_F = " + num(ev))) return;
      DM US(m, n); for (int i = 0; i < m; ++i) for (int j = 0; j < k; ++j) US(i, j) = Ud(i, j) * CL((LD)sv[j]);
      LD e = dense::normF(dense::sub(dense::mul(US, Rd), r.Aq)), bound = 100 * std::max(m, n) * eps * std::max(an, s1);
      if (!ctx.check(e <= bound, "|U S V' - A|_F = " + num(e) + " > " + num(bound))) return;
      for (int i = 0; i < k; ++i) if (!ctx.check(std::fabs((LD)sv[i] - c.sigma[i]) <= 100 * std::max(m, n) * eps * s1, "singular value (vector path) " + std::to_string(i) + " off")) return; }
    if (c.rank < 0) { ctx.label("SVD:rank-undecidable(near-threshold)"); return; }
    DM X; solveBoth<T>(c, f, B, X);
    if (c.rank > 0 && !compareSolution(c, ctx, r, X, "FactorSVD::solve")) return;
    if (c.rank == 0 && !(X.m == 0 && X.n == 0) && !compareSolution(c, ctx, r, X, "FactorSVD::solve (zero matrix)")) return;
    if (!rankClause("after solve")) return;
    // pseudo-inverse
    if (m > n && ctx.known("svd-inverse-tall-throws")) ctx.label("excluded:svd-inverse-tall-throws");
    else if (c.rank > 0) {
        Matrix_<T> inv; f.inverse(inv); DM I = toD(inv);
        if (!ctx.check(I.m == n && I.n == m && dense::allFinite(I), "FactorSVD::inverse: shape " + std::to_string(I.m) + "x" + std::to_string(I.n) + ", expected the " + std::to_string(n) + "x" + std::to_string(m) + " pseudo-inverse")) return;
        DM P = dense::pinvFromSVD(c.U, c.sigma, c.V, c.rank); LD e = dense::normF(dense::sub(I, P));
        LD bound = 3 * r.delta * std::sqrt((LD)k) * s1 / (c.sigma[c.rank - 1] * c.sigma[c.rank - 1]);
        if (!ctx.check(e <= bound, "FactorSVD::inverse differs from the pseudo-inverse of the construction by " + num(e) + " > " + num(bound))) return;
    }
}

// ---- Eigen
template <class T> void runEigen(const Case& c, pbt::Ctx& ctx) {
    typedef typename TT<T>::R R; typedef std::complex<R> CR; const LD eps = TT<T>::eps(); const int n = c.n;
    Matrix_<T> A = toL<T>(c.A);
    if (c.eigMode == 0) for (int i = 0; i < n; ++i) { A(i, i) = TT<T>::from(CL(TT<T>::to(A(i, i)).real(), 0)); for (int j = i + 1; j < n; ++j) A(i, j) = TT<T>::from(std::conj(TT<T>::to(A(j, i)))); }
    DM Aq = toD(A); LD an = dense::normF(Aq);
    Eigen e;
    withInput(c, A, [&](const auto& in) { e = Eigen(in); });
    Eigen held; if (c.copyObj) { held = e; e = Eigen(); }
    Eigen& f = c.copyObj ? held : e;
    // outputs are documented to be sized by the call: hand over a wrongly sized, poisoned matrix
    Vector_<CR> vals0, vals; Matrix_<CR> vecs(n + 1, n + 1); vecs.setTo(CR(R(7e33), R(7e33)));
    bool valuesFirst = c.queryFirst;
    if (valuesFirst) f.getAllEigenValues(vals0);
    bool staleSite = false;
    if (valuesFirst && ctx.known("eigen-vectors-after-values")) { ctx.label("excluded:eigen-vectors-after-values"); staleSite = true; Eigen fresh; withInput(c, A, [&](const auto& in) { fresh = Eigen(in); }); fresh.getAllEigenValuesAndVectors(vals, vecs); }
    else f.getAllEigenValuesAndVectors(vals, vecs);
    (void)staleSite;
    if (vecs.nrow() == n + 1 && vecs.ncol() == n + 1 && c.type == 2 && ctx.known("eigen-zdouble-vectors-not-resized")) {
        // known finding: the complex<double> overload writes into the caller's matrix without resizing it (segfault for an empty one)
        ctx.label("excluded:eigen-zdouble-vectors-not-resized"); Matrix_<CR> blk(n, n); for (int i = 0; i < n; ++i) for (int j = 0; j < n; ++j) blk(i, j) = vecs(i, j); vecs = blk;
    }
    if (!ctx.check(vals.size() == n && vecs.nrow() == n && vecs.ncol() == n, "Eigen::getAllEigenValuesAndVectors: eigenvector matrix is " + std::to_string(vecs.nrow()) + "x" + std::to_string(vecs.ncol()) + " and " + std::to_string(vals.size()) + " values for a " + std::to_string(n) + "x" + std::to_string(n) + " matrix (outputs not resized)")) return;
    std::vector<CL> lam(n); for (int i = 0; i < n; ++i) lam[i] = CL(vals[i].real(), vals[i].imag());
    for (int i = 0; i < n; ++i) if (!ctx.check(std::isfinite((double)std::abs(lam[i])), "eigenvalue " + std::to_string(i) + " not finite")) return;
    if (valuesFirst) {   // the values-only query returns the same spectrum (same algorithm; compared as sorted multisets with the eigenvalue tolerance for normal matrices only)
        if (!ctx.check(vals0.size() == n, "Eigen::getAllEigenValues returned wrong count")) return;
        CL s0 = 0, s1 = 0; for (int i = 0; i < n; ++i) { s0 += CL(vals0[i].real(), vals0[i].imag()); s1 += lam[i]; }
        if (!ctx.check(std::abs(s0 - s1) <= 1000 * n * eps * an * std::sqrt((LD)n) + 1e-300L, "sum of eigenvalues differs between getAllEigenValues and getAllEigenValuesAndVectors")) return;
    }
    // residuals
    const LD resTol = 200 * n * eps * an;
    bool smallPair = false;
    if (!TT<T>::cplx) for (int i = 0; i < n; ++i) if (lam[i].imag() != 0 && std::fabs(lam[i].imag()) < (LD)1e-6L) smallPair = true;
    bool skipVectors = false;
    if (smallPair && ctx.known("eigen-real-small-imag-pair")) { ctx.label("excluded:eigen-real-small-imag-pair"); skipVectors = true; }
    if (!skipVectors) for (int j = 0; j < n; ++j) {
        LD vn = 0, rn = 0; std::vector<CL> v(n);
        for (int i = 0; i < n; ++i) { v[i] = CL(vecs(i, j).real(), vecs(i, j).imag()); vn += std::norm(v[i]); }
        vn = std::sqrt(vn);
        if (!ctx.check(std::isfinite((double)vn) && vn > 0, "eigenvector " + std::to_string(j) + " is zero or non-finite")) return;
        for (int i = 0; i < n; ++i) { CL s = 0; for (int q = 0; q < n; ++q) s += Aq(i, q) * v[q]; rn += std::norm(s - lam[j] * v[i]); }
        rn = std::sqrt(rn);
        if (!ctx.check(rn <= resTol * vn + 1e-300L, "|A v - lambda v| = " + num(rn) + " > " + num(resTol * vn) + " for eigenpair " + std::to_string(j) + " (lambda=(" + num(lam[j].real()) + "," + num(lam[j].imag()) + "), |A|_F=" + num(an) + ")")) return;
    }
    // trace = sum of eigenvalues (nothing lost / invented at first order, any matrix)
    { CL tr = 0, sl = 0; for (int i = 0; i < n; ++i) { tr += Aq(i, i); sl += lam[i]; }
      if (!ctx.check(std::abs(tr - sl) <= 1000 * n * eps * an * std::sqrt((LD)n) + 1e-300L, "sum of eigenvalues " + num(sl.real()) + " differs from trace " + num(tr.real()) + " by " + num(std::abs(tr - sl)))) return; }
    // real input: spectrum closed under conjugation
    if (!TT<T>::cplx) { std::vector<char> used(n, 0);
      for (int i = 0; i < n; ++i) { if (used[i] || lam[i].imag() == 0) continue; int p = -1; for (int j = 0; j < n; ++j) if (j != i && !used[j] && lam[j] == std::conj(lam[i])) { p = j; break; }
          if (!ctx.check(p >= 0, "real matrix: non-real eigenvalue without its exact conjugate")) return; used[i] = used[p] = 1; } }
    // normal matrices: eigenvalues equal the constructed spectrum as a multiset (both directions by greedy nearest matching)
    if (c.normal) {
        LD tolv = 1000 * n * eps * an + 1e-300L; std::vector<char> used(n, 0);
        for (int g = 0; g < n; ++g) { int best = -1; LD bd = 0; for (int j = 0; j < n; ++j) if (!used[j]) { LD d = std::abs(lam[j] - c.lambda[g]); if (best < 0 || d < bd) { best = j; bd = d; } }
            if (!ctx.check(best >= 0 && bd <= 2 * tolv, "constructed eigenvalue " + num(c.lambda[g].real()) + " of a Hermitian matrix not among the returned ones (nearest unused at " + num(bd) + ", tol " + num(2 * tolv) + ")")) return; used[best] = 1; }
        for (int i = 0; i < n; ++i) if (!ctx.check(std::fabs(lam[i].imag()) <= tolv, "Hermitian matrix: eigenvalue with imaginary part " + num(lam[i].imag()))) return;
    }
}

template <class T> void dispatch(const Case& c, pbt::Ctx& ctx) {
    switch (c.fac) { case LU: runLU<T>(c, ctx); break; case LLT: runLLT<T>(c, ctx); break; case QTZ: runQTZ<T>(c, ctx); break; case SVD: runSVD<T>(c, ctx); break; default: runEigen<T>(c, ctx); }
}

void property(const pbt::Tape& t, pbt::Ctx& ctx) {
    Case c = decode(t);
    if (ctx.wantDesc) {
        ctx.desc << facName[c.fac] << " " << typeName[c.type] << " input=" << adaptName[c.adaptor] << " " << c.m << "x" << c.n << " mode=" << (c.mode ? "raw" : "spectrum") << " rankClass=" << c.rankClass << " profile=" << c.profile
                 << " rank=" << c.rank << " rcond=" << (c.useDefaultRcond ? "default" : "explicit") << ":" << (double)c.rcond << " scale=1e" << c.scaleExp << " rhs=" << (c.vecRhs ? "vector" : "matrix") << "x" << c.nrhs << (c.consistent ? " consistent" : " general")
                 << " order=" << (c.refactor ? "refactor " : "") << (c.copyObj ? "copy " : "") << (c.solveTwice ? "twice " : "") << (c.queryFirst ? "queryFirst " : "");
        if (c.fac == EIG) ctx.desc << " eigMode=" << c.eigMode;
        ctx.desc << "\n sigma/lambda:"; for (size_t i = 0; i < c.sigma.size() && i < 12; ++i) ctx.desc << " " << (double)c.sigma[i]; for (size_t i = 0; i < c.lambda.size() && i < 12; ++i) ctx.desc << " (" << (double)c.lambda[i].real() << "," << (double)c.lambda[i].imag() << ")";
        ctx.desc << "\n";
        if (c.m * c.n <= 36) { ctx.desc.precision(17); for (int i = 0; i < c.m; ++i) { ctx.desc << " A[" << i << "]:"; for (int j = 0; j < c.n; ++j) { ctx.desc << " " << (double)c.A(i, j).real(); if (c.type >= 2) ctx.desc << "+" << (double)c.A(i, j).imag() << "i"; } ctx.desc << "\n"; } }
    }
    ctx.label(std::string(facName[c.fac]) + "/" + typeName[c.type]);
    ctx.label(std::string("input:") + adaptName[c.adaptor]);
    ctx.label(c.m == c.n ? "shape:square" : c.m > c.n ? "shape:tall" : "shape:wide");
    if (c.fac == QTZ || c.fac == SVD) { static const char* rc[] = {"rank:full", "rank:exact-deficient", "rank:small-below-rcond", "rank:small-above-rcond"}; ctx.label(rc[c.rankClass]); ctx.label(c.useDefaultRcond ? "rcond:default" : "rcond:explicit"); if (c.useDefaultRcond && (c.type == 1 || c.type == 3) && c.rankClass != 0) ctx.label(c.rank >= 0 ? "float-default-rcond-deficient" : "float-default-rcond-deficient:undecidable"); if (c.rank == 0 && c.k > 0) ctx.label("rank:zero-matrix"); }
    if (c.mode == 1 && c.fac != EIG && c.fac != LLT) ctx.label("mode:raw-integers");
    if (c.fac == EIG) { static const char* em[] = {"eig:hermitian", "eig:schur-general", "eig:raw"}; ctx.label(em[c.eigMode]); }
    if (c.refactor && c.fac != EIG) ctx.label("order:refactor"); if (c.copyObj) ctx.label("order:copy");
    if (c.fac != EIG) ctx.label(c.vecRhs ? "rhs:vector" : "rhs:matrix");
    { int mx = std::max(c.m, c.n); ctx.label(mx == 0 ? "size:0" : mx <= 3 ? "size:1-3" : mx <= 10 ? "size:4-10" : mx <= 20 ? "size:11-20" : "size:21-40"); }
    ctx.nontrivial(std::max(c.m, c.n) >= 3 && (c.m != c.n || c.type >= 2 || (c.rank >= 0 && c.rank < c.k) || c.fac == EIG || c.fac == LLT || c.fac == LU));

    if ((c.m == 0 || c.n == 0) && c.fac != SVD) {
        // size 0: LU / LLT / QTZ document "Can't factor a matrix that has a zero dimension" (clean exception)
        try {
            Matrix_<double> E(c.m, c.n); Matrix_<std::complex<float> > Ec(c.m, c.n);
            if (c.fac == LU) { if (c.type < 2) FactorLU f(E); else FactorLU f(Ec); }
            else if (c.fac == LLT) { if (c.type < 2) FactorLLT f(E); else FactorLLT f(Ec); }
            else { if (c.type < 2) FactorQTZ f(E); else FactorQTZ f(Ec); }
            ctx.label("size0-accepted");
        } catch (const SimTK::Exception::Base&) { ctx.reject("size0-clean-exception"); }
        return;
    }
    switch (c.type) { case 0: dispatch<double>(c, ctx); break; case 1: dispatch<float>(c, ctx); break; case 2: dispatch<std::complex<double> >(c, ctx); break; default: dispatch<std::complex<float> >(c, ctx); }
}

pbt::Config config() {
    pbt::Config c; c.prop = "C24"; c.K = 40; c.minUnits = 0;
    c.quick = {3000, 20000, 24, 8}; c.thorough = {20000, 200000, 40, 20};
    c.rule = "rapidcheck tape -> {FactorLU, FactorLLT, FactorQTZ, FactorSVD, Eigen} x {double, float, complex<double>, complex<float>} x input adaptor {plain, negator, conjugate, negator<conjugate>} x shape (0..40, square/tall/wide; dimension bound grows with the number of tape units) x matrix built from its spectrum (flat/graded/random/clustered/two-level; full rank, exact deficiency incl. zero matrix, small singular values 1e3..1e6 below or >= 1e3 above rcond) or raw small integers with zero/duplicate rows/columns; vector/matrix right-hand sides, consistent or general; call orders refactor/copy/solve twice/query first. Non-trivial: max dimension >= 3 and (non-square or complex or rank-deficient or LU/LLT/Eigen).";
    // ---- directed reproducers of the listed findings (each FAILS while its defect exists)
    c.directed.push_back({"svd-getrank-zero", "svd-rank-shadowed", [](pbt::Ctx& ctx) {
        Matrix a(2, 2); a = 0; a(0, 0) = 3; a(1, 1) = 2; FactorSVD s(a); int before = s.getRank(); Vector b(2), x; b[0] = 1; b[1] = 1; s.solve(b, x); int after = s.getRank();
        ctx.desc << "FactorSVD(diag(3,2)): getRank() before solve = " << before << ", after solve = " << after << "\n";
        ctx.check(before == 2 && after == 2, "FactorSVD::getRank() of diag(3,2) returns " + std::to_string(before) + " before and " + std::to_string(after) + " after solve(), expected 2");
    }});
    c.directed.push_back({"svd-inverse-tall", "svd-inverse-tall-throws", [](pbt::Ctx& ctx) {
        Matrix a(2, 1); a(0, 0) = 1; a(1, 0) = 0; FactorSVD s(a); Matrix inv;
        try { s.inverse(inv); } catch (const std::exception& e) { ctx.desc << "FactorSVD([1;0]).inverse throws: " << std::string(e.what()).substr(0, 160) << "\n"; ctx.fail("FactorSVD::inverse (pseudo inverse) of a tall 2x1 matrix throws instead of returning the 1x2 pseudo inverse"); return; }
        ctx.check(inv.nrow() == 1 && inv.ncol() == 2 && std::fabs(inv(0, 0) - 1) < 1e-14 && std::fabs(inv(0, 1)) < 1e-14, "pseudo inverse of [1;0] is not [1 0]");
    }});
    c.directed.push_back({"lu-getl-getu", "lu-getl-getu-garbled", [](pbt::Ctx& ctx) {
        // A = [2 1; 4 3]: P A = L U with L = [1 0; .5 1], U = [4 3; 0 -.5]
        Matrix a(2, 2); a(0, 0) = 2; a(0, 1) = 1; a(1, 0) = 4; a(1, 1) = 3; FactorLU lu(a); Matrix L, U; lu.getL(L); lu.getU(U);
        ctx.desc << "FactorLU([2 1;4 3]): getL = " << L << " getU = " << U << "\n";
        bool ok = L.nrow() == 2 && L.ncol() == 2 && U.nrow() == 2 && U.ncol() == 2 && L(0, 1) == 0 && U(1, 0) == 0;
        if (ok) { Matrix P = L * U; ok = (std::fabs(P(0, 0) - 4) < 1e-14 && std::fabs(P(0, 1) - 3) < 1e-14 && std::fabs(P(1, 0) - 2) < 1e-14 && std::fabs(P(1, 1) - 1) < 1e-14) || (std::fabs(P(0, 0) - 2) < 1e-14 && std::fabs(P(0, 1) - 1) < 1e-14 && std::fabs(P(1, 0) - 4) < 1e-14 && std::fabs(P(1, 1) - 3) < 1e-14); }
        ctx.check(ok, "FactorLU::getL/getU of [2 1;4 3]: L is not lower triangular / U not upper triangular / L*U is not a row permutation of A");
    }});
    c.directed.push_back({"qtz-complex-solve", "qtz-complex-solve-illegal-arg", [](pbt::Ctx& ctx) {
        typedef std::complex<double> Z; Matrix_<Z> a(2, 2); a = Z(0); a(0, 0) = Z(2, 0); a(1, 1) = Z(0, 1); Vector_<Z> b(2), x; b[0] = Z(2, 0); b[1] = Z(1, 0); FactorQTZ q(a);
        try { q.solve(b, x); } catch (const std::exception& e) { ctx.desc << "FactorQTZ(complex diag(2,i)).solve throws: " << std::string(e.what()).substr(0, 200) << "\n"; ctx.fail("FactorQTZ::solve for a complex<double> matrix throws IllegalLapackArg (zunmqr called with trans='T')"); return; }
        ctx.check(std::abs(x[0] - Z(1, 0)) < 1e-14 && std::abs(x[1] - Z(0, -1)) < 1e-14, "FactorQTZ complex solve wrong");
    }});
    c.directed.push_back({"qtz-rcond-rank1", "qtz-rcond-rank1-zero", [](pbt::Ctx& ctx) {
        Matrix a(1, 1); a(0, 0) = 3; FactorQTZ q(a); double rc = q.getRCondEstimate();
        ctx.desc << "FactorQTZ([3]): rank " << q.getRank() << " getRCondEstimate() = " << rc << "\n";
        ctx.check(q.getRank() == 1 && std::fabs(rc - 1) < 1e-12, "FactorQTZ::getRCondEstimate() = " + pbt::str(rc) + " for the 1x1 matrix [3] (rank 1, reciprocal condition 1)");
    }});
    c.directed.push_back({"qtz-zero-matrix-solve", "qtz-rank0-solve-uninitialized", [](pbt::Ctx& ctx) {
        // dirty the heap first so that the uninitialised result is visible
        { Matrix junk(3, 1); junk = 0; for (int i = 0; i < 3; ++i) junk(i, 0) = 12345.0 + i; }
        Matrix a(3, 3); a = 0; FactorQTZ q(a); Vector b(3), x; b[0] = 1; b[1] = 2; b[2] = 3; q.solve(b, x);
        ctx.desc << "FactorQTZ(0(3x3)).solve([1 2 3]) = " << x << "\n";
        ctx.check(x.size() == 3 && x[0] == 0 && x[1] == 0 && x[2] == 0, "FactorQTZ::solve with the zero matrix returns uninitialised memory instead of the minimum-norm solution 0");
    }});
    c.directed.push_back({"eigen-values-then-vectors", "eigen-vectors-after-values", [](pbt::Ctx& ctx) {
        typedef std::complex<double> Z; Matrix a(2, 2); a(0, 0) = 2; a(0, 1) = 1; a(1, 0) = 1; a(1, 1) = 2; Eigen e(a); Vector_<Z> vals; Matrix_<Z> vecs;
        e.getAllEigenValues(vals); e.getAllEigenValuesAndVectors(vals, vecs);
        double worst = 0; for (int j = 0; j < 2; ++j) { double vn = std::sqrt(std::norm(vecs(0, j)) + std::norm(vecs(1, j))); Z r0 = 2.0 * vecs(0, j) + vecs(1, j) - vals[j] * vecs(0, j), r1 = vecs(0, j) + 2.0 * vecs(1, j) - vals[j] * vecs(1, j); double rn = std::sqrt(std::norm(r0) + std::norm(r1)); worst = std::max(worst, vn > 0 && std::isfinite(vn) ? rn / vn : 1e300); }
        ctx.desc << "Eigen([2 1;1 2]): getAllEigenValues then getAllEigenValuesAndVectors: worst |Av-lv|/|v| = " << worst << "\n";
        ctx.check(worst < 1e-12, "eigenvectors returned after a values-only query are stale/uninitialised (worst relative residual " + pbt::str(worst) + ")");
    }});
    c.directed.push_back({"eigen-small-imaginary-pair", "eigen-real-small-imag-pair", [](pbt::Ctx& ctx) {
        typedef std::complex<double> Z; Matrix a(2, 2); a = 0; a(0, 1) = 1e-7; a(1, 0) = -1e-7; Eigen e(a); Vector_<Z> vals; Matrix_<Z> vecs; e.getAllEigenValuesAndVectors(vals, vecs);
        double worst = 0; for (int j = 0; j < 2; ++j) { double vn = std::sqrt(std::norm(vecs(0, j)) + std::norm(vecs(1, j))); Z r0 = 1e-7 * vecs(1, j) - vals[j] * vecs(0, j), r1 = -1e-7 * vecs(0, j) - vals[j] * vecs(1, j); worst = std::max(worst, std::sqrt(std::norm(r0) + std::norm(r1)) / (1e-7 * vn)); }
        ctx.desc << "Eigen(1e-7*[0 1;-1 0]): eigenvalues " << vals << " worst |Av-lv|/(|A||v|) = " << worst << "\n";
        ctx.check(worst < 1e-10, "eigenvectors of a real matrix with eigenvalues +-1e-7 i are returned as (Re v, Im v) instead of the complex pair (relative residual " + pbt::str(worst) + ")");
    }});
    c.directed.push_back({"eigen-zdouble-output-not-sized", "eigen-zdouble-vectors-not-resized", [](pbt::Ctx& ctx) {
        typedef std::complex<double> Z; Matrix_<Z> a(2, 2); a = Z(0); a(0, 0) = Z(1, 0); a(1, 1) = Z(0, 2); Eigen e(a); Vector_<Z> vals; Matrix_<Z> vecs(3, 3); vecs.setTo(Z(9, 9));
        e.getAllEigenValuesAndVectors(vals, vecs);
        ctx.desc << "Eigen(complex<double> 2x2).getAllEigenValuesAndVectors with a 3x3 output matrix: result is " << vecs.nrow() << "x" << vecs.ncol() << "\n";
        ctx.check(vecs.nrow() == 2 && vecs.ncol() == 2, "the complex<double> overload does not size the eigenvector matrix (it stays 3x3; an empty one is written out of bounds: segfault)");
    }});
    c.requiredLabels = {"float-default-rcond-deficient", "LU/double", "LU/complex<float>", "LLT/float", "LLT/complex<double>", "QTZ/double", "QTZ/float", "QTZ/complex<double>", "SVD/double", "SVD/complex<float>", "Eigen/double", "Eigen/complex<double>",
                        "shape:tall", "shape:wide", "rank:exact-deficient", "rank:small-below-rcond", "rank:small-above-rcond", "rank:zero-matrix", "rcond:default", "rcond:explicit", "mode:raw-integers", "LU:structurally-singular",
                        "input:negator", "input:conjugate", "input:negator<conjugate>", "order:refactor", "order:copy", "rhs:matrix", "eig:hermitian", "eig:schur-general", "eig:raw", "size:21-40", "SVD:size0"};
    c.assumptions = {"long double (64-bit mantissa) products and the construction U diag(sigma) V^H are exact enough to judge float/double results", "rightVectors of FactorSVD holds the right singular vectors as rows (A = U S rightVectors), as Simbody's own caller CableSpan.cpp uses it", "perturbation bounds: |x - x*| <= delta (kappa |x*| + kappa^2 |r|/sigma_1 + |b|/sigma_r), delta = C max(m,n) eps + 4 sigma_{r+1}/sigma_1"};
    return c;
}
} // namespace

PBT_MAIN(config(), property)
